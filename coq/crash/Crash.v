(** C08: mutation traces of the operations, cuts, recovery and resubmission.

    Rust sources modelled (pinned tree):
    - src/commons/eventsourcing/store.rs 271-512  execute_opt_command: process, apply in memory, pre-save
        listeners (444-458), command store (468-470), post-save listeners (474-478), cache update (493-495);
        401-415: a command key that exists already ends the process
    - src/server/ca/certauth.rs 675-714           pre-save = published-object store, then task queue;
        post-save = task queue, errors only logged (mq.rs 597-628)
    - src/server/ca/publishing.rs 259-283         with_ca_objects: ONE value ca_objects/<ca>.json, written only
        if the listener succeeded
    - src/commons/queue.rs 90-159                 schedule_task: delete of the existing entry, THEN store
        180-215 finish = delete running, reschedule = move running -> pending; 218-272 claim = move
    - src/commons/storage/backends/disk.rs 436-490 a value is written to a temp file and renamed: a mutation is
        atomic (modelling assumption: rename(2) is atomic; partial writes inside one mutation are outside)
    - src/commons/eventsourcing/wal.rs 385-416    WAL store: wal-N set, snapshot, deletion of the sets
    - src/server/pubd/rrdp.rs 493-499, 637-685    deltas, snapshot, new notification file, rename, clean-up
    - src/server/pubd/rsync.rs 72-175             tmp dir, files, (remove stale old,) current -> old, tmp -> current, remove old

    The event-sourced entity is the generic store of es/Es.v (C06); the task names are those of
    queue/Queue.v; the listener of the concrete instance is ca/Ca.v [listener]. No proofs in this file. *)
From KV Require Import base.Tac es.Es.
Open Scope N_scope.

(** * Tasks by name: (kind, entity). One entry per name and scope (queue.rs: the key is <time>-<name>). *)
Definition task : Type := (N * N)%type.
Definition task_eqb (a b : task) : bool := (fst a =? fst b) && (snd a =? snd b).
Definition t_mem (l : list task) (t : task) : bool := existsb (task_eqb t) l.
Definition t_del (l : list task) (t : task) : list task := filter (fun x => negb (task_eqb x t)) l.
Definition t_put (l : list task) (t : task) : list task := t :: t_del l t.

Definition SYNC_REPO : N := 1.
Definition SYNC_PARENT : N := 2.
Definition RRDP_UPDATE : N := 3.

(** * Shapes: store and key class of a mutation, as the storage probe reports them *)
Inductive fsop := FCreateDir | FRemoveDir | FCreateFile | FWrite | FRemoveFile | FRename.
Inductive fscls := CDelta | CSnapshot | CNotifNew | CNotif | CRrdpOther | CRsyncTmp | CRsyncFile | CRsyncCurrent | CRsyncOld.

Inductive shape :=
| ShObjects (c : N)                    (* store    ca_objects/<c>.json *)
| ShTaskDel (t : task)                 (* delete   tasks/pending/<ts>-<t> *)
| ShTaskPut (t : task)                 (* store    tasks/pending/<ts>-<t> *)
| ShTaskClaim (t : task)               (* move     tasks/pending -> running *)
| ShTaskFinish (t : task)              (* delete   tasks/running/<ts>-<t> *)
| ShTaskResched (t : task)             (* move     tasks/running -> pending *)
| ShCommand (c : N)                    (* store    cas/<c>/command-N.json *)
| ShSnapshot (c : N)                   (* store    cas/<c>/snapshot.json *)
| ShStatus (c : N)                     (* store    status/<c>/... *)
| ShKey                                (* store    keys/<key id> *)
| ShSigner                             (* store    signers/<signer>/command-N.json *)
| ShWal                                (* store    pubd_objects/0/wal-N.json *)
| ShWalSnapshot                        (* store    pubd_objects/0/snapshot.json *)
| ShWalDelete                          (* delete   pubd_objects/0/wal-N.json *)
| ShPubdCommand                        (* store    pubd/0/command-N.json (RepositoryAccess) *)
| ShFs (o : fsop) (c : fscls)          (* repository directory *)
| ShOther (store cls : N).

Section Crash.
  Variables (S Ev : Type) (init : S) (apply : S -> Ev -> S).
  Variable Ob : Type.                                  (* the published-object store of the CA (one value) *)
  Variable listen : Ob -> list Ev -> option Ob.         (* pre-save listener on it; None = error *)
  Variable pre_tasks post_tasks : list Ev -> list task.   (* tasks scheduled by the events, pre- / post-save *)
  Variable me : N.                                    (* the CA's identity in shapes *)

  Notation store := (Es.store S Ev).
  Notation agg := (Es.agg S).
  Notation load := (Es.load S Ev init apply).

  (** One CA (audit log + snapshot on disk, cache in memory), its published-object store, the task queue. *)
  Record sys := mkSys { s_log : store; s_objs : Ob; s_pend : list task; s_run : list task }.

  Inductive mutation :=
  | MObjs (o : Ob)
  | MTaskDel (t : task)
  | MTaskPut (t : task)
  | MTaskClaim (t : task)
  | MTaskFinish (t : task)
  | MTaskResched (t : task)
  | MCmd (v : N) (x : stored Ev)                      (* command-v.json *)
  | MSnap (a : agg).

  Definition shape_of (m : mutation) : shape :=
    match m with
    | MObjs _ => ShObjects me
    | MTaskDel t => ShTaskDel t
    | MTaskPut t => ShTaskPut t
    | MTaskClaim t => ShTaskClaim t
    | MTaskFinish t => ShTaskFinish t
    | MTaskResched t => ShTaskResched t
    | MCmd _ _ => ShCommand me
    | MSnap _ => ShSnapshot me
    end.

  Definition with_log (s : sys) (l : store) : sys := mkSys l (s_objs s) (s_pend s) (s_run s).
  Definition with_queue (s : sys) (p r : list task) : sys := mkSys (s_log s) (s_objs s) p r.

  (** Effect of one mutation. [None]: the log is damaged - a command written below the end of the log
      overwrites history, one written beyond it leaves a gap behind which nothing is ever loaded and whose
      key makes the next command end the process (store.rs:401-415). A delete / move of a missing task key
      fails without effect. *)
  Definition apply_mut (s : sys) (m : mutation) : option sys :=
    match m with
    | MObjs o => Some (mkSys (s_log s) o (s_pend s) (s_run s))
    | MTaskDel t => Some (with_queue s (t_del (s_pend s) t) (s_run s))
    | MTaskPut t => Some (with_queue s (t_put (s_pend s) t) (s_run s))
    | MTaskClaim t => Some (if t_mem (s_pend s) t then with_queue s (t_del (s_pend s) t) (t_put (s_run s) t) else s)
    | MTaskFinish t => Some (with_queue s (s_pend s) (t_del (s_run s) t))
    | MTaskResched t => Some (if t_mem (s_run s) t then with_queue s (t_put (s_pend s) t) (t_del (s_run s) t) else s)
    | MCmd v x =>
        let l := s_log s in
        if v =? N.of_nat (length (cmds S Ev l)) + 1
        then Some (with_log s (mkStore S Ev (cmds S Ev l ++ [x]) (snap S Ev l) (cache S Ev l)))
        else None
    | MSnap a => let l := s_log s in Some (with_log s (mkStore S Ev (cmds S Ev l) (Some a) (cache S Ev l)))
    end.

  (** A step of an operation: a mutation ([critical] = its error aborts the operation; post-save writes are
      best effort) or the update of the in-memory cache. *)
  Inductive step := Mut (critical : bool) (m : mutation) | CacheSet (a : agg).

  Definition set_cache (s : sys) (a : agg) : sys :=
    with_log s (mkStore S Ev (cmds S Ev (s_log s)) (snap S Ev (s_log s)) (Some a)).

  (** schedule (ReplaceExistingSoonest, queue.rs:118-126): delete the pending entry of that name, then store. *)
  Definition sched1 (pend : list task) (t : task) : list mutation * list task :=
    ((if t_mem pend t then [MTaskDel t] else []) ++ [MTaskPut t], t_put pend t).
  Fixpoint sched_all (pend : list task) (ts : list task) : list mutation * list task :=
    match ts with
    | [] => ([], pend)
    | t :: r => let '(m1, p1) := sched1 pend t in let '(m2, p2) := sched_all p1 r in (m1 ++ m2, p2)
    end.
  (** schedule_and_finish_existing (FinishOrReplaceExistingSoonest, queue.rs:136-147): also deletes a running entry. *)
  Definition sched_fin1 (pend run : list task) (t : task) : list mutation * (list task * list task) :=
    ((if t_mem run t then [MTaskFinish t] else []) ++ (if t_mem pend t then [MTaskDel t] else []) ++ [MTaskPut t],
     (t_put pend t, t_del run t)).
  Fixpoint sched_fin_all (pend run : list task) (ts : list task) : list mutation :=
    match ts with
    | [] => []
    | t :: r => let '(m1, (p1, r1)) := sched_fin1 pend run t in m1 ++ sched_fin_all p1 r1 r
    end.

  Inductive op :=
  | OCommand (evs : list Ev)            (* process_command returned these (non-empty) events *)
  | ORejected                           (* process_command returned an error: stored with the error *)
  | ONoOp                               (* no events: nothing is stored *)
  | ORepublish (o : Ob)                  (* reissue_if_needed: the re-signed object store *)
  | OSchedule (t : task)
  | OClaim (t : task)
  | OFinish (t : task)
  | OResched (t : task)
  | OFollowUp (t : task)
  | OSnapshot.

  (** The side effects a command leaves before its command store: listener write, then task writes. *)
  Definition side_effects (s : sys) (o' : Ob) (evs : list Ev) : list mutation :=
    MObjs o' :: fst (sched_all (s_pend s) (pre_tasks evs)).

  Definition steps_of (s : sys) (o : op) : list step :=
    let a := load (s_log s) in
    match o with
    | OCommand evs =>
        match listen (s_objs s) evs with
        | None => []                                   (* listener error: nothing written, nothing cached *)
        | Some o' =>
            let x := SEvents evs in
            let p1 := snd (sched_all (s_pend s) (pre_tasks evs)) in
            map (Mut true) (side_effects s o' evs) ++ [Mut true (MCmd (a_ver S a) x)]
            ++ map (Mut false) (sched_fin_all p1 (s_run s) (post_tasks evs))
            ++ [CacheSet (apply_stored S Ev apply a x)]
        end
    | ORejected => [Mut true (MCmd (a_ver S a) SError); CacheSet (apply_stored S Ev apply a SError)]
    | ONoOp => [CacheSet a]
    | ORepublish o' => [Mut true (MObjs o')]
    | OSchedule t => map (Mut true) (fst (sched1 (s_pend s) t))
    | OClaim t => if t_mem (s_pend s) t then [Mut true (MTaskClaim t)] else []
    | OFinish t => if t_mem (s_run s) t then [Mut true (MTaskFinish t)] else []
    | OResched t => if t_mem (s_run s) t then [Mut true (MTaskResched t)] else []
    | OFollowUp t => map (Mut true) (fst (sched_fin1 (s_pend s) (s_run s) t))
    | OSnapshot => [CacheSet a; Mut true (MSnap a)]
    end.

  (** The record of a rejected command written best effort: NOT what store.rs:418-424 does (there the error of
      the store ends the call before the cache update at 493-495). Kept as a regression witness only. *)
  Definition steps_rejected_best_effort (s : sys) : list step :=
    let a := load (s_log s) in
    [Mut false (MCmd (a_ver S a) SError); CacheSet (apply_stored S Ev apply a SError)].

  Definition muts_of (st : list step) : list mutation :=
    flat_map (fun x => match x with Mut _ m => [m] | CacheSet _ => [] end) st.
  Definition trace_shape (s : sys) (o : op) : list shape := map shape_of (muts_of (steps_of s o)).

  (** [run_cut n st s]: the process dies right before mutation number n (0-based): the first n mutations
      have been performed. Cache updates on the way are performed (and lost with the process). *)
  Fixpoint run_cut (n : nat) (st : list step) (s : sys) : option sys :=
    match st with
    | [] => Some s
    | CacheSet a :: r => run_cut n r (set_cache s a)
    | Mut _ m :: r =>
        match n with
        | Datatypes.O => Some s
        | Datatypes.S n' => match apply_mut s m with None => None | Some s' => run_cut n' r s' end
        end
    end.
  Definition run_all (st : list step) (s : sys) : option sys := run_cut (length st) st s.

  (** One failing write: mutation number n returns an error and has no effect. A critical one aborts the
      operation (nothing after it runs, the cache is not updated: store.rs:460-470, 493); a best-effort one
      is skipped and the operation goes on. *)
  Fixpoint fail_at (n : nat) (st : list step) (s : sys) : option sys :=
    match st with
    | [] => Some s
    | CacheSet a :: r => fail_at n r (set_cache s a)
    | Mut crit m :: r =>
        match n with
        | Datatypes.O => if crit then Some s else run_all r s
        | Datatypes.S n' => match apply_mut s m with None => None | Some s' => fail_at n' r s' end
        end
    end.

  (** Process death: memory is gone. Restart: running tasks are re-queued (mq.rs reschedule_tasks_at_startup). *)
  Definition crash (s : sys) : sys := with_log s (drop_cache S Ev (s_log s)).
  Definition restart (s : sys) : sys :=
    let c := crash s in with_queue c (fold_left t_put (s_run c) (s_pend c)) [].

  (** Recovery = C06's load on what survived. *)
  Definition recover (s : sys) : agg := load (s_log (crash s)).

  Definition complete (o : op) (s : sys) : option sys := run_all (steps_of s o) s.
  Definition resubmit := complete.

  (** Histories: operations that complete, that are cut by a crash after n mutations (followed by the
      restart), that suffer one failing write, and plain restarts. *)
  Inductive hop := HRun (o : op) | HCrash (o : op) (n : nat) | HFail (o : op) (n : nat) | HRestart.
  Definition hstep (s : sys) (h : hop) : option sys :=
    match h with
    | HRun o => complete o s
    | HCrash o n => option_map restart (run_cut n (steps_of s o) s)
    | HFail o n => fail_at n (steps_of s o) s
    | HRestart => Some (restart s)
    end.
  Fixpoint run_hist (s : sys) (hs : list hop) : option sys :=
    match hs with
    | [] => Some s
    | h :: r => match hstep s h with None => None | Some s' => run_hist s' r end
    end.

  (** Index of the command store in the trace of an accepted command. *)
  Definition cmd_index (s : sys) (evs : list Ev) : nat :=
    Datatypes.S (length (fst (sched_all (s_pend s) (pre_tasks evs)))).

  Definition tset_eq (a b : list task) : Prop := forall t, t_mem a t = t_mem b t.
End Crash.

Arguments MObjs {S Ev Ob}. Arguments MTaskDel {S Ev Ob}. Arguments MTaskPut {S Ev Ob}. Arguments MTaskClaim {S Ev Ob}.
Arguments MTaskFinish {S Ev Ob}. Arguments MTaskResched {S Ev Ob}. Arguments MCmd {S Ev Ob}. Arguments MSnap {S Ev Ob}.
Arguments OCommand {Ev Ob}. Arguments ORejected {Ev Ob}. Arguments ONoOp {Ev Ob}. Arguments ORepublish {Ev Ob}.
Arguments OSchedule {Ev Ob}. Arguments OClaim {Ev Ob}. Arguments OFinish {Ev Ob}. Arguments OResched {Ev Ob}.
Arguments OFollowUp {Ev Ob}. Arguments OSnapshot {Ev Ob}.
Arguments HRun {Ev Ob}. Arguments HCrash {Ev Ob}. Arguments HFail {Ev Ob}. Arguments HRestart {Ev Ob}.

(** * The atomicity clause of the property, in full: after ANY cut of an accepted command, the audit log
    and the published-object store (and the task queue) are either all as before or all as after. *)
Definition atomic_alike_full (S Ev : Type) (init : S) (apply : S -> Ev -> S) (Ob : Type)
           (listen : Ob -> list Ev -> option Ob) (pre post : list Ev -> list task) : Prop :=
  forall (s : sys S Ev Ob) (evs : list Ev) (o' : Ob) (n : nat) (s' : sys S Ev Ob),
    listen (s_objs S Ev Ob s) evs = Some o' ->
    run_cut S Ev Ob n (steps_of S Ev init apply Ob listen pre post s (OCommand evs)) s = Some s' ->
    (cmds S Ev (s_log S Ev Ob (crash S Ev Ob s')) = cmds S Ev (s_log S Ev Ob s)
       /\ s_objs S Ev Ob s' = s_objs S Ev Ob s /\ s_pend S Ev Ob s' = s_pend S Ev Ob s)
    \/ (cmds S Ev (s_log S Ev Ob (crash S Ev Ob s')) = cmds S Ev (s_log S Ev Ob s) ++ [SEvents evs]
       /\ s_objs S Ev Ob s' = o').

(** * The publication server's content store (WalStore, wal.rs): snapshot at revision r, change sets
    wal-r, wal-r+1, ...; sets below the snapshot's revision are stale and ignored. *)
Record wal := mkWal { w_snap : N; w_sets : list N }.
Fixpoint wal_catch_up (fuel : nat) (r : N) (sets : list N) : N :=
  match fuel with
  | Datatypes.O => r
  | Datatypes.S f => if existsb (N.eqb r) sets then wal_catch_up f (r + 1) sets else r
  end.
Definition wal_load (w : wal) : N := wal_catch_up (length (w_sets w)) (w_snap w) (w_sets w).
Inductive wmut := WSet (r : N) | WSnap (r : N) | WDel (r : N).
Definition wal_apply (w : wal) (m : wmut) : wal :=
  match m with
  | WSet r => mkWal (w_snap w) (r :: w_sets w)
  | WSnap r => mkWal r (w_sets w)
  | WDel r => mkWal (w_snap w) (filter (fun x => negb (x =? r)) (w_sets w))
  end.
(** wal.rs:385-390 / 399-414: a command stores wal-<revision>; a snapshot stores the loaded instance and
    then deletes every set, one mutation each. *)
Definition wal_command_trace (w : wal) : list wmut := [WSet (wal_load w)].
Definition wal_snapshot_trace (w : wal) : list wmut := WSnap (wal_load w) :: map WDel (w_sets w).
Definition wal_run (w : wal) (l : list wmut) : wal := fold_left wal_apply l w.
(** The snapshot update with its two parts swapped: the change sets are removed first, the snapshot is stored
    last (NOT the order of wal.rs:399-414; kept as the regression witness of that order). *)
Definition wal_snapshot_trace_swapped (w : wal) : list wmut := map WDel (w_sets w) ++ [WSnap (wal_load w)].
(** One failing write in a snapshot update: every mutation of it is followed by `?` (wal.rs:401-412), so
    mutation number n has no effect and nothing after it runs; the update runs in a WalStore of its own
    (scheduler.rs:557-583), the error is logged and the daemon goes on. *)
Fixpoint wal_fail_at (n : nat) (l : list wmut) (w : wal) : wal :=
  match l, n with
  | [], _ => w
  | _ :: _, Datatypes.O => w
  | m :: r, Datatypes.S n' => wal_fail_at n' r (wal_apply w m)
  end.
(** A change set is acknowledged once its command returned: every revision below the loaded one. A stored
    state [w'] still holds everything acknowledged in [w] iff it loads at least that revision. *)
Definition wal_keeps_acknowledged (w w' : wal) : Prop := wal_load w <= wal_load w'.

(** * The rsync tree switch (rsync.rs:72-156). A directory is present with some content or absent. *)
Record rsyncd := mkRs { r_tmp : option N; r_current : option N; r_old : option N }.
Inductive rmut := RWriteTmp (c : N) | RCurToOld | RTmpToCur | RRemoveOld.
(** rename(2) of a directory onto an existing non-empty directory fails (ENOTEMPTY). *)
Definition rsync_apply (r : rsyncd) (m : rmut) : option rsyncd :=
  match m with
  | RWriteTmp c => Some (mkRs (Some c) (r_current r) (r_old r))
  | RCurToOld => match r_old r with Some _ => None | None => Some (mkRs (r_tmp r) None (r_current r)) end
  | RTmpToCur => match r_current r with Some _ => None | None => Some (mkRs None (r_tmp r) (r_old r)) end
  | RRemoveOld => Some (mkRs (r_tmp r) (r_current r) None)
  end.
(** The switch as repaired (commit e1f99c61, rsync.rs:116-140): if [current] exists, a stale [old] - left by a
    write that was interrupted after the switch - is removed before [current] is renamed onto it. *)
Definition rsync_write_trace (r : rsyncd) (c : N) : list rmut :=
  [RWriteTmp c]
  ++ (match r_current r with
      | Some _ => (match r_old r with Some _ => [RRemoveOld] | None => [] end) ++ [RCurToOld]
      | None => []
      end)
  ++ [RTmpToCur]
  ++ (match r_current r, r_old r with None, None => [] | _, _ => [RRemoveOld] end).   (* only if old exists then *)
(** The originally pinned switch: no removal of a stale [old] (finding F11c). *)
Definition rsync_write_trace_pinned (r : rsyncd) (c : N) : list rmut :=
  [RWriteTmp c] ++ (match r_current r with Some _ => [RCurToOld] | None => [] end) ++ [RTmpToCur]
  ++ (match r_current r, r_old r with None, None => [] | _, _ => [RRemoveOld] end).
Fixpoint rsync_run (r : rsyncd) (l : list rmut) : option rsyncd :=
  match l with
  | [] => Some r
  | m :: t => match rsync_apply r m with None => None | Some r' => rsync_run r' t end
  end.

(** * File-system traces of the RRDP update and the rsync write, by counts *)
Definition rrdp_fs_trace (n_deltas : nat) (cleanup : list bool) : list shape :=
  concat (repeat [ShFs FCreateFile CDelta; ShFs FWrite CDelta] n_deltas)
  ++ [ShFs FCreateFile CSnapshot; ShFs FWrite CSnapshot; ShFs FCreateFile CNotifNew; ShFs FWrite CNotifNew; ShFs FRename CNotif]
  (* clean-up of what the new notification file no longer references: old snapshot files, whole old serial directories *)
  ++ map (fun dir : bool => ShFs (if dir then FRemoveDir else FRemoveFile) CRrdpOther) cleanup.
Definition rsync_fs_trace (n_files : nat) (has_current has_old has_tmp : bool) : list shape :=
  (* e2447e97: a stale tmp-<serial> of an interrupted write of the same serial is removed first *)
  (if has_tmp then [ShFs FRemoveDir CRsyncTmp] else [])
  ++ [ShFs FCreateDir CRsyncTmp] ++ concat (repeat [ShFs FCreateFile CRsyncFile; ShFs FWrite CRsyncFile] n_files)
  ++ (if has_current then (if has_old then [ShFs FRemoveDir CRsyncOld] else []) ++ [ShFs FRename CRsyncCurrent] else [])
  ++ [ShFs FRename CRsyncTmp]
  ++ (if has_current || has_old then [ShFs FRemoveDir CRsyncOld] else []).

(** * Operations that update TWO stores one after the other without a common transaction
    (pubd/manager.rs:318-345: RepositoryAccess - an event-sourced aggregate - and RepositoryContent - the
    change-set store). Each step is one atomic store; a step that finds its work done already either accepts
    that (idempotent: "withdraw what the publisher has" with nothing left) or refuses the request ("Unknown
    publisher", "Duplicate publisher"). A request is the two steps in order; the first refusal ends it. *)
Record two := mkTwo { t_first : bool; t_second : bool }.          (* which step has been applied *)
Record twoop := mkTwoOp { idem_first : bool; idem_second : bool }.
Inductive tres := TOk (s : two) | TRefused (s : two).
Definition two_step (idem done : bool) : option bool :=            (* None = refused *)
  if done then (if idem then Some true else None) else Some true.
(** Runs the request; [cut] = number of steps after which the process dies / the next store fails. *)
Definition two_run (o : twoop) (cut : nat) (s : two) : tres :=
  match cut with
  | O => TOk s
  | Datatypes.S c =>
      match two_step (idem_first o) (t_first s) with
      | None => TRefused s
      | Some f =>
          match c with
          | O => TOk (mkTwo f (t_second s))
          | Datatypes.S _ =>
              match two_step (idem_second o) (t_second s) with
              | None => TRefused (mkTwo f (t_second s))
              | Some g => TOk (mkTwo f g)
              end
          end
      end
  end.
Definition two_state (r : tres) : two := match r with TOk s | TRefused s => s end.
Definition two_resubmit (o : twoop) (cut : nat) : tres := two_run o 2 (two_state (two_run o cut (mkTwo false false))).
(** remove_publisher as it is (content first, its withdrawal is idempotent; the access removal is not), the
    swapped order, and create_publisher (access first, "Duplicate publisher" on the second attempt). *)
Definition remove_publisher_op : twoop := mkTwoOp true false.
Definition remove_publisher_swapped : twoop := mkTwoOp false true.
Definition create_publisher_op : twoop := mkTwoOp false false.
