(** C08 correspondence checker and executable oracle.

    One case = one cut of one operation on the real code (harness/src/bin/c08.rs): the operation kind, the
    task names queued before, the steps of the operation (for every stored command the constructor names of
    its events as read back from the audit log - not from the trace), the mutation trace the probe recorded
    for the crash-free twin, the trace of the cut run up to the cut, and what was observed after the cut
    (new commands per CA, which published-object stores changed, whether everything loaded, whether the
    state after pump + resubmit + pump + periodic work equals the twin's).

    [agrees]: the model's trace for these steps (Crash.steps_of, instantiated with the event -> task tables
    that translate/t_queue.py regenerates from src/server/mq.rs) equals the twin's trace, the cut run's trace
    is its prefix, and the number of commands present after the cut is what the prefix predicts.
    [c08_ok]: the executable form of the property's clauses on what the implementation did. *)
From Coq Require Import String.
From KV Require Import base.Tac es.Es crash.Crash gen.GenQueue.
Open Scope list_scope.
Open Scope N_scope.

(** An event of a stored command: constructor name, and the child it is about (0 if none). *)
Definition evd : Type := (string * N)%type.

Definition OTHER_TASK : N := 9.
Definition kind_code (k : string) : N :=
  if String.eqb k "SyncRepo" then SYNC_REPO else if String.eqb k "SyncParent" then SYNC_PARENT
  else if String.eqb k "RrdpUpdateIfNeeded" then RRDP_UPDATE
  else if String.eqb k "ResourceClassRemoved" then 4 else if String.eqb k "UnexpectedKey" then 5 else OTHER_TASK.

Definition lookup_table (tbl : list (string * list (string * string * string))) (ev : string) : list (string * string * string) :=
  match find (fun '(e, _) => String.eqb e ev) tbl with
  | Some (_, l) => l
  | None => match find (fun '(e, _) => String.eqb e "_") tbl with Some (_, l) => l | None => [] end
  end.

(** Pre-save (mq.rs schedule_for_ca_event): tasks of the CA itself. Post-save: a parent sync of the child. *)
(** The second component of an event is the child it names - or, for an event whose tasks are scheduled "for
    parent in ca.parents()" (RepoUpdated), the number of parents the CA has. *)
Definition pre_tasks_of (me : N) (evs : list evd) : list task :=
  flat_map (fun '(name, arg) =>
    flat_map (fun '(_, k, g) => if String.eqb g "for parent in ca.parents()" then repeat (kind_code k, me) (N.to_nat arg) else [(kind_code k, me)])
             (lookup_table gen_ca_pre_save name)) evs.
Definition post_tasks_of (evs : list evd) : list task :=
  flat_map (fun '(name, child) => map (fun '(_, k, _) => (kind_code k, child)) (lookup_table gen_ca_post_save name)) evs.

(** The store model at shape level: no state, a listener that always accepts. *)
Definition usys := sys unit evd unit.
Definition mk_usys (pend run : list task) : usys := mkSys unit evd unit (empty_store unit evd) tt pend run.
Definition u_steps (me : N) (s : usys) (o : op evd unit) :=
  steps_of unit evd tt (fun s _ => s) unit (fun _ _ => Some tt) (pre_tasks_of me) post_tasks_of s o.
Definition u_shape (me : N) (s : usys) (o : op evd unit) : list shape :=
  trace_shape unit evd tt (fun s _ => s) unit (fun _ _ => Some tt) (pre_tasks_of me) post_tasks_of me s o.
Definition u_complete (me : N) (s : usys) (o : op evd unit) : option usys :=
  complete unit evd tt (fun s _ => s) unit (fun _ _ => Some tt) (pre_tasks_of me) post_tasks_of o s.

Inductive cstep :=
| CCmd (ca : N) (evs : list evd)        (* a command stored with these events *)
| CCmdErr (ca : N)                      (* a command stored with its error *)
| CPrim (sh : shape).                   (* any other single mutation *)

(** Queue discipline of the single mutations: a delete / move needs the entry, a store never doubles a name. *)
Definition prim_queue (pend run : list task) (sh : shape) : option (list task * list task) :=
  match sh with
  | ShTaskDel t => if t_mem pend t then Some (t_del pend t, run) else None
  | ShTaskPut t => if t_mem pend t then None else Some (t_put pend t, run)
  | ShTaskClaim t => if t_mem pend t then Some (t_del pend t, t_put run t) else None
  | ShTaskFinish t => if t_mem run t then Some (pend, t_del run t) else None
  | ShTaskResched t => if t_mem run t then Some (t_put pend t, t_del run t) else None
  | _ => Some (pend, run)
  end.

(** A command's place in the trace: CA, events, index of its listener write, index of its command store. *)
Record span := mkSpan { sp_ca : N; sp_evs : list evd; sp_start : nat; sp_store : nat; sp_end : nat }.

Definition store_offset (l : list shape) : nat :=
  (fix go (l : list shape) (i : nat) : nat :=
     match l with [] => i | ShCommand _ :: _ => i | _ :: r => go r (Datatypes.S i) end) l 0%nat.

Fixpoint predict_full (pos : nat) (pend run : list task) (steps : list cstep) : option (list shape * list span) :=
  match steps with
  | [] => Some ([], [])
  | CCmd ca evs :: r =>
      let s := mk_usys pend run in
      match u_complete ca s (OCommand evs) with
      | None => None
      | Some s1 =>
          let sh := u_shape ca s (OCommand evs) in
          match predict_full (pos + length sh) (s_pend _ _ _ s1) (s_run _ _ _ s1) r with
          | None => None
          | Some (tr, sps) => Some (sh ++ tr, mkSpan ca evs pos (pos + store_offset sh) (pos + length sh) :: sps)
          end
      end
  | CCmdErr ca :: r =>
      let sh := u_shape ca (mk_usys pend run) ORejected in
      match predict_full (pos + length sh) pend run r with None => None | Some (tr, sps) => Some (sh ++ tr, sps) end
  | CPrim sh :: r =>
      match prim_queue pend run sh with
      | None => None
      | Some (p, q) => match predict_full (Datatypes.S pos) p q r with None => None | Some (tr, sps) => Some (sh :: tr, sps) end
      end
  end.
Definition predict (pend run : list task) (steps : list cstep) : option (list shape) :=
  option_map fst (predict_full 0 pend run steps).

(** ** Boolean equality of shapes *)
Definition fsop_code (o : fsop) : N := match o with FCreateDir => 1 | FRemoveDir => 2 | FCreateFile => 3 | FWrite => 4 | FRemoveFile => 5 | FRename => 6 end.
Definition fscls_code (c : fscls) : N :=
  match c with CDelta => 1 | CSnapshot => 2 | CNotifNew => 3 | CNotif => 4 | CRrdpOther => 5 | CRsyncTmp => 6 | CRsyncFile => 7 | CRsyncCurrent => 8 | CRsyncOld => 9 end.
Definition shape_eqb (a b : shape) : bool :=
  match a, b with
  | ShObjects x, ShObjects y | ShCommand x, ShCommand y | ShSnapshot x, ShSnapshot y | ShStatus x, ShStatus y => x =? y
  | ShTaskDel x, ShTaskDel y | ShTaskPut x, ShTaskPut y | ShTaskClaim x, ShTaskClaim y
  | ShTaskFinish x, ShTaskFinish y | ShTaskResched x, ShTaskResched y => task_eqb x y
  | ShKey, ShKey | ShSigner, ShSigner | ShWal, ShWal | ShWalSnapshot, ShWalSnapshot | ShWalDelete, ShWalDelete
  | ShPubdCommand, ShPubdCommand => true
  | ShFs o c, ShFs o' c' => (fsop_code o =? fsop_code o') && (fscls_code c =? fscls_code c')
  | ShOther s c, ShOther s' c' => (s =? s') && (c =? c')
  | _, _ => false
  end.
Fixpoint shapes_eqb (a b : list shape) : bool :=
  match a, b with
  | [], [] => true
  | x :: a', y :: b' => shape_eqb x y && shapes_eqb a' b'
  | _, _ => false
  end.

(** ** Operation kinds and the form their steps must have *)
Inductive opkind :=
| KCommand                                   (* one API command on one CA: ROA / ASPA update, child update, key-roll activation *)
| KKeyrollInit                               (* key creation (keys, signers) then the command *)
| KSyncParent                                (* commands of parent and child, status writes between them *)
| KRepublish                                 (* one published-object store per CA *)
| KSyncRepo                                  (* status, change set, RRDP task, status *)
| KRrdpUpdate (n_deltas : nat) (cleanup : list bool) (n_files : nat) (has_current has_old has_tmp : bool)
| KRsyncWrite (n_files : nat) (has_current has_old has_tmp : bool)
| KRemovePublisher                           (* content change set, THEN access command, then the RRDP task *)
| KCreatePublisher                           (* access command, then content change set *)
| KUpdateSnapshots (pre cut : wal)           (* the snapshot update task: aggregate snapshots, then the change-set store's
                                                snapshot update; [pre] / [cut]: snapshot revision and change sets of the
                                                content store as read from the directory before the operation / right after the cut *)
| KGeneric                                   (* other multi-store operations: commands predicted, the rest as observed *)
| KIdle                                      (* nothing: a task that finds it is premature *)
| KTask (inner : opkind).                    (* claim, the task's work, finish / reschedule / follow-up *)

Definition prims (steps : list cstep) : option (list shape) :=
  fold_right (fun st acc => match st, acc with CPrim sh, Some l => Some (sh :: l) | _, _ => None end) (Some []) steps.

Definition is_rrdp_task (sh : shape) : bool :=
  match sh with ShTaskDel t | ShTaskPut t => fst t =? RRDP_UPDATE | _ => false end.

(** The change-set store's part of a trace and its model (Crash.wal_snapshot_trace: snapshot FIRST, then one
    removal per change set that was there). *)
Definition wshape (m : wmut) : shape := match m with WSet _ => ShWal | WSnap _ => ShWalSnapshot | WDel _ => ShWalDelete end.
Definition is_wal_shape (sh : shape) : bool := match sh with ShWal | ShWalSnapshot | ShWalDelete => true | _ => false end.
(** snapshot.json of an aggregate (cas/<ca>, signers, pubd access, properties) *)
Definition is_agg_snapshot (sh : shape) : bool := match sh with ShSnapshot _ | ShSigner | ShOther _ _ => true | _ => false end.

Fixpoint kind_ok (k : opkind) (steps : list cstep) : bool :=
  match k with
  | KCommand => match steps with [CCmd _ _] | [CCmdErr _] => true | _ => false end
  | KKeyrollInit => match steps with [CPrim ShKey; CPrim ShSigner; CCmd _ _] => true | _ => false end
  | KSyncParent => forallb (fun st => match st with CCmd _ _ | CCmdErr _ | CPrim (ShStatus _) => true | _ => false end) steps
  | KRepublish => forallb (fun st => match st with CPrim (ShObjects _) => true | _ => false end) steps
  | KSyncRepo =>
      match prims steps with
      | Some (ShStatus a :: ShWal :: rest) =>
          match rev rest with
          | ShStatus b :: mid => (a =? b) && forallb is_rrdp_task mid && negb (match mid with [] => true | _ => false end)
          | _ => false
          end
      | _ => false
      end
  | KRrdpUpdate nd nr nf hc ho ht =>
      match prims steps with Some l => shapes_eqb l (ShWal :: rrdp_fs_trace nd nr ++ rsync_fs_trace nf hc ho ht) | None => false end
  | KRsyncWrite nf hc ho ht =>
      match prims steps with Some l => shapes_eqb l (rsync_fs_trace nf hc ho ht) | None => false end
  | KRemovePublisher =>
      match prims steps with
      | Some (ShWal :: ShPubdCommand :: rest) => forallb is_rrdp_task rest && negb (match rest with [] => true | _ => false end)
      | _ => false
      end
  | KCreatePublisher => match prims steps with Some [ShPubdCommand; ShWal] => true | _ => false end
  | KUpdateSnapshots pre _ =>
      match prims steps with
      | Some l => shapes_eqb (filter is_wal_shape l) (map wshape (wal_snapshot_trace pre))
                  && forallb (fun sh => is_wal_shape sh || is_agg_snapshot sh) l
      | None => false
      end
  | KGeneric => true
  | KIdle => match steps with [] => true | _ => false end
  | KTask inner =>
      match steps with
      | CPrim (ShTaskClaim t) :: rest =>
          match rev rest with
          | CPrim (ShTaskFinish t') :: mid | CPrim (ShTaskResched t') :: mid => task_eqb t t' && kind_ok inner (rev mid)
          | _ => false
          end
      | _ => false
      end
  end.

(** ** The case *)
Inductive fmode := Crash | Fail.

Record case := mkCase {
  k_kind : opkind; k_mode : fmode; k_cut : nat;
  k_pend0 : list task; k_run0 : list task;      (* the queue before the operation *)
  k_steps : list cstep;
  k_trace : list shape;                         (* the twin's mutation trace *)
  k_prefix : list shape;                        (* the cut run's own mutations before the cut *)
  k_new_cmds : list (N * N);                    (* per CA: commands in its log right after the cut, minus before *)
  k_objs_changed : list N;                      (* CAs whose published-object store differs right after the cut *)
  k_acked : bool;                               (* failed-write mode: the call returned Ok *)
  k_loads : bool;                               (* everything loaded after the cut and at the end; no log shrank *)
  k_rp_ok : bool;                               (* manifests / CRLs decode and list exactly the published objects; RRDP files consistent *)
  k_converged : bool;                           (* API views + repository content = the twin's (canonicalised) *)
  k_tasks_kept : bool;                          (* every task name the twin still has queued is queued here too *)
  k_candidate : N;                              (* 0, or the number of the candidate finding class of the divergence *)
  k_strict : bool;                              (* candidate findings count as failures *)
  k_strict_atomic : bool }.                     (* the "atomic alike" clause counts (finding F08a) *)

Definition lookupN (k : N) (l : list (N * N)) : N :=
  match find (fun '(a, _) => a =? k) l with Some (_, v) => v | None => 0 end.
Definition count_cmds (ca : N) (l : list shape) : N :=
  N.of_nat (length (filter (fun sh => match sh with ShCommand c => c =? ca | _ => false end) l)).
Definition writes_objs (ca : N) (l : list shape) : bool :=
  existsb (fun sh => match sh with ShObjects c => c =? ca | ShOther 5 c => c =? ca (* removal of ca_objects/<ca>.json *) | _ => false end) l.
Definition ENTITIES : list N := [0; 1; 2; 3; 4; 99].

(** The drop-class self-healing path (ca/manager.rs:2069-2107): when the command that records a received
    certificate fails - here: a failing write between its listener write and its command store - the manager
    sends DropResourceClass for that class in the same operation: one more command (and listener write) of
    that CA on the still-running instance. *)
Definition is_rcvd_cert_event (e : evd) : bool :=
  let n := fst e in String.eqb n "KeyPendingToNew" || String.eqb n "KeyPendingToActive" || String.eqb n "CertificateReceived".
Definition healed (c : case) (sps : list span) (ca : N) : bool :=
  match k_mode c, k_kind c with
  | Fail, KSyncParent =>
      existsb (fun sp => (sp_ca sp =? ca) && existsb is_rcvd_cert_event (sp_evs sp)
                         && (sp_start sp <=? k_cut c)%nat && (k_cut c <=? sp_store sp)%nat) sps
  | _, _ => false
  end.

(** A failing write in the best-effort post-save part of a command is logged and ignored: the operation
    goes on to its end (mq.rs:605-620). *)
Definition in_post_save (c : case) (sps : list span) : bool :=
  match k_mode c, k_kind c with
  | Fail, KRepublish => true          (* republish_all logs the error of one CA and goes on with the others (ca/manager.rs:214-240) *)
  | Fail, _ => existsb (fun sp => (sp_store sp <? k_cut c)%nat && (k_cut c <? sp_end sp)%nat) sps
  | Crash, _ => false
  end.

(** A failing write while the command is being processed (key creation of a key-roll initiation: keys.rs
    via the signer) makes process_command fail: the command is stored with its error (store.rs:418-424). *)
Definition rejected_on_fail (c : case) (sps : list span) (ca : N) : bool :=
  match k_mode c, k_kind c with
  | Fail, KKeyrollInit => existsb (fun sp => (sp_ca sp =? ca) && (k_cut c <? sp_start sp)%nat) sps
  | _, _ => false
  end.

Definition b2n (b : bool) : N := if b then 1 else 0.

(** Composite operations (CA deletion, parent removal, ...) log and ignore the errors of their best-effort
    parts: with one failing write the rest of the operation still runs, so what is present afterwards is not a
    prefix; only the trace itself is compared for them in failed-write mode. *)
Definition generic_fail (c : case) : bool :=
  match k_mode c, k_kind c with Fail, KGeneric => true | _, _ => false end.

(** The stored state of the change-set store right after the cut against the model's. A failing write of an
    aggregate's snapshot is logged and the task goes on (scheduler.rs:524-600): the change-set store's update
    then runs in full; a failing write inside it ends it (wal.rs:401-412). The removals go in directory order:
    compared are the snapshot's revision, the number of sets left and that no set appeared. *)
Definition wal_offset (tr : list shape) : nat :=
  (fix go (l : list shape) (i : nat) : nat := match l with [] => i | sh :: r => if is_wal_shape sh then i else go r (Datatypes.S i) end) tr 0%nat.
Definition wal_muts_done (c : case) : nat :=
  let off := wal_offset (k_trace c) in
  match k_mode c with
  | Crash => (k_cut c - off)%nat
  | Fail => if (k_cut c <? off)%nat then (length (k_trace c) - off)%nat else (k_cut c - off)%nat
  end.
Definition wal_state_agrees (c : case) : bool :=
  match k_kind c with
  | KUpdateSnapshots pre cut =>
      let m := wal_run pre (firstn (wal_muts_done c) (wal_snapshot_trace pre)) in
      (w_snap cut =? w_snap m) && (length (w_sets cut) =? length (w_sets m))%nat
      && forallb (fun x => existsb (N.eqb x) (w_sets pre)) (w_sets cut)
      && (wal_load cut =? wal_load m)
  | _ => true
  end.

Definition agrees (c : case) : bool :=
  match predict_full 0 (k_pend0 c) (k_run0 c) (k_steps c) with
  | None => false
  | Some (tr, sps) =>
      let pre := firstn (k_cut c) tr in
      let seen := if in_post_save c sps then tr else pre in
      shapes_eqb tr (k_trace c) && kind_ok (k_kind c) (k_steps c)
      && shapes_eqb pre (k_prefix c) && wal_state_agrees c
      && (generic_fail c
          || (forallb (fun ca => count_cmds ca seen + b2n (healed c sps ca) + b2n (rejected_on_fail c sps ca) =? lookupN ca (k_new_cmds c)) ENTITIES
              && forallb (fun ca => writes_objs ca seen || healed c sps ca) (k_objs_changed c)))
  end.

(** ** Oracles *)
(** An acknowledged operation's commands are all in the logs. *)
Definition ack_ok (c : case) : bool :=
  match k_kind c with
  | KCommand | KKeyrollInit =>
      negb (k_acked c) || forallb (fun ca => count_cmds ca (k_trace c) =? lookupN ca (k_new_cmds c)) ENTITIES
  | _ => true     (* composite operations have best-effort parts: their acknowledgement is judged by convergence and by the restart check *)
  end.

(** "Atomic alike": a published-object store that moved in an operation that stores a command of that CA
    has the command in the log (re-publication stores no command at all). *)
Definition atomic_ok (c : case) : bool :=
  forallb (fun ca => (count_cmds ca (k_trace c) =? 0) || (0 <? lookupN ca (k_new_cmds c))) (k_objs_changed c).

(** The change-set store after the cut still loads every acknowledged change set (Crash.wal_keeps_acknowledged
    on the stored state that was read from the directory). *)
Definition wal_ok (c : case) : bool :=
  match k_kind c with KUpdateSnapshots pre cut => wal_load pre <=? wal_load cut | _ => true end.

Definition c08_ok (c : case) : bool :=
  k_loads c && ack_ok c && wal_ok c && k_rp_ok c
  && ((k_converged c && k_tasks_kept c) || (negb (k_strict c) && negb (k_candidate c =? 0)))
  && (negb (k_strict_atomic c) || atomic_ok c).

Fixpoint failing_from {A} (f : A -> bool) (i : N) (l : list A) : list N :=
  match l with
  | [] => []
  | x :: r => if f x then failing_from f (i + 1) r else i :: failing_from f (i + 1) r
  end.
Definition failing {A} (f : A -> bool) (base : N) (l : list A) : list N := failing_from f base l.

(** Sanity: the shape of the ROA update on a queue that already holds the CA's parent sync. *)
Example predict_roa_update :
  predict [(SYNC_PARENT, 2)] [] [CCmd 2 [("RoasUpdated"%string, 0)]]
  = Some [ShObjects 2; ShTaskPut (SYNC_REPO, 2); ShCommand 2].
Proof. vm_compute. reflexivity. Qed.

Example predict_keyroll_activate :
  predict [(SYNC_PARENT, 2)] [] [CCmd 2 [("KeyRollActivated"%string, 0); ("RoasUpdated"%string, 0)]]
  = Some [ShObjects 2; ShTaskDel (SYNC_PARENT, 2); ShTaskPut (SYNC_PARENT, 2); ShTaskPut (SYNC_REPO, 2);
          ShTaskDel (SYNC_REPO, 2); ShTaskPut (SYNC_REPO, 2); ShCommand 2].
Proof. vm_compute. reflexivity. Qed.

Example predict_child_update :
  predict [(SYNC_PARENT, 2)] [] [CCmd 1 [("ChildUpdatedResources"%string, 2)]]
  = Some [ShObjects 1; ShCommand 1; ShTaskDel (SYNC_PARENT, 2); ShTaskPut (SYNC_PARENT, 2)].
Proof. vm_compute. reflexivity. Qed.

Example kind_ok_update_snapshots :
  kind_ok (KUpdateSnapshots (mkWal 15 [17; 15; 16]) (mkWal 18 [16]))
    (map CPrim [ShSnapshot 99; ShSnapshot 99; ShSigner; ShOther 3 0; ShWalSnapshot; ShWalDelete; ShWalDelete; ShWalDelete]) = true
  /\ kind_ok (KUpdateSnapshots (mkWal 15 [17; 15; 16]) (mkWal 15 [16]))
    (map CPrim [ShSnapshot 99; ShWalDelete; ShWalDelete; ShWalDelete; ShWalSnapshot]) = false.
Proof. vm_compute. split; reflexivity. Qed.
