(** Correspondence checker and executable oracle for C19.

    One [case] is one step of a harness history on the real code: the status
    (cache as reported by [get_ca_status] for every CA, and the files of the
    "status" namespace) before the step, the operations the harness saw the
    step perform (with the outcome of every exchange as observed independently
    of the status: result of the API call, what the parent / the publication
    server held), the status after the step, and, for the oracle, the result of
    the API call, the content the publication server holds per publisher and the
    issues reported by [get_ca_issues].

    [agrees]: the model, run on the observed pre-state with the observed
    operations, ends in the observed post-state and predicts the observed result.
    [c19_ok]: the conclusions of the C19 theorems evaluated on what the
    implementation reported. No proofs here. *)
From Coq Require Import Ascii String.
From KV Require Import base.Tac status.Status.
Open Scope N_scope.

Record case := mkCase {
  c_pre : state;
  c_ops : list op;
  c_post : state;
  c_res : option xres;                              (* result of the API call, if the step is a synchronisation *)
  c_cas : list str;                                 (* CAs that exist after the step *)
  c_srv : list (str * list file);                   (* publisher -> files held by the publication server after the step *)
  c_issues : list (str * (option N * list (str * N)))  (* get_ca_issues after the step: repo issue, parent issues *)
}.

(** * Equality up to the orders that are arbitrary in the implementation *)
Definition xres_eqb (a b : xres) : bool :=
  match a, b with XOk, XOk => true | XFail x, XFail y => x =? y | _, _ => false end.
Definition opt_eqb {A} (eqb : A -> A -> bool) (a b : option A) : bool :=
  match a, b with None, None => true | Some x, Some y => eqb x y | _, _ => false end.
Definition file_eqb (a b : file) : bool := (f_uri a =? f_uri b) && (f_hash a =? f_hash b).
Definition count_file (f : file) (l : list file) : N := N.of_nat (length (filter (file_eqb f) l)).
(** multiset equality *)
Definition files_eqb (a b : list file) : bool :=
  (N.of_nat (length a) =? N.of_nat (length b)) && forallb (fun f => count_file f a =? count_file f b) (a ++ b).

Fixpoint list_eqb {A} (eqb : A -> A -> bool) (a b : list A) : bool :=
  match a, b with
  | [], [] => true
  | x :: a', y :: b' => eqb x y && list_eqb eqb a' b'
  | _, _ => false
  end.
Definition pairN_eqb (a b : N * N) : bool := (fst a =? fst b) && (snd a =? snd b).

Definition repo_eqb (a b : repo_st) : bool :=
  opt_eqb xres_eqb (r_last a) (r_last b) && Bool.eqb (r_succ a) (r_succ b) && files_eqb (r_pub a) (r_pub b).
(** the harness lists classes sorted by name on both sides *)
Definition parent_eqb (a b : parent_st) : bool :=
  opt_eqb xres_eqb (p_last a) (p_last b) && Bool.eqb (p_succ a) (p_succ b) && (p_all a =? p_all b)
  && list_eqb pairN_eqb (p_classes a) (p_classes b).
Definition child_eqb (a b : child_st) : bool :=
  opt_eqb xres_eqb (c_last a) (c_last b) && Bool.eqb (c_succ a) (c_succ b) && Bool.eqb (c_susp a) (c_susp b).

(** finite maps: same value (or both absent) at every key of either side *)
Definition map_eqb {V} (eqb : V -> V -> bool) (a b : list (str * V)) : bool :=
  forallb (fun k => opt_eqb eqb (aget k a) (aget k b)) (map fst a ++ map fst b).

Definition ca_eqb (a b : ca_st) : bool :=
  repo_eqb (s_repo a) (s_repo b) && map_eqb parent_eqb (s_parents a) (s_parents b)
  && map_eqb child_eqb (s_children a) (s_children b).

(** the cache is only visible through [get_ca_status]: absent = default *)
Definition cache_eqb (a b : state) : bool :=
  forallb (fun ca => ca_eqb (ca_view a ca) (ca_view b ca)) (map fst (cache a) ++ map fst (cache b)).

Definition value_eqb (a b : value) : bool :=
  match a, b with
  | VRepo x, VRepo y => repo_eqb x y
  | VParent x, VParent y => parent_eqb x y
  | VChild x, VChild y => child_eqb x y
  | VJunk, VJunk => true
  | _, _ => false
  end.
(** a scope without keys and no scope are the same thing for a listing of files *)
Definition scope_eqb (a b : kv) (sc : str) : bool := map_eqb value_eqb (kv_scope a sc) (kv_scope b sc).
Definition kv_eqb (a b : kv) : bool := forallb (scope_eqb a b) (map fst a ++ map fst b).

Definition state_eqb (a b : state) : bool := cache_eqb a b && kv_eqb (store a) (store b).

(** * Correspondence *)
(** Result of the API call as the model predicts it (for the last operation of a step). *)
Definition op_result (st : state) (o : op) : option xres :=
  match o with
  | ORepoSync ca w lr dr => Some (snd (repo_sync st ca w lr dr))
  | OParentSync ca p pc ch r => Some (snd (parent_sync st ca p pc ch r))
  | OChildMsg _ _ m => Some (msg_result m)
  | _ => None
  end.

Fixpoint run_res (st : state) (os : list op) : option (state * option xres) :=
  match os with
  | [] => Some (st, None)
  | [o] => match step st o with Some st' => Some (st', op_result st o) | None => None end
  | o :: r => match step st o with Some st' => run_res st' r | None => None end
  end.

Definition agrees (c : case) : bool :=
  match run_res (c_pre c) (c_ops c) with
  | Some (st', r) =>
      state_eqb st' (c_post c)
      && match c_res c with Some x => opt_eqb xres_eqb r (Some x) | None => true end
  | None => false
  end.

(** * Oracle: the C19 statements on the reported status *)
Definition last_op (os : list op) : option op := last (map Some os) None.

Definition attempted := attempted_run.

(** failure (with its error) exactly when the attempt failed, otherwise success *)
Definition ok_parent_result (c : case) : bool :=
  match last_op (c_ops c), c_res c with
  | Some (OParentSync ca p pc ch r), Some res =>
      if attempted r then
        match view_parent (c_post c) ca p with
        | Some x => opt_eqb xres_eqb (p_last x) (Some res)
        | None => false
        end
      else true
  | _, _ => true
  end.

Definition ok_repo_result (c : case) : bool :=
  match last_op (c_ops c), c_res c with
  | Some (ORepoSync ca _ _ _), Some res => opt_eqb xres_eqb (r_last (view_repo (c_post c) ca)) (Some res)
  | _, _ => true
  end.

(** success comes with the entitlements the parent last returned *)
Definition ok_entitlements (c : case) : bool :=
  match last_op (c_ops c) with
  | Some (OParentSync ca p pc ch (RList MOk ents _)) =>
      match view_parent (c_post c) ca p with
      | Some x => list_eqb pairN_eqb (p_classes x) ents && (p_all x =? union_all ents) && p_succ x
      | None => false
      end
  | _ => true
  end.

(** after a successful synchronisation the published list is what the server holds *)
Definition ok_published (c : case) : bool :=
  match last_op (c_ops c), c_res c with
  | Some (ORepoSync ca _ _ _), Some XOk =>
      match aget ca (c_srv c) with
      | Some held => files_eqb (r_pub (view_repo (c_post c) ca)) held
      | None => false
      end
  | _, _ => true
  end.

(** a failed exchange leaves the published list alone *)
Definition ok_published_failure (c : case) : bool :=
  match c_ops c, c_res c with
  | [ORepoSync ca _ _ _], Some (XFail _) => files_eqb (r_pub (view_repo (c_post c) ca)) (r_pub (view_repo (c_pre c) ca))
  | _, _ => true
  end.

(** "a last success exists" is only ever set by a success *)
Definition ok_success_flag (c : case) : bool :=
  match c_ops c, c_res c with
  | [OParentSync ca p pc ch (RList m _ _)], Some res =>
      match view_parent (c_post c) ca p with
      | Some x => Bool.eqb (p_succ x)
                    (match view_parent (c_pre c) ca p with Some y => p_succ y | None => false end
                     || match res with XOk => true | XFail _ => false end)
      | None => false
      end
  | _, _ => true
  end.

(** the parent shows the outcome of the child's most recent request *)
(** ... its last exchange, and - whatever the outcome - no suspension marker: a child whose request was
    processed is active (the manager un-suspends it in the CA before processing) *)
Definition child_shows (c : case) (pc ch : str) (x : xres) : bool :=
  match view_child (c_post c) pc ch with
  | Some y => opt_eqb xres_eqb (c_last y) (Some x) && negb (c_susp y)
  | None => false
  end.
Definition ok_child (c : case) : bool :=
  match last_op (c_ops c) with
  | Some (OParentSync ca p pc ch r) =>
      match last_recorded (sent_messages r) with
      | Some x => child_shows c pc ch x
      | None => true
      end
  | Some (OChildMsg pc ch m) =>
      match recorded m with
      | Some x => child_shows c pc ch x
      | None => opt_eqb child_eqb (view_child (c_post c) pc ch) (view_child (c_pre c) pc ch)
      end
  | _ => true
  end.

(** the issues view reports exactly the failures of the status view *)
Definition failure_of (o : option xres) : option N := match o with Some (XFail e) => Some e | _ => None end.
Definition ok_issues (c : case) : bool :=
  forallb (fun ca =>
    match aget ca (c_issues c) with
    | Some (ri, pis) =>
        opt_eqb N.eqb ri (failure_of (r_last (view_repo (c_post c) ca)))
        && forallb (fun pe => opt_eqb N.eqb (aget (fst pe) pis) (failure_of (p_last (snd pe))))
                   (s_parents (ca_view (c_post c) ca))
        && forallb (fun pi => match view_parent (c_post c) ca (fst pi) with
                              | Some x => opt_eqb N.eqb (failure_of (p_last x)) (Some (snd pi))
                              | None => false
                              end) pis
    | None => false
    end) (c_cas c).

(** unchanged by a restart *)
Definition ok_restart (c : case) : bool :=
  match last_op (c_ops c) with
  | Some ORestart => forallb (fun ca => ca_eqb (ca_view (c_pre c) ca) (ca_view (c_post c) ca))
                             (c_cas c ++ map fst (cache (c_pre c)))
  | _ => true
  end.

(** removing a parent, child or CA removes its entries *)
Definition no_scope (s : kv) (sc : str) : bool := match kv_scope s sc with [] => true | _ => false end.
Definition ok_removed (c : case) : bool :=
  forallb (fun o =>
    match o with
    | ORemoveParent ca p =>
        negb (is_some (view_parent (c_post c) ca p)) && negb (is_some (kv_get (store (c_post c)) (scope_of ca) (parent_key p)))
    | ORemoveChild ca ch =>
        negb (is_some (view_child (c_post c) ca ch)) && negb (is_some (kv_get (store (c_post c)) (scope_of ca) (child_key ch)))
    | ORemoveCa ca | OFreshCa ca =>
        (* a CA created again under the handle of a deleted one starts with an empty status *)
        ca_eqb (ca_view (c_post c) ca) default_ca && no_scope (store (c_post c)) (scope_of ca)
    | _ => true
    end) (c_ops c).

Definition c19_ok (c : case) : bool :=
  ok_parent_result c && ok_repo_result c && ok_entitlements c && ok_published c && ok_published_failure c
  && ok_success_flag c && ok_child c
  && ok_issues c && ok_restart c && ok_removed c.

(** Indices of cases on which a predicate fails. *)
Fixpoint failing_from {A} (f : A -> bool) (i : N) (l : list A) : list N :=
  match l with
  | [] => []
  | x :: r => if f x then failing_from f (i + 1) r else i :: failing_from f (i + 1) r
  end.
Definition failing {A} (f : A -> bool) (base : N) (l : list A) : list N := failing_from f base l.
