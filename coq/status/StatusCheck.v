(** Correspondence checker and executable oracle for C19.

    One [case] is one step of a harness history on the real code: the status
    (cache as reported by [get_ca_status] for every CA, and the files of the
    "status" namespace) before the step, the operations the harness saw the
    step perform (with the outcome of every exchange as observed independently
    of the status: result of the API call, what the parent / the publication
    server held), the status after the step, and, for the oracle, the result of
    the API call, the content the publication server holds per publisher and the
    issues reported by [get_ca_issues], by the view over all CAs and by the two text reports.

    [agrees]: the model, run on the observed pre-state with the observed
    operations, ends in the observed post-state and predicts the observed result.
    [c19_ok]: the conclusions of the C19 theorems evaluated on what the
    implementation reported. No proofs here. *)
From Coq Require Import Ascii String.
From KV Require Import base.Tac status.Status.
Open Scope N_scope.

(** an issues report as observed: repository issue (error label), parent issues (parent, error label) *)
Definition obs_issues : Type := option N * list (str * N).

Record case := mkCase {
  c_pre : state;
  c_ops : list op;
  c_post : state;
  c_res : option xres;                              (* result of the API call, if the step is a synchronisation *)
  c_cas : list str;                                 (* CAs that exist after the step *)
  c_srv : list (str * list file);                   (* publisher -> files held by the publication server after the step *)
  c_issues : list (str * obs_issues);               (* get_ca_issues after the step, per CA: repo issue, parent issues *)
  c_bulk : list (str * obs_issues);                 (* the view over all CAs after the step (GET /api/v1/bulk/cas/issues):
                                                       the CAs it lists, with the issues it shows for them *)
  c_text : list (str * bool);                       (* per CA: the text report of its issues says "no issues found" *)
  c_bulk_text : bool                                (* the text report of the issues of all CAs says "no issues found" *)
}.

(** * Equality up to the orders that are arbitrary in the implementation *)
Definition xres_eqb (a b : xres) : bool :=
  match a, b with XOk, XOk => true | XFail x, XFail y => x =? y | _, _ => false end.
Definition opt_eqb {A} (eqb : A -> A -> bool) (a b : option A) : bool :=
  match a, b with None, None => true | Some x, Some y => eqb x y | _, _ => false end.
Definition file_eqb (a b : file) : bool := (f_uri a =? f_uri b) && (f_hash a =? f_hash b).
Definition count_file (f : file) (l : list file) : N := N.of_nat (length (filter (file_eqb f) l)).
(** multiset equality *)
Definition files_eqb (a b : list file) : bool :=
  (N.of_nat (length a) =? N.of_nat (length b)) && forallb (fun f => count_file f a =? count_file f b) (a ++ b).

Fixpoint list_eqb {A} (eqb : A -> A -> bool) (a b : list A) : bool :=
  match a, b with
  | [], [] => true
  | x :: a', y :: b' => eqb x y && list_eqb eqb a' b'
  | _, _ => false
  end.
Definition pairN_eqb (a b : N * N) : bool := (fst a =? fst b) && (snd a =? snd b).

Definition repo_eqb (a b : repo_st) : bool :=
  opt_eqb xres_eqb (r_last a) (r_last b) && Bool.eqb (r_succ a) (r_succ b) && files_eqb (r_pub a) (r_pub b).
(** the harness lists classes sorted by name on both sides *)
Definition parent_eqb (a b : parent_st) : bool :=
  opt_eqb xres_eqb (p_last a) (p_last b) && Bool.eqb (p_succ a) (p_succ b) && (p_all a =? p_all b)
  && list_eqb pairN_eqb (p_classes a) (p_classes b).
Definition child_eqb (a b : child_st) : bool :=
  opt_eqb xres_eqb (c_last a) (c_last b) && Bool.eqb (c_succ a) (c_succ b) && Bool.eqb (c_susp a) (c_susp b).

(** finite maps: same value (or both absent) at every key of either side *)
Definition map_eqb {V} (eqb : V -> V -> bool) (a b : list (str * V)) : bool :=
  forallb (fun k => opt_eqb eqb (aget k a) (aget k b)) (map fst a ++ map fst b).

Definition ca_eqb (a b : ca_st) : bool :=
  repo_eqb (s_repo a) (s_repo b) && map_eqb parent_eqb (s_parents a) (s_parents b)
  && map_eqb child_eqb (s_children a) (s_children b).

(** the cache is only visible through [get_ca_status]: absent = default *)
Definition cache_eqb (a b : state) : bool :=
  forallb (fun ca => ca_eqb (ca_view a ca) (ca_view b ca)) (map fst (cache a) ++ map fst (cache b)).

Definition value_eqb (a b : value) : bool :=
  match a, b with
  | VRepo x, VRepo y => repo_eqb x y
  | VParent x, VParent y => parent_eqb x y
  | VChild x, VChild y => child_eqb x y
  | VJunk, VJunk => true
  | _, _ => false
  end.
(** a scope without keys and no scope are the same thing for a listing of files *)
Definition scope_eqb (a b : kv) (sc : str) : bool := map_eqb value_eqb (kv_scope a sc) (kv_scope b sc).
Definition kv_eqb (a b : kv) : bool := forallb (scope_eqb a b) (map fst a ++ map fst b).

Definition state_eqb (a b : state) : bool := cache_eqb a b && kv_eqb (store a) (store b).

(** an observed issues report against an [issues] value of the model: same repository issue, same parent issues
    (the order of the parents is the iteration order of a hash map: compared as finite maps, no parent twice) *)
Definition obs_issues_eqb (o : obs_issues) (i : issues) : bool :=
  opt_eqb N.eqb (fst o) (i_repo i)
  && (N.of_nat (length (snd o)) =? N.of_nat (length (i_parents i)))
  && forallb (fun pe => opt_eqb N.eqb (aget (fst pe) (snd o)) (Some (snd pe))) (i_parents i)
  && forallb (fun pe => opt_eqb N.eqb (aget (fst pe) (i_parents i)) (Some (snd pe))) (snd o).

(** an observed view over all CAs against the model's: the same CAs, each once, each with the same issues *)
Definition bulk_eqb (obs : list (str * obs_issues)) (m : list (str * issues)) : bool :=
  (N.of_nat (length obs) =? N.of_nat (length m))
  && forallb (fun x => match aget (fst x) obs with Some o => obs_issues_eqb o (snd x) | None => false end) m
  && forallb (fun x => is_some (aget (fst x) m)) obs.

(** * Correspondence *)
(** Result of the API call as the model predicts it (for the last operation of a step). *)
Definition op_result (st : state) (o : op) : option xres :=
  match o with
  | ORepoSync ca w lr dr => Some (snd (repo_sync st ca w lr dr))
  | OParentSync ca p pc ch r => Some (snd (parent_sync st ca p pc ch r))
  | OChildMsg _ _ m => Some (msg_result m)
  | _ => None
  end.

Fixpoint run_res (st : state) (os : list op) : option (state * option xres) :=
  match os with
  | [] => Some (st, None)
  | [o] => match step st o with Some st' => Some (st', op_result st o) | None => None end
  | o :: r => match step st o with Some st' => run_res st' r | None => None end
  end.

Definition agrees (c : case) : bool :=
  match run_res (c_pre c) (c_ops c) with
  | Some (st', r) =>
      state_eqb st' (c_post c)
      && match c_res c with Some x => opt_eqb xres_eqb r (Some x) | None => true end
      (* the observed view over all CAs is [bulk_issues] of the modelled statuses *)
      && bulk_eqb (c_bulk c) (bulk_view st' (c_cas c))
  | None => false
  end.

(** * Oracle: the C19 statements on the reported status *)
Definition last_op (os : list op) : option op := last (map Some os) None.

Definition attempted := attempted_run.

(** failure (with its error) exactly when the attempt failed, otherwise success *)
Definition ok_parent_result (c : case) : bool :=
  match last_op (c_ops c), c_res c with
  | Some (OParentSync ca p pc ch r), Some res =>
      if attempted r then
        match view_parent (c_post c) ca p with
        | Some x => opt_eqb xres_eqb (p_last x) (Some res)
        | None => false
        end
      else true
  | _, _ => true
  end.

Definition ok_repo_result (c : case) : bool :=
  match last_op (c_ops c), c_res c with
  | Some (ORepoSync ca _ _ _), Some res => opt_eqb xres_eqb (r_last (view_repo (c_post c) ca)) (Some res)
  | _, _ => true
  end.

(** success comes with the entitlements the parent last returned *)
Definition ok_entitlements (c : case) : bool :=
  match last_op (c_ops c) with
  | Some (OParentSync ca p pc ch (RList MOk ents _)) =>
      match view_parent (c_post c) ca p with
      | Some x => list_eqb pairN_eqb (p_classes x) ents && (p_all x =? union_all ents) && p_succ x
      | None => false
      end
  | _ => true
  end.

(** after a successful synchronisation the published list is what the server holds *)
Definition ok_published (c : case) : bool :=
  match last_op (c_ops c), c_res c with
  | Some (ORepoSync ca _ _ _), Some XOk =>
      match aget ca (c_srv c) with
      | Some held => files_eqb (r_pub (view_repo (c_post c) ca)) held
      | None => false
      end
  | _, _ => true
  end.

(** a failed exchange leaves the published list alone *)
Definition ok_published_failure (c : case) : bool :=
  match c_ops c, c_res c with
  | [ORepoSync ca _ _ _], Some (XFail _) => files_eqb (r_pub (view_repo (c_post c) ca)) (r_pub (view_repo (c_pre c) ca))
  | _, _ => true
  end.

(** "a last success exists" is only ever set by a success *)
Definition ok_success_flag (c : case) : bool :=
  match c_ops c, c_res c with
  | [OParentSync ca p pc ch (RList m _ _)], Some res =>
      match view_parent (c_post c) ca p with
      | Some x => Bool.eqb (p_succ x)
                    (match view_parent (c_pre c) ca p with Some y => p_succ y | None => false end
                     || match res with XOk => true | XFail _ => false end)
      | None => false
      end
  | _, _ => true
  end.

(** the parent shows the outcome of the child's most recent request *)
(** ... its last exchange, and - whatever the outcome - no suspension marker: a child whose request was
    processed is active (the manager un-suspends it in the CA before processing) *)
Definition child_shows (c : case) (pc ch : str) (x : xres) : bool :=
  match view_child (c_post c) pc ch with
  | Some y => opt_eqb xres_eqb (c_last y) (Some x) && negb (c_susp y)
  | None => false
  end.
Definition ok_child (c : case) : bool :=
  match last_op (c_ops c) with
  | Some (OParentSync ca p pc ch r) =>
      match last_recorded (sent_messages r) with
      | Some x => child_shows c pc ch x
      | None => true
      end
  | Some (OChildMsg pc ch m) =>
      match recorded m with
      | Some x => child_shows c pc ch x
      | None => opt_eqb child_eqb (view_child (c_post c) pc ch) (view_child (c_pre c) pc ch)
      end
  | _ => true
  end.

(** the issues view of one CA reports exactly the failures of the status view: [issues_of] of the reported status
    (theorem issues_list_exactly_failures) *)
Definition ok_issues (c : case) : bool :=
  forallb (fun ca =>
    match aget ca (c_issues c) with
    | Some o => obs_issues_eqb o (issues_view (c_post c) ca)
    | None => false
    end) (c_cas c).

(** the view over all CAs lists a CA exactly when its reported status shows a failed repository exchange or a failed
    exchange with at least one parent, with exactly those failures (theorems bulk_lists_exactly_failing,
    bulk_view_lists_exactly_failing) *)
Definition ok_bulk (c : case) : bool := bulk_eqb (c_bulk c) (bulk_view (c_post c) (c_cas c)).

(** the two views agree for every CA: a CA with an empty report is not listed, every other CA is listed with the
    report the view of that CA gives; nothing else is listed (theorem bulk_agrees_with_single) *)
Definition obs_as_issues (o : obs_issues) : issues := mkI (fst o) (snd o).
Definition ok_bulk_single (c : case) : bool :=
  forallb (fun ca =>
    match aget ca (c_issues c) with
    | Some o =>
        if issues_empty (obs_as_issues o) then negb (is_some (aget ca (c_bulk c)))
        else match aget ca (c_bulk c) with Some b => obs_issues_eqb b (obs_as_issues o) | None => false end
    | None => false
    end) (c_cas c)
  && forallb (fun x => existsb (str_eqb (fst x)) (c_cas c)) (c_bulk c)
  && (N.of_nat (length (c_bulk c)) =? N.of_nat (length (filter (fun ca => is_some (aget ca (c_bulk c))) (c_cas c)))).

(** "no issues found" is said exactly when there are none: per CA (theorem text_no_issues_iff) and for all CAs
    (theorem bulk_text_no_issues_iff) *)
Definition ok_text (c : case) : bool :=
  forallb (fun ca => opt_eqb Bool.eqb (aget ca (c_text c)) (Some (says_no_issues (issues_view (c_post c) ca)))) (c_cas c)
  && Bool.eqb (c_bulk_text c) (bulk_says_no_issues (bulk_view (c_post c) (c_cas c))).

(** unchanged by a restart *)
Definition ok_restart (c : case) : bool :=
  match last_op (c_ops c) with
  | Some ORestart => forallb (fun ca => ca_eqb (ca_view (c_pre c) ca) (ca_view (c_post c) ca))
                             (c_cas c ++ map fst (cache (c_pre c)))
  | _ => true
  end.

(** removing a parent, child or CA removes its entries *)
Definition no_scope (s : kv) (sc : str) : bool := match kv_scope s sc with [] => true | _ => false end.
Definition ok_removed (c : case) : bool :=
  forallb (fun o =>
    match o with
    | ORemoveParent ca p =>
        negb (is_some (view_parent (c_post c) ca p)) && negb (is_some (kv_get (store (c_post c)) (scope_of ca) (parent_key p)))
    | ORemoveChild ca ch =>
        negb (is_some (view_child (c_post c) ca ch)) && negb (is_some (kv_get (store (c_post c)) (scope_of ca) (child_key ch)))
    | ORemoveCa ca | OFreshCa ca =>
        (* a CA created again under the handle of a deleted one starts with an empty status *)
        ca_eqb (ca_view (c_post c) ca) default_ca && no_scope (store (c_post c)) (scope_of ca)
    | _ => true
    end) (c_ops c).

Definition c19_ok (c : case) : bool :=
  ok_parent_result c && ok_repo_result c && ok_entitlements c && ok_published c && ok_published_failure c
  && ok_success_flag c && ok_child c
  && ok_issues c && ok_bulk c && ok_bulk_single c && ok_text c && ok_restart c && ok_removed c.

(** Indices of cases on which a predicate fails. *)
Fixpoint failing_from {A} (f : A -> bool) (i : N) (l : list A) : list N :=
  match l with
  | [] => []
  | x :: r => if f x then failing_from f (i + 1) r else i :: failing_from f (i + 1) r
  end.
Definition failing {A} (f : A -> bool) (base : N) (l : list A) : list N := failing_from f base l.
