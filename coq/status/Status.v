(** Model of the CA status store and of the places where the CA manager records
    the outcome of an exchange (C19).

    Rust code modelled (as it is in /repo):
    - src/server/ca/status.rs: [CaStatusStore] = an in-memory cache
      (HashMap<CaHandle, CaStatus>) that is the only thing ever read while
      running, plus a key-value store that is written on every change and read
      once, at start ([warm], 81-180). Key names 236-258, [set_*] 278-375,
      removals 317-410, generic updaters 447-526.
    - src/api/ca.rs: [ParentStatus] 1110-1178, [RepoStatus] 1184-1256 (the
      [published] list is maintained by applying the delta that was sent,
      1217-1244), [ChildStatus] 1447-1501.
    - src/commons/storage/ident.rs: [Ident::from_handle] 174-200,
      [Ident::to_handle] 205-212, [IdentBuilder::push_handle] 366-389,
      [Ident::check_bytes] 99-119; rpki-0.19.2 ca/idexchange.rs 161-171
      ([Handle::verify_name], feature "compat" is on).
    - src/commons/storage/store.rs 251-272: [drop_key] fails for a missing key,
      [keys(scope, pat)] lists the keys that *contain* [pat].
    - src/server/ca/manager.rs: repository exchange 2642-2703 and 2791-2907,
      exchange with a parent 1588-1615, 1688-1716, 1722-1794, 1913-1991,
      2272-2309, request of a child 1048-1123, removals 977-991, 1369-1392,
      681-737, views 629-674.

    Not modelled: timestamps (only "a last success exists" is kept), message
    texts of errors (an error is its label, a number), the service URI, the
    user agent, the pre-0.9.5 [status.json] migration (status.rs:188-229; the
    model assumes no such file is present), failing writes of the key-value
    store (see C08). Values read back from the store are the values written
    (serde round trip); a stored value that does not decode is [VJunk] and is
    replaced by the default value, as the [_ => X::default()] arms do.

    Strings are lists of characters. No proofs in this file. *)
From Coq Require Import Ascii String Permutation.
From KV Require Import base.Tac.
Open Scope N_scope.

(** * Strings *)
Definition str : Type := list ascii.
Definition q (x : string) : str := list_ascii_of_string x.
Arguments q x%string.

Fixpoint str_eqb (a b : str) : bool :=
  match a, b with
  | [], [] => true
  | x :: a', y :: b' => Ascii.eqb x y && str_eqb a' b'
  | _, _ => false
  end.

Fixpoint strip_prefix (pre x : str) : option str :=
  match pre with
  | [] => Some x
  | p :: pre' => match x with
                 | [] => None
                 | c :: x' => if Ascii.eqb p c then strip_prefix pre' x' else None
                 end
  end.

Definition strip_suffix (suf x : str) : option str :=
  match strip_prefix (rev suf) (rev x) with Some r => Some (rev r) | None => None end.

Definition is_some {A} (o : option A) : bool := match o with Some _ => true | None => false end.

(** [str::contains] *)
Fixpoint contains (pat x : str) : bool :=
  is_some (strip_prefix pat x) || match x with [] => false | _ :: x' => contains pat x' end.

(** * Handles and their storage names *)
Definition slash : ascii := "/"%char.
Definition backslash : ascii := "\"%char.
Definition plus : ascii := "+"%char.
Definition is_sep (c : ascii) : bool := Ascii.eqb c slash || Ascii.eqb c backslash.

Definition alnum (c : ascii) : bool :=
  let n := N_of_ascii c in
  ((48 <=? n) && (n <=? 57)) || ((65 <=? n) && (n <=? 90)) || ((97 <=? n) && (n <=? 122)).

(** rpki idexchange.rs:161-171 (compat): [-_A-Za-z0-9/\]{1,255} *)
Definition handle_char (c : ascii) : bool :=
  alnum c || Ascii.eqb c "-"%char || Ascii.eqb c "_"%char || is_sep c.
Definition valid_handle (h : str) : bool :=
  match h with [] => false | _ => true end && (N.of_nat (length h) <? 256) && forallb handle_char h.

(** [Handle::from_str] as used by [Ident::to_handle] and by [warm]. *)
Definition handle_of_str (x : str) : option str := if valid_handle x then Some x else None.

(** [push_handle] splits at '/' and '\' and joins the parts with '+';
    [from_handle] replaces '/' and '\' by '+': the same character map. *)
Definition push_handle (h : str) : str := map (fun c => if is_sep c then plus else c) h.
Definition scope_of (ca : str) : str := push_handle ca.

Definition no_sep (h : str) : bool := forallb (fun c => negb (is_sep c)) h.

Definition PARENTS : str := q "parents-".
Definition CHILDREN : str := q "children-".
Definition JSON_SUFFIX : str := q ".json".
Definition REPO_KEY : str := q "repos-main.json".

Definition parent_key (p : str) : str := PARENTS ++ push_handle p ++ JSON_SUFFIX.
Definition child_key (c : str) : str := CHILDREN ++ push_handle c ++ JSON_SUFFIX.

(** status.rs:116-123 / 146-151: strip the prefix, strip ".json", parse a handle. *)
Definition decode_key (prefix key : str) : option str :=
  match strip_prefix prefix key with
  | Some r => match strip_suffix JSON_SUFFIX r with
              | Some h => handle_of_str h
              | None => None
              end
  | None => None
  end.

(** * Status values *)
Inductive xres := XOk | XFail (e : N).

Record file := mkF { f_uri : N; f_hash : N }.
Inductive delem := DPublish (f : file) | DUpdate (f : file) | DWithdraw (uri : N).

Record repo_st := mkR { r_last : option xres; r_succ : bool; r_pub : list file }.
(** classes: (class name, resource atoms); [p_all] is the union of the class resources. *)
Record parent_st := mkP { p_last : option xres; p_succ : bool; p_all : N; p_classes : list (N * N) }.
Record child_st := mkC { c_last : option xres; c_succ : bool; c_susp : bool }.

Definition default_repo : repo_st := mkR None false [].
Definition default_parent : parent_st := mkP None false 0 [].
Definition default_child : child_st := mkC None false false.

Record ca_st := mkCa { s_repo : repo_st; s_parents : list (str * parent_st); s_children : list (str * child_st) }.
Definition default_ca : ca_st := mkCa default_repo [] [].

(** ** Finite maps keyed by strings (HashMap: [aput] = insert, overwriting) *)
Section Assoc.
  Context {V : Type}.
  Fixpoint aget (k : str) (m : list (str * V)) : option V :=
    match m with
    | [] => None
    | (k', v) :: r => if str_eqb k k' then Some v else aget k r
    end.
  Fixpoint aput (k : str) (v : V) (m : list (str * V)) : list (str * V) :=
    match m with
    | [] => [(k, v)]
    | (k', v') :: r => if str_eqb k k' then (k, v) :: r else (k', v') :: aput k v r
    end.
  Fixpoint adel (k : str) (m : list (str * V)) : list (str * V) :=
    match m with
    | [] => []
    | (k', v') :: r => if str_eqb k k' then adel k r else (k', v') :: adel k r
    end.
End Assoc.

(** ** RepoStatus (api/ca.rs:1200-1256) *)
Definition retain_not (uri : N) (l : list file) : list file := filter (fun f => negb (f_uri f =? uri)) l.

Definition apply_elem (l : list file) (d : delem) : list file :=
  match d with
  | DPublish f => l ++ [f]
  | DUpdate f => retain_not (f_uri f) l ++ [f]
  | DWithdraw u => retain_not u l
  end.
Definition apply_delta (l : list file) (d : list delem) : list file := fold_left apply_elem d l.

Definition repo_set_failure (e : N) (r : repo_st) : repo_st := mkR (Some (XFail e)) (r_succ r) (r_pub r).
Definition repo_set_last_updated (r : repo_st) : repo_st := mkR (Some XOk) true (r_pub r).
Definition repo_update_published (d : list delem) (r : repo_st) : repo_st := mkR (Some XOk) true (apply_delta (r_pub r) d).

(** ** ParentStatus (api/ca.rs:1135-1178) *)
Definition parent_set_failure (e : N) (p : parent_st) : parent_st := mkP (Some (XFail e)) (p_succ p) (p_all p) (p_classes p).
Definition parent_set_last_updated (p : parent_st) : parent_st := mkP (Some XOk) true (p_all p) (p_classes p).
Definition union_all (cl : list (N * N)) : N := fold_left (fun a c => N.lor a (snd c)) cl 0.
Definition parent_set_entitlements (cl : list (N * N)) (p : parent_st) : parent_st := mkP (Some XOk) true (union_all cl) cl.

(** ** ChildStatus (api/ca.rs:1465-1500) *)
Definition child_set_success (c : child_st) : child_st := mkC (Some XOk) true false.
Definition child_set_failure (e : N) (c : child_st) : child_st := mkC (Some (XFail e)) (c_succ c) false.
Definition child_set_suspended (c : child_st) : child_st := mkC (c_last c) (c_succ c) true.

(** * The key-value store of the "status" namespace: scope -> key -> value *)
Inductive value := VRepo (r : repo_st) | VParent (p : parent_st) | VChild (c : child_st) | VJunk.
Definition kv : Type := list (str * list (str * value)).

Definition kv_scope (s : kv) (scope : str) : list (str * value) :=
  match aget scope s with Some ks => ks | None => [] end.
Definition kv_get (s : kv) (scope key : str) : option value := aget key (kv_scope s scope).
Definition kv_store (s : kv) (scope key : str) (v : value) : kv := aput scope (aput key v (kv_scope s scope)) s.
(** store.rs:251 "Returns an error if the key does not exist": [None]. *)
Definition kv_drop_key (s : kv) (scope key : str) : option kv :=
  match kv_get s scope key with
  | Some _ => Some (aput scope (adel key (kv_scope s scope)) s)
  | None => None
  end.
Definition kv_drop_scope (s : kv) (scope : str) : kv := adel scope s.
Definition kv_keys (s : kv) (scope pat : str) : list str := filter (contains pat) (map fst (kv_scope s scope)).
Definition kv_scopes (s : kv) : list str := map fst s.

(** * The store with its cache *)
Record state := mkSt { cache : list (str * ca_st); store : kv }.
Definition init : state := mkSt [] [].

(** [get_ca_status] (status.rs:264-271): the cache only, default when absent. *)
Definition ca_view (st : state) (ca : str) : ca_st :=
  match aget ca (cache st) with Some s => s | None => default_ca end.
Definition view_repo (st : state) (ca : str) : repo_st := s_repo (ca_view st ca).
Definition view_parent (st : state) (ca p : str) : option parent_st := aget p (s_parents (ca_view st ca)).
Definition view_child (st : state) (ca c : str) : option child_st := aget c (s_children (ca_view st ca)).

(** ** The issues views.
    - [get_ca_issues] (server/ca/manager.rs:656-674): the repository issue is the failure of the last
      repository exchange ([RepoStatus::opt_failure]), the parent issues are the parents whose last
      exchange failed ([ParentStatus::opt_failure]), one entry per failing parent.
    - [CertAuthIssues::is_empty] (api/ca.rs:2034-2036): no repository issue *and* no parent issue.
    - the view over all CAs (daemon/http/dispatch/bulk.rs:47-67, [cas_issues], GET /api/v1/bulk/cas/issues):
      for every CA handle, the issues of that CA, kept only [if !issues.is_empty()].
    - the text reports ([Display] for [CertAuthIssues] and [AllCertAuthIssues], api/ca.rs:1971-1996,
      2039-2060) say "no issues found" when [is_empty()], resp. when the map is empty. *)
Definition failure_of (o : option xres) : option N := match o with Some (XFail e) => Some e | _ => None end.

Record issues := mkI { i_repo : option N; i_parents : list (str * N) }.

Definition parent_issues (ps : list (str * parent_st)) : list (str * N) :=
  flat_map (fun pe => match failure_of (p_last (snd pe)) with Some e => [(fst pe, e)] | None => [] end) ps.

Definition issues_of (s : ca_st) : issues := mkI (failure_of (r_last (s_repo s))) (parent_issues (s_parents s)).

Definition is_nil {A} (l : list A) : bool := match l with [] => true | _ => false end.

Definition issues_empty (i : issues) : bool := negb (is_some (i_repo i)) && is_nil (i_parents i).
(** the variant with [||] (a CA with only one kind of issue counts as having none): refuted in StatusProofs.v *)
Definition issues_empty_or (i : issues) : bool := negb (is_some (i_repo i)) || is_nil (i_parents i).

Definition bulk_issues_with (emp : issues -> bool) (l : list (str * ca_st)) : list (str * issues) :=
  flat_map (fun x => let i := issues_of (snd x) in if emp i then [] else [(fst x, i)]) l.
Definition bulk_issues : list (str * ca_st) -> list (str * issues) := bulk_issues_with issues_empty.

(** "no issues found" in the text report of one CA / of all CAs *)
Definition says_no_issues (i : issues) : bool := issues_empty i.
Definition bulk_says_no_issues (b : list (str * issues)) : bool := is_nil b.

(** the views of a state of the status store, for the CAs that exist *)
Definition statuses (st : state) (cas : list str) : list (str * ca_st) := map (fun ca => (ca, ca_view st ca)) cas.
Definition issues_view (st : state) (ca : str) : issues := issues_of (ca_view st ca).
Definition bulk_view (st : state) (cas : list str) : list (str * issues) := bulk_issues (statuses st cas).

(** ** Generic updaters (status.rs:447-526): insert a default CA status / entry
    when missing, apply, write the one changed value to the store. *)
Definition update_repo (st : state) (ca : str) (f : repo_st -> repo_st) : state :=
  let cs := ca_view st ca in
  let r := f (s_repo cs) in
  mkSt (aput ca (mkCa r (s_parents cs) (s_children cs)) (cache st))
       (kv_store (store st) (scope_of ca) REPO_KEY (VRepo r)).

Definition update_parent (st : state) (ca p : str) (f : parent_st -> parent_st) : state :=
  let cs := ca_view st ca in
  let x := f (match aget p (s_parents cs) with Some x => x | None => default_parent end) in
  mkSt (aput ca (mkCa (s_repo cs) (aput p x (s_parents cs)) (s_children cs)) (cache st))
       (kv_store (store st) (scope_of ca) (parent_key p) (VParent x)).

Definition update_child (st : state) (ca c : str) (f : child_st -> child_st) : state :=
  let cs := ca_view st ca in
  let x := f (match aget c (s_children cs) with Some x => x | None => default_child end) in
  mkSt (aput ca (mkCa (s_repo cs) (s_parents cs) (aput c x (s_children cs))) (cache st))
       (kv_store (store st) (scope_of ca) (child_key c) (VChild x)).

(** ** The [set_*] functions (status.rs:278-375, 413-444) *)
Definition set_repo_failure st ca e := update_repo st ca (repo_set_failure e).
Definition set_repo_success st ca := update_repo st ca repo_set_last_updated.
Definition set_repo_published st ca d := update_repo st ca (repo_update_published d).
Definition set_parent_failure st ca p e := update_parent st ca p (parent_set_failure e).
Definition set_parent_last_updated st ca p := update_parent st ca p parent_set_last_updated.
Definition set_parent_entitlements st ca p cl := update_parent st ca p (parent_set_entitlements cl).
Definition set_child_success st ca c := update_child st ca c child_set_success.
Definition set_child_failure st ca c e := update_child st ca c (child_set_failure e).
Definition set_child_suspended st ca c := update_child st ca c child_set_suspended.

(** ** Removals (status.rs:317-335, 378-397, 404-410). [None]: the key-value
    store reported an error (the entry has then already left the cache). *)
Definition remove_parent (st : state) (ca p : str) : option state :=
  match aget ca (cache st) with
  | Some cs =>
      match aget p (s_parents cs) with
      | Some _ =>
          match kv_drop_key (store st) (scope_of ca) (parent_key p) with
          | Some s' => Some (mkSt (aput ca (mkCa (s_repo cs) (adel p (s_parents cs)) (s_children cs)) (cache st)) s')
          | None => None
          end
      | None => Some st
      end
  | None => Some st
  end.

Definition remove_child (st : state) (ca c : str) : option state :=
  match aget ca (cache st) with
  | Some cs =>
      match aget c (s_children cs) with
      | Some _ =>
          match kv_drop_key (store st) (scope_of ca) (child_key c) with
          | Some s' => Some (mkSt (aput ca (mkCa (s_repo cs) (s_parents cs) (adel c (s_children cs))) (cache st)) s')
          | None => None
          end
      | None => Some st
      end
  | None => Some st
  end.

Definition remove_ca (st : state) (ca : str) : state :=
  mkSt (adel ca (cache st)) (kv_drop_scope (store st) (scope_of ca)).

(** ** Start: the cache is rebuilt from the store (status.rs:65-180) *)
Definition load_parents (s : kv) (scope : str) : list (str * parent_st) :=
  fold_left (fun acc k =>
               match decode_key PARENTS k with
               | Some p => aput p (match kv_get s scope k with Some (VParent x) => x | _ => default_parent end) acc
               | None => acc
               end) (kv_keys s scope PARENTS) [].

Definition load_children (s : kv) (scope : str) : list (str * child_st) :=
  fold_left (fun acc k =>
               match decode_key CHILDREN k with
               | Some c => aput c (match kv_get s scope k with Some (VChild x) => x | _ => default_child end) acc
               | None => acc
               end) (kv_keys s scope CHILDREN) [].

Definition load_full_status (s : kv) (ca : str) : ca_st :=
  let scope := scope_of ca in
  mkCa (match kv_get s scope REPO_KEY with Some (VRepo r) => r | _ => default_repo end)
       (load_parents s scope) (load_children s scope).

Definition warm (s : kv) : state :=
  mkSt (fold_left (fun c sc => match handle_of_str sc with
                               | Some ca => aput ca (load_full_status s ca) c
                               | None => c
                               end) (kv_scopes s) []) s.

(** A restart keeps the stored files and nothing else. *)
Definition restart (st : state) : state := warm (store st).

(** * Where outcomes are recorded: the exchanges of the CA manager *)
Inductive reply (A : Type) := ROk (a : A) | RErr (e : N).
Arguments ROk {A} a.
Arguments RErr {A} e.

(** ** Repository (manager.rs:2642-2703, 2791-2907) *)
Definition find_uri (u : N) (l : list file) : option file := find (fun f => f_uri f =? u) l.
Definition has_uri (u : N) (l : list file) : bool := existsb (fun f => f_uri f =? u) l.

(** The delta computed from the list reply [srv] and the objects the CA wants published. *)
Definition diff (wanted srv : list file) : list delem :=
  flat_map (fun sf => match find_uri (f_uri sf) wanted with
                      | Some w => if f_hash w =? f_hash sf then [] else [DUpdate w]
                      | None => [DWithdraw (f_uri sf)]
                      end) srv
  ++ map DPublish (filter (fun w => negb (has_uri (f_uri w) srv)) wanted).

(** One [ca_repo_sync]: list query, then (only if the delta is not empty) a delta query.
    [lr]: the server's answer to the list query; [dr]: its answer to the delta query. On the local
    shortcut ([send_rfc8181_and_validate_response]) every query, the list query included, is an error
    unless the server knows the publisher under the calling CA's ID key; the error is recorded by
    [send_rfc8181_list] / [send_rfc8181_delta] like any other. *)
Definition repo_sync (st : state) (ca : str) (wanted : list file) (lr : reply (list file)) (dr : xres) : state * xres :=
  match lr with
  | RErr e => (set_repo_failure st ca e, XFail e)
  | ROk srv =>
      let st1 := set_repo_success st ca in
      match diff wanted srv with
      | [] => (st1, XOk)
      | d => match dr with
             | XFail e => (set_repo_failure st1 ca e, XFail e)
             | XOk => (set_repo_published st1 ca d, XOk)
             end
      end
  end.

(** The publication server's side of a delta (RFC 8181, all or nothing; see C10):
    a publish needs a free URI, update and withdraw need the URI to be present. *)
Definition srv_apply_elem (o : option (list file)) (d : delem) : option (list file) :=
  match o with
  | None => None
  | Some l =>
      match d with
      | DPublish f => if has_uri (f_uri f) l then None else Some (l ++ [f])
      | DUpdate f => if has_uri (f_uri f) l then Some (retain_not (f_uri f) l ++ [f]) else None
      | DWithdraw u => if has_uri u l then Some (retain_not u l) else None
      end
  end.
Definition srv_apply (l : list file) (d : list delem) : option (list file) := fold_left srv_apply_elem d (Some l).

(** ** Requests of a child, processed by the (local) parent (manager.rs:1048-1123).
    What happened to one message: *)
Inductive msg :=
| MRefused (e : N)        (* refused before the request is processed: nothing recorded. On the local shortcut
                             ([send_rfc6492_and_validate_response]) the sender must be a child the parent (the TA
                             included) knows, registered with the calling CA's ID key; then, inside
                             [rfc6492_process_request], unknown child / failed unsuspend *)
| MFailed (e : N)         (* processed, failed: [set_child_failure], the child sees the error *)
| MOk                     (* processed: [set_child_success] *)
| MOkLocalFail (e : N).   (* processed fine at the parent, but the child cannot use the reply *)

Definition msg_result (m : msg) : xres :=
  match m with MOk => XOk | MRefused e | MFailed e | MOkLocalFail e => XFail e end.

Definition deliver (st : state) (pc ch : str) (m : msg) : state :=
  match m with
  | MRefused _ => st
  | MFailed e => set_child_failure st pc ch e
  | MOk | MOkLocalFail _ => set_child_success st pc ch
  end.

(** Messages are sent in order up to the first one that fails for the child. *)
Fixpoint send_all (st : state) (pc ch : str) (ms : list msg) : state * xres :=
  match ms with
  | [] => (st, XOk)
  | m :: r => let st1 := deliver st pc ch m in
              match msg_result m with
              | XOk => send_all st1 pc ch r
              | XFail e => (st1, XFail e)
              end
  end.

(** Certificate requests (manager.rs:1933-1971): per resource class, stop that class at
    its first failure, go on with the next class; returns the number of failed classes. *)
Fixpoint send_classes (st : state) (pc ch : str) (cls : list (list msg)) : state * N :=
  match cls with
  | [] => (st, 0)
  | ms :: r => let '(st1, res) := send_all st pc ch ms in
               let '(st2, n) := send_classes st1 pc ch r in
               (st2, match res with XOk => n | XFail _ => n + 1 end)
  end.

Definition E_MULTI : N := 1.   (* label "multiple-errors" *)
Definition E_SYNC : N := 2.    (* label "ca-parent-sync" *)
Definition E_LOCAL : N := 3.   (* a local command failed after the exchange *)

(** ** Exchange with a parent ([ca_sync_parent], manager.rs:1588-1615).
    [ca] calls its parent [p]; the parent is the local CA [pc] that knows the caller as [ch]. *)
Inductive sync_run :=
| RNone (res : xres)
    (* nothing sent: unknown CA or parent, no repository yet, the CA is the TA (manager.rs:1695-1706) *)
| RList (m : msg) (ents : list (N * N)) (cmd_ok : bool)
    (* no open requests: one list query (2272-2309), then the UpdateEntitlements command *)
| RRequests (revokes : list msg) (finish_ok : bool) (certs : list (list msg)).
    (* open requests: revocations (1735-1794), KeyRollFinish commands, certificate requests per class (1913-1991) *)

Definition parent_sync (st : state) (ca p pc ch : str) (r : sync_run) : state * xres :=
  match r with
  | RNone res => (st, res)
  | RList m ents cmd_ok =>
      let st1 := deliver st pc ch m in
      match msg_result m with
      | XFail e => (set_parent_failure st1 ca p e, XFail e)
      | XOk => (set_parent_entitlements st1 ca p ents, if cmd_ok then XOk else XFail E_LOCAL)
      end
  | RRequests revs fin certs =>
      let '(st1, r1) := send_all st pc ch revs in
      match r1 with
      | XFail e => (set_parent_failure st1 ca p e, XFail e)
      | XOk =>
          let st2 := set_parent_last_updated st1 ca p in
          if negb fin then (st2, XFail E_LOCAL) else
          let '(st3, n) := send_classes st2 pc ch certs in
          if n =? 0 then (set_parent_last_updated st3 ca p, XOk)
          else if n =? 1 then (set_parent_failure st3 ca p E_SYNC, XFail E_SYNC)
          else (set_parent_failure st3 ca p E_MULTI, XFail E_MULTI)
      end
  end.

(** What the exchange itself did (as opposed to the result of the API call, which also
    fails when a local command fails after a good exchange). *)
Definition all_ok (ms : list msg) : bool := forallb (fun m => match msg_result m with XOk => true | _ => false end) ms.
Definition first_failure (ms : list msg) : option N :=
  match find (fun m => match msg_result m with XOk => false | _ => true end) ms with
  | Some m => match msg_result m with XFail e => Some e | XOk => None end
  | None => None
  end.
Definition failed_classes (cls : list (list msg)) : N :=
  fold_right (fun ms n => if all_ok ms then n else n + 1) 0 cls.

Definition exchange_result (r : sync_run) : option xres :=
  match r with
  | RNone _ => None
  | RList m _ _ => Some (msg_result m)
  | RRequests revs fin certs =>
      match first_failure revs with
      | Some e => Some (XFail e)
      | None => if negb fin then Some XOk else
                let n := failed_classes certs in
                Some (if n =? 0 then XOk else if n =? 1 then XFail E_SYNC else XFail E_MULTI)
      end
  end.

(** The last message of the run that the parent processed, as the parent recorded it. *)
Definition recorded (m : msg) : option xres :=
  match m with MRefused _ => None | MFailed e => Some (XFail e) | MOk | MOkLocalFail _ => Some XOk end.
Fixpoint sent_prefix (ms : list msg) : list msg :=
  match ms with
  | [] => []
  | m :: r => m :: match msg_result m with XOk => sent_prefix r | XFail _ => [] end
  end.
Definition last_recorded (ms : list msg) : option xres :=
  fold_left (fun acc m => match recorded m with Some x => Some x | None => acc end) ms None.
Definition sent_messages (r : sync_run) : list msg :=
  match r with
  | RNone _ => []
  | RList m _ _ => [m]
  | RRequests revs fin certs =>
      sent_prefix revs ++ (if all_ok revs && fin then flat_map sent_prefix certs else [])
  end.

(** * Operations of a history *)
Inductive op :=
| ORepoSync (ca : str) (wanted : list file) (lr : reply (list file)) (dr : xres)
| OParentSync (ca p pc ch : str) (r : sync_run)
| OChildSuspended (ca c : str)                         (* manager.rs:1498-1501 *)
| ORemoveParent (ca p : str)                           (* ca_parent_remove, manager.rs:1385 *)
| ORemoveChild (ca c : str)                            (* ca_child_remove, manager.rs:984 *)
| ORevokeAll (ca p pc ch : str) (revokes : list msg)   (* send_revoke_requests (1765-1794) from delete_ca / ca_parent_remove *)
| ORemoveCa (ca : str)                                 (* delete_ca, manager.rs:734 *)
| OFreshCa (ca : str)                                  (* init_ca: the status store is not touched *)
| ORestart
| OChildMsg (pc ch : str) (m : msg).                   (* one request of a child arriving over HTTP (CaManager::rfc6492, manager.rs:997-1045) *)

Definition revoke_all (st : state) (ca p pc ch : str) (revs : list msg) : state :=
  let '(st1, r1) := send_all st pc ch revs in
  match r1 with
  | XFail e => set_parent_failure st1 ca p e
  | XOk => set_parent_last_updated st1 ca p
  end.

Definition step (st : state) (o : op) : option state :=
  match o with
  | ORepoSync ca w lr dr => Some (fst (repo_sync st ca w lr dr))
  | OParentSync ca p pc ch r => Some (fst (parent_sync st ca p pc ch r))
  | OChildSuspended ca c => Some (set_child_suspended st ca c)
  | ORemoveParent ca p => remove_parent st ca p
  | ORemoveChild ca c => remove_child st ca c
  | ORevokeAll ca p pc ch revs => Some (revoke_all st ca p pc ch revs)
  | ORemoveCa ca => Some (remove_ca st ca)
  | OFreshCa _ => Some st
  | ORestart => Some (restart st)
  | OChildMsg pc ch m => Some (deliver st pc ch m)
  end.

Fixpoint run (st : state) (os : list op) : option state :=
  match os with
  | [] => Some st
  | o :: r => match step st o with Some st' => run st' r | None => None end
  end.

(** Handles used by an operation (they are handles, so they are valid ones). *)
Definition op_handles (o : op) : list str :=
  match o with
  | ORepoSync ca _ _ _ => [ca]
  | OParentSync ca p pc ch _ => [ca; p; pc; ch]
  | OChildSuspended ca c => [ca; c]
  | ORemoveParent ca p => [ca; p]
  | ORemoveChild ca c => [ca; c]
  | ORevokeAll ca p pc ch _ => [ca; p; pc; ch]
  | ORemoveCa ca => [ca]
  | OFreshCa ca => [ca]
  | ORestart => []
  | OChildMsg pc ch _ => [pc; ch]
  end.
Definition op_valid (o : op) : bool := forallb valid_handle (op_handles o).

(** * Vocabulary of the C19 statements *)
Definition attempted_run (r : sync_run) : bool := match r with RNone _ => false | _ => true end.

Definition store_repo (s : kv) (ca : str) : repo_st :=
  match kv_get s (scope_of ca) REPO_KEY with Some (VRepo r) => r | _ => default_repo end.

Definition store_parent (s : kv) (ca p : str) : option parent_st :=
  match kv_get s (scope_of ca) (parent_key p) with
  | Some (VParent x) => Some x
  | Some _ => Some default_parent
  | None => None
  end.

Definition store_child (s : kv) (ca c : str) : option child_st :=
  match kv_get s (scope_of ca) (child_key c) with
  | Some (VChild x) => Some x
  | Some _ => Some default_child
  | None => None
  end.

Definition good (h : str) : Prop := valid_handle h = true /\ no_sep h = true.

Definition Sync (st : state) : Prop :=
  forall ca, good ca ->
    view_repo st ca = store_repo (store st) ca
    /\ (forall p, good p -> view_parent st ca p = store_parent (store st) ca p)
    /\ (forall c, good c -> view_child st ca c = store_child (store st) ca c).

Definition old_parent st ca p := match view_parent st ca p with Some x => x | None => default_parent end.

Definition old_child st ca c := match view_child st ca c with Some x => x | None => default_child end.

Definition parent_last st ca p := match view_parent st ca p with Some x => p_last x | None => None end.

Definition child_last st ca c := match view_child st ca c with Some x => c_last x | None => None end.

Definition parent_classes st ca p := match view_parent st ca p with Some x => p_classes x | None => [] end.

Definition Shadow (st : state) (ca : str) (held : list file) : Prop := Permutation (r_pub (view_repo st ca)) held.

Definition shadow_self_healing : Prop :=
  forall st ca wanted srv srv' st',
    repo_sync st ca wanted (ROk srv) XOk = (st', XOk) ->
    srv_apply srv (diff wanted srv) = Some srv' ->
    Shadow st' ca srv'.

Definition f19b_ca : str := q "b".

Definition f19b_files : list file := [mkF 1 1; mkF 2 2].

Definition f19b_state : state := fst (repo_sync init f19b_ca f19b_files (ROk []) XOk).

Definition rec_step (acc : option xres) (m : msg) : option xres := match recorded m with Some x => Some x | None => acc end.

Definition local_ok (r : sync_run) : bool :=
  match r with RNone _ => true | RList _ _ c => c | RRequests _ f _ => f end.

Definition api_result_is_status : Prop :=
  forall st ca p pc ch r st' res x,
    parent_sync st ca p pc ch r = (st', res) -> exchange_result r = Some x -> parent_last st' ca p = Some res.

Definition restart_preserves_all : Prop :=
  forall os st ca p, run init os = Some st -> forallb op_valid os = true ->
    view_parent (restart st) ca p = view_parent st ca p.

Definition f19a_ops : list op := [OParentSync (q "kid") (q "up/stream") (q "a") (q "kid") (RList MOk [(0, 3)] true)].

Definition touches_parent (ca p : str) (o : op) : bool :=
  match o with
  | OParentSync ca' p' _ _ r => str_eqb ca ca' && str_eqb p p' && attempted_run r
  | ORevokeAll ca' p' _ _ _ => str_eqb ca ca' && str_eqb p p'
  | ORemoveParent ca' p' => str_eqb ca ca' && str_eqb p p'
  | ORemoveCa ca' => str_eqb ca ca'
  | _ => false
  end.

Definition touches_repo (ca : str) (o : op) : bool :=
  match o with
  | ORepoSync ca' _ _ _ => str_eqb ca ca'
  | ORemoveCa ca' => str_eqb ca ca'
  | _ => false
  end.

Definition touches_child (pc ch : str) (o : op) : bool :=
  match o with
  | OParentSync _ _ pc' ch' r => str_eqb pc pc' && str_eqb ch ch' && attempted_run r
  | ORevokeAll _ _ pc' ch' _ => str_eqb pc pc' && str_eqb ch ch'
  | OChildSuspended ca c => str_eqb pc ca && str_eqb ch c
  | ORemoveChild ca c => str_eqb pc ca && str_eqb ch c
  | ORemoveCa ca => str_eqb pc ca
  | OChildMsg pc' ch' _ => str_eqb pc pc' && str_eqb ch ch'
  | _ => false
  end.

(** ** Vocabulary of the statements about the issues views *)
Definition repo_failed (s : ca_st) : Prop := exists e, r_last (s_repo s) = Some (XFail e).
Definition parent_failed (s : ca_st) : Prop := exists p x e, In (p, x) (s_parents s) /\ p_last x = Some (XFail e).
Definition has_failure (s : ca_st) : Prop := repo_failed s \/ parent_failed s.

(** the statement about the all-CAs view, for any emptiness test *)
Definition bulk_lists_exactly_failing_with (emp : issues -> bool) : Prop :=
  forall l ca, In ca (map fst (bulk_issues_with emp l)) <-> exists s, In (ca, s) l /\ has_failure s.

Definition f19i_ca : str := q "b".
(** the repository exchange failed last, the parent is fine *)
Definition f19i_repo_only : ca_st := mkCa (mkR (Some (XFail 7)) true []) [(q "a", mkP (Some XOk) true 3 [(0, 3)])] [].
(** the parent exchange failed last, the repository is fine *)
Definition f19i_parent_only : ca_st := mkCa (mkR (Some XOk) true []) [(q "a", mkP (Some (XFail 8)) true 3 [(0, 3)])] [].
