(** Proofs about the status model (C19). *)
From Coq Require Import Ascii String Permutation.
From KV Require Import base.Tac status.Status.
Open Scope N_scope.

(** * Strings *)
Lemma str_eqb_eq a b : str_eqb a b = true <-> a = b.
Proof.
  revert b; induction a as [|x a IH]; intros [|y b]; simpl; split; intros H; try discriminate; auto.
  - apply andb_true_iff in H as [H1 H2]. apply Ascii.eqb_eq in H1. apply IH in H2. subst; auto.
  - inv H. rewrite Ascii.eqb_refl. simpl. apply IH; auto.
Qed.
Lemma str_eqb_refl a : str_eqb a a = true.
Proof. apply str_eqb_eq; auto. Qed.
Lemma str_eqb_neq a b : a <> b -> str_eqb a b = false.
Proof. intros H. destruct (str_eqb a b) eqn:E; auto. apply str_eqb_eq in E. contradiction. Qed.
Lemma str_eqb_false a b : str_eqb a b = false -> a <> b.
Proof. intros H ->. rewrite str_eqb_refl in H. discriminate. Qed.
Lemma str_eq_dec (a b : str) : {a = b} + {a <> b}.
Proof. destruct (str_eqb a b) eqn:E; [left; apply str_eqb_eq; auto | right; apply str_eqb_false; auto]. Qed.

Ltac str_cases a b :=
  let E := fresh "E" in
  destruct (str_eq_dec a b) as [E|E];
  [ try subst; rewrite ?str_eqb_refl in * | rewrite ?(str_eqb_neq _ _ E) in *; try rewrite ?(str_eqb_neq _ _ (not_eq_sym E)) in * ].

Lemma strip_prefix_app p x : strip_prefix p (p ++ x) = Some x.
Proof. induction p; simpl; auto. rewrite Ascii.eqb_refl. auto. Qed.
Lemma strip_prefix_some p x r : strip_prefix p x = Some r -> x = p ++ r.
Proof.
  revert x; induction p as [|c p IH]; simpl; intros x H.
  - inv H; auto.
  - destruct x as [|d x]; try discriminate. destruct (Ascii.eqb c d) eqn:E; try discriminate.
    apply Ascii.eqb_eq in E. subst. f_equal. auto.
Qed.
Lemma strip_suffix_app s x : strip_suffix s (x ++ s) = Some x.
Proof. unfold strip_suffix. rewrite rev_app_distr, strip_prefix_app, rev_involutive. auto. Qed.
Lemma strip_suffix_some s x r : strip_suffix s x = Some r -> x = r ++ s.
Proof.
  unfold strip_suffix. destruct (strip_prefix (rev s) (rev x)) as [r0|] eqn:E; intros H; inv H.
  apply strip_prefix_some in E. rewrite <- (rev_involutive x), E, rev_app_distr, rev_involutive. auto.
Qed.
Lemma contains_prefix p x : contains p (p ++ x) = true.
Proof. destruct (p ++ x) eqn:E; simpl; rewrite <- E, strip_prefix_app; auto. Qed.

Lemma decode_key_some pre k h : decode_key pre k = Some h -> k = pre ++ h ++ JSON_SUFFIX /\ valid_handle h = true.
Proof.
  unfold decode_key, handle_of_str. destruct (strip_prefix pre k) as [r|] eqn:E1; try discriminate.
  destruct (strip_suffix JSON_SUFFIX r) as [h0|] eqn:E2; try discriminate.
  destruct (valid_handle h0) eqn:E3; intros H; inv H.
  apply strip_prefix_some in E1. apply strip_suffix_some in E2. subst. auto.
Qed.
Lemma decode_key_enc pre h : valid_handle h = true -> decode_key pre (pre ++ h ++ JSON_SUFFIX) = Some h.
Proof. intros H. unfold decode_key, handle_of_str. rewrite strip_prefix_app, strip_suffix_app, H. auto. Qed.

Lemma push_handle_no_sep h : no_sep h = true -> push_handle h = h.
Proof.
  induction h as [|c h IH]; simpl; auto. intros H. apply andb_true_iff in H as [H1 H2].
  destruct (is_sep c); try discriminate. rewrite IH; auto.
Qed.

Lemma plus_not_handle_char : handle_char plus = false.
Proof. reflexivity. Qed.
Lemma sep_handle_char c : is_sep c = true -> handle_char c = true.
Proof. unfold handle_char. intros ->. rewrite orb_true_r. auto. Qed.

(** The storage name of a handle is a handle only if nothing had to be replaced. *)
Lemma push_handle_is_handle a b : push_handle a = b -> forallb handle_char b = true -> a = b /\ no_sep a = true.
Proof.
  revert b; induction a as [|c a IH]; intros [|d b]; simpl; intros H Hb; try discriminate; [split; reflexivity|].
  inv H. apply andb_true_iff in Hb as [H1 H2]. destruct (is_sep c) eqn:E.
  - rewrite plus_not_handle_char in H1. discriminate.
  - destruct (IH _ eq_refl H2) as [Ha Hn]. split; [f_equal; exact Ha | simpl; exact Hn].
Qed.

Lemma valid_chars h : valid_handle h = true -> forallb handle_char h = true.
Proof. unfold valid_handle. intros H. apply andb_true_iff in H as [_ H]. auto. Qed.

Lemma scope_of_inj ca ca' : valid_handle ca = true -> scope_of ca' = ca -> ca' = ca.
Proof. intros Hv H. apply push_handle_is_handle in H; [tauto | apply valid_chars; auto]. Qed.

Lemma parent_key_inj p p' : valid_handle p = true -> no_sep p = true -> parent_key p' = parent_key p -> p' = p.
Proof.
  unfold parent_key. intros Hv Hn H. apply app_inv_head in H. apply app_inv_tail in H.
  rewrite (push_handle_no_sep p Hn) in H. apply push_handle_is_handle in H; [tauto | apply valid_chars; auto].
Qed.
Lemma child_key_inj p p' : valid_handle p = true -> no_sep p = true -> child_key p' = child_key p -> p' = p.
Proof.
  unfold child_key. intros Hv Hn H. apply app_inv_head in H. apply app_inv_tail in H.
  rewrite (push_handle_no_sep p Hn) in H. apply push_handle_is_handle in H; [tauto | apply valid_chars; auto].
Qed.

Lemma parent_key_not_repo p : parent_key p <> REPO_KEY.
Proof. unfold parent_key, REPO_KEY, PARENTS. cbn. discriminate. Qed.
Lemma child_key_not_repo p : child_key p <> REPO_KEY.
Proof. unfold child_key, REPO_KEY, CHILDREN. cbn. discriminate. Qed.
Lemma parent_key_not_child p c : parent_key p <> child_key c.
Proof. unfold parent_key, child_key, PARENTS, CHILDREN. cbn. discriminate. Qed.

Lemma parent_key_decodes p : valid_handle p = true -> no_sep p = true -> decode_key PARENTS (parent_key p) = Some p.
Proof. intros Hv Hn. unfold parent_key. rewrite push_handle_no_sep; auto. apply decode_key_enc; auto. Qed.
Lemma child_key_decodes p : valid_handle p = true -> no_sep p = true -> decode_key CHILDREN (child_key p) = Some p.
Proof. intros Hv Hn. unfold child_key. rewrite push_handle_no_sep; auto. apply decode_key_enc; auto. Qed.
Lemma decode_parent_is_key k p : decode_key PARENTS k = Some p -> no_sep p = true -> k = parent_key p.
Proof. intros H Hn. apply decode_key_some in H as [-> _]. unfold parent_key. rewrite push_handle_no_sep; auto. Qed.
Lemma decode_child_is_key k p : decode_key CHILDREN k = Some p -> no_sep p = true -> k = child_key p.
Proof. intros H Hn. apply decode_key_some in H as [-> _]. unfold child_key. rewrite push_handle_no_sep; auto. Qed.

(** * Finite maps *)
Section AssocFacts.
  Context {V : Type}.
  Implicit Types m : list (str * V).
  Lemma aget_aput_eq k v m : aget k (aput k v m) = Some v.
  Proof. induction m as [|[k' v'] m IH]; simpl; [rewrite str_eqb_refl; auto|]. str_cases k k'; simpl; rewrite ?str_eqb_refl; auto. rewrite (str_eqb_neq _ _ E). auto. Qed.
  Lemma aget_aput_neq k k' v m : k <> k' -> aget k (aput k' v m) = aget k m.
  Proof.
    intros H. induction m as [|[k2 v2] m IH]; simpl; [rewrite (str_eqb_neq _ _ H); auto|].
    destruct (str_eqb k' k2) eqn:E1; simpl.
    - apply str_eqb_eq in E1. subst. rewrite (str_eqb_neq _ _ H). auto.
    - destruct (str_eqb k k2); auto.
  Qed.
  Lemma aget_aput k k' v m : aget k (aput k' v m) = if str_eqb k k' then Some v else aget k m.
  Proof. destruct (str_eqb k k') eqn:E; [apply str_eqb_eq in E; subst; apply aget_aput_eq | apply aget_aput_neq, str_eqb_false; auto]. Qed.
  Lemma aget_adel k k' m : aget k (adel k' m) = if str_eqb k k' then None else aget k m.
  Proof.
    induction m as [|[k2 v2] m IH]; simpl; [destruct (str_eqb k k'); auto|].
    destruct (str_eqb k' k2) eqn:E1; simpl.
    - rewrite IH. apply str_eqb_eq in E1. subst. destruct (str_eqb k k2); auto.
    - rewrite IH. destruct (str_eqb k k2) eqn:E2; auto. apply str_eqb_eq in E2. subst.
      destruct (str_eqb k2 k') eqn:E3; auto. apply str_eqb_eq in E3. subst. rewrite str_eqb_refl in E1. discriminate.
  Qed.
  Lemma aget_in k m : aget k m <> None <-> In k (map fst m).
  Proof.
    induction m as [|[k' v'] m IH]; simpl; [tauto|]. destruct (str_eqb k k') eqn:E.
    - apply str_eqb_eq in E. subst. split; auto. intros _; discriminate.
    - rewrite IH. split; auto. intros [H|H]; auto. subst. rewrite str_eqb_refl in E. discriminate.
  Qed.
End AssocFacts.

(** Folding inserts over a listing: the entry of [h] comes from the one listed name that decodes to [h]. *)
Lemma fold_aput_get {V} (dec : str -> option str) (val : str -> str -> V) (h k0 : str) :
  dec k0 = Some h -> (forall x, dec x = Some h -> x = k0) ->
  forall l acc,
  aget h (fold_left (fun a x => match dec x with Some h' => aput h' (val x h') a | None => a end) l acc)
  = if existsb (str_eqb k0) l then Some (val k0 h) else aget h acc.
Proof.
  intros Hk0 Huniq. induction l as [|x l IH]; intros acc; simpl; auto.
  rewrite IH. destruct (existsb (str_eqb k0) l) eqn:El; [rewrite orb_true_r; auto|]. rewrite orb_false_r.
  destruct (str_eqb k0 x) eqn:E.
  - apply str_eqb_eq in E. subst. rewrite Hk0. apply aget_aput_eq.
  - destruct (dec x) as [h'|] eqn:Ed; auto. rewrite aget_aput. destruct (str_eqb h h') eqn:E2; auto.
    apply str_eqb_eq in E2. subst. apply Huniq in Ed. subst. rewrite str_eqb_refl in E. discriminate.
Qed.

Lemma existsb_str_in k l : existsb (str_eqb k) l = true <-> In k l.
Proof.
  rewrite existsb_exists. split.
  - intros [x [H1 H2]]. apply str_eqb_eq in H2. subst; auto.
  - intros H. exists k. rewrite str_eqb_refl. auto.
Qed.

(** * The key-value store *)
Lemma kv_scope_store s sc k v sc' :
  kv_scope (kv_store s sc k v) sc' = if str_eqb sc' sc then aput k v (kv_scope s sc) else kv_scope s sc'.
Proof. unfold kv_scope, kv_store. rewrite aget_aput. destruct (str_eqb sc' sc); auto. Qed.

Lemma kv_get_store s sc k v sc' k' :
  kv_get (kv_store s sc k v) sc' k' = if str_eqb sc' sc && str_eqb k' k then Some v else kv_get s sc' k'.
Proof.
  unfold kv_get. rewrite kv_scope_store. destruct (str_eqb sc' sc) eqn:E; simpl; auto.
  rewrite aget_aput. apply str_eqb_eq in E. subst. auto.
Qed.

Lemma kv_get_drop_key s sc k s' sc' k' :
  kv_drop_key s sc k = Some s' ->
  kv_get s' sc' k' = if str_eqb sc' sc && str_eqb k' k then None else kv_get s sc' k'.
Proof.
  unfold kv_drop_key. destruct (kv_get s sc k); intros H; inv H.
  unfold kv_get, kv_scope at 1. rewrite aget_aput. destruct (str_eqb sc' sc) eqn:E; simpl; auto.
  rewrite aget_adel. apply str_eqb_eq in E. subst. auto.
Qed.

Lemma kv_get_drop_scope s sc sc' k' :
  kv_get (kv_drop_scope s sc) sc' k' = if str_eqb sc' sc then None else kv_get s sc' k'.
Proof. unfold kv_get, kv_scope, kv_drop_scope. rewrite aget_adel. destruct (str_eqb sc' sc); auto. Qed.

(** * Views of the store (what [warm] would load) *)


Lemma good_scope h : good h -> scope_of h = h.
Proof. intros [_ H]. apply push_handle_no_sep; auto. Qed.

(** ** [warm] loads exactly the store views, for handles without '/' and '\' *)
Lemma load_parents_get s sc p : good p ->
  aget p (load_parents s sc) = match kv_get s sc (parent_key p) with
                               | Some (VParent x) => Some x | Some _ => Some default_parent | None => None end.
Proof.
  intros [Hv Hn]. unfold load_parents.
  rewrite (fold_aput_get (decode_key PARENTS)
             (fun k _ => match kv_get s sc k with Some (VParent x) => x | _ => default_parent end) p (parent_key p)).
  - cbv beta. destruct (existsb (str_eqb (parent_key p)) (kv_keys s sc PARENTS)) eqn:E.
    + apply existsb_str_in in E. unfold kv_keys in E. apply filter_In in E as [E _].
      apply aget_in in E. unfold kv_get. destruct (aget (parent_key p) (kv_scope s sc)) as [[]|]; auto; congruence.
    + unfold kv_get. destruct (aget (parent_key p) (kv_scope s sc)) eqn:E2; auto.
      assert (In (parent_key p) (kv_keys s sc PARENTS)).
      { unfold kv_keys. apply filter_In. split; [apply aget_in; rewrite E2; discriminate | apply contains_prefix]. }
      apply existsb_str_in in H. rewrite H in E. discriminate.
  - apply parent_key_decodes; auto.
  - intros x Hx. apply decode_parent_is_key; auto.
Qed.

Lemma load_children_get s sc p : good p ->
  aget p (load_children s sc) = match kv_get s sc (child_key p) with
                                | Some (VChild x) => Some x | Some _ => Some default_child | None => None end.
Proof.
  intros [Hv Hn]. unfold load_children.
  rewrite (fold_aput_get (decode_key CHILDREN)
             (fun k _ => match kv_get s sc k with Some (VChild x) => x | _ => default_child end) p (child_key p)).
  - cbv beta. destruct (existsb (str_eqb (child_key p)) (kv_keys s sc CHILDREN)) eqn:E.
    + apply existsb_str_in in E. unfold kv_keys in E. apply filter_In in E as [E _].
      apply aget_in in E. unfold kv_get. destruct (aget (child_key p) (kv_scope s sc)) as [[]|]; auto; congruence.
    + unfold kv_get. destruct (aget (child_key p) (kv_scope s sc)) eqn:E2; auto.
      assert (In (child_key p) (kv_keys s sc CHILDREN)).
      { unfold kv_keys. apply filter_In. split; [apply aget_in; rewrite E2; discriminate | apply contains_prefix]. }
      apply existsb_str_in in H. rewrite H in E. discriminate.
  - apply child_key_decodes; auto.
  - intros x Hx. apply decode_child_is_key; auto.
Qed.

Lemma warm_cache s ca : good ca ->
  aget ca (cache (warm s)) = if existsb (str_eqb ca) (kv_scopes s) then Some (load_full_status s ca) else None.
Proof.
  intros [Hv Hn]. unfold warm. simpl.
  rewrite (fold_aput_get handle_of_str (fun _ h => load_full_status s h) ca ca); auto.
  - unfold handle_of_str. rewrite Hv. auto.
  - intros x. unfold handle_of_str. destruct (valid_handle x); intros H; inv H; auto.
Qed.

Lemma kv_get_no_scope s sc k : existsb (str_eqb sc) (kv_scopes s) = false -> kv_get s sc k = None.
Proof.
  intros H. unfold kv_get, kv_scope. destruct (aget sc s) eqn:E; auto.
  assert (In sc (kv_scopes s)) by (apply aget_in; rewrite E; discriminate).
  apply existsb_str_in in H0. rewrite H0 in H. discriminate.
Qed.

Lemma warm_view_repo s ca : good ca -> view_repo (warm s) ca = store_repo s ca.
Proof.
  intros H. unfold view_repo, ca_view, store_repo. rewrite warm_cache; auto. rewrite (good_scope _ H).
  destruct (existsb (str_eqb ca) (kv_scopes s)) eqn:E; simpl.
  - rewrite (good_scope _ H). auto.
  - rewrite kv_get_no_scope; auto.
Qed.
Lemma warm_view_parent s ca p : good ca -> good p -> view_parent (warm s) ca p = store_parent s ca p.
Proof.
  intros H Hp. unfold view_parent, ca_view, store_parent. rewrite warm_cache; auto. rewrite (good_scope _ H).
  destruct (existsb (str_eqb ca) (kv_scopes s)) eqn:E; simpl.
  - rewrite (good_scope _ H). apply load_parents_get; auto.
  - rewrite kv_get_no_scope; auto.
Qed.
Lemma warm_view_child s ca p : good ca -> good p -> view_child (warm s) ca p = store_child s ca p.
Proof.
  intros H Hp. unfold view_child, ca_view, store_child. rewrite warm_cache; auto. rewrite (good_scope _ H).
  destruct (existsb (str_eqb ca) (kv_scopes s)) eqn:E; simpl.
  - rewrite (good_scope _ H). apply load_children_get; auto.
  - rewrite kv_get_no_scope; auto.
Qed.

(** * The invariant: what the cache shows is what the files say (for handles without '/', '\') *)

Lemma sync_warm s : Sync (warm s).
Proof.
  intros ca H. repeat split; intros.
  - apply warm_view_repo; auto.
  - apply warm_view_parent; auto.
  - apply warm_view_child; auto.
Qed.

Lemma sync_init : Sync init.
Proof. intros ca H. repeat split; intros; reflexivity. Qed.

Theorem restart_preserves st : Sync st -> forall ca, good ca ->
  view_repo (restart st) ca = view_repo st ca
  /\ (forall p, good p -> view_parent (restart st) ca p = view_parent st ca p)
  /\ (forall c, good c -> view_child (restart st) ca c = view_child st ca c).
Proof.
  intros HS ca H. destruct (HS ca H) as [H1 [H2 H3]]. unfold restart. repeat split; intros.
  - rewrite warm_view_repo, H1; auto.
  - rewrite warm_view_parent, H2; auto.
  - rewrite warm_view_child, H3; auto.
Qed.

Lemma sync_restart st : Sync (restart st).
Proof. apply sync_warm. Qed.

(** ** Effect of the updaters on the cache *)
Lemma ca_view_update_repo st ca f ca' :
  ca_view (update_repo st ca f) ca' =
  if str_eqb ca' ca then mkCa (f (s_repo (ca_view st ca))) (s_parents (ca_view st ca)) (s_children (ca_view st ca))
  else ca_view st ca'.
Proof. unfold ca_view at 1, update_repo. simpl. rewrite aget_aput. destruct (str_eqb ca' ca); auto. Qed.


Lemma ca_view_update_parent st ca p f ca' :
  ca_view (update_parent st ca p f) ca' =
  if str_eqb ca' ca then mkCa (s_repo (ca_view st ca)) (aput p (f (old_parent st ca p)) (s_parents (ca_view st ca))) (s_children (ca_view st ca))
  else ca_view st ca'.
Proof. unfold ca_view at 1, update_parent. simpl. rewrite aget_aput. destruct (str_eqb ca' ca); auto. Qed.

Lemma ca_view_update_child st ca c f ca' :
  ca_view (update_child st ca c f) ca' =
  if str_eqb ca' ca then mkCa (s_repo (ca_view st ca)) (s_parents (ca_view st ca)) (aput c (f (old_child st ca c)) (s_children (ca_view st ca)))
  else ca_view st ca'.
Proof. unfold ca_view at 1, update_child. simpl. rewrite aget_aput. destruct (str_eqb ca' ca); auto. Qed.

(** views after an update *)
Lemma view_repo_update_repo st ca f ca' :
  view_repo (update_repo st ca f) ca' = if str_eqb ca' ca then f (view_repo st ca) else view_repo st ca'.
Proof. unfold view_repo. rewrite ca_view_update_repo. destruct (str_eqb ca' ca); auto. Qed.
Lemma view_parent_update_repo st ca f ca' p : view_parent (update_repo st ca f) ca' p = view_parent st ca' p.
Proof. unfold view_parent. rewrite ca_view_update_repo. destruct (str_eqb ca' ca) eqn:E; auto. apply str_eqb_eq in E. subst; auto. Qed.
Lemma view_child_update_repo st ca f ca' c : view_child (update_repo st ca f) ca' c = view_child st ca' c.
Proof. unfold view_child. rewrite ca_view_update_repo. destruct (str_eqb ca' ca) eqn:E; auto. apply str_eqb_eq in E. subst; auto. Qed.

Lemma view_repo_update_parent st ca p f ca' : view_repo (update_parent st ca p f) ca' = view_repo st ca'.
Proof. unfold view_repo. rewrite ca_view_update_parent. destruct (str_eqb ca' ca) eqn:E; auto. apply str_eqb_eq in E. subst; auto. Qed.
Lemma view_parent_update_parent st ca p f ca' p' :
  view_parent (update_parent st ca p f) ca' p' =
  if str_eqb ca' ca && str_eqb p' p then Some (f (old_parent st ca p)) else view_parent st ca' p'.
Proof.
  unfold view_parent at 1. rewrite ca_view_update_parent. destruct (str_eqb ca' ca) eqn:E; simpl; auto.
  rewrite aget_aput. apply str_eqb_eq in E. subst. auto.
Qed.
Lemma view_child_update_parent st ca p f ca' c : view_child (update_parent st ca p f) ca' c = view_child st ca' c.
Proof. unfold view_child. rewrite ca_view_update_parent. destruct (str_eqb ca' ca) eqn:E; auto. apply str_eqb_eq in E. subst; auto. Qed.

Lemma view_repo_update_child st ca c f ca' : view_repo (update_child st ca c f) ca' = view_repo st ca'.
Proof. unfold view_repo. rewrite ca_view_update_child. destruct (str_eqb ca' ca) eqn:E; auto. apply str_eqb_eq in E. subst; auto. Qed.
Lemma view_parent_update_child st ca c f ca' p : view_parent (update_child st ca c f) ca' p = view_parent st ca' p.
Proof. unfold view_parent. rewrite ca_view_update_child. destruct (str_eqb ca' ca) eqn:E; auto. apply str_eqb_eq in E. subst; auto. Qed.
Lemma view_child_update_child st ca c f ca' c' :
  view_child (update_child st ca c f) ca' c' =
  if str_eqb ca' ca && str_eqb c' c then Some (f (old_child st ca c)) else view_child st ca' c'.
Proof.
  unfold view_child at 1. rewrite ca_view_update_child. destruct (str_eqb ca' ca) eqn:E; simpl; auto.
  rewrite aget_aput. apply str_eqb_eq in E. subst. auto.
Qed.

(** ** Effect of the updaters on the files *)
Lemma scope_eqb_good ca' ca : good ca' -> str_eqb (scope_of ca') (scope_of ca) = str_eqb ca' ca.
Proof.
  intros Hg. rewrite (good_scope _ Hg). destruct (str_eq_dec ca' ca) as [->|E].
  - rewrite (good_scope _ Hg). rewrite !str_eqb_refl. auto.
  - rewrite (str_eqb_neq _ _ E). apply str_eqb_neq. intros H. symmetry in H. apply scope_of_inj in H; [congruence | apply Hg].
Qed.
Lemma parent_key_eqb_good p' p : good p' -> str_eqb (parent_key p') (parent_key p) = str_eqb p' p.
Proof.
  intros [Hv Hn]. destruct (str_eq_dec p' p) as [->|E]; [rewrite !str_eqb_refl; auto|].
  rewrite (str_eqb_neq _ _ E). apply str_eqb_neq. intros H. symmetry in H. apply parent_key_inj in H; auto.
Qed.
Lemma child_key_eqb_good p' p : good p' -> str_eqb (child_key p') (child_key p) = str_eqb p' p.
Proof.
  intros [Hv Hn]. destruct (str_eq_dec p' p) as [->|E]; [rewrite !str_eqb_refl; auto|].
  rewrite (str_eqb_neq _ _ E). apply str_eqb_neq. intros H. symmetry in H. apply child_key_inj in H; auto.
Qed.

Lemma keq_pr p : str_eqb (parent_key p) REPO_KEY = false. Proof. apply str_eqb_neq, parent_key_not_repo. Qed.
Lemma keq_rp p : str_eqb REPO_KEY (parent_key p) = false. Proof. apply str_eqb_neq, not_eq_sym, parent_key_not_repo. Qed.
Lemma keq_cr p : str_eqb (child_key p) REPO_KEY = false. Proof. apply str_eqb_neq, child_key_not_repo. Qed.
Lemma keq_rc p : str_eqb REPO_KEY (child_key p) = false. Proof. apply str_eqb_neq, not_eq_sym, child_key_not_repo. Qed.
Lemma keq_pc p c : str_eqb (parent_key p) (child_key c) = false. Proof. apply str_eqb_neq, parent_key_not_child. Qed.
Lemma keq_cp p c : str_eqb (child_key c) (parent_key p) = false. Proof. apply str_eqb_neq, not_eq_sym, parent_key_not_child. Qed.

Ltac keys := rewrite ?kv_get_store, ?scope_eqb_good, ?parent_key_eqb_good, ?child_key_eqb_good,
                     ?keq_pr, ?keq_rp, ?keq_cr, ?keq_rc, ?keq_pc, ?keq_cp, ?str_eqb_refl, ?andb_false_r, ?andb_true_r by assumption.

Lemma sync_update_repo st ca f : Sync st -> Sync (update_repo st ca f).
Proof.
  intros HS ca' Hg. destruct (HS ca' Hg) as [H1 [H2 H3]]. split; [|split].
  - rewrite view_repo_update_repo. unfold store_repo, update_repo; simpl. keys.
    destruct (str_eqb ca' ca) eqn:E; auto.
  - intros p Hp. rewrite view_parent_update_repo. unfold store_parent, update_repo; simpl. keys. apply H2; auto.
  - intros c Hc. rewrite view_child_update_repo. unfold store_child, update_repo; simpl. keys. apply H3; auto.
Qed.

Lemma sync_update_parent st ca p f : Sync st -> Sync (update_parent st ca p f).
Proof.
  intros HS ca' Hg. destruct (HS ca' Hg) as [H1 [H2 H3]]. split; [|split].
  - rewrite view_repo_update_parent. unfold store_repo, update_parent; simpl. keys. apply H1.
  - intros p' Hp. rewrite view_parent_update_parent. unfold store_parent, update_parent; simpl. keys.
    destruct (str_eqb ca' ca && str_eqb p' p) eqn:E; auto. apply H2; auto.
  - intros c Hc. rewrite view_child_update_parent. unfold store_child, update_parent; simpl. keys. apply H3; auto.
Qed.

Lemma sync_update_child st ca c f : Sync st -> Sync (update_child st ca c f).
Proof.
  intros HS ca' Hg. destruct (HS ca' Hg) as [H1 [H2 H3]]. split; [|split].
  - rewrite view_repo_update_child. unfold store_repo, update_child; simpl. keys. apply H1.
  - intros p' Hp. rewrite view_parent_update_child. unfold store_parent, update_child; simpl. keys. apply H2; auto.
  - intros c' Hc. rewrite view_child_update_child. unfold store_child, update_child; simpl. keys.
    destruct (str_eqb ca' ca && str_eqb c' c) eqn:E; auto. apply H3; auto.
Qed.

(** ** Removals *)
Lemma ca_view_remove_ca st ca ca' : ca_view (remove_ca st ca) ca' = if str_eqb ca' ca then default_ca else ca_view st ca'.
Proof. unfold ca_view, remove_ca. simpl. rewrite aget_adel. destruct (str_eqb ca' ca); auto. Qed.

Lemma sync_remove_ca st ca : Sync st -> Sync (remove_ca st ca).
Proof.
  intros HS ca' Hg. destruct (HS ca' Hg) as [H1 [H2 H3]].
  unfold view_repo, view_parent, view_child, store_repo, store_parent, store_child in *.
  rewrite ca_view_remove_ca. unfold remove_ca; simpl.
  split; [|split]; intros; rewrite kv_get_drop_scope, scope_eqb_good by assumption;
    destruct (str_eqb ca' ca); auto.
Qed.

Theorem remove_ca_removes st ca :
  ca_view (remove_ca st ca) ca = default_ca /\ (forall k, kv_get (store (remove_ca st ca)) (scope_of ca) k = None).
Proof.
  split; [rewrite ca_view_remove_ca, str_eqb_refl; auto|].
  intros k. unfold remove_ca; simpl. rewrite kv_get_drop_scope, str_eqb_refl. auto.
Qed.

Lemma ca_view_cache st ca cs : aget ca (cache st) = Some cs -> ca_view st ca = cs.
Proof. unfold ca_view. intros ->. auto. Qed.

Lemma store_parent_none s ca p : store_parent s ca p = None -> kv_get s (scope_of ca) (parent_key p) = None.
Proof. unfold store_parent. destruct (kv_get s (scope_of ca) (parent_key p)) as [[]|]; auto; discriminate. Qed.
Lemma store_child_none s ca c : store_child s ca c = None -> kv_get s (scope_of ca) (child_key c) = None.
Proof. unfold store_child. destruct (kv_get s (scope_of ca) (child_key c)) as [[]|]; auto; discriminate. Qed.

Lemma remove_parent_spec st ca p : Sync st -> good ca -> good p ->
  exists st', remove_parent st ca p = Some st'
    /\ view_parent st' ca p = None
    /\ kv_get (store st') (scope_of ca) (parent_key p) = None
    /\ (forall ca' p', (ca', p') <> (ca, p) -> view_parent st' ca' p' = view_parent st ca' p')
    /\ (forall ca', view_repo st' ca' = view_repo st ca')
    /\ (forall ca' c, view_child st' ca' c = view_child st ca' c)
    /\ Sync st'.
Proof.
  intros HS Hca Hp. destruct (HS ca Hca) as [_ [H2 _]]. specialize (H2 p Hp).
  unfold remove_parent. destruct (aget ca (cache st)) as [cs|] eqn:Ec.
  2:{ exists st. assert (Hv : view_parent st ca p = None) by (unfold view_parent, ca_view; rewrite Ec; auto).
      split; [reflexivity|]. split; [exact Hv|]. split; [apply store_parent_none; rewrite <- H2; exact Hv|].
      split; [auto|]. split; [auto|]. split; [auto|]. exact HS. }
  pose proof (ca_view_cache _ _ _ Ec) as Hcv.
  destruct (aget p (s_parents cs)) as [x|] eqn:Ep.
  2:{ exists st. assert (Hv : view_parent st ca p = None) by (unfold view_parent; rewrite Hcv; auto).
      split; [reflexivity|]. split; [exact Hv|]. split; [apply store_parent_none; rewrite <- H2; exact Hv|].
      split; [auto|]. split; [auto|]. split; [auto|]. exact HS. }
  assert (Hv : view_parent st ca p = Some x) by (unfold view_parent; rewrite Hcv; auto).
  rewrite Hv in H2. unfold store_parent in H2.
  destruct (kv_drop_key (store st) (scope_of ca) (parent_key p)) as [s'|] eqn:Ed.
  2:{ unfold kv_drop_key in Ed. destruct (kv_get (store st) (scope_of ca) (parent_key p)); discriminate. }
  eexists. split; [reflexivity|].
  assert (Hcv' : forall ca', ca_view {| cache := aput ca (mkCa (s_repo cs) (adel p (s_parents cs)) (s_children cs)) (cache st); store := s' |} ca'
                 = if str_eqb ca' ca then mkCa (s_repo cs) (adel p (s_parents cs)) (s_children cs) else ca_view st ca').
  { intros ca'. unfold ca_view; simpl. rewrite aget_aput. destruct (str_eqb ca' ca); auto. }
  assert (Hvp : forall ca' p', view_parent {| cache := aput ca (mkCa (s_repo cs) (adel p (s_parents cs)) (s_children cs)) (cache st); store := s' |} ca' p'
                = if str_eqb ca' ca && str_eqb p' p then None else view_parent st ca' p').
  { intros ca' p'. unfold view_parent. rewrite Hcv'. destruct (str_eqb ca' ca) eqn:E; simpl; auto.
    apply str_eqb_eq in E. rewrite E, aget_adel, Hcv. auto. }
  assert (Hvr : forall ca', view_repo {| cache := aput ca (mkCa (s_repo cs) (adel p (s_parents cs)) (s_children cs)) (cache st); store := s' |} ca' = view_repo st ca').
  { intros ca'. unfold view_repo. rewrite Hcv'. destruct (str_eqb ca' ca) eqn:E; simpl; auto. apply str_eqb_eq in E. rewrite E, Hcv. auto. }
  assert (Hvc : forall ca' c, view_child {| cache := aput ca (mkCa (s_repo cs) (adel p (s_parents cs)) (s_children cs)) (cache st); store := s' |} ca' c = view_child st ca' c).
  { intros ca' c. unfold view_child. rewrite Hcv'. destruct (str_eqb ca' ca) eqn:E; simpl; auto. apply str_eqb_eq in E. rewrite E, Hcv. auto. }
  split; [rewrite Hvp, !str_eqb_refl; auto|].
  split; [simpl; rewrite (kv_get_drop_key _ _ _ _ _ _ Ed), !str_eqb_refl; auto|].
  split; [intros ca' p' Hne; rewrite Hvp; destruct (str_eqb ca' ca) eqn:E1; simpl; auto;
          destruct (str_eqb p' p) eqn:E2; auto; apply str_eqb_eq in E1, E2; subst; congruence|].
  split; [auto|]. split; [auto|].
  intros ca' Hg. destruct (HS ca' Hg) as [G1 [G2 G3]]. split; [|split].
  - rewrite Hvr. unfold store_repo; simpl. rewrite (kv_get_drop_key _ _ _ _ _ _ Ed). keys. apply G1.
  - intros p' Hp'. rewrite Hvp. unfold store_parent; simpl. rewrite (kv_get_drop_key _ _ _ _ _ _ Ed). keys.
    destruct (str_eqb ca' ca && str_eqb p' p); auto. apply G2; auto.
  - intros c Hc. rewrite Hvc. unfold store_child; simpl. rewrite (kv_get_drop_key _ _ _ _ _ _ Ed). keys. apply G3; auto.
Qed.

Lemma remove_child_spec st ca c : Sync st -> good ca -> good c ->
  exists st', remove_child st ca c = Some st'
    /\ view_child st' ca c = None
    /\ kv_get (store st') (scope_of ca) (child_key c) = None
    /\ (forall ca' c', (ca', c') <> (ca, c) -> view_child st' ca' c' = view_child st ca' c')
    /\ (forall ca', view_repo st' ca' = view_repo st ca')
    /\ (forall ca' p, view_parent st' ca' p = view_parent st ca' p)
    /\ Sync st'.
Proof.
  intros HS Hca Hp. destruct (HS ca Hca) as [_ [_ H2]]. specialize (H2 c Hp).
  unfold remove_child. destruct (aget ca (cache st)) as [cs|] eqn:Ec.
  2:{ exists st. assert (Hv : view_child st ca c = None) by (unfold view_child, ca_view; rewrite Ec; auto).
      split; [reflexivity|]. split; [exact Hv|]. split; [apply store_child_none; rewrite <- H2; exact Hv|].
      split; [auto|]. split; [auto|]. split; [auto|]. exact HS. }
  pose proof (ca_view_cache _ _ _ Ec) as Hcv.
  destruct (aget c (s_children cs)) as [x|] eqn:Ep.
  2:{ exists st. assert (Hv : view_child st ca c = None) by (unfold view_child; rewrite Hcv; auto).
      split; [reflexivity|]. split; [exact Hv|]. split; [apply store_child_none; rewrite <- H2; exact Hv|].
      split; [auto|]. split; [auto|]. split; [auto|]. exact HS. }
  assert (Hv : view_child st ca c = Some x) by (unfold view_child; rewrite Hcv; auto).
  rewrite Hv in H2. unfold store_child in H2.
  destruct (kv_drop_key (store st) (scope_of ca) (child_key c)) as [s'|] eqn:Ed.
  2:{ unfold kv_drop_key in Ed. destruct (kv_get (store st) (scope_of ca) (child_key c)); discriminate. }
  eexists. split; [reflexivity|].
  assert (Hcv' : forall ca', ca_view {| cache := aput ca (mkCa (s_repo cs) (s_parents cs) (adel c (s_children cs))) (cache st); store := s' |} ca'
                 = if str_eqb ca' ca then mkCa (s_repo cs) (s_parents cs) (adel c (s_children cs)) else ca_view st ca').
  { intros ca'. unfold ca_view; simpl. rewrite aget_aput. destruct (str_eqb ca' ca); auto. }
  assert (Hvp : forall ca' c', view_child {| cache := aput ca (mkCa (s_repo cs) (s_parents cs) (adel c (s_children cs))) (cache st); store := s' |} ca' c'
                = if str_eqb ca' ca && str_eqb c' c then None else view_child st ca' c').
  { intros ca' c'. unfold view_child. rewrite Hcv'. destruct (str_eqb ca' ca) eqn:E; simpl; auto.
    apply str_eqb_eq in E. rewrite E, aget_adel, Hcv. auto. }
  assert (Hvr : forall ca', view_repo {| cache := aput ca (mkCa (s_repo cs) (s_parents cs) (adel c (s_children cs))) (cache st); store := s' |} ca' = view_repo st ca').
  { intros ca'. unfold view_repo. rewrite Hcv'. destruct (str_eqb ca' ca) eqn:E; simpl; auto. apply str_eqb_eq in E. rewrite E, Hcv. auto. }
  assert (Hvc : forall ca' p, view_parent {| cache := aput ca (mkCa (s_repo cs) (s_parents cs) (adel c (s_children cs))) (cache st); store := s' |} ca' p = view_parent st ca' p).
  { intros ca' p. unfold view_parent. rewrite Hcv'. destruct (str_eqb ca' ca) eqn:E; simpl; auto. apply str_eqb_eq in E. rewrite E, Hcv. auto. }
  split; [rewrite Hvp, !str_eqb_refl; auto|].
  split; [simpl; rewrite (kv_get_drop_key _ _ _ _ _ _ Ed), !str_eqb_refl; auto|].
  split; [intros ca' c' Hne; rewrite Hvp; destruct (str_eqb ca' ca) eqn:E1; simpl; auto;
          destruct (str_eqb c' c) eqn:E2; auto; apply str_eqb_eq in E1, E2; subst; congruence|].
  split; [auto|]. split; [auto|].
  intros ca' Hg. destruct (HS ca' Hg) as [G1 [G2 G3]]. split; [|split].
  - rewrite Hvr. unfold store_repo; simpl. rewrite (kv_get_drop_key _ _ _ _ _ _ Ed). keys. apply G1.
  - intros p' Hp'. rewrite Hvc. unfold store_parent; simpl. rewrite (kv_get_drop_key _ _ _ _ _ _ Ed). keys. apply G2; auto.
  - intros c' Hc. rewrite Hvp. unfold store_child; simpl. rewrite (kv_get_drop_key _ _ _ _ _ _ Ed). keys.
    destruct (str_eqb ca' ca && str_eqb c' c); auto. apply G3; auto.
Qed.

(** * Exchanges *)
Ltac splits := repeat match goal with |- _ /\ _ => split end.

(** ** Repository *)
Theorem repo_status_is_last_exchange st ca w lr dr st' res :
  repo_sync st ca w lr dr = (st', res) -> r_last (view_repo st' ca) = Some res.
Proof.
  unfold repo_sync, set_repo_failure, set_repo_success, set_repo_published.
  destruct lr as [srv|e]; [destruct (diff w srv); [|destruct dr]|]; intros H; inv H;
    rewrite !view_repo_update_repo, !str_eqb_refl; reflexivity.
Qed.

Lemma sync_repo_sync st ca w lr dr : Sync st -> Sync (fst (repo_sync st ca w lr dr)).
Proof.
  intros HS. unfold repo_sync, set_repo_failure, set_repo_success, set_repo_published.
  destruct lr as [srv|e]; [destruct (diff w srv); [|destruct dr]|]; simpl; repeat apply sync_update_repo; auto.
Qed.

Lemma repo_sync_published st ca w srv st' :
  repo_sync st ca w (ROk srv) XOk = (st', XOk) ->
  r_pub (view_repo st' ca) = apply_delta (r_pub (view_repo st ca)) (diff w srv).
Proof.
  unfold repo_sync, set_repo_success, set_repo_published. destruct (diff w srv) eqn:E; intros H; inv H;
    rewrite !view_repo_update_repo, !str_eqb_refl; reflexivity.
Qed.

Lemma retain_not_perm u a b : Permutation a b -> Permutation (retain_not u a) (retain_not u b).
Proof.
  unfold retain_not. induction 1; simpl; auto.
  - destruct (negb (f_uri x =? u)); auto.
  - destruct (negb (f_uri x =? u)), (negb (f_uri y =? u)); auto. apply perm_swap.
  - eapply perm_trans; eauto.
Qed.

Lemma apply_elem_perm a b d : Permutation a b -> Permutation (apply_elem a d) (apply_elem b d).
Proof.
  intros H. destruct d; simpl.
  - apply Permutation_app_tail; auto.
  - apply Permutation_app_tail, retain_not_perm; auto.
  - apply retain_not_perm; auto.
Qed.

Lemma apply_delta_perm d : forall a b, Permutation a b -> Permutation (apply_delta a d) (apply_delta b d).
Proof. unfold apply_delta. induction d as [|x d IH]; simpl; auto. intros a b H. apply IH, apply_elem_perm; auto. Qed.

Lemma srv_apply_none d : fold_left srv_apply_elem d None = None.
Proof. induction d; simpl; auto. Qed.

Lemma srv_apply_is_apply_delta d : forall l l', srv_apply l d = Some l' -> l' = apply_delta l d.
Proof.
  unfold srv_apply, apply_delta. induction d as [|x d IH]; simpl; intros l l' H; [inv H; auto|].
  destruct x; simpl in H.
  - destruct (has_uri (f_uri f) l); [rewrite srv_apply_none in H; discriminate | apply IH in H; auto].
  - destruct (has_uri (f_uri f) l); [apply IH in H; auto | rewrite srv_apply_none in H; discriminate].
  - destruct (has_uri uri l); [apply IH in H; auto | rewrite srv_apply_none in H; discriminate].
Qed.

(** [Shadow]: the published list is, as a multiset, what the server holds for the CA. *)

Theorem published_equals_server_after_success st ca wanted srv srv' st' :
  Shadow st ca srv ->
  repo_sync st ca wanted (ROk srv) XOk = (st', XOk) ->
  srv_apply srv (diff wanted srv) = Some srv' ->
  Shadow st' ca srv'.
Proof.
  unfold Shadow. intros HS H1 H2. rewrite (repo_sync_published _ _ _ _ _ H1).
  apply srv_apply_is_apply_delta in H2. subst. apply apply_delta_perm; auto.
Qed.

(** A failed exchange leaves the list alone. *)
Theorem published_unchanged_by_failure st ca w lr dr st' e :
  repo_sync st ca w lr dr = (st', XFail e) -> r_pub (view_repo st' ca) = r_pub (view_repo st ca).
Proof.
  unfold repo_sync, set_repo_failure, set_repo_success, set_repo_published.
  destruct lr as [srv|e']; [destruct (diff w srv); [|destruct dr]|]; intros H; inv H;
    rewrite !view_repo_update_repo, !str_eqb_refl; reflexivity.
Qed.

(** The full statement - after a successful exchange the list equals the server's content, whatever
    the list was before - is false: the list is never rebuilt from the list reply. *)

(** after a successful exchange the CA's list is [x; y]; the publisher is removed and added again,
    the server now holds nothing *)

Theorem shadow_not_self_healing_refuted : ~ shadow_self_healing.
Proof.
  intros H.
  specialize (H f19b_state f19b_ca f19b_files [] f19b_files
                (fst (repo_sync f19b_state f19b_ca f19b_files (ROk []) XOk)) eq_refl eq_refl).
  unfold Shadow in H. apply Permutation_length in H. vm_compute in H. discriminate.
Qed.

(** the doubled entries of the witness *)
Example f19b_doubled :
  r_pub (view_repo (fst (repo_sync f19b_state f19b_ca f19b_files (ROk []) XOk)) f19b_ca)
  = [mkF 1 1; mkF 2 2; mkF 1 1; mkF 2 2].
Proof. vm_compute. reflexivity. Qed.

(** ** Requests of a child *)

Lemma rec_fold_acc ms : forall acc, fold_left rec_step ms acc = match last_recorded ms with Some x => Some x | None => acc end.
Proof.
  unfold last_recorded. fold rec_step. induction ms as [|m ms IH]; intros acc; simpl; auto.
  rewrite IH. rewrite (IH (rec_step None m)). destruct (fold_left rec_step ms None) eqn:E.
  - destruct (fold_left rec_step ms (rec_step None m)); auto.
  - unfold rec_step. destruct (recorded m); auto.
Qed.

Lemma deliver_child_last st pc ch m : child_last (deliver st pc ch m) pc ch = rec_step (child_last st pc ch) m.
Proof.
  unfold child_last, rec_step. destruct m; simpl; auto;
    unfold set_child_failure, set_child_success; rewrite view_child_update_child, !str_eqb_refl; reflexivity.
Qed.
Lemma deliver_view_parent st pc ch m ca p : view_parent (deliver st pc ch m) ca p = view_parent st ca p.
Proof. destruct m; simpl; auto; apply view_parent_update_child. Qed.
Lemma deliver_view_repo st pc ch m ca : view_repo (deliver st pc ch m) ca = view_repo st ca.
Proof. destruct m; simpl; auto; apply view_repo_update_child. Qed.
Lemma deliver_sync st pc ch m : Sync st -> Sync (deliver st pc ch m).
Proof. destruct m; simpl; auto; apply sync_update_child. Qed.
Lemma deliver_view_child_other st pc ch m ca c : (ca, c) <> (pc, ch) -> view_child (deliver st pc ch m) ca c = view_child st ca c.
Proof.
  intros H. destruct m; simpl; auto; unfold set_child_failure, set_child_success; rewrite view_child_update_child;
    destruct (str_eqb ca pc) eqn:E1; simpl; auto; destruct (str_eqb c ch) eqn:E2; auto;
    apply str_eqb_eq in E1, E2; subst; congruence.
Qed.

Lemma first_failure_cons m r : first_failure (m :: r) = match msg_result m with XOk => first_failure r | XFail e => Some e end.
Proof. unfold first_failure. simpl. destruct (msg_result m) eqn:E; simpl; auto. rewrite E. auto. Qed.
Lemma all_ok_first_failure ms : all_ok ms = true <-> first_failure ms = None.
Proof.
  induction ms as [|m r IH]; [split; auto|]. rewrite first_failure_cons. unfold all_ok in *. simpl.
  destruct (msg_result m); simpl; [auto | split; discriminate].
Qed.

Lemma send_all_spec pc ch ms : forall st st1 r1,
  send_all st pc ch ms = (st1, r1) ->
  r1 = (match first_failure ms with Some e => XFail e | None => XOk end)
  /\ child_last st1 pc ch = fold_left rec_step (sent_prefix ms) (child_last st pc ch)
  /\ (forall ca p, view_parent st1 ca p = view_parent st ca p)
  /\ (forall ca, view_repo st1 ca = view_repo st ca)
  /\ (forall ca c, (ca, c) <> (pc, ch) -> view_child st1 ca c = view_child st ca c)
  /\ (Sync st -> Sync st1).
Proof.
  induction ms as [|m r IH]; intros st st1 r1 H; simpl in H.
  - inv H. splits; auto.
  - rewrite first_failure_cons. simpl. destruct (msg_result m) eqn:Em.
    + apply IH in H as [H1 [H2 [H3 [H4 [H5 H6]]]]]. split; [auto|]. split; [rewrite H2, deliver_child_last; auto|].
      split; [intros; rewrite H3; apply deliver_view_parent|]. split; [intros; rewrite H4; apply deliver_view_repo|].
      split; [intros; rewrite H5 by auto; apply deliver_view_child_other; auto|]. intros HS. apply H6, deliver_sync; auto.
    + inv H. split; [auto|]. split; [simpl; rewrite deliver_child_last; auto|].
      split; [intros; apply deliver_view_parent|]. split; [intros; apply deliver_view_repo|].
      split; [intros; apply deliver_view_child_other; auto|]. apply deliver_sync.
Qed.

Lemma failed_classes_cons ms r : failed_classes (ms :: r) = if all_ok ms then failed_classes r else failed_classes r + 1.
Proof. reflexivity. Qed.

Lemma send_classes_spec pc ch cls : forall st st1 n,
  send_classes st pc ch cls = (st1, n) ->
  n = failed_classes cls
  /\ child_last st1 pc ch = fold_left rec_step (flat_map sent_prefix cls) (child_last st pc ch)
  /\ (forall ca p, view_parent st1 ca p = view_parent st ca p)
  /\ (forall ca, view_repo st1 ca = view_repo st ca)
  /\ (forall ca c, (ca, c) <> (pc, ch) -> view_child st1 ca c = view_child st ca c)
  /\ (Sync st -> Sync st1).
Proof.
  induction cls as [|ms r IH]; intros st st1 n H; simpl in H.
  - inv H. splits; auto.
  - destruct (send_all st pc ch ms) as [sa ra] eqn:Ea. destruct (send_classes sa pc ch r) as [sb nb] eqn:Eb. inv H.
    apply send_all_spec in Ea as [A1 [A2 [A3 [A4 [A5 A6]]]]]. apply IH in Eb as [B1 [B2 [B3 [B4 [B5 B6]]]]].
    split.
    { rewrite failed_classes_cons. subst nb. destruct (first_failure ms) eqn:Ef.
      - assert (all_ok ms = false) by (destruct (all_ok ms) eqn:X; auto; apply all_ok_first_failure in X; congruence).
        rewrite H. subst ra. auto.
      - apply all_ok_first_failure in Ef. rewrite Ef. subst ra. auto. }
    split; [simpl; rewrite fold_left_app, B2, A2; auto|].
    split; [intros; rewrite B3; auto|]. split; [intros; rewrite B4; auto|].
    split; [intros; rewrite B5, A5; auto|]. auto.
Qed.

Lemma set_parent_child_last st ca p f pc ch : child_last (update_parent st ca p f) pc ch = child_last st pc ch.
Proof. unfold child_last. rewrite view_child_update_parent. auto. Qed.

Lemma update_parent_last st ca p f : parent_last (update_parent st ca p f) ca p = p_last (f (old_parent st ca p)).
Proof. unfold parent_last. rewrite view_parent_update_parent, !str_eqb_refl. reflexivity. Qed.

(** ** Exchange with a parent *)

Theorem parent_status_is_last_exchange st ca p pc ch r st' res x :
  parent_sync st ca p pc ch r = (st', res) -> exchange_result r = Some x ->
  parent_last st' ca p = Some x /\ (local_ok r = true -> res = x).
Proof.
  unfold parent_sync, exchange_result, set_parent_failure, set_parent_entitlements, set_parent_last_updated.
  destruct r as [r0|m ents c|revs fin certs].
  - discriminate.
  - destruct (msg_result m) eqn:Em; intros H Hx; inv H; inv Hx; rewrite update_parent_last; simpl; split; auto.
    intros ->; auto.
  - destruct (send_all st pc ch revs) as [st1 r1] eqn:Ea. apply send_all_spec in Ea as [A1 _].
    destruct (first_failure revs) eqn:Ef; subst r1.
    + intros H Hx; inv H; inv Hx. rewrite update_parent_last. simpl. auto.
    + destruct fin; simpl.
      * destruct (send_classes (update_parent st1 ca p parent_set_last_updated) pc ch certs) as [st3 n] eqn:Eb.
        apply send_classes_spec in Eb as [B1 _]. subst n.
        destruct (failed_classes certs =? 0); [|destruct (failed_classes certs =? 1)];
          intros H Hx; inv H; inv Hx; rewrite update_parent_last; simpl; auto.
      * intros H Hx; inv H; inv Hx. rewrite update_parent_last. simpl. split; auto. discriminate.
Qed.

(** The result of the API call is not always the result of the exchange: a local command that fails after
    a good exchange makes the call fail while the status says success (not reproduced on the real code). *)
Theorem api_result_is_status_refuted : ~ api_result_is_status.
Proof.
  intros H. specialize (H init (q "b") (q "a") (q "a") (q "b") (RList MOk [] false) _ _ _ eq_refl eq_refl).
  vm_compute in H. discriminate.
Qed.

Theorem entitlements_are_last_returned st ca p pc ch ents c st' res :
  parent_sync st ca p pc ch (RList MOk ents c) = (st', res) ->
  exists x, view_parent st' ca p = Some x /\ p_classes x = ents /\ p_all x = union_all ents /\ p_last x = Some XOk /\ p_succ x = true.
Proof.
  unfold parent_sync, set_parent_entitlements. simpl. intros H. inv H.
  rewrite view_parent_update_parent, !str_eqb_refl. simpl. eexists. split; [reflexivity|]. simpl. auto.
Qed.

(** Any other outcome keeps the entitlements that were last returned. *)
Theorem entitlements_kept_otherwise st ca p pc ch r st' res :
  parent_sync st ca p pc ch r = (st', res) ->
  (forall ents c, r <> RList MOk ents c) ->
  parent_classes st' ca p = parent_classes st ca p.
Proof.
  unfold parent_sync, set_parent_failure, set_parent_entitlements, set_parent_last_updated.
  assert (K1 : forall s e, parent_classes (update_parent s ca p (parent_set_failure e)) ca p = parent_classes s ca p).
  { intros. unfold parent_classes. rewrite view_parent_update_parent, !str_eqb_refl. simpl. unfold old_parent. destruct (view_parent s ca p); auto. }
  assert (K2 : forall s, parent_classes (update_parent s ca p parent_set_last_updated) ca p = parent_classes s ca p).
  { intros. unfold parent_classes. rewrite view_parent_update_parent, !str_eqb_refl. simpl. unfold old_parent. destruct (view_parent s ca p); auto. }
  destruct r as [r0|m ents c|revs fin certs]; intros H Hne.
  - inv H. auto.
  - destruct (msg_result m) eqn:Em; inv H.
    + destruct m; try discriminate. exfalso. eapply Hne; eauto.
    + rewrite K1. unfold parent_classes. rewrite deliver_view_parent. auto.
  - destruct (send_all st pc ch revs) as [st1 r1] eqn:Ea. apply send_all_spec in Ea as [_ [_ [A3 _]]].
    assert (P1 : parent_classes st1 ca p = parent_classes st ca p) by (unfold parent_classes; rewrite A3; auto).
    destruct r1.
    + destruct fin; simpl in H.
      * destruct (send_classes (update_parent st1 ca p parent_set_last_updated) pc ch certs) as [st3 n] eqn:Eb.
        apply send_classes_spec in Eb as [_ [_ [B3 _]]].
        assert (P3 : parent_classes st3 ca p = parent_classes st ca p) by (unfold parent_classes; rewrite B3; fold (parent_classes (update_parent st1 ca p parent_set_last_updated) ca p); rewrite K2; auto).
        destruct (n =? 0); [|destruct (n =? 1)]; inv H; rewrite ?K1, ?K2; auto.
      * inv H. rewrite K2. auto.
    + inv H. rewrite K1. auto.
Qed.

Theorem child_status_is_last_request st ca p pc ch r st' res x :
  parent_sync st ca p pc ch r = (st', res) ->
  last_recorded (sent_messages r) = Some x ->
  child_last st' pc ch = Some x.
Proof.
  unfold parent_sync, sent_messages, set_parent_failure, set_parent_entitlements, set_parent_last_updated.
  destruct r as [r0|m ents c|revs fin certs]; intros H Hx.
  - discriminate.
  - assert (child_last (deliver st pc ch m) pc ch = Some x).
    { rewrite deliver_child_last. unfold last_recorded in Hx. simpl in Hx. unfold rec_step.
      destruct (recorded m); [auto | discriminate]. }
    destruct (msg_result m); inv H; rewrite set_parent_child_last; auto.
  - destruct (send_all st pc ch revs) as [st1 r1] eqn:Ea. apply send_all_spec in Ea as [A1 [A2 _]].
    rewrite rec_fold_acc in A2.
    destruct (first_failure revs) eqn:Ef; subst r1.
    + assert (all_ok revs = false) by (destruct (all_ok revs) eqn:X; auto; apply all_ok_first_failure in X; congruence).
      rewrite H0 in Hx. simpl in Hx. rewrite app_nil_r in Hx. rewrite Hx in A2.
      inv H. rewrite set_parent_child_last. auto.
    + apply all_ok_first_failure in Ef. rewrite Ef in Hx. destruct fin; simpl in *.
      * destruct (send_classes (update_parent st1 ca p parent_set_last_updated) pc ch certs) as [st3 n] eqn:Eb.
        apply send_classes_spec in Eb as [_ [B2 _]]. rewrite set_parent_child_last, rec_fold_acc in B2.
        assert (child_last st3 pc ch = Some x).
        { rewrite B2. unfold last_recorded in Hx. rewrite fold_left_app in Hx. fold rec_step in Hx.
          rewrite rec_fold_acc in Hx. destruct (last_recorded (flat_map sent_prefix certs)); auto.
          rewrite A2. unfold last_recorded. fold rec_step. rewrite Hx. auto. }
        destruct (n =? 0); [|destruct (n =? 1)]; inv H; rewrite set_parent_child_last; auto.
      * rewrite app_nil_r in Hx. rewrite Hx in A2. inv H. rewrite set_parent_child_last. auto.
Qed.

(** * The invariant is kept by every operation, whatever the handles look like *)
Lemma remove_parent_gen st ca p st' : remove_parent st ca p = Some st' ->
  (forall ca' p', view_parent st' ca' p' = if str_eqb ca' ca && str_eqb p' p then None else view_parent st ca' p')
  /\ (forall ca', view_repo st' ca' = view_repo st ca')
  /\ (forall ca' c, view_child st' ca' c = view_child st ca' c)
  /\ ((store st' = store st /\ view_parent st ca p = None)
      \/ kv_drop_key (store st) (scope_of ca) (parent_key p) = Some (store st')).
Proof.
  unfold remove_parent. destruct (aget ca (cache st)) as [cs|] eqn:Ec.
  2:{ assert (Hv : view_parent st ca p = None) by (unfold view_parent, ca_view; rewrite Ec; auto). intros H; inv H.
      splits; auto. intros ca' p'. destruct (str_eqb ca' ca) eqn:E1; simpl; auto. destruct (str_eqb p' p) eqn:E2; auto.
      apply str_eqb_eq in E1, E2. subst. auto. }
  pose proof (ca_view_cache _ _ _ Ec) as Hcv.
  destruct (aget p (s_parents cs)) as [x|] eqn:Ep.
  2:{ assert (Hv : view_parent st ca p = None) by (unfold view_parent; rewrite Hcv; auto). intros H; inv H.
      splits; auto. intros ca' p'. destruct (str_eqb ca' ca) eqn:E1; simpl; auto. destruct (str_eqb p' p) eqn:E2; auto.
      apply str_eqb_eq in E1, E2. subst. auto. }
  destruct (kv_drop_key (store st) (scope_of ca) (parent_key p)) as [s'|] eqn:Ed; intros H; [injection H as H; subst st' | discriminate].
  assert (Hcv' : forall ca', ca_view {| cache := aput ca (mkCa (s_repo cs) (adel p (s_parents cs)) (s_children cs)) (cache st); store := s' |} ca'
                 = if str_eqb ca' ca then mkCa (s_repo cs) (adel p (s_parents cs)) (s_children cs) else ca_view st ca').
  { intros ca'. unfold ca_view; simpl. rewrite aget_aput. destruct (str_eqb ca' ca); auto. }
  splits.
  - intros ca' p'. unfold view_parent. rewrite Hcv'. destruct (str_eqb ca' ca) eqn:E; simpl; auto.
    apply str_eqb_eq in E. rewrite E, aget_adel, Hcv. auto.
  - intros ca'. unfold view_repo. rewrite Hcv'. destruct (str_eqb ca' ca) eqn:E; simpl; auto. apply str_eqb_eq in E. rewrite E, Hcv. auto.
  - intros ca' c. unfold view_child. rewrite Hcv'. destruct (str_eqb ca' ca) eqn:E; simpl; auto. apply str_eqb_eq in E. rewrite E, Hcv. auto.
  - right. auto.
Qed.

Lemma sync_remove_parent st ca p st' : Sync st -> remove_parent st ca p = Some st' -> Sync st'.
Proof.
  intros HS H. apply remove_parent_gen in H as [V1 [V2 [V3 V4]]].
  intros ca' Hg. destruct (HS ca' Hg) as [G1 [G2 G3]]. destruct V4 as [[Vs Vn]|Vd].
  - rewrite Vs. splits.
    + rewrite V2. auto.
    + intros p' Hp'. rewrite V1. destruct (str_eqb ca' ca) eqn:E1; simpl; auto. destruct (str_eqb p' p) eqn:E2; auto.
      apply str_eqb_eq in E1, E2. subst. rewrite <- G2, Vn; auto.
    + intros c Hc. rewrite V3. auto.
  - splits.
    + rewrite V2. unfold store_repo. rewrite (kv_get_drop_key _ _ _ _ _ _ Vd). keys. apply G1.
    + intros p' Hp'. rewrite V1. unfold store_parent. rewrite (kv_get_drop_key _ _ _ _ _ _ Vd). keys.
      destruct (str_eqb ca' ca && str_eqb p' p); auto. apply G2; auto.
    + intros c Hc. rewrite V3. unfold store_child. rewrite (kv_get_drop_key _ _ _ _ _ _ Vd). keys. apply G3; auto.
Qed.

Lemma remove_child_gen st ca c st' : remove_child st ca c = Some st' ->
  (forall ca' c', view_child st' ca' c' = if str_eqb ca' ca && str_eqb c' c then None else view_child st ca' c')
  /\ (forall ca', view_repo st' ca' = view_repo st ca')
  /\ (forall ca' p, view_parent st' ca' p = view_parent st ca' p)
  /\ ((store st' = store st /\ view_child st ca c = None)
      \/ kv_drop_key (store st) (scope_of ca) (child_key c) = Some (store st')).
Proof.
  unfold remove_child. destruct (aget ca (cache st)) as [cs|] eqn:Ec.
  2:{ assert (Hv : view_child st ca c = None) by (unfold view_child, ca_view; rewrite Ec; auto). intros H; inv H.
      splits; auto. intros ca' c'. destruct (str_eqb ca' ca) eqn:E1; simpl; auto. destruct (str_eqb c' c) eqn:E2; auto.
      apply str_eqb_eq in E1, E2. subst. auto. }
  pose proof (ca_view_cache _ _ _ Ec) as Hcv.
  destruct (aget c (s_children cs)) as [x|] eqn:Ep.
  2:{ assert (Hv : view_child st ca c = None) by (unfold view_child; rewrite Hcv; auto). intros H; inv H.
      splits; auto. intros ca' c'. destruct (str_eqb ca' ca) eqn:E1; simpl; auto. destruct (str_eqb c' c) eqn:E2; auto.
      apply str_eqb_eq in E1, E2. subst. auto. }
  destruct (kv_drop_key (store st) (scope_of ca) (child_key c)) as [s'|] eqn:Ed; intros H; [injection H as H; subst st' | discriminate].
  assert (Hcv' : forall ca', ca_view {| cache := aput ca (mkCa (s_repo cs) (s_parents cs) (adel c (s_children cs))) (cache st); store := s' |} ca'
                 = if str_eqb ca' ca then mkCa (s_repo cs) (s_parents cs) (adel c (s_children cs)) else ca_view st ca').
  { intros ca'. unfold ca_view; simpl. rewrite aget_aput. destruct (str_eqb ca' ca); auto. }
  splits.
  - intros ca' c'. unfold view_child. rewrite Hcv'. destruct (str_eqb ca' ca) eqn:E; simpl; auto.
    apply str_eqb_eq in E. rewrite E, aget_adel, Hcv. auto.
  - intros ca'. unfold view_repo. rewrite Hcv'. destruct (str_eqb ca' ca) eqn:E; simpl; auto. apply str_eqb_eq in E. rewrite E, Hcv. auto.
  - intros ca' p. unfold view_parent. rewrite Hcv'. destruct (str_eqb ca' ca) eqn:E; simpl; auto. apply str_eqb_eq in E. rewrite E, Hcv. auto.
  - right. auto.
Qed.

Lemma sync_remove_child st ca c st' : Sync st -> remove_child st ca c = Some st' -> Sync st'.
Proof.
  intros HS H. apply remove_child_gen in H as [V1 [V2 [V3 V4]]].
  intros ca' Hg. destruct (HS ca' Hg) as [G1 [G2 G3]]. destruct V4 as [[Vs Vn]|Vd].
  - rewrite Vs. splits.
    + rewrite V2. auto.
    + intros p' Hp'. rewrite V3. auto.
    + intros c' Hc. rewrite V1. destruct (str_eqb ca' ca) eqn:E1; simpl; auto. destruct (str_eqb c' c) eqn:E2; auto.
      apply str_eqb_eq in E1, E2. subst. rewrite <- G3, Vn; auto.
  - splits.
    + rewrite V2. unfold store_repo. rewrite (kv_get_drop_key _ _ _ _ _ _ Vd). keys. apply G1.
    + intros p' Hp'. rewrite V3. unfold store_parent. rewrite (kv_get_drop_key _ _ _ _ _ _ Vd). keys. apply G2; auto.
    + intros c' Hc. rewrite V1. unfold store_child. rewrite (kv_get_drop_key _ _ _ _ _ _ Vd). keys.
      destruct (str_eqb ca' ca && str_eqb c' c); auto. apply G3; auto.
Qed.

Lemma sync_parent_sync st ca p pc ch r : Sync st -> Sync (fst (parent_sync st ca p pc ch r)).
Proof.
  intros HS. unfold parent_sync, set_parent_failure, set_parent_entitlements, set_parent_last_updated.
  destruct r as [r0|m ents c|revs fin certs]; simpl; auto.
  - destruct (msg_result m); simpl; apply sync_update_parent, deliver_sync; auto.
  - destruct (send_all st pc ch revs) as [st1 r1] eqn:Ea. apply send_all_spec in Ea as [_ [_ [_ [_ [_ A6]]]]].
    destruct r1; simpl; [|apply sync_update_parent; auto].
    destruct fin; simpl; [|apply sync_update_parent; auto].
    destruct (send_classes (update_parent st1 ca p parent_set_last_updated) pc ch certs) as [st3 n] eqn:Eb.
    apply send_classes_spec in Eb as [_ [_ [_ [_ [_ B6]]]]].
    destruct (n =? 0); [|destruct (n =? 1)]; simpl; apply sync_update_parent, B6, sync_update_parent; auto.
Qed.

Lemma sync_revoke_all st ca p pc ch revs : Sync st -> Sync (revoke_all st ca p pc ch revs).
Proof.
  intros HS. unfold revoke_all, set_parent_failure, set_parent_last_updated.
  destruct (send_all st pc ch revs) as [st1 r1] eqn:Ea. apply send_all_spec in Ea as [_ [_ [_ [_ [_ A6]]]]].
  destruct r1; apply sync_update_parent; auto.
Qed.

Theorem sync_step st o st' : Sync st -> step st o = Some st' -> Sync st'.
Proof.
  intros HS. destruct o; simpl; intros H; try (inv H).
  - apply sync_repo_sync; auto.
  - apply sync_parent_sync; auto.
  - apply sync_update_child; auto.
  - eapply sync_remove_parent; eauto.
  - eapply sync_remove_child; eauto.
  - apply sync_revoke_all; auto.
  - apply sync_remove_ca; auto.
  - auto.
  - apply sync_restart.
  - apply deliver_sync; auto.
Qed.

Theorem sync_run os : forall st st', Sync st -> run st os = Some st' -> Sync st'.
Proof.
  induction os as [|o r IH]; simpl; intros st st' HS H; [inv H; auto|].
  destruct (step st o) eqn:E; [|discriminate]. eapply IH; [|eauto]. eapply sync_step; eauto.
Qed.

(** A restart at any point of any history from the empty store changes no entry whose handles are free of '/' and '\'. *)
Theorem restart_preserves_in_histories os st ca : run init os = Some st -> good ca ->
  view_repo (restart st) ca = view_repo st ca
  /\ (forall p, good p -> view_parent (restart st) ca p = view_parent st ca p)
  /\ (forall c, good c -> view_child (restart st) ca c = view_child st ca c).
Proof. intros H Hg. apply restart_preserves; auto. eapply sync_run; eauto. apply sync_init. Qed.

(** The full statement (every entry survives a restart) is false: F19a. *)


Theorem restart_loses_slash_handles_refuted : ~ restart_preserves_all.
Proof.
  intros H. specialize (H f19a_ops (fst (parent_sync init (q "kid") (q "up/stream") (q "a") (q "kid") (RList MOk [(0, 3)] true)))
                          (q "kid") (q "up/stream") eq_refl eq_refl).
  vm_compute in H. discriminate.
Qed.

(** what the witness looks like: the file is there, under a name that is not a handle *)
Example f19a_file_kept :
  let st := fst (parent_sync init (q "kid") (q "up/stream") (q "a") (q "kid") (RList MOk [(0, 3)] true)) in
  kv_get (store (restart st)) (q "kid") (q "parents-up+stream.json") = Some (VParent (mkP (Some XOk) true 3 [(0, 3)]))
  /\ view_parent (restart st) (q "kid") (q "up/stream") = None
  /\ view_parent st (q "kid") (q "up/stream") = Some (mkP (Some XOk) true 3 [(0, 3)]).
Proof. vm_compute. auto. Qed.

(** * Removal removes *)
Theorem removal_removes st :
  Sync st ->
  (forall ca p, good ca -> good p ->
     exists st', remove_parent st ca p = Some st' /\ view_parent st' ca p = None
                 /\ kv_get (store st') (scope_of ca) (parent_key p) = None /\ Sync st')
  /\ (forall ca c, good ca -> good c ->
     exists st', remove_child st ca c = Some st' /\ view_child st' ca c = None
                 /\ kv_get (store st') (scope_of ca) (child_key c) = None /\ Sync st')
  /\ (forall ca, ca_view (remove_ca st ca) ca = default_ca
                 /\ (forall k, kv_get (store (remove_ca st ca)) (scope_of ca) k = None)
                 /\ Sync (remove_ca st ca)).
Proof.
  intros HS. splits.
  - intros ca p Hca Hp. destruct (remove_parent_spec st ca p HS Hca Hp) as [st' [A [B [C [_ [_ [_ D]]]]]]]. eauto 6.
  - intros ca c Hca Hc. destruct (remove_child_spec st ca c HS Hca Hc) as [st' [A [B [C [_ [_ [_ D]]]]]]]. eauto 6.
  - intros ca. destruct (remove_ca_removes st ca). splits; auto. apply sync_remove_ca; auto.
Qed.

(** Removal of one entry leaves every other entry alone. *)
Theorem removal_frame st ca p st' : remove_parent st ca p = Some st' ->
  (forall ca' p', (ca', p') <> (ca, p) -> view_parent st' ca' p' = view_parent st ca' p')
  /\ (forall ca', view_repo st' ca' = view_repo st ca') /\ (forall ca' c, view_child st' ca' c = view_child st ca' c).
Proof.
  intros H. apply remove_parent_gen in H as [V1 [V2 [V3 _]]]. splits; auto.
  intros ca' p' Hne. rewrite V1. destruct (str_eqb ca' ca) eqn:E1; simpl; auto. destruct (str_eqb p' p) eqn:E2; auto.
  apply str_eqb_eq in E1, E2. subst. congruence.
Qed.

(** * Histories: the status is that of the most recent attempt *)
(** Operations that concern the entry of parent [p] of CA [ca]. *)

Lemma upd_parent_other st ca' p' f ca p :
  str_eqb ca ca' && str_eqb p p' = false -> view_parent (update_parent st ca' p' f) ca p = view_parent st ca p.
Proof. intros H. rewrite view_parent_update_parent, H. auto. Qed.

Lemma parent_sync_frame st ca' p' pc ch r ca p :
  str_eqb ca ca' && str_eqb p p' && attempted_run r = false ->
  view_parent (fst (parent_sync st ca' p' pc ch r)) ca p = view_parent st ca p.
Proof.
  unfold parent_sync, set_parent_failure, set_parent_entitlements, set_parent_last_updated.
  destruct r as [r0|m ents c|revs fin certs]; simpl; auto; rewrite andb_true_r; intros Hne.
  - destruct (msg_result m); simpl; rewrite upd_parent_other by auto; apply deliver_view_parent.
  - destruct (send_all st pc ch revs) as [st1 r1] eqn:Ea. apply send_all_spec in Ea as [_ [_ [A3 _]]].
    destruct r1; simpl; [|rewrite upd_parent_other by auto; auto].
    destruct fin; simpl; [|rewrite upd_parent_other by auto; auto].
    destruct (send_classes (update_parent st1 ca' p' parent_set_last_updated) pc ch certs) as [st3 n] eqn:Eb.
    apply send_classes_spec in Eb as [_ [_ [B3 _]]].
    destruct (n =? 0); [|destruct (n =? 1)]; simpl; rewrite upd_parent_other, B3, upd_parent_other by auto; auto.
Qed.

Lemma parent_frame st o st' ca p :
  Sync st -> good ca -> good p -> step st o = Some st' -> touches_parent ca p o = false ->
  view_parent st' ca p = view_parent st ca p.
Proof.
  intros HS Hca Hp. destruct o as [ca' w lr dr|ca' p' pc ch r|ca' c|ca' p'|ca' c|ca' p' pc ch revs|ca'|ca'| |pc0 ch0 m0]; simpl; intros H Ht.
  - inv H. unfold repo_sync, set_repo_failure, set_repo_success, set_repo_published.
    destruct lr as [srv|e]; [destruct (diff w srv); [|destruct dr]|]; simpl; rewrite !view_parent_update_repo; auto.
  - inv H. apply parent_sync_frame; auto.
  - inv H. apply view_parent_update_child.
  - apply remove_parent_gen in H as [V1 _]. rewrite V1, Ht. auto.
  - apply remove_child_gen in H as [_ [_ [V3 _]]]. auto.
  - inv H. unfold revoke_all, set_parent_failure, set_parent_last_updated.
    destruct (send_all st pc ch revs) as [st1 r1] eqn:Ea. apply send_all_spec in Ea as [_ [_ [A3 _]]].
    destruct r1; rewrite upd_parent_other by auto; auto.
  - inv H. unfold view_parent. rewrite ca_view_remove_ca, Ht. auto.
  - inv H. auto.
  - inv H. apply restart_preserves; auto.
  - inv H. apply deliver_view_parent.
Qed.

Lemma repo_frame st o st' ca :
  Sync st -> good ca -> step st o = Some st' -> touches_repo ca o = false ->
  view_repo st' ca = view_repo st ca.
Proof.
  intros HS Hca. destruct o as [ca' w lr dr|ca' p' pc ch r|ca' c|ca' p'|ca' c|ca' p' pc ch revs|ca'|ca'| |pc0 ch0 m0]; simpl; intros H Ht.
  - inv H. unfold repo_sync, set_repo_failure, set_repo_success, set_repo_published.
    destruct lr as [srv|e]; [destruct (diff w srv); [|destruct dr]|]; simpl; rewrite !view_repo_update_repo, ?Ht; auto.
  - inv H. unfold parent_sync, set_parent_failure, set_parent_entitlements, set_parent_last_updated.
    destruct r as [r0|m ents c|revs fin certs]; simpl; auto.
    + destruct (msg_result m); simpl; rewrite view_repo_update_parent; apply deliver_view_repo.
    + destruct (send_all st pc ch revs) as [st1 r1] eqn:Ea. apply send_all_spec in Ea as [_ [_ [_ [A4 _]]]].
      destruct r1; simpl; [|rewrite view_repo_update_parent; auto].
      destruct fin; simpl; [|rewrite view_repo_update_parent; auto].
      destruct (send_classes (update_parent st1 ca' p' parent_set_last_updated) pc ch certs) as [st3 n] eqn:Eb.
      apply send_classes_spec in Eb as [_ [_ [_ [B4 _]]]].
      destruct (n =? 0); [|destruct (n =? 1)]; simpl; rewrite view_repo_update_parent, B4, view_repo_update_parent; auto.
  - inv H. apply view_repo_update_child.
  - apply remove_parent_gen in H as [_ [V2 _]]. auto.
  - apply remove_child_gen in H as [_ [V2 _]]. auto.
  - inv H. unfold revoke_all, set_parent_failure, set_parent_last_updated.
    destruct (send_all st pc ch revs) as [st1 r1] eqn:Ea. apply send_all_spec in Ea as [_ [_ [_ [A4 _]]]].
    destruct r1; rewrite view_repo_update_parent; auto.
  - inv H. unfold view_repo. rewrite ca_view_remove_ca, Ht. auto.
  - inv H. auto.
  - inv H. apply restart_preserves; auto.
  - inv H. apply deliver_view_repo.
Qed.

Lemma frame_run {A} (view : state -> A) (touch : op -> bool) :
  (forall st o st', Sync st -> step st o = Some st' -> touch o = false -> view st' = view st) ->
  forall os st st', Sync st -> run st os = Some st' -> forallb (fun o => negb (touch o)) os = true -> view st' = view st.
Proof.
  intros HF. induction os as [|o r IH]; simpl; intros st st' HS H Ht; [inv H; auto|].
  destruct (step st o) as [s1|] eqn:E; [|discriminate]. apply andb_true_iff in Ht as [T1 T2].
  rewrite (IH s1 st'); auto; [|eapply sync_step; eauto]. eapply HF; eauto. destruct (touch o); auto; discriminate.
Qed.

(** Whatever happened before and whatever else happened since (exchanges of other CAs and with other parents,
    repository exchanges, requests of children, removals of other entries, restarts): the parent's entry shows
    the outcome of the most recent attempt - a failure with its error exactly when that attempt failed. *)
Theorem failure_iff_last_failed os1 os2 st1 st2 st3 ca p pc ch r x :
  run init os1 = Some st1 ->
  step st1 (OParentSync ca p pc ch r) = Some st2 ->
  run st2 os2 = Some st3 ->
  forallb (fun o => negb (touches_parent ca p o)) os2 = true ->
  good ca -> good p ->
  exchange_result r = Some x ->
  parent_last st3 ca p = Some x
  /\ (forall e, (exists ps, view_parent st3 ca p = Some ps /\ p_last ps = Some (XFail e)) <-> x = XFail e).
Proof.
  intros H1 H2 H3 Ht Hca Hp Hx.
  assert (S1 : Sync st1) by (eapply sync_run; eauto; apply sync_init).
  assert (S2 : Sync st2) by (eapply sync_step; eauto).
  assert (V : view_parent st3 ca p = view_parent st2 ca p).
  { apply (frame_run (fun s => view_parent s ca p) (touches_parent ca p)) with (os := os2); auto.
    intros. eapply parent_frame; eauto. }
  simpl in H2. inv H2. destruct (parent_sync st1 ca p pc ch r) as [s2 res] eqn:E. simpl in *.
  destruct (parent_status_is_last_exchange _ _ _ _ _ _ _ _ _ E Hx) as [L _].
  assert (L3 : parent_last st3 ca p = Some x) by (unfold parent_last in *; rewrite V; auto).
  split; auto. intros e. unfold parent_last in L3. split.
  - intros [ps [A B]]. rewrite A in L3. congruence.
  - intros ->. destruct (view_parent st3 ca p) as [ps|]; [eauto | discriminate].
Qed.

Theorem repo_failure_iff_last_failed os1 os2 st1 st2 st3 ca w lr dr :
  run init os1 = Some st1 ->
  step st1 (ORepoSync ca w lr dr) = Some st2 ->
  run st2 os2 = Some st3 ->
  forallb (fun o => negb (touches_repo ca o)) os2 = true ->
  good ca ->
  r_last (view_repo st3 ca) = Some (snd (repo_sync st1 ca w lr dr)).
Proof.
  intros H1 H2 H3 Ht Hca.
  assert (S1 : Sync st1) by (eapply sync_run; eauto; apply sync_init).
  assert (S2 : Sync st2) by (eapply sync_step; eauto).
  assert (V : view_repo st3 ca = view_repo st2 ca).
  { apply (frame_run (fun s => view_repo s ca) (touches_repo ca)) with (os := os2); auto.
    intros. eapply repo_frame; eauto. }
  simpl in H2. inv H2. rewrite V. destruct (repo_sync st1 ca w lr dr) as [s2 res] eqn:E. simpl.
  eapply repo_status_is_last_exchange; eauto.
Qed.

(** ** The same for the entry of a child *)
Lemma pair_neq_of_eqb (a b a' b' : str) : str_eqb a a' && str_eqb b b' = false -> (a, b) <> (a', b').
Proof. intros H E. inv E. rewrite !str_eqb_refl in H. discriminate. Qed.

Lemma parent_sync_child_frame st ca' p' pc' ch' r pc ch :
  str_eqb pc pc' && str_eqb ch ch' && attempted_run r = false ->
  view_child (fst (parent_sync st ca' p' pc' ch' r)) pc ch = view_child st pc ch.
Proof.
  unfold parent_sync, set_parent_failure, set_parent_entitlements, set_parent_last_updated.
  destruct r as [r0|m ents c|revs fin certs]; simpl; auto; rewrite andb_true_r; intros Hne;
    apply pair_neq_of_eqb in Hne.
  - destruct (msg_result m); simpl; rewrite view_child_update_parent; apply deliver_view_child_other; auto.
  - destruct (send_all st pc' ch' revs) as [st1 r1] eqn:Ea. apply send_all_spec in Ea as [_ [_ [_ [_ [A5 _]]]]].
    destruct r1; simpl; [|rewrite view_child_update_parent; auto].
    destruct fin; simpl; [|rewrite view_child_update_parent; auto].
    destruct (send_classes (update_parent st1 ca' p' parent_set_last_updated) pc' ch' certs) as [st3 n] eqn:Eb.
    apply send_classes_spec in Eb as [_ [_ [_ [_ [B5 _]]]]].
    destruct (n =? 0); [|destruct (n =? 1)]; simpl; rewrite view_child_update_parent, B5, view_child_update_parent; auto.
Qed.

Lemma child_frame st o st' pc ch :
  Sync st -> good pc -> good ch -> step st o = Some st' -> touches_child pc ch o = false ->
  view_child st' pc ch = view_child st pc ch.
Proof.
  intros HS Hca Hp. destruct o as [ca' w lr dr|ca' p' pc' ch' r|ca' c|ca' p'|ca' c|ca' p' pc' ch' revs|ca'|ca'| |pc0 ch0 m0]; simpl; intros H Ht.
  - inv H. unfold repo_sync, set_repo_failure, set_repo_success, set_repo_published.
    destruct lr as [srv|e]; [destruct (diff w srv); [|destruct dr]|]; simpl; rewrite !view_child_update_repo; auto.
  - inv H. apply parent_sync_child_frame; auto.
  - inv H. unfold set_child_suspended. rewrite view_child_update_child, Ht. auto.
  - apply remove_parent_gen in H as [_ [_ [V3 _]]]. auto.
  - apply remove_child_gen in H as [V1 _]. rewrite V1, Ht. auto.
  - inv H. unfold revoke_all, set_parent_failure, set_parent_last_updated.
    destruct (send_all st pc' ch' revs) as [st1 r1] eqn:Ea. apply send_all_spec in Ea as [_ [_ [_ [_ [A5 _]]]]].
    apply pair_neq_of_eqb in Ht.
    destruct r1; rewrite view_child_update_parent; auto.
  - inv H. unfold view_child. rewrite ca_view_remove_ca, Ht. auto.
  - inv H. auto.
  - inv H. apply restart_preserves; auto.
  - inv H. apply deliver_view_child_other. apply pair_neq_of_eqb; auto.
Qed.

Theorem child_status_is_last_request_in_histories os1 os2 st1 st2 st3 ca p pc ch r x :
  run init os1 = Some st1 ->
  step st1 (OParentSync ca p pc ch r) = Some st2 ->
  run st2 os2 = Some st3 ->
  forallb (fun o => negb (touches_child pc ch o)) os2 = true ->
  good pc -> good ch ->
  last_recorded (sent_messages r) = Some x ->
  child_last st3 pc ch = Some x.
Proof.
  intros H1 H2 H3 Ht Hca Hp Hx.
  assert (S1 : Sync st1) by (eapply sync_run; eauto; apply sync_init).
  assert (S2 : Sync st2) by (eapply sync_step; eauto).
  assert (V : view_child st3 pc ch = view_child st2 pc ch).
  { apply (frame_run (fun s => view_child s pc ch) (touches_child pc ch)) with (os := os2); auto.
    intros. eapply child_frame; eauto. }
  simpl in H2. inv H2. destruct (parent_sync st1 ca p pc ch r) as [s2 res] eqn:E. simpl in *.
  pose proof (child_status_is_last_request _ _ _ _ _ _ _ _ _ E Hx) as L.
  unfold child_last in *. rewrite V. auto.
Qed.

(** A request that arrives on its own: the entry shows its outcome, and whatever the outcome, a processed request
    clears the suspension marker (api/ca.rs set_success / set_failure). *)
Theorem child_message_recorded st pc ch m x :
  recorded m = Some x ->
  exists cs, view_child (deliver st pc ch m) pc ch = Some cs /\ c_last cs = Some x /\ c_susp cs = false.
Proof.
  destruct m; simpl; intros H; inv H; unfold set_child_failure, set_child_success;
    rewrite view_child_update_child, !str_eqb_refl; simpl; eexists; (split; [reflexivity|simpl; auto]).
Qed.

Theorem child_message_refused_changes_nothing st pc ch e : deliver st pc ch (MRefused e) = st.
Proof. reflexivity. Qed.

(** * Non-vacuity: concrete states meeting the hypotheses of the theorems above *)
Definition nv_b : str := q "b_2".
Definition nv_a : str := q "a-1".
Definition nv_ops : list op :=
  [ OParentSync nv_b (q "up-a") nv_a (q "kid_b") (RList MOk [(0, 3)] true);
    ORepoSync nv_b [mkF 1 1; mkF 2 2] (ROk []) XOk ].
Definition nv_state : state := match run init nv_ops with Some s => s | None => init end.

Lemma nv_good : good nv_b /\ good nv_a /\ good (q "up-a") /\ good (q "kid_b").
Proof. unfold good. vm_compute. auto 10. Qed.

Example restart_preserves_nonvacuous :
  Sync nv_state /\ good nv_b /\ good (q "up-a") /\ view_parent nv_state nv_b (q "up-a") = Some (mkP (Some XOk) true 3 [(0, 3)])
  /\ view_parent (restart nv_state) nv_b (q "up-a") = Some (mkP (Some XOk) true 3 [(0, 3)]).
Proof.
  splits; try apply nv_good; try (vm_compute; reflexivity).
  apply (sync_run nv_ops init); [apply sync_init | vm_compute; reflexivity].
Qed.

(** an exchange with one update, one withdrawal and one new object, starting from a list that shadows the server *)
Example published_equals_server_after_success_nonvacuous :
  let wanted := [mkF 1 7; mkF 3 3] in
  let srv := [mkF 2 2; mkF 1 1] in
  Shadow nv_state nv_b srv
  /\ snd (repo_sync nv_state nv_b wanted (ROk srv) XOk) = XOk
  /\ srv_apply srv (diff wanted srv) = Some [mkF 1 7; mkF 3 3]
  /\ r_pub (view_repo (fst (repo_sync nv_state nv_b wanted (ROk srv) XOk)) nv_b) = [mkF 1 7; mkF 3 3].
Proof.
  cbv zeta. splits; try (vm_compute; reflexivity). unfold Shadow. vm_compute. apply perm_swap.
Qed.

(** a refused exchange (child removed at the parent), then another CA's exchanges, a repository failure and a restart *)
Example failure_iff_last_failed_nonvacuous :
  let os2 := [ORepoSync nv_b [] (RErr 12) XOk; OParentSync (q "c") nv_a nv_a (q "c") (RList MOk [(0, 1)] true); ORestart;
              ORemoveChild nv_a (q "kid_b")] in
  exists st2 st3,
    step nv_state (OParentSync nv_b (q "up-a") nv_a (q "kid_b") (RList (MRefused 11) [] true)) = Some st2
    /\ run st2 os2 = Some st3
    /\ forallb (fun o => negb (touches_parent nv_b (q "up-a") o)) os2 = true
    /\ exchange_result (RList (MRefused 11) [] true) = Some (XFail 11)
    /\ view_parent st3 nv_b (q "up-a") = Some (mkP (Some (XFail 11)) true 3 [(0, 3)]).
Proof. vm_compute. eexists. eexists. splits; reflexivity. Qed.

Example child_status_is_last_request_nonvacuous :
  let r := RRequests [MOk] true [[MOk; MFailed 14; MOk]; []] in
  last_recorded (sent_messages r) = Some (XFail 14)
  /\ child_last (fst (parent_sync nv_state nv_b (q "up-a") nv_a (q "kid_b") r)) nv_a (q "kid_b") = Some (XFail 14)
  /\ parent_last (fst (parent_sync nv_state nv_b (q "up-a") nv_a (q "kid_b") r)) nv_b (q "up-a") = Some (XFail E_SYNC).
Proof. vm_compute. auto. Qed.

Example removal_removes_nonvacuous :
  Sync nv_state /\ good nv_b /\ good (q "up-a") /\ is_some (view_parent nv_state nv_b (q "up-a")) = true
  /\ is_some (kv_get (store nv_state) (scope_of nv_b) (parent_key (q "up-a"))) = true
  /\ good nv_a /\ good (q "kid_b") /\ is_some (view_child nv_state nv_a (q "kid_b")) = true.
Proof.
  splits; try apply nv_good; try (vm_compute; reflexivity).
  apply (sync_run nv_ops init); [apply sync_init | vm_compute; reflexivity].
Qed.

(** * The issues views: one CA ([get_ca_issues]) and all CAs (bulk.rs [cas_issues]) *)
Lemma failure_of_some o e : failure_of o = Some e <-> o = Some (XFail e).
Proof.
  destruct o as [[|e']|]; simpl; split; intros H; try discriminate; congruence.
Qed.

Lemma failure_of_none o : failure_of o = None <-> forall e, o <> Some (XFail e).
Proof.
  destruct o as [[|e']|]; simpl; split; intros H; try discriminate; auto; try (intros e; discriminate).
  exfalso. apply (H e'). reflexivity.
Qed.

Lemma in_parent_issues ps p e :
  In (p, e) (parent_issues ps) <-> exists x, In (p, x) ps /\ p_last x = Some (XFail e).
Proof.
  unfold parent_issues. rewrite in_flat_map. split.
  - intros [[p' x] [Hin H]]. simpl in H. destruct (failure_of (p_last x)) as [e'|] eqn:E; [|destruct H].
    destruct H as [H|[]]. inv H. exists x. split; auto. apply failure_of_some; auto.
  - intros [x [Hin H]]. exists (p, x). split; auto. simpl. apply failure_of_some in H. rewrite H. left; reflexivity.
Qed.

(** the view of one CA lists exactly the failures of its status: the repository issue is the error of the last
    repository exchange if that failed, the parent issues are exactly the parents whose last exchange failed *)
Theorem issues_list_exactly_failures s :
  (forall e, i_repo (issues_of s) = Some e <-> r_last (s_repo s) = Some (XFail e))
  /\ (forall p e, In (p, e) (i_parents (issues_of s)) <-> exists x, In (p, x) (s_parents s) /\ p_last x = Some (XFail e)).
Proof.
  split; [intros e; apply failure_of_some | intros p e; apply in_parent_issues].
Qed.

(** empty: no repository issue AND no parent issue *)
Theorem issues_empty_iff i : issues_empty i = true <-> i_repo i = None /\ i_parents i = [].
Proof.
  unfold issues_empty. destruct i as [[e|] [|x r]]; simpl; split; intros H; try discriminate; auto;
    destruct H; discriminate.
Qed.

Lemma parent_issues_nil ps : parent_issues ps = [] <-> forall p x e, In (p, x) ps -> p_last x <> Some (XFail e).
Proof.
  split.
  - intros H p x e Hin Hl. assert (I : In (p, e) (parent_issues ps)) by (apply in_parent_issues; eauto).
    rewrite H in I. destruct I.
  - intros H. destruct (parent_issues ps) as [|[p e] r] eqn:E; auto.
    assert (I : In (p, e) (parent_issues ps)) by (rewrite E; left; reflexivity).
    apply in_parent_issues in I as [x [Hin Hl]]. exfalso. eapply H; eauto.
Qed.

Theorem issues_of_empty_iff s : issues_empty (issues_of s) = true <-> ~ repo_failed s /\ ~ parent_failed s.
Proof.
  rewrite issues_empty_iff. unfold issues_of, repo_failed, parent_failed. simpl. rewrite failure_of_none, parent_issues_nil. split.
  - intros [A B]. split; [intros [e H]; eapply A; eauto | intros [p [x [e [H1 H2]]]]; eapply B; eauto].
  - intros [A B]. split; [intros e H; apply A; eauto | intros p x e H1 H2; apply B; eauto 6].
Qed.

Theorem issues_nonempty_iff s : issues_empty (issues_of s) = false <-> has_failure s.
Proof.
  unfold has_failure. split.
  - intros H. unfold issues_empty, issues_of in H. simpl in H.
    destruct (failure_of (r_last (s_repo s))) as [e|] eqn:E.
    + left. exists e. apply failure_of_some; auto.
    + right. simpl in H. destruct (parent_issues (s_parents s)) as [|[p e] r] eqn:P; [discriminate|].
      assert (I : In (p, e) (parent_issues (s_parents s))) by (rewrite P; left; reflexivity).
      apply in_parent_issues in I as [x [Hin Hl]]. exists p, x, e. auto.
  - intros H. destruct (issues_empty (issues_of s)) eqn:E; auto.
    apply issues_of_empty_iff in E as [A B]. destruct H; contradiction.
Qed.

(** the text report of one CA says "no issues found" exactly when nothing failed last *)
Theorem text_no_issues_iff s : says_no_issues (issues_of s) = true <-> ~ has_failure s.
Proof.
  unfold says_no_issues. rewrite issues_of_empty_iff. unfold has_failure. tauto.
Qed.

Lemma in_bulk_with emp l ca i :
  In (ca, i) (bulk_issues_with emp l) <-> exists s, In (ca, s) l /\ i = issues_of s /\ emp i = false.
Proof.
  unfold bulk_issues_with. rewrite in_flat_map. split.
  - intros [[ca' s] [Hin H]]. simpl in H. destruct (emp (issues_of s)) eqn:E; [destruct H|].
    destruct H as [H|[]]. inv H. exists s. auto.
  - intros [s [Hin [-> E]]]. exists (ca, s). split; auto. simpl. rewrite E. left; reflexivity.
Qed.

(** the all-CAs view agrees with the view of one CA: what it shows for a CA is that CA's issues, and it shows
    every CA whose issues are not empty *)
Theorem bulk_agrees_with_single l ca i :
  In (ca, i) (bulk_issues l) <-> exists s, In (ca, s) l /\ i = issues_of s /\ issues_empty i = false.
Proof. apply in_bulk_with. Qed.

(** a CA is in the all-CAs view iff its last repository exchange failed or the last exchange with at least one
    parent failed *)
Theorem bulk_lists_exactly_failing l ca :
  In ca (map fst (bulk_issues l)) <-> exists s, In (ca, s) l /\ has_failure s.
Proof.
  rewrite in_map_iff. split.
  - intros [[ca' i] [E Hin]]. simpl in E. subst ca'. apply bulk_agrees_with_single in Hin as [s [H1 [-> H3]]].
    exists s. split; auto. apply issues_nonempty_iff; auto.
  - intros [s [H1 H2]]. exists (ca, issues_of s). split; auto. apply bulk_agrees_with_single.
    exists s. splits; auto. apply issues_nonempty_iff; auto.
Qed.

(** ... which is the statement [bulk_lists_exactly_failing_with issues_empty]; with [||] in the emptiness test it
    is false: a CA whose repository exchange failed while its parents are fine is left out *)
Theorem bulk_lists_exactly_failing_and : bulk_lists_exactly_failing_with issues_empty.
Proof. intros l ca. apply bulk_lists_exactly_failing. Qed.

Theorem bulk_lists_exactly_failing_or_refuted : ~ bulk_lists_exactly_failing_with issues_empty_or.
Proof.
  intros H. destruct (H [(f19i_ca, f19i_repo_only)] f19i_ca) as [_ B].
  assert (I : In f19i_ca (map fst (bulk_issues_with issues_empty_or [(f19i_ca, f19i_repo_only)]))).
  { apply B. exists f19i_repo_only. split; [left; reflexivity|]. left. exists 7. reflexivity. }
  vm_compute in I. exact I.
Qed.

Example issues_empty_or_refuted :
  issues_empty_or (issues_of f19i_repo_only) = true /\ issues_empty_or (issues_of f19i_parent_only) = true
  /\ issues_empty (issues_of f19i_repo_only) = false /\ issues_empty (issues_of f19i_parent_only) = false
  /\ has_failure f19i_repo_only /\ has_failure f19i_parent_only
  /\ bulk_issues_with issues_empty_or [(f19i_ca, f19i_repo_only); (q "c", f19i_parent_only)] = []
  /\ map fst (bulk_issues [(f19i_ca, f19i_repo_only); (q "c", f19i_parent_only)]) = [f19i_ca; q "c"].
Proof.
  splits; try (vm_compute; reflexivity).
  - left. exists 7. reflexivity.
  - right. exists (q "a"), (mkP (Some (XFail 8)) true 3 [(0, 3)]), 8. split; [left|]; reflexivity.
Qed.

(** the text report of all CAs says "no issues found" exactly when no CA has a failure *)
Theorem bulk_text_no_issues_iff l :
  bulk_says_no_issues (bulk_issues l) = true <-> forall ca s, In (ca, s) l -> ~ has_failure s.
Proof.
  unfold bulk_says_no_issues. split.
  - intros H ca s Hin Hf. assert (I : In ca (map fst (bulk_issues l))) by (apply bulk_lists_exactly_failing; eauto).
    destruct (bulk_issues l); [destruct I | discriminate].
  - intros H. destruct (bulk_issues l) as [|[ca i] r] eqn:E; auto.
    assert (I : In ca (map fst (bulk_issues l))) by (rewrite E; left; reflexivity).
    apply bulk_lists_exactly_failing in I as [s [H1 H2]]. exfalso. eapply H; eauto.
Qed.

(** The same on a state of the status store, for the CAs that exist. *)
Lemma in_statuses st cas ca s : In (ca, s) (statuses st cas) <-> In ca cas /\ s = ca_view st ca.
Proof.
  unfold statuses. rewrite in_map_iff. split.
  - intros [ca' [E Hin]]. inv E. auto.
  - intros [Hin ->]. exists ca. auto.
Qed.

Theorem bulk_view_lists_exactly_failing st cas ca :
  In ca (map fst (bulk_view st cas)) <-> In ca cas /\ has_failure (ca_view st ca).
Proof.
  unfold bulk_view. rewrite bulk_lists_exactly_failing. split.
  - intros [s [H1 H2]]. apply in_statuses in H1 as [H1 ->]. auto.
  - intros [H1 H2]. exists (ca_view st ca). split; auto. apply in_statuses. auto.
Qed.

Theorem bulk_view_agrees_with_single st cas ca i :
  In (ca, i) (bulk_view st cas) <-> In ca cas /\ i = issues_view st ca /\ issues_empty i = false.
Proof.
  unfold bulk_view, issues_view. rewrite bulk_agrees_with_single. split.
  - intros [s [H1 [H2 H3]]]. apply in_statuses in H1 as [H1 ->]. auto.
  - intros [H1 [H2 H3]]. exists (ca_view st ca). splits; auto. apply in_statuses. auto.
Qed.

Lemma aget_some_in {V} k (m : list (str * V)) v : aget k m = Some v -> In (k, v) m.
Proof.
  induction m as [|[k' v'] r IH]; simpl; [discriminate|]. destruct (str_eqb k k') eqn:E.
  - intros H. inv H. apply str_eqb_eq in E. subst. auto.
  - auto.
Qed.

(** In histories: a CA whose most recent repository exchange failed, or whose most recent exchange with some
    parent failed, is listed in the all-CAs view and its text report does not say "no issues found" - whatever
    else happened since. *)
Theorem bulk_shows_last_failed_repo os1 os2 st1 st2 st3 ca w lr dr e cas :
  run init os1 = Some st1 ->
  step st1 (ORepoSync ca w lr dr) = Some st2 ->
  run st2 os2 = Some st3 ->
  forallb (fun o => negb (touches_repo ca o)) os2 = true ->
  good ca ->
  snd (repo_sync st1 ca w lr dr) = XFail e ->
  In ca cas ->
  In ca (map fst (bulk_view st3 cas)) /\ i_repo (issues_view st3 ca) = Some e
  /\ says_no_issues (issues_view st3 ca) = false.
Proof.
  intros H1 H2 H3 Ht Hca Hr Hin.
  pose proof (repo_failure_iff_last_failed _ _ _ _ _ _ _ _ _ H1 H2 H3 Ht Hca) as L. rewrite Hr in L.
  assert (F : has_failure (ca_view st3 ca)) by (left; exists e; exact L).
  splits.
  - apply bulk_view_lists_exactly_failing. auto.
  - unfold issues_view, issues_of. simpl. apply failure_of_some. exact L.
  - apply issues_nonempty_iff. exact F.
Qed.

Theorem bulk_shows_last_failed_parent os1 os2 st1 st2 st3 ca p pc ch r e cas :
  run init os1 = Some st1 ->
  step st1 (OParentSync ca p pc ch r) = Some st2 ->
  run st2 os2 = Some st3 ->
  forallb (fun o => negb (touches_parent ca p o)) os2 = true ->
  good ca -> good p ->
  exchange_result r = Some (XFail e) ->
  In ca cas ->
  In ca (map fst (bulk_view st3 cas)) /\ In (p, e) (i_parents (issues_view st3 ca))
  /\ says_no_issues (issues_view st3 ca) = false.
Proof.
  intros H1 H2 H3 Ht Hca Hp Hx Hin.
  destruct (failure_iff_last_failed _ _ _ _ _ _ _ _ _ _ _ H1 H2 H3 Ht Hca Hp Hx) as [_ L].
  destruct (proj2 (L e) eq_refl) as [ps [V P]]. apply aget_some_in in V.
  assert (F : has_failure (ca_view st3 ca)) by (right; exists p, ps, e; auto).
  splits.
  - apply bulk_view_lists_exactly_failing. auto.
  - unfold issues_view. apply issues_list_exactly_failures. eauto.
  - apply issues_nonempty_iff. exact F.
Qed.

(** non-vacuity: [nv_state], then the publisher of b_2 is gone (repository exchange refused) while the parent
    stays fine; later the child is removed at the parent *)
Example bulk_shows_last_failed_nonvacuous :
  let os2 := [OParentSync (q "c") nv_a nv_a (q "c") (RList MOk [(0, 1)] true); ORestart] in
  exists st2 st3,
    step nv_state (ORepoSync nv_b [] (RErr 12) XOk) = Some st2
    /\ run st2 os2 = Some st3
    /\ forallb (fun o => negb (touches_repo nv_b o)) os2 = true
    /\ snd (repo_sync nv_state nv_b [] (RErr 12) XOk) = XFail 12
    /\ map fst (bulk_view st3 [nv_a; nv_b; q "c"]) = [nv_b]
    /\ issues_view st3 nv_b = mkI (Some 12) []
    /\ issues_view st3 (q "c") = mkI None []
    /\ bulk_view nv_state [nv_a; nv_b; q "c"] = []
    /\ map fst (bulk_view (fst (parent_sync st3 nv_b (q "up-a") nv_a (q "kid_b") (RList (MRefused 11) [] true))) [nv_a; nv_b; q "c"]) = [nv_b]
    /\ issues_view (fst (parent_sync nv_state nv_b (q "up-a") nv_a (q "kid_b") (RList (MRefused 11) [] true))) nv_b = mkI None [(q "up-a", 11)].
Proof. vm_compute. eexists. eexists. splits; reflexivity. Qed.
