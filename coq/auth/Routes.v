(** The route table of the Krill HTTP interface: types, the hand-written specification table
    [spec_routes], and the authorisation decision [authorize] (model; definitions only).

    Modelled code (as it is in /repo):
    - src/daemon/http/dispatch/{root,api,cas,pubd,ta,bulk,testbed,auth,stats,metrics}.rs: routing matches and gates
    - src/daemon/http/request.rs:139-184 [check_permission], [proceed_permitted], [proceed_unchecked], [proceed_raw]
    - src/daemon/http/auth/authorizer.rs:452-470 [AuthInfo::check_permission]: an authentication error fails every
      check with 401, a role that does not allow the permission fails it with 403
    - src/daemon/http/dispatch/testbed.rs:38-40: everything under /testbed is 404 unless testbed mode is on

    Provenance of [spec_routes]: the repository has no normative route -> permission document; the table is written
    by hand from the operation each route performs, with the permission families of permission.rs (read-type
    operations need the family's *Read/*List, state-changing ones its *Update/*Create/*Delete/*Admin, bulk and
    trust-anchor operations CaAdmin, repository server administration PubAdmin), reviewed against the pinned tree.
    Where the pinned tree asks for more than the family rule (every /api/v1/pubd/* route also passes a PubAdmin gate)
    the table records the tree's behaviour. Independent content: [spec_sane] (RoutesProofs.v). *)
From Coq Require Import String Ascii.
From KV Require Import base.Tac auth.Perm.
Open Scope N_scope.

(** ** Types *)
Inductive meth := MGET | MPOST | MDELETE | MPUT | MPATCH | MHEAD | MOPTIONS | MANY.

Inductive seg :=
  | Lit (s : string)    (* literal segment *)
  | Param               (* one segment parsed into a value ([parse_next], or [parse_opt_next] with more to follow) *)
  | OptParam            (* trailing optional segment ([parse_opt_next] ... [check_exhausted]) *)
  | Rest.               (* whatever follows is accepted (no [check_exhausted]) *)

Inductive scope := SNone | SParam (i : N).     (* [None] or [Some(&x)] with x bound to segment i of the path *)
Record gate := G { g_perm : perm; g_scope : scope }.

Inductive kind :=
  | KGate       (* handler reached through [proceed_permitted] *)
  | KOpen       (* handler reached through [proceed_unchecked] *)
  | KRaw        (* handler reached through [proceed_raw] (login / logout: the handler itself authenticates) *)
  | KGateOnly.  (* handler returns after [check_permission] without touching the server *)

(** Filter of a listing endpoint: an entry is shown iff the caller holds the permission - asked per entry
    ([has_permission(P, Some(&entry))]) or, in a faulty handler, of the general grant ([has_permission(P, None)]:
    all entries or none). *)
Inductive fscope := FEntry | FGeneral.
Record lfilter := F { f_perm : perm; f_scope : fscope }.

Record route := mkRoute {
  rt_meth : meth;
  rt_pat : list seg;
  rt_gates : list gate;          (* conjunction, in the order in which the code checks them *)
  rt_kind : kind;
  rt_testbed : bool;             (* only when testbed mode is on *)
  rt_filter : option lfilter     (* listing endpoint: how its entries are filtered *)
}.

(** ** Canonical form of a table: duplicate gates removed (a conjunction), rows sorted by (path, method) *)
Definition meth_index (m : meth) : N :=
  match m with MGET => 0 | MPOST => 1 | MDELETE => 2 | MPUT => 3 | MPATCH => 4 | MHEAD => 5 | MOPTIONS => 6 | MANY => 7 end.
Definition meth_eqb (a b : meth) : bool := meth_index a =? meth_index b.

Definition scope_eqb (a b : scope) : bool :=
  match a, b with SNone, SNone => true | SParam i, SParam j => i =? j | _, _ => false end.
Definition gate_eqb (a b : gate) : bool := perm_eqb (g_perm a) (g_perm b) && scope_eqb (g_scope a) (g_scope b).

Fixpoint dedup_gates (l : list gate) : list gate :=
  match l with
  | [] => []
  | g :: r => g :: filter (fun g' => negb (gate_eqb g g')) (dedup_gates r)
  end.

Definition seg_key (s : seg) : string :=
  match s with Lit t => t | Param => "{}" | OptParam => "[]" | Rest => "..." end%string.

Fixpoint pat_compare (a b : list seg) : comparison :=
  match a, b with
  | [], [] => Eq
  | [], _ => Lt
  | _, [] => Gt
  | x :: a', y :: b' => match String.compare (seg_key x) (seg_key y) with Eq => pat_compare a' b' | c => c end
  end.

Definition route_leb (a b : route) : bool :=
  match pat_compare (rt_pat a) (rt_pat b) with
  | Lt => true
  | Gt => false
  | Eq => meth_index (rt_meth a) <=? meth_index (rt_meth b)
  end.

Fixpoint insert_route (r : route) (l : list route) : list route :=
  match l with
  | [] => [r]
  | x :: t => if route_leb r x then r :: l else x :: insert_route r t
  end.

Definition norm_route (r : route) : route :=
  mkRoute (rt_meth r) (rt_pat r) (dedup_gates (rt_gates r)) (rt_kind r) (rt_testbed r) (rt_filter r).

Definition canon (t : list route) : list route := fold_right insert_route [] (map norm_route t).

(** ** The specification table *)
Definition login : gate := G Login SNone.
Definition api (rest : list seg) : list seg := Lit "api" :: Lit "v1" :: rest.
Definition ca_path (rest : list seg) : list seg := api (Lit "cas" :: Param :: rest).
Definition ca_ix : N := 3.                                      (* position of the CA handle in /api/v1/cas/{ca}/... *)
Definition on_ca (p : perm) : gate := G p (SParam ca_ix).
Definition general (p : perm) : gate := G p SNone.

(** read-type operation on one CA: the caller must be able to read that CA *)
Definition ca_read (m : meth) (rest : list seg) : route :=
  mkRoute m (ca_path rest) [login; on_ca CaRead] KGate false None.
(** operation on one CA needing [p] on that CA (in addition to reading it) *)
Definition ca_op (m : meth) (rest : list seg) (p : perm) : route :=
  mkRoute m (ca_path rest) [login; on_ca CaRead; on_ca p] KGate false None.
(** repository server: administration permission plus the specific one *)
Definition pubd_op (m : meth) (rest : list seg) (p : perm) : route :=
  mkRoute m (api (Lit "pubd" :: rest)) [login; general PubAdmin; general p] KGate false None.
(** trust anchor proxy and bulk operations: CA administration, not tied to one CA *)
Definition ta_op (m : meth) (rest : list seg) : route :=
  mkRoute m (api (Lit "ta" :: Lit "proxy" :: rest)) [login; general CaAdmin] KGate false None.
Definition bulk_op (rest : list seg) : route :=
  mkRoute MPOST (api (Lit "bulk" :: Lit "cas" :: rest)) [login; general CaAdmin] KGate false None.
(** listing: any logged-in caller, entries filtered by CaRead on the entry *)
Definition listing (rest : list seg) : route :=
  mkRoute MGET (api rest) [login] KOpen false (Some (F CaRead FEntry)).
(** no credentials needed *)
Definition public (m : meth) (pat : list seg) : route := mkRoute m pat [] KOpen false None.
Definition public_raw (m : meth) (pat : list seg) : route := mkRoute m pat [] KRaw false None.
Definition testbed_only (m : meth) (rest : list seg) : route := mkRoute m (Lit "testbed" :: rest) [] KOpen true None.

Definition spec_rows : list route :=
  (* -- versioned API: who am I *)
  [ mkRoute MGET (api [Lit "authorized"]) [login] KGateOnly false None;
  (* -- CAs *)
    listing [Lit "cas"];
    mkRoute MPOST (api [Lit "cas"]) [login; general CaCreate] KGate false None;
    ca_read MGET [];
    ca_op MDELETE [] CaDelete;
    ca_op MGET [Lit "aspas"] AspasRead;
    ca_op MPOST [Lit "aspas"] AspasUpdate;
    ca_op MPOST [Lit "aspas"; Lit "as"; Param] AspasUpdate;
    ca_op MDELETE [Lit "aspas"; Lit "as"; Param] AspasUpdate;
    ca_op MGET [Lit "bgpsec"] BgpsecRead;
    ca_op MPOST [Lit "bgpsec"] BgpsecUpdate;
    ca_op MPOST [Lit "children"] CaUpdate;
    ca_read MGET [Lit "children"; Param];
    ca_op MPOST [Lit "children"; Param] CaUpdate;
    ca_op MDELETE [Lit "children"; Param] CaUpdate;
    ca_read MGET [Lit "children"; Param; Lit "contact"];
    ca_read MGET [Lit "children"; Param; Lit "parent_response.json"];
    ca_read MGET [Lit "children"; Param; Lit "parent_response.xml"];
    ca_read MGET [Lit "children"; Param; Lit "export"];
    ca_op MPOST [Lit "children"; Param; Lit "import"] CaAdmin;
    ca_read MGET [Lit "history"; Lit "commands"; OptParam; OptParam; OptParam; OptParam];
    ca_read MGET [Lit "history"; Lit "details"; Param];
    ca_op MPOST [Lit "id"] CaUpdate;
    ca_read MGET [Lit "id"; Lit "child_request.json"];
    ca_read MGET [Lit "id"; Lit "child_request.xml"];
    ca_read MGET [Lit "id"; Lit "publisher_request.json"];
    ca_read MGET [Lit "id"; Lit "publisher_request.xml"];
    ca_read MGET [Lit "issues"];
    ca_op MPOST [Lit "keys"; Lit "roll_init"] CaUpdate;
    ca_op MPOST [Lit "keys"; Lit "roll_activate"] CaUpdate;
    ca_read MGET [Lit "parents"];
    ca_op MPOST [Lit "parents"] CaUpdate;
    ca_read MGET [Lit "parents"; Param];
    ca_op MPOST [Lit "parents"; Param] CaUpdate;
    ca_op MDELETE [Lit "parents"; Param] CaUpdate;
    ca_read MGET [Lit "repo"];
    ca_op MPOST [Lit "repo"] CaUpdate;
    ca_read MGET [Lit "repo"; Lit "status"];
    ca_op MGET [Lit "routes"] RoutesRead;
    ca_op MPOST [Lit "routes"] RoutesUpdate;
    ca_op MPOST [Lit "routes"; Lit "try"] RoutesUpdate;
    ca_op MGET [Lit "routes"; Lit "analysis"; Lit "full"] RoutesAnalysis;
    ca_op MPOST [Lit "routes"; Lit "analysis"; Lit "dryrun"] RoutesAnalysis;
    ca_op MGET [Lit "routes"; Lit "analysis"; Lit "suggest"] RoutesAnalysis;
    ca_op MPOST [Lit "routes"; Lit "analysis"; Lit "suggest"] RoutesAnalysis;
    ca_read MGET [Lit "stats"; Lit "children"; Lit "connections"];
    ca_op MPOST [Lit "sync"; Lit "parents"] CaUpdate;
    ca_op MPOST [Lit "sync"; Lit "repo"] CaUpdate;
  (* -- bulk operations over all CAs *)
    listing [Lit "bulk"; Lit "cas"; Lit "issues"];
    bulk_op [Lit "import"];
    bulk_op [Lit "publish"];
    bulk_op [Lit "force_publish"];
    bulk_op [Lit "suspend"];
    bulk_op [Lit "sync"; Lit "parent"];
    bulk_op [Lit "sync"; Lit "repo"];
  (* -- repository server *)
    pubd_op MPOST [Lit "init"] PubAdmin;
    pubd_op MDELETE [Lit "init"] PubAdmin;
    pubd_op MPOST [Lit "delete"] PubAdmin;
    pubd_op MPOST [Lit "session_reset"] PubAdmin;
    pubd_op MGET [Lit "stale"; OptParam] PubList;
    pubd_op MGET [Lit "publishers"] PubList;
    pubd_op MPOST [Lit "publishers"] PubCreate;
    pubd_op MGET [Lit "publishers"; Param] PubRead;
    pubd_op MDELETE [Lit "publishers"; Param] PubDelete;
    pubd_op MGET [Lit "publishers"; Param; Lit "response.json"] PubRead;
    pubd_op MGET [Lit "publishers"; Param; Lit "response.xml"] PubRead;
  (* -- trust anchor proxy *)
    ta_op MPOST [Lit "init"];
    ta_op MGET [Lit "id"];
    ta_op MGET [Lit "repo"];
    ta_op MPOST [Lit "repo"];
    ta_op MGET [Lit "repo"; Lit "request.json"];
    ta_op MGET [Lit "repo"; Lit "request.xml"];
    ta_op MGET [Lit "children"];
    ta_op MPOST [Lit "children"];
    ta_op MPOST [Lit "children"; Param];
    ta_op MDELETE [Lit "children"; Param];
    ta_op MGET [Lit "children"; Param; Lit "parent_response.json"];
    ta_op MGET [Lit "children"; Param; Lit "parent_response.xml"];
    ta_op MPOST [Lit "signer"; Lit "add"];
    ta_op MPOST [Lit "signer"; Lit "update"];
    ta_op MGET [Lit "signer"; Lit "request"];
    ta_op MPOST [Lit "signer"; Lit "request"];
    ta_op MPOST [Lit "signer"; Lit "response"];
  (* -- public: protocols, repository, trust anchor download, health, statistics, login, UI *)
    public MGET [Lit ""; Rest];                          (* "/" redirects to the UI *)
    public MGET [Lit "ui"; Rest];
    public MGET [Lit "assets"; Param];
    public MGET [Lit "health"];
    public MGET [Lit "metrics"];
    public MGET [Lit "stats"; Lit "info"];
    public MGET [Lit "stats"; Lit "repo"];
    public MGET [Lit "stats"; Lit "cas"];
    public MPOST [Lit "rfc6492"; Param];
    public MPOST [Lit "rfc8181"; Param];
    public MGET [Lit "rrdp"; Rest];
    public MGET [Lit "ta"; Lit "ta.tal"];
    public MGET [Lit "ta"; Lit "ta.cer"];
    public MGET [Lit "testbed.tal"];
    public MGET [Lit "auth"; Lit "login"];
    public_raw MPOST [Lit "auth"; Lit "login"];
    public_raw MPOST [Lit "auth"; Lit "logout"];
    public_raw MGET [Lit "auth"; Lit "callback"];        (* cfg(feature = "multi-user"), a default feature *)
  (* -- testbed self-service, only in testbed mode *)
    testbed_only MGET [Lit "enabled"];
    testbed_only MPOST [Lit "children"];
    testbed_only MDELETE [Lit "children"; Param];
    testbed_only MGET [Lit "children"; Param; Lit "parent_response.xml"];
    testbed_only MPOST [Lit "publishers"];
    testbed_only MDELETE [Lit "publishers"; Param];
    testbed_only MGET [Lit "publishers"; Param; Lit "response.xml"]
  ].

Definition spec_routes : list route := canon spec_rows.

(** ** Requests and the authorisation decision *)
Record request := mkReq { q_meth : meth; q_path : list string }.

(** Does a concrete path (segments, without trailing slash) fit a pattern? *)
Fixpoint match_pat (pat : list seg) (path : list string) : bool :=
  match pat, path with
  | [], [] => true
  | Rest :: _, _ => true
  | OptParam :: p', [] => match_pat p' []
  | OptParam :: p', _ :: t => match_pat p' t
  | Lit l :: p', s :: t => String.eqb l s && match_pat p' t
  | Param :: p', s :: t => negb (String.eqb s "") && match_pat p' t
  | _, _ => false
  end.

Definition route_matches (q : request) (r : route) : bool :=
  (meth_eqb (rt_meth r) MANY || meth_eqb (rt_meth r) (q_meth q)) && match_pat (rt_pat r) (q_path q).

Definition find_route (t : list route) (q : request) : option route := find (route_matches q) t.

(** Result of authenticating the request (authorizer.rs:252-296): a role, or an authentication error. *)
Inductive auth := AuthRole (r : role) | AuthError.

Definition auth_allows (a : auth) (p : perm) (res : option handle) : bool :=
  match a with AuthRole r => is_allowed r p res | AuthError => false end.

Definition scope_of (q : request) (s : scope) : option handle :=
  match s with SNone => None | SParam i => Some (nth (N.to_nat i) (q_path q) ""%string) end.

Definition gate_ok (a : auth) (q : request) (g : gate) : bool :=
  auth_allows a (g_perm g) (scope_of q (g_scope g)).

Inductive outcome :=
  | Served            (* the request reaches its handler (whatever the handler then answers) *)
  | Forbidden         (* 403: a gate refused the role *)
  | Unauthenticated   (* 401: a gate met an authentication error *)
  | NotFound.         (* no such route / method, or testbed route while testbed mode is off *)

Definition authorize (t : list route) (testbed : bool) (a : auth) (q : request) : outcome :=
  match find_route t q with
  | None => NotFound
  | Some r =>
      if rt_testbed r && negb testbed then NotFound
      else if forallb (gate_ok a q) (rt_gates r) then Served
      else match a with AuthError => Unauthenticated | AuthRole _ => Forbidden end
  end.

(** ** The daemon configuration, as far as the decision depends on it.
    config.rs:523 [ta_support_enabled] (a switch of its own), config.rs:1085-1087 [testbed_enabled] =
    [self.testbed.is_some()] (the [testbed] section is present), config.rs:1022-1024 [ta_proxy_enabled] =
    [ta_support_enabled || testbed.is_some()] (decides whether /api/v1/ta/proxy has a store; NOT what /testbed asks).
    request.rs:61-63 [Request::testbed_enabled] = [config.testbed_enabled()] is the guard of testbed.rs:40. *)
Record daemon_cfg := mkCfg { cfg_ta_support : bool; cfg_testbed : bool }.
Definition testbed_on (c : daemon_cfg) : bool := cfg_testbed c.
Definition ta_proxy_on (c : daemon_cfg) : bool := cfg_ta_support c || cfg_testbed c.
Definition testbed_served (c : daemon_cfg) : bool := testbed_on c.

(** Listing endpoints show exactly the entries the caller may read (cas.rs:47-63, bulk.rs:48-66). *)
Definition readable (a : auth) (p : perm) (all : list handle) : list handle :=
  filter (fun h => auth_allows a p (Some h)) all.

Definition listing_of (a : auth) (f : lfilter) (all : list handle) : list handle :=
  match f_scope f with
  | FEntry => readable a (f_perm f) all
  | FGeneral => if auth_allows a (f_perm f) None then all else []
  end.

(** ** Classification used by [spec_sane] *)
Inductive family := FLogin | FPub | FCa | FRta.

Definition perm_family (p : perm) : family :=
  match p with
  | Login => FLogin
  | PubAdmin | PubList | PubRead | PubCreate | PubDelete => FPub
  | CaList | CaRead | CaCreate | CaUpdate | CaAdmin | CaDelete
  | RoutesRead | RoutesUpdate | RoutesAnalysis | AspasRead | AspasUpdate | BgpsecRead | BgpsecUpdate => FCa
  | RtaList | RtaRead | RtaUpdate => FRta
  end.
Definition family_eqb (a b : family) : bool :=
  match a, b with FLogin, FLogin | FPub, FPub | FCa, FCa | FRta, FRta => true | _, _ => false end.

(** Permissions that only let the holder look. *)
Definition is_read_perm (p : perm) : bool :=
  match p with
  | Login | PubList | PubRead | CaList | CaRead | RoutesRead | RoutesAnalysis | AspasRead | BgpsecRead | RtaList | RtaRead => true
  | _ => false
  end.

Fixpoint has_prefix (pre : list seg) (pat : list seg) : bool :=
  match pre, pat with
  | [], _ => true
  | Lit a :: pre', Lit b :: pat' => String.eqb a b && has_prefix pre' pat'
  | Param :: pre', Param :: pat' => has_prefix pre' pat'
  | _, _ => false
  end.

Definition under_api (r : route) : bool := has_prefix (api []) (rt_pat r).
Definition per_ca (r : route) : bool := has_prefix (ca_path []) (rt_pat r).

(** Family of the state a route under /api/v1 touches. *)
Definition route_family (r : route) : family :=
  if has_prefix (api [Lit "pubd"]) (rt_pat r) then FPub else FCa.

(** The two POST routes under routes/analysis compute a report from the body and change nothing. *)
Definition analysis_only (r : route) : bool :=
  has_prefix (ca_path [Lit "routes"; Lit "analysis"]) (rt_pat r).

Definition state_changing (r : route) : bool :=
  negb (meth_eqb (rt_meth r) MGET) && negb (analysis_only r).

Definition scope_wf (pat : list seg) (s : scope) : bool :=
  match s with
  | SNone => true
  | SParam i => match nth_error pat (N.to_nat i) with Some Param => true | _ => false end
  end.

Definition is_public (r : route) : bool := match rt_gates r with [] => true | _ => false end.

(** First path segments of the routes that may be served without credentials. *)
Definition public_roots : list string :=
  [""; "ui"; "assets"; "health"; "metrics"; "stats"; "rfc6492"; "rfc8181"; "rrdp"; "ta"; "testbed.tal"; "auth"; "testbed"]%string.

Definition root_of (pat : list seg) : string := match pat with Lit s :: _ => s | _ => "?"%string end.
Definition in_public_roots (pat : list seg) : bool := existsb (String.eqb (root_of pat)) public_roots.
Definition path_root (p : list string) : string := match p with s :: _ => s | [] => "?"%string end.
