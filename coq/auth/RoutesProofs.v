(** Proofs for C13: obligations tying the model to the tables regenerated from /repo, and the theorems
    about the authorisation decision, for all roles (arbitrary permission sets and per-CA maps). *)
From Coq Require Import String.
From KV Require Import base.Tac auth.Perm auth.Routes auth.RoutesCheck gen.GenRoutes.
Open Scope N_scope.

(** * Ties to the source (translator t_routes.py) *)

(** The route tree extracted from dispatch/*.rs is the specification table. A handler that changes its gate,
    a new route, a removed route: this no longer reduces. *)
Theorem gen_routes_conform : GenRoutes.table = spec_routes.
Proof. vm_compute. reflexivity. Qed.

Theorem gen_perms_conform : gen_perms = map (fun p => (perm_name p, perm_text p)) all_perms.
Proof. vm_compute. reflexivity. Qed.

Theorem gen_sets_conform :
  map (fun '(n, g) => (n, set_of_gen g)) gen_sets =
  [ ("ANY", Some ANY); ("NONE", Some NONE); ("READONLY", Some READONLY); ("READWRITE", Some READWRITE);
    ("TESTBED", Some TESTBED); ("CONF_READ", Some CONF_READ); ("CONF_UPDATE", Some CONF_UPDATE) ]%string.
Proof. vm_compute. reflexivity. Qed.

Theorem gen_roles_conform :
  gen_builtin_roles = [ ("admin", "ANY"); ("readwrite", "READWRITE"); ("readonly", "READONLY");
                        ("testbed", "TESTBED"); ("anonymous", "NONE") ]%string
  /\ gen_default_roles = [ ("admin", "admin"); ("readwrite", "readwrite"); ("readonly", "readonly") ]%string
  /\ gen_conf_globs = [ ("any", "Any"); ("read", "Read"); ("update", "Update") ]%string
  /\ gen_conf_glob_sets = [ ("Any", "ANY"); ("Read", "CONF_READ"); ("Update", "CONF_UPDATE") ]%string.
Proof. repeat split; reflexivity. Qed.

(** The gate functions of request.rs / authorizer.rs / roles.rs still have the shape the model describes, and
    every function taking a [Request] lies on a path from [dispatch_request]. *)
Theorem gen_shapes_recognised : gen_shapes_unrecognised = [] /\ gen_unreached_handlers = [].
Proof. split; reflexivity. Qed.

(** * Permission sets *)

Lemma perm_index_inj : forall p q, perm_index p = perm_index q -> p = q.
Proof. intros p q; destruct p; destruct q; simpl; intros H; try reflexivity; discriminate H. Qed.

Lemma perm_eqb_eq : forall p q, perm_eqb p q = true <-> p = q.
Proof.
  intros p q; unfold perm_eqb; rewrite N.eqb_eq. split; [apply perm_index_inj|intros ->; reflexivity].
Qed.

(** [perm_index] is the position in the declaration list. *)
Lemma perm_index_position : forall p, nth_error all_perms (N.to_nat (perm_index p)) = Some p.
Proof. destruct p; reflexivity. Qed.

Lemma all_perms_complete : forall p, In p all_perms.
Proof. destruct p; simpl; tauto. Qed.

Lemma has_mask : forall p q, has (mask p) q = perm_eqb p q.
Proof.
  intros p q. unfold has, mask, perm_eqb. rewrite N.shiftl_1_l. apply N.pow2_bits_eqb.
Qed.

Lemma has_add : forall s p q, has (add s p) q = has s q || perm_eqb p q.
Proof. intros. unfold add. unfold has at 1. rewrite N.lor_spec. fold (has s q). fold (has (mask p) q). rewrite has_mask. reflexivity. Qed.

Lemma has_add_set : forall s t q, has (add_set s t) q = has s q || has t q.
Proof. intros. unfold add_set, has. apply N.lor_spec. Qed.

Lemma has_remove : forall s p q, has (remove s p) q = has s q && negb (perm_eqb p q).
Proof. intros. unfold remove. unfold has at 1. rewrite N.ldiff_spec. fold (has s q). fold (has (mask p) q). rewrite has_mask. reflexivity. Qed.

Lemma has_none : forall p, has NONE p = false.
Proof. intros. unfold has, NONE. apply N.bits_0. Qed.

Lemma has_any : forall p, has ANY p = true.
Proof. destruct p; reflexivity. Qed.

Lemma has_fold_add : forall l s q, has (fold_left add l s) q = has s q || existsb (fun p => perm_eqb p q) l.
Proof.
  induction l as [|p l IH]; intros s q; simpl.
  - rewrite orb_false_r. reflexivity.
  - rewrite IH, has_add. rewrite orb_assoc. reflexivity.
Qed.

(** A set built from a list holds exactly the listed permissions. *)
Theorem has_of_list : forall l q, has (of_list l) q = true <-> In q l.
Proof.
  intros l q. unfold of_list. rewrite has_fold_add. fold NONE. rewrite has_none. simpl.
  rewrite existsb_exists. split.
  - intros [p [Hin He]]. apply perm_eqb_eq in He. subst. exact Hin.
  - intros Hin. exists q. split; [exact Hin|apply perm_eqb_eq; reflexivity].
Qed.

(** The built-in sets, read off as lists (the numbers are what [of_list] computes). *)
Theorem builtin_sets_meaning :
  (forall p, has READONLY p = true <->
     In p [Login; CaList; CaRead; PubList; PubRead; RoutesRead; RoutesAnalysis; AspasRead; BgpsecRead; RtaList; RtaRead])
  /\ (forall p, has READONLY p = true -> is_read_perm p = true)
  /\ (forall p, has READONLY p = true -> has READWRITE p = true)
  /\ has READWRITE PubAdmin = false /\ has READWRITE CaAdmin = false /\ has READWRITE CaDelete = false
  /\ has TESTBED Login = false.
Proof.
  split; [intros p; apply has_of_list|].
  split; [destruct p; vm_compute; congruence|].
  split; [destruct p; vm_compute; congruence|].
  repeat split; reflexivity.
Qed.

(** * Role evaluation: a grant for the addressed CA takes precedence over the blanket grant *)

Theorem per_ca_precedence : forall (r : role) (p : perm) (h : handle),
  (forall s, lookup_res h (r_res r) = Some s -> is_allowed r p (Some h) = has s p)
  /\ (lookup_res h (r_res r) = None -> is_allowed r p (Some h) = has (r_any r) p)
  /\ is_allowed r p None = has (r_none r) p.
Proof.
  intros r p h. unfold is_allowed. split; [|split].
  - intros s ->. reflexivity.
  - intros ->. reflexivity.
  - reflexivity.
Qed.

Lemma lookup_res_cons : forall h h' s l,
  lookup_res h ((h', s) :: l) = if String.eqb h h' then Some s else lookup_res h l.
Proof. intros. unfold lookup_res. simpl. destruct (String.eqb h h'); reflexivity. Qed.

(** Roles of the configuration file ([cas = [...]]): the listed CAs get the set, every other CA nothing,
    requests without CA the set. *)
Theorem with_resources_spec : forall s cas p h,
  is_allowed (with_resources s cas) p (Some h) = (existsb (String.eqb h) cas && has s p)
  /\ is_allowed (with_resources s cas) p None = has s p.
Proof.
  intros s cas p h. split; [|reflexivity].
  unfold is_allowed, with_resources; simpl.
  induction cas as [|c cas IH]; simpl.
  - exact (has_none p).
  - rewrite lookup_res_cons. destruct (String.eqb h c); simpl; [reflexivity|exact IH].
Qed.

Theorem simple_spec : forall s p res, is_allowed (simple s) p res = has s p.
Proof. intros s p [h|]; reflexivity. Qed.

Example per_ca_precedence_nonvacuous :
  let r := complex READONLY ANY [("ca1", NONE)]%string in
  lookup_res "ca1" (r_res r) = Some NONE /\ is_allowed r CaRead (Some "ca1"%string) = false
  /\ lookup_res "ca2" (r_res r) = None /\ is_allowed r CaDelete (Some "ca2"%string) = true
  /\ is_allowed r CaDelete None = false.
Proof. vm_compute. repeat split. Qed.

(** * The decision *)

Lemma find_route_some : forall t q r, find_route t q = Some r -> In r t /\ route_matches q r = true.
Proof. intros t q r H. apply find_some in H. exact H. Qed.

(** A request is served iff the caller is allowed every gate of its route - for every table, every role or
    authentication result, every request. *)
Theorem decision_correct : forall (t : list route) (tb : bool) (a : auth) (q : request) (r : route),
  find_route t q = Some r -> (rt_testbed r = true -> tb = true) ->
  (authorize t tb a q = Served <->
   forall g, In g (rt_gates r) -> auth_allows a (g_perm g) (scope_of q (g_scope g)) = true).
Proof.
  intros t tb a q r Hf Htb. unfold authorize. rewrite Hf.
  assert (E : rt_testbed r && negb tb = false).
  { destruct (rt_testbed r); [rewrite (Htb eq_refl)|]; reflexivity. }
  rewrite E. destruct (forallb (gate_ok a q) (rt_gates r)) eqn:F.
  - split; [|reflexivity]. intros _ g Hg. rewrite forallb_forall in F. exact (F g Hg).
  - split.
    + destruct a; discriminate.
    + intros H. assert (forallb (gate_ok a q) (rt_gates r) = true) by (apply forallb_forall; exact H). congruence.
Qed.

(** What a refusal looks like: 403 for a role, 401 for an authentication error; never anything else. *)
Theorem refusal_kind : forall t tb a q r,
  find_route t q = Some r -> (rt_testbed r = true -> tb = true) ->
  authorize t tb a q <> Served ->
  (exists g, In g (rt_gates r) /\ auth_allows a (g_perm g) (scope_of q (g_scope g)) = false)
  /\ match a with
     | AuthRole _ => authorize t tb a q = Forbidden
     | AuthError => authorize t tb a q = Unauthenticated
     end.
Proof.
  intros t tb a q r Hf Htb. unfold authorize. rewrite Hf.
  assert (E : rt_testbed r && negb tb = false).
  { destruct (rt_testbed r); [rewrite (Htb eq_refl)|]; reflexivity. }
  rewrite E. destruct (forallb (gate_ok a q) (rt_gates r)) eqn:F; [congruence|].
  intros _. split.
  - clear -F. induction (rt_gates r) as [|g l IH]; simpl in F; [discriminate|].
    apply andb_false_iff in F. destruct F as [F|F].
    + exists g. split; [left; reflexivity|exact F].
    + destruct (IH F) as [g' [Hin Hg']]. exists g'. split; [right; exact Hin|exact Hg'].
  - destruct a; reflexivity.
Qed.

(** Testbed routes do not exist while testbed mode is off. *)
Theorem testbed_gating : forall t a q r,
  find_route t q = Some r -> rt_testbed r = true -> authorize t false a q = NotFound.
Proof. intros t a q r Hf Ht. unfold authorize. rewrite Hf, Ht. reflexivity. Qed.

Example decision_correct_nonvacuous :
  let q := mkReq MPOST ["api"; "v1"; "cas"; "ca1"; "routes"]%string in
  (exists r, find_route spec_routes q = Some r /\ rt_testbed r = false)
  /\ authorize spec_routes false (AuthRole role_readwrite) q = Served
  /\ authorize spec_routes false (AuthRole role_readonly) q = Forbidden
  /\ authorize spec_routes false AuthError q = Unauthenticated
  /\ authorize spec_routes false (AuthRole (with_resources READWRITE ["ca2"]%string)) q = Forbidden
  /\ authorize spec_routes false (AuthRole (with_resources READWRITE ["ca1"]%string)) q = Served.
Proof. vm_compute. repeat split. eexists. split; reflexivity. Qed.

(** * Sanity of the specification table *)

Definition sane_b (r : route) : bool :=
  is_public r ||
  ( forallb (fun g => scope_wf (rt_pat r) (g_scope g)) (rt_gates r)
    && (negb (per_ca r) || existsb (fun g => scope_eqb (g_scope g) (SParam ca_ix)) (rt_gates r))
    && (negb (state_changing r) ||
        existsb (fun g => negb (is_read_perm (g_perm g)) && family_eqb (perm_family (g_perm g)) (route_family r)) (rt_gates r))
    && (negb (under_api r) || match rt_gates r with g :: _ => gate_eqb g login | [] => false end)
    && under_api r ).

Lemma spec_sane_b : forallb sane_b spec_routes = true.
Proof. vm_compute. reflexivity. Qed.

Lemma scope_eqb_eq : forall a b, scope_eqb a b = true -> a = b.
Proof. intros [|i] [|j]; simpl; intros H; try discriminate; [reflexivity|apply N.eqb_eq in H; subst; reflexivity]. Qed.

Lemma family_eqb_eq : forall a b, family_eqb a b = true -> a = b.
Proof. intros [] []; simpl; intros H; try discriminate; reflexivity. Qed.

Lemma gate_eqb_eq : forall a b, gate_eqb a b = true -> a = b.
Proof.
  intros [p s] [p' s']; unfold gate_eqb; simpl. intros H. apply andb_true_iff in H. destruct H as [Hp Hs].
  apply perm_eqb_eq in Hp. apply scope_eqb_eq in Hs. subst. reflexivity.
Qed.

(** Every gated route of the specification: its scopes name path parameters; a route on one CA has a gate
    scoped on that CA; a state-changing route needs a non-read permission of the family whose state it changes;
    it lies under the versioned API and asks for the login permission first. *)
Theorem spec_sane : forall r, In r spec_routes -> rt_gates r <> [] ->
  (forall g, In g (rt_gates r) -> scope_wf (rt_pat r) (g_scope g) = true)
  /\ (per_ca r = true -> exists g, In g (rt_gates r) /\ g_scope g = SParam ca_ix)
  /\ (state_changing r = true ->
      exists g, In g (rt_gates r) /\ is_read_perm (g_perm g) = false /\ perm_family (g_perm g) = route_family r)
  /\ under_api r = true
  /\ hd_error (rt_gates r) = Some login.
Proof.
  intros r Hin Hg. pose proof spec_sane_b as S. rewrite forallb_forall in S. specialize (S r Hin).
  unfold sane_b in S. apply orb_true_iff in S. destruct S as [S|S].
  { unfold is_public in S. destruct (rt_gates r); [congruence|discriminate]. }
  repeat (apply andb_true_iff in S; destruct S as [S ?]).
  rename H into Hu, H0 into Hl, H1 into Hs, H2 into Hc.
  split; [rewrite forallb_forall in S; exact S|].
  split.
  { intros P. rewrite P in Hc. simpl in Hc. apply existsb_exists in Hc. destruct Hc as [g [Hi He]].
    exists g. split; [exact Hi|apply scope_eqb_eq; exact He]. }
  split.
  { intros P. rewrite P in Hs. simpl in Hs. apply existsb_exists in Hs. destruct Hs as [g [Hi He]].
    apply andb_true_iff in He. destruct He as [He1 He2]. exists g. split; [exact Hi|].
    split; [apply negb_true_iff; exact He1|apply family_eqb_eq; exact He2]. }
  split; [exact Hu|].
  rewrite Hu in Hl. simpl in Hl. destruct (rt_gates r) as [|g l]; [discriminate|].
  simpl. apply gate_eqb_eq in Hl. congruence.
Qed.

Example spec_sane_nonvacuous :
  exists r, In r spec_routes /\ rt_gates r <> [] /\ per_ca r = true /\ state_changing r = true.
Proof.
  exists (norm_route (ca_op MDELETE [] CaDelete)). split; [vm_compute; tauto|].
  split; [discriminate|]. split; reflexivity.
Qed.

(** No request fits two rows of the specification (so the order of the rows is immaterial). *)
Fixpoint all_optional (b : list seg) : bool :=
  match b with
  | [] => true
  | Rest :: _ => true
  | OptParam :: b' => all_optional b'
  | _ => false
  end.

Definition seg_compat (x y : seg) : bool :=
  match x, y with
  | OptParam, _ | _, OptParam => true
  | Lit a, Lit b => String.eqb a b
  | Lit a, Param | Param, Lit a => negb (String.eqb a "")
  | Param, Param => true
  | _, _ => true
  end.

(** Could one path fit both patterns? (over-approximation) *)
Fixpoint unify (a b : list seg) : bool :=
  match a with
  | [] => all_optional b
  | Rest :: _ => true
  | x :: a' =>
      match b with
      | [] => match x with OptParam => unify a' [] | _ => false end
      | Rest :: _ => true
      | y :: b' => seg_compat x y && unify a' b'
      end
  end.

Fixpoint pairwise {A} (f : A -> A -> bool) (l : list A) : bool :=
  match l with
  | [] => true
  | x :: r => forallb (f x) r && pairwise f r
  end.

Theorem spec_unambiguous :
  pairwise (fun a b => negb (meth_eqb (rt_meth a) (rt_meth b) && unify (rt_pat a) (rt_pat b))) spec_routes = true.
Proof. vm_compute. reflexivity. Qed.

(** * Login gate: nothing under /api/v1 is served without the login permission *)

Definition admits_api (pat : list seg) : bool :=
  match pat with
  | Lit a :: Lit b :: _ => String.eqb a "api" && String.eqb b "v1"
  | Lit a :: _ => String.eqb a "api"
  | [] => false
  | _ => true
  end.

Lemma match_admits_api : forall pat rest, match_pat pat ("api" :: "v1" :: rest)%string = true -> admits_api pat = true.
Proof.
  intros pat rest H. destruct pat as [|[a| | |] pat]; simpl in *; try reflexivity; try discriminate.
  apply andb_true_iff in H. destruct H as [Ha H]. apply String.eqb_eq in Ha. subst a.
  destruct pat as [|[b| | |] pat]; simpl in *; try reflexivity.
  apply andb_true_iff in H. destruct H as [Hb _]. apply String.eqb_eq in Hb. subst b. reflexivity.
Qed.

Lemma api_routes_login_b :
  forallb (fun r => negb (admits_api (rt_pat r)) ||
                    match rt_gates r with g :: _ => gate_eqb g login | [] => false end) spec_routes = true.
Proof. vm_compute. reflexivity. Qed.

Theorem login_gate : forall (tb : bool) (a : auth) (m : meth) (rest : list string),
  authorize spec_routes tb a (mkReq m ("api" :: "v1" :: rest)%string) = Served ->
  auth_allows a Login None = true.
Proof.
  intros tb a m rest H. unfold authorize in H.
  destruct (find_route spec_routes _) as [r|] eqn:Hf; [|discriminate].
  apply find_route_some in Hf. destruct Hf as [Hin Hm].
  unfold route_matches in Hm. apply andb_true_iff in Hm. destruct Hm as [_ Hm]. simpl in Hm.
  apply match_admits_api in Hm.
  pose proof api_routes_login_b as L. rewrite forallb_forall in L. specialize (L r Hin).
  rewrite Hm in L. simpl in L.
  destruct (rt_testbed r && negb tb); [discriminate|].
  destruct (rt_gates r) as [|g l]; [discriminate|]. apply gate_eqb_eq in L. subst g.
  simpl in H. unfold gate_ok at 1 in H. simpl in H.
  destruct (auth_allows a Login None); [reflexivity|]. simpl in H. destruct a; discriminate.
Qed.

Example login_gate_nonvacuous :
  authorize spec_routes false (AuthRole (simple (of_list [Login]))) (mkReq MGET ["api"; "v1"; "cas"]%string) = Served
  /\ authorize spec_routes false (AuthRole (simple (remove ANY Login))) (mkReq MGET ["api"; "v1"; "cas"]%string) = Forbidden.
Proof. vm_compute. split; reflexivity. Qed.

(** * Without credentials: exactly the public endpoints *)

Lemma anon_is_allowed : forall p res, is_allowed role_anonymous p res = false.
Proof. intros p [h|]; exact (has_none p). Qed.

Lemma anonymous_allows_nothing : forall p res, auth_allows (AuthRole role_anonymous) p res = false.
Proof. intros p [h|]; exact (has_none p). Qed.

Lemma public_rows_b :
  forallb (fun r => match rt_pat r with Lit _ :: _ => true | _ => false end
                    && Bool.eqb (is_public r) (in_public_roots (rt_pat r))
                    && Bool.eqb (rt_testbed r) (String.eqb (root_of (rt_pat r)) "testbed")) spec_routes = true.
Proof. vm_compute. reflexivity. Qed.

Lemma match_lit_root : forall s pat path, match_pat (Lit s :: pat) path = true -> path_root path = s.
Proof.
  intros s pat [|x path] H; simpl in H; [discriminate|]. apply andb_true_iff in H. destruct H as [H _].
  apply String.eqb_eq in H. subst. reflexivity.
Qed.

(** A caller without credentials (over TCP: the anonymous role, which holds nothing) is served exactly on the
    routes whose first path segment is one of [public_roots] - and under /testbed only in testbed mode. *)
Theorem public_exactly : forall (tb : bool) (q : request) (r : route),
  find_route spec_routes q = Some r ->
  (authorize spec_routes tb (AuthRole role_anonymous) q = Served <->
   In (path_root (q_path q)) public_roots /\ (path_root (q_path q) = "testbed"%string -> tb = true)).
Proof.
  intros tb q r Hf. pose proof (find_route_some _ _ _ Hf) as [Hin Hm].
  pose proof public_rows_b as P. rewrite forallb_forall in P. specialize (P r Hin).
  apply andb_true_iff in P. destruct P as [P Ht]. apply andb_true_iff in P. destruct P as [Hl Hp].
  apply Bool.eqb_prop in Hp. apply Bool.eqb_prop in Ht.
  destruct (rt_pat r) as [|[s| | |] pat] eqn:Epat; try discriminate.
  unfold route_matches in Hm. apply andb_true_iff in Hm. destruct Hm as [_ Hm]. rewrite Epat in Hm.
  apply match_lit_root in Hm. rewrite Hm.
  unfold in_public_roots in Hp. simpl root_of in *.
  unfold authorize. rewrite Hf. rewrite Ht.
  assert (Hroots : In s public_roots <-> existsb (String.eqb s) public_roots = true).
  { rewrite existsb_exists. split.
    - intros H. exists s. split; [exact H|apply String.eqb_refl].
    - intros [x [Hx He]]. apply String.eqb_eq in He. subst. exact Hx. }
  rewrite Hroots, <- Hp.
  destruct (String.eqb s "testbed") eqn:Es.
  - apply String.eqb_eq in Es. destruct tb; simpl.
    + unfold is_public. destruct (rt_gates r) as [|g l]; simpl.
      * split; [intros _; split; [reflexivity|reflexivity]|reflexivity].
      * rewrite anon_is_allowed. simpl. split; [discriminate|intros [H _]; discriminate].
    + split; [discriminate|]. intros [_ H]. specialize (H Es). discriminate.
  - apply String.eqb_neq in Es. simpl. unfold is_public. destruct (rt_gates r) as [|g l]; simpl.
    + split; [intros _; split; [reflexivity|intros; congruence]|reflexivity].
    + rewrite anon_is_allowed. simpl. split; [discriminate|intros [H _]; discriminate].
Qed.

(** The public rows, spelled out. *)
Theorem public_rows :
  map (fun r => (rt_meth r, rt_pat r)) (filter is_public spec_routes) =
  [ (MGET, [Lit ""; Rest]);
    (MGET, [Lit "assets"; Param]);
    (MGET, [Lit "auth"; Lit "callback"]); (MGET, [Lit "auth"; Lit "login"]); (MPOST, [Lit "auth"; Lit "login"]);
    (MPOST, [Lit "auth"; Lit "logout"]);
    (MGET, [Lit "health"]); (MGET, [Lit "metrics"]);
    (MPOST, [Lit "rfc6492"; Param]); (MPOST, [Lit "rfc8181"; Param]); (MGET, [Lit "rrdp"; Rest]);
    (MGET, [Lit "stats"; Lit "cas"]); (MGET, [Lit "stats"; Lit "info"]); (MGET, [Lit "stats"; Lit "repo"]);
    (MGET, [Lit "ta"; Lit "ta.cer"]); (MGET, [Lit "ta"; Lit "ta.tal"]);
    (MPOST, [Lit "testbed"; Lit "children"]); (MDELETE, [Lit "testbed"; Lit "children"; Param]);
    (MGET, [Lit "testbed"; Lit "children"; Param; Lit "parent_response.xml"]);
    (MGET, [Lit "testbed"; Lit "enabled"]);
    (MPOST, [Lit "testbed"; Lit "publishers"]); (MDELETE, [Lit "testbed"; Lit "publishers"; Param]);
    (MGET, [Lit "testbed"; Lit "publishers"; Param; Lit "response.xml"]);
    (MGET, [Lit "testbed.tal"]);
    (MGET, [Lit "ui"; Rest]) ]%string.
Proof. vm_compute. reflexivity. Qed.

Example public_exactly_nonvacuous :
  authorize spec_routes false (AuthRole role_anonymous) (mkReq MGET ["health"]%string) = Served
  /\ authorize spec_routes false (AuthRole role_anonymous) (mkReq MGET ["testbed"; "enabled"]%string) = NotFound
  /\ authorize spec_routes true (AuthRole role_anonymous) (mkReq MGET ["testbed"; "enabled"]%string) = Served
  /\ authorize spec_routes true (AuthRole role_anonymous) (mkReq MGET ["api"; "v1"; "cas"]%string) = Forbidden.
Proof. vm_compute. repeat split. Qed.

(** * Per-CA routes: the CA named in the path decides *)

Lemma per_ca_rows_b :
  forallb (fun r => negb (per_ca r) || existsb (gate_eqb (on_ca CaRead)) (rt_gates r)) spec_routes = true.
Proof. vm_compute. reflexivity. Qed.

(** If the role has an entry for the addressed CA that lacks CaRead, no route under /api/v1/cas/{ca} is served,
    whatever the blanket grant says. *)
Theorem per_ca_route_precedence : forall tb (ro : role) q r s,
  find_route spec_routes q = Some r -> per_ca r = true ->
  lookup_res (nth 3 (q_path q) ""%string) (r_res ro) = Some s -> has s CaRead = false ->
  authorize spec_routes tb (AuthRole ro) q <> Served.
Proof.
  intros tb ro q r s Hf Hp Hl Hh. pose proof (find_route_some _ _ _ Hf) as [Hin _].
  pose proof per_ca_rows_b as P. rewrite forallb_forall in P. specialize (P r Hin). rewrite Hp in P. simpl in P.
  apply existsb_exists in P. destruct P as [g [Hg He]]. apply gate_eqb_eq in He. subst g.
  unfold authorize. rewrite Hf. destruct (rt_testbed r && negb tb); [discriminate|].
  destruct (forallb (gate_ok (AuthRole ro) q) (rt_gates r)) eqn:F; [|discriminate].
  rewrite forallb_forall in F. specialize (F _ Hg). unfold gate_ok in F. simpl in F.
  change (Pos.to_nat 3) with 3%nat in F. rewrite Hl in F. congruence.
Qed.

Example per_ca_route_precedence_nonvacuous :
  let ro := complex ANY ANY [("ca1", remove ANY CaRead)]%string in
  authorize spec_routes false (AuthRole ro) (mkReq MGET ["api"; "v1"; "cas"; "ca1"]%string) = Forbidden
  /\ authorize spec_routes false (AuthRole ro) (mkReq MGET ["api"; "v1"; "cas"; "ca2"]%string) = Served.
Proof. vm_compute. split; reflexivity. Qed.

(** * Listings *)
Theorem listing_filtered : forall a p all h,
  In h (listing_of a (F p FEntry) all) <-> In h all /\ auth_allows a p (Some h) = true.
Proof. intros. unfold listing_of, readable. simpl. apply filter_In. Qed.

(** A listing filtered with the general grant shows everything or nothing - it is not a per-CA filter. *)
Theorem listing_general_all_or_nothing : forall a p all,
  listing_of a (F p FGeneral) all = all \/ listing_of a (F p FGeneral) all = [].
Proof. intros. unfold listing_of. simpl. destruct (auth_allows a p None); [left|right]; reflexivity. Qed.

Theorem listing_rows :
  map (fun r => (rt_pat r, rt_filter r)) (filter (fun r => match rt_filter r with Some _ => true | None => false end) spec_routes)
  = [ (api [Lit "bulk"; Lit "cas"; Lit "issues"], Some (F CaRead FEntry)); (api [Lit "cas"], Some (F CaRead FEntry)) ]%string.
Proof. vm_compute. reflexivity. Qed.

(** * Roles limited to CAs: the scope is the literal list of handles *)

(** A role of the configuration file with [cas = [...]] holds a permission on CA [h] iff [h] itself - the same
    string, byte for byte - is in the list (roles.rs:91-102 keys the table by the handle as written,
    roles.rs:136-146 looks the addressed handle up unchanged; [MyHandle] compares as a string). *)
Theorem scoped_role_exact : forall s cas p h,
  is_allowed (with_resources s cas) p (Some h) = true <-> In h cas /\ has s p = true.
Proof.
  intros s cas p h. destruct (with_resources_spec s cas p h) as [-> _].
  rewrite andb_true_iff, existsb_exists. split.
  - intros [[x [Hx He]] Hs]. apply String.eqb_eq in He. subst x. split; assumption.
  - intros [Hi Hs]. split; [|exact Hs]. exists h. split; [exact Hi|apply String.eqb_refl].
Qed.

(** Handles that differ only in the case of letters, or of which one is a prefix of the other, are different CAs. *)
Example scoped_role_case_sensitive :
  let ro := with_resources ANY ["alice"]%string in
  is_allowed ro CaRead (Some "alice"%string) = true
  /\ is_allowed ro CaRead (Some "ALICE"%string) = false
  /\ is_allowed ro CaRead (Some "Alice"%string) = false
  /\ is_allowed ro CaRead (Some "alice2"%string) = false
  /\ is_allowed ro CaRead (Some "alic"%string) = false
  /\ listing_of (AuthRole ro) (F CaRead FEntry) ["ALICE"; "Alice"; "alice"; "alice2"]%string = ["alice"]%string
  /\ authorize spec_routes true (AuthRole ro) (mkReq MDELETE ["api"; "v1"; "cas"; "alice"]%string) = Served
  /\ authorize spec_routes true (AuthRole ro) (mkReq MDELETE ["api"; "v1"; "cas"; "ALICE"]%string) = Forbidden
  /\ authorize spec_routes true (AuthRole ro) (mkReq MGET ["api"; "v1"; "cas"; "alice2"; "routes"]%string) = Forbidden.
Proof. vm_compute. repeat split. Qed.

(** No route under /api/v1/cas/{ca} is served to a scoped role when {ca} is not literally in its list. *)
Theorem scoped_role_route_refused : forall tb s cas q r,
  find_route spec_routes q = Some r -> per_ca r = true ->
  ~ In (nth 3 (q_path q) ""%string) cas ->
  authorize spec_routes tb (AuthRole (with_resources s cas)) q = Forbidden \/
  authorize spec_routes tb (AuthRole (with_resources s cas)) q = NotFound.
Proof.
  intros tb s cas q r Hf Hp Hn. pose proof (find_route_some _ _ _ Hf) as [Hin _].
  pose proof per_ca_rows_b as P. rewrite forallb_forall in P. specialize (P r Hin). rewrite Hp in P. simpl in P.
  apply existsb_exists in P. destruct P as [g [Hg He]]. apply gate_eqb_eq in He. subst g.
  unfold authorize. rewrite Hf. destruct (rt_testbed r && negb tb); [right; reflexivity|left].
  destruct (forallb (gate_ok (AuthRole (with_resources s cas)) q) (rt_gates r)) eqn:Fa; [|reflexivity].
  exfalso. rewrite forallb_forall in Fa. specialize (Fa _ Hg). unfold gate_ok in Fa. simpl in Fa.
  change (Pos.to_nat 3) with 3%nat in Fa.
  apply (proj1 (scoped_role_exact s cas CaRead _)) in Fa. exact (Hn (proj1 Fa)).
Qed.

Example scoped_role_route_refused_nonvacuous :
  let q := mkReq MPOST ["api"; "v1"; "cas"; "Alice"; "routes"]%string in
  (exists r, find_route spec_routes q = Some r /\ per_ca r = true)
  /\ ~ In (nth 3 (q_path q) ""%string) ["alice"; "ALICE"; "alice2"]%string.
Proof.
  split; [eexists; split; vm_compute; reflexivity|].
  simpl. intros [H|[H|[H|[]]]]; discriminate.
Qed.

(** The listings show a scoped role exactly the CAs of its list (that exist), provided its set has CaRead. *)
Theorem scoped_listing_exact : forall s cas all h,
  In h (listing_of (AuthRole (with_resources s cas)) (F CaRead FEntry) all)
  <-> In h all /\ In h cas /\ has s CaRead = true.
Proof.
  intros. rewrite listing_filtered.
  change (auth_allows (AuthRole (with_resources s cas)) CaRead (Some h)) with (is_allowed (with_resources s cas) CaRead (Some h)).
  rewrite scoped_role_exact. tauto.
Qed.

(** * Testbed routes are served in testbed mode and in no other configuration *)

Theorem testbed_served_is_testbed_mode :
  (forall cfg, testbed_served cfg = testbed_on cfg) /\ (forall ta tb, testbed_served (mkCfg ta tb) = tb).
Proof. split; reflexivity. Qed.

Lemma testbed_rows_open_b : forallb (fun r => negb (rt_testbed r) || is_public r) spec_routes = true.
Proof. vm_compute. reflexivity. Qed.

(** Whoever asks, with whatever credentials: a route under /testbed is served iff the [testbed] section is present;
    [ta_support_enabled] does not enter. *)
Theorem testbed_routes_iff_testbed_mode : forall cfg a q r,
  find_route spec_routes q = Some r -> rt_testbed r = true ->
  (authorize spec_routes (testbed_served cfg) a q = Served <-> cfg_testbed cfg = true)
  /\ (cfg_testbed cfg = false -> authorize spec_routes (testbed_served cfg) a q = NotFound).
Proof.
  intros [ta tb] a q r Hf Ht. pose proof (find_route_some _ _ _ Hf) as [Hin _].
  pose proof testbed_rows_open_b as P. rewrite forallb_forall in P. specialize (P r Hin). rewrite Ht in P. simpl in P.
  unfold is_public in P. destruct (rt_gates r) as [|g l] eqn:Eg; [|discriminate].
  unfold authorize, testbed_served, testbed_on. simpl cfg_testbed. rewrite Hf, Ht, Eg.
  destruct tb; simpl; split; try (split; [reflexivity|reflexivity]); try discriminate; try reflexivity.
  split; discriminate.
Qed.

Example testbed_routes_iff_testbed_mode_nonvacuous :
  let q := mkReq MPOST ["testbed"; "publishers"]%string in
  let anon := AuthRole role_anonymous in
  (exists r, find_route spec_routes q = Some r /\ rt_testbed r = true)
  /\ ta_proxy_on (mkCfg true false) = true
  /\ authorize spec_routes (testbed_served (mkCfg true false)) anon q = NotFound
  /\ authorize spec_routes (testbed_served (mkCfg false false)) anon q = NotFound
  /\ authorize spec_routes (testbed_served (mkCfg false true)) anon q = Served
  /\ authorize spec_routes (testbed_served (mkCfg true true)) anon q = Served.
Proof. split; [eexists; split; vm_compute; reflexivity|]. vm_compute. repeat split. Qed.

(** * The oracle is the boolean form of the model: whenever an observation agrees with the model, the
      property holds on it. *)
Lemma same_set_sub : forall a b x, same_set a b = true -> In x a -> In x b.
Proof.
  intros a b x H Hx. unfold same_set in H. apply andb_true_iff in H. destruct H as [H _].
  rewrite forallb_forall in H. specialize (H x Hx). unfold mem_str in H. apply existsb_exists in H.
  destruct H as [y [Hy He]]. apply String.eqb_eq in He. subst. exact Hy.
Qed.

Theorem agrees_implies_ok : forall c, agrees c = true -> c13_ok c = true.
Proof.
  intros c H. unfold agrees in H. unfold c13_ok.
  destruct (find_route spec_routes (c_req c)) as [r|] eqn:Hf; [|discriminate].
  apply andb_true_iff in H. destruct H as [H Hl]. apply andb_true_iff in H. destruct H as [Hs He].
  rewrite He. simpl.
  apply andb_true_iff. split.
  - unfold authorize in Hs. rewrite Hf in Hs.
    destruct (rt_testbed r && negb (c_testbed c)) eqn:Et.
    + destruct (rt_kind r) eqn:Ek; try exact Hs.
      (* KRaw testbed route: none in the table *)
      exfalso. pose proof (find_route_some _ _ _ Hf) as [Hin _].
      assert (K : forallb (fun r => negb (rt_testbed r) || match rt_kind r with KRaw => false | _ => true end) spec_routes = true)
        by (vm_compute; reflexivity).
      rewrite forallb_forall in K. specialize (K r Hin). apply andb_true_iff in Et. destruct Et as [Et _].
      rewrite Et, Ek in K. discriminate.
    + destruct (rt_kind r) eqn:Ek; try reflexivity;
        (destruct (forallb (gate_ok (c_auth c) (c_req c)) (rt_gates r)); [apply orb_true_r|];
         destruct (c_auth c); unfold refused; rewrite Hs; simpl; rewrite ?orb_true_r; reflexivity).
  - destruct (c_listing c) as [shown|]; [|reflexivity].
    destruct (rt_filter r) as [f|] eqn:Ef; [|discriminate].
    pose proof (find_route_some _ _ _ Hf) as [Hin _].
    assert (K : forallb (fun r => match rt_filter r with
                                  | Some f => perm_eqb (f_perm f) CaRead && match f_scope f with FEntry => true | FGeneral => false end
                                  | None => true end) spec_routes = true)
      by (vm_compute; reflexivity).
    rewrite forallb_forall in K. specialize (K r Hin). rewrite Ef in K.
    apply andb_true_iff in K. destruct K as [Kp Ks]. apply perm_eqb_eq in Kp.
    unfold listing_of in Hl. destruct (f_scope f); [|discriminate]. rewrite Kp in Hl. exact Hl.
Qed.
