(** Permissions, permission sets and roles of the Krill HTTP API (model; definitions only).

    Modelled code (as it is in /repo):
    - src/daemon/http/auth/permission.rs:13-87   [define_permission!]: the enum, declaration order = bit position
    - src/daemon/http/auth/permission.rs:138-190 [PermissionSet(u32)]: mask / add / add_set / remove / has / from_permissions
    - src/daemon/http/auth/permission.rs:193-260 the constant sets ANY, NONE, READONLY, READWRITE, TESTBED, CONF_READ, CONF_UPDATE
    - src/daemon/http/auth/roles.rs:24-146       [Role { none, any, resources }], simple / with_resources / complex / is_allowed

    The tie to the source is the generated file gen/GenRoutes.v (translator t_routes.py, part T2) and the
    obligations in auth/RoutesProofs.v ([gen_perms_conform], [gen_sets_conform], [gen_roles_conform]). *)
From Coq Require Import String.
From KV Require Import base.Tac.
Open Scope N_scope.

(** ** Permissions (permission.rs:64-87) *)
Inductive perm :=
  | Login | PubAdmin | PubList | PubRead | PubCreate | PubDelete
  | CaList | CaRead | CaCreate | CaUpdate | CaAdmin | CaDelete
  | RoutesRead | RoutesUpdate | RoutesAnalysis
  | AspasRead | AspasUpdate | BgpsecRead | BgpsecUpdate
  | RtaList | RtaRead | RtaUpdate.

Definition all_perms : list perm :=
  [Login; PubAdmin; PubList; PubRead; PubCreate; PubDelete;
   CaList; CaRead; CaCreate; CaUpdate; CaAdmin; CaDelete;
   RoutesRead; RoutesUpdate; RoutesAnalysis;
   AspasRead; AspasUpdate; BgpsecRead; BgpsecUpdate;
   RtaList; RtaRead; RtaUpdate].

(** [#[repr(u32)]]: the discriminant is the position in the declaration. *)
Definition perm_index (p : perm) : N :=
  match p with
  | Login => 0 | PubAdmin => 1 | PubList => 2 | PubRead => 3 | PubCreate => 4 | PubDelete => 5
  | CaList => 6 | CaRead => 7 | CaCreate => 8 | CaUpdate => 9 | CaAdmin => 10 | CaDelete => 11
  | RoutesRead => 12 | RoutesUpdate => 13 | RoutesAnalysis => 14
  | AspasRead => 15 | AspasUpdate => 16 | BgpsecRead => 17 | BgpsecUpdate => 18
  | RtaList => 19 | RtaRead => 20 | RtaUpdate => 21
  end.

Definition perm_name (p : perm) : string :=
  match p with
  | Login => "Login" | PubAdmin => "PubAdmin" | PubList => "PubList" | PubRead => "PubRead"
  | PubCreate => "PubCreate" | PubDelete => "PubDelete"
  | CaList => "CaList" | CaRead => "CaRead" | CaCreate => "CaCreate" | CaUpdate => "CaUpdate"
  | CaAdmin => "CaAdmin" | CaDelete => "CaDelete"
  | RoutesRead => "RoutesRead" | RoutesUpdate => "RoutesUpdate" | RoutesAnalysis => "RoutesAnalysis"
  | AspasRead => "AspasRead" | AspasUpdate => "AspasUpdate" | BgpsecRead => "BgpsecRead" | BgpsecUpdate => "BgpsecUpdate"
  | RtaList => "RtaList" | RtaRead => "RtaRead" | RtaUpdate => "RtaUpdate"
  end%string.

(** The name used in the configuration file ([serde(rename = $text)], [FromStr]). *)
Definition perm_text (p : perm) : string :=
  match p with
  | Login => "login" | PubAdmin => "pub-admin" | PubList => "pub-list" | PubRead => "pub-read"
  | PubCreate => "pub-create" | PubDelete => "pub-delete"
  | CaList => "ca-list" | CaRead => "ca-read" | CaCreate => "ca-create" | CaUpdate => "ca-update"
  | CaAdmin => "ca-admin" | CaDelete => "ca-delete"
  | RoutesRead => "routes-read" | RoutesUpdate => "routes-update" | RoutesAnalysis => "routes-analysis"
  | AspasRead => "aspas-read" | AspasUpdate => "aspas-update" | BgpsecRead => "bgpsec-read" | BgpsecUpdate => "bgpsec-update"
  | RtaList => "rta-list" | RtaRead => "rta-read" | RtaUpdate => "rta-update"
  end%string.

Definition perm_eqb (p q : perm) : bool := perm_index p =? perm_index q.

Definition perm_of_name (s : string) : option perm :=
  find (fun p => String.eqb (perm_name p) s) all_perms.

(** ** Permission sets: a bit mask (PermissionSet(u32), permission.rs:138-190) *)
Definition pset : Type := N.

Definition mask (p : perm) : N := N.shiftl 1 (perm_index p).
Definition has (s : pset) (p : perm) : bool := N.testbit s (perm_index p).   (* self.0 & mask != 0 *)
Definition add (s : pset) (p : perm) : pset := N.lor s (mask p).
Definition add_set (s t : pset) : pset := N.lor s t.
Definition remove (s : pset) (p : perm) : pset := N.ldiff s (mask p).
Definition of_list (l : list perm) : pset := fold_left add l 0.
Definition subset (s t : pset) : bool := forallb (fun p => negb (has s p) || has t p) all_perms.

(** permission.rs:193-260 *)
Definition ANY : pset := 4294967295.      (* Self(u32::MAX) *)
Definition NONE : pset := 0.
Definition READONLY : pset :=
  of_list [Login; CaList; CaRead; PubList; PubRead; RoutesRead; RoutesAnalysis; AspasRead; BgpsecRead; RtaList; RtaRead].
Definition READWRITE : pset :=
  of_list [Login; CaList; CaRead; CaCreate; CaUpdate; PubList; PubRead; PubCreate; PubDelete;
           RoutesRead; RoutesAnalysis; RoutesUpdate; AspasRead; AspasUpdate; BgpsecRead; BgpsecUpdate;
           RtaList; RtaRead; RtaUpdate].
Definition TESTBED : pset := of_list [CaRead; CaUpdate; PubRead; PubCreate; PubDelete; PubAdmin].
Definition CONF_READ : pset := of_list [CaRead; RoutesRead; RoutesAnalysis; AspasRead; BgpsecRead; RtaRead].
Definition CONF_UPDATE : pset := of_list [RoutesUpdate; BgpsecUpdate; RtaUpdate].

(** What the translator emits for a [pub const X: Self = ...] item. *)
Inductive gen_set := GSMask (m : N) | GSPerms (l : list string).

Fixpoint perms_of_names (l : list string) : option (list perm) :=
  match l with
  | [] => Some []
  | s :: r => match perm_of_name s, perms_of_names r with
              | Some p, Some ps => Some (p :: ps)
              | _, _ => None
              end
  end.

Definition set_of_gen (g : gen_set) : option pset :=
  match g with
  | GSMask m => Some m
  | GSPerms l => option_map of_list (perms_of_names l)
  end.

(** ** Roles (roles.rs:24-146) *)
Definition handle : Type := string.

Record role := mkRole {
  r_none : pset;                     (* requests without a resource *)
  r_any : pset;                      (* resources not mentioned in r_res *)
  r_res : list (handle * pset)       (* HashMap<MyHandle, PermissionSet>; first binding of a handle counts *)
}.

Definition lookup_res (h : handle) (l : list (handle * pset)) : option pset :=
  match find (fun '(h', _) => String.eqb h h') l with
  | Some (_, s) => Some s
  | None => None
  end.

(** roles.rs:129-146 *)
Definition is_allowed (r : role) (p : perm) (res : option handle) : bool :=
  match res with
  | Some h => match lookup_res h (r_res r) with
              | Some s => has s p
              | None => has (r_any r) p
              end
  | None => has (r_none r) p
  end.

Definition simple (s : pset) : role := mkRole s s [].                                   (* roles.rs:79-85 *)
Definition with_resources (s : pset) (cas : list handle) : role :=                      (* roles.rs:91-102 *)
  mkRole s NONE (map (fun h => (h, s)) cas).
Definition complex (none any : pset) (res : list (handle * pset)) : role := mkRole none any res.

Definition role_admin : role := simple ANY.
Definition role_readwrite : role := simple READWRITE.
Definition role_readonly : role := simple READONLY.
Definition role_testbed : role := simple TESTBED.
Definition role_anonymous : role := simple NONE.

(** The role a [RoleConf { permissions, cas }] of the configuration file denotes (roles.rs:149-156). *)
Definition role_of_conf (s : pset) (cas : option (list handle)) : role :=
  match cas with Some l => with_resources s l | None => simple s end.
