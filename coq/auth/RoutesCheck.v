(** Correspondence checker and executable oracle for C13. The harness (harness/src/bin/c13.rs) sends HTTP
    requests to the real daemon and writes one [case] per request. [agrees] asks whether the observed status
    class is the one the model ([authorize] over the hand-written [spec_routes]) predicts; [c13_ok] evaluates
    the property itself on what the implementation did: a request is served only if the caller holds every
    permission the specification asks for, refusals have no effect, listings show only readable CAs.

    This file must not depend on gen/GenRoutes.v: when a changed handler breaks [gen_routes_conform] the
    cases of that run are still evaluated against the specification. *)
From Coq Require Import String.
From KV Require Import base.Tac auth.Perm auth.Routes.
Open Scope N_scope.

(** How the request reached the daemon (authorizer.rs:283-287: the unix-socket provider is asked last and its
    answer replaces an earlier error). *)
Inductive transport :=
  | Tcp                         (* no peer user *)
  | UnixMapped (r : role)       (* peer user listed in [unix_users] with this role *)
  | UnixUnmapped.               (* peer user not listed: ApiInvalidCredentials *)

Inductive cred :=
  | CNone                       (* no Authorization header *)
  | CWrong                      (* a bearer token that is neither the admin token nor a session token *)
  | CValid (r : role).          (* admin token (role admin) or the session token of a user with this role *)

(** authorizer.rs:252-296 *)
Definition effective_auth (t : transport) (c : cred) : auth :=
  match c with
  | CValid r => AuthRole r
  | CNone | CWrong =>
      match t with
      | Tcp => AuthRole role_anonymous
      | UnixMapped r => AuthRole r
      | UnixUnmapped => AuthError
      end
  end.

Record case := mkCase {
  c_cfg : daemon_cfg;                  (* configuration of the daemon instance: ta_support_enabled, [testbed] present *)
  c_tr : transport;
  c_cred : cred;
  c_req : request;
  c_status : N;                        (* HTTP status observed *)
  c_effect : bool;                     (* the observable state (CA list, publishers, histories) changed *)
  c_all : list handle;                 (* CAs existing when a listing was requested *)
  c_listing : option (list handle)     (* handles shown by a listing endpoint (sorted), if this was one and it answered 200 *)
}.

Definition refused (st : N) : bool := (st =? 401) || (st =? 403).

Fixpoint list_eqb {A} (eqb : A -> A -> bool) (a b : list A) : bool :=
  match a, b with
  | [], [] => true
  | x :: a', y :: b' => eqb x y && list_eqb eqb a' b'
  | _, _ => false
  end.

Definition mem_str (s : string) (l : list string) : bool := existsb (String.eqb s) l.
Definition same_set (a b : list string) : bool :=
  forallb (fun x => mem_str x b) a && forallb (fun x => mem_str x a) b.

Definition c_auth (c : case) : auth := effective_auth (c_tr c) (c_cred c).
(** What testbed.rs:40 asks of the instance that answered (request.rs:61-63). *)
Definition c_testbed (c : case) : bool := testbed_served (c_cfg c).

(** A request must leave the state as it was when it is refused (401 / 403), and when it addresses a testbed
    route of an instance that is not in testbed mode (404: for the caller the route does not exist). *)
Definition must_not_change (tb : bool) (r : option route) (st : N) : bool :=
  refused st || match r with Some r => rt_testbed r && negb tb | None => false end.

(** Model and implementation agree on this request. *)
Definition agrees (c : case) : bool :=
  match find_route spec_routes (c_req c) with
  | None => false                                  (* a route the specification does not know *)
  | Some r =>
      let st := c_status c in
      (match rt_kind r with
       | KRaw => true                              (* login / logout authenticate by themselves: C20 *)
       | _ =>
         match authorize spec_routes (c_testbed c) (c_auth c) (c_req c) with
         | Served => negb (refused st) && negb (st =? 405)
         | Forbidden => st =? 403
         | Unauthenticated => st =? 401
         | NotFound => st =? 404
         end
       end)
      && (negb (must_not_change (c_testbed c) (Some r) st) || negb (c_effect c))
      && match c_listing c, rt_filter r with
         | Some shown, Some f => same_set shown (listing_of (c_auth c) f (c_all c))
         | Some _, None => false
         | None, _ => true
         end
  end.

(** The property on one observed request. *)
Definition c13_ok (c : case) : bool :=
  let st := c_status c in
  let a := c_auth c in
  (negb (must_not_change (c_testbed c) (find_route spec_routes (c_req c)) st) || negb (c_effect c))
  && match find_route spec_routes (c_req c) with
     | Some r =>
         (if rt_testbed r && negb (c_testbed c) then st =? 404
          else match rt_kind r with
               | KRaw => true
               | _ => refused st || forallb (gate_ok a (c_req c)) (rt_gates r)
               end)
         && match c_listing c with
            | Some shown => same_set shown (readable a CaRead (c_all c))     (* exactly the CAs the caller may read *)
            | None => true
            end
     | None =>
         (* not in the specification: whatever it is, it must not be served to a caller without [Login] *)
         refused st || (st =? 404) || (st =? 405) || auth_allows a Login None
     end.

(** Indices of cases on which a predicate fails. *)
Fixpoint failing_from {A} (f : A -> bool) (i : N) (l : list A) : list N :=
  match l with
  | [] => []
  | x :: r => if f x then failing_from f (i + 1) r else i :: failing_from f (i + 1) r
  end.
Definition failing {A} (f : A -> bool) (base : N) (l : list A) : list N := failing_from f base l.

(** Short names for the case files. *)
Definition rq (m : meth) (p : list string) : request := mkReq m p.
