(** C16 - strings and the primitive operations of Rust's [str] / [core::num] /
    [core::net] that Krill's parsers are built from. Definitions only.

    A Rust [&str] is modelled as the list of its UTF-8 bytes ([list N], every
    element < 256). Indices are byte offsets ([nat]: they are positions, not
    data). Rust's safe iterator-style operations ([split], [trim], [find],
    [strip_prefix], integer and address [FromStr]) never panic and are total
    functions here. The operations that CAN panic are explicit:

      - [slice_from s i] / [slice_to s i]  ( [&s[i..]] / [&s[..i]] ): panic when
        [i] is beyond the end or not on a char boundary
        (core::str::is_char_boundary: index 0, index len, or a byte that is not
        a continuation byte 10xxxxxx);
      - [index_list l i] ( [l[i]] ), [unwrap_opt].

    Results are three-valued: [POk v | PErr | PPanic]. Integer arithmetic that
    wraps in release builds and panics with overflow checks is reported through
    a separate flag, see [outcome]. *)
From KV Require Import base.Tac.
Open Scope N_scope.

Definition str : Type := list N.

Inductive pres (A : Type) : Type :=
| POk (v : A)
| PErr
| PPanic.
Arguments POk {A} v.
Arguments PErr {A}.
Arguments PPanic {A}.

Definition pbind {A B} (x : pres A) (f : A -> pres B) : pres B :=
  match x with POk v => f v | PErr => PErr | PPanic => PPanic end.
Definition pmap {A B} (f : A -> B) (x : pres A) : pres B := pbind x (fun v => POk (f v)).
Notation "'let!' x ':=' e 'in' k" := (pbind e (fun x => k)) (at level 200, x pattern, e at level 100, k at level 200).

(** [ok_or] of an [Option] / [map_err] of a [Result]: absence becomes an error. *)
Definition of_opt {A} (o : option A) : pres A := match o with Some v => POk v | None => PErr end.
(** [Option::unwrap] / [Result::unwrap]: absence is a panic. *)
Definition unwrap_opt {A} (o : option A) : pres A := match o with Some v => POk v | None => PPanic end.
(** [l[i]] on a slice / Vec. *)
Definition index_list {A} (l : list A) (i : nat) : pres A := unwrap_opt (nth_error l i).

(** Result of an entry point: the release-build result plus a flag saying that a
    debug build (overflow checks / debug assertions on) panics on this input. *)
Record outcome (A : Type) : Type := mkOut { o_res : pres A; o_dbg : bool }.
Arguments mkOut {A}.
Arguments o_res {A}.
Arguments o_dbg {A}.
Definition pure_out {A} (r : pres A) : outcome A := mkOut r false.

(** ** Bytes and char boundaries *)
Definition is_ascii_byte (b : N) : bool := b <? 128.
Definition is_cont (b : N) : bool := (128 <=? b) && (b <? 192).
Definition all_ascii (s : str) : bool := forallb is_ascii_byte s.

(** core::str::is_char_boundary *)
Definition is_char_boundary (s : str) (i : nat) : bool :=
  match i with
  | O => true
  | _ => match skipn i s with
         | b :: _ => negb (is_cont b)
         | [] => Nat.eqb i (length s)
         end
  end.

Definition slice_from (s : str) (i : nat) : pres str :=
  if is_char_boundary s i then POk (skipn i s) else PPanic.
Definition slice_to (s : str) (i : nat) : pres str :=
  if is_char_boundary s i then POk (firstn i s) else PPanic.

(** Loose UTF-8 well-formedness: every lead byte is followed by the right number
    of continuation bytes and no continuation byte stands in lead position.
    Every Rust [str] satisfies it (it is weaker than UTF-8 validity: overlong
    forms and surrogates are not excluded), so theorems under [wf_utf8] cover
    all strings. *)
Fixpoint wf_utf8 (s : str) : bool :=
  match s with
  | [] => true
  | b :: r =>
    if b <? 128 then wf_utf8 r
    else if (192 <=? b) && (b <? 224) then
      match r with c1 :: r1 => is_cont c1 && wf_utf8 r1 | _ => false end
    else if (224 <=? b) && (b <? 240) then
      match r with c1 :: c2 :: r2 => is_cont c1 && is_cont c2 && wf_utf8 r2 | _ => false end
    else if (240 <=? b) && (b <? 248) then
      match r with c1 :: c2 :: c3 :: r3 => is_cont c1 && is_cont c2 && is_cont c3 && wf_utf8 r3 | _ => false end
    else false
  end.

(** ** Searching and splitting (safe iterator operations of [str]) *)
Fixpoint find_byte (c : N) (s : str) : option nat :=
  match s with
  | [] => None
  | b :: r => if b =? c then Some O else option_map S (find_byte c r)
  end.

(** [rfind]: last occurrence. *)
Fixpoint rfind_byte (c : N) (s : str) : option nat :=
  match s with
  | [] => None
  | b :: r => match rfind_byte c r with
              | Some i => Some (S i)
              | None => if b =? c then Some O else None
              end
  end.

Definition contains_byte (c : N) (s : str) : bool := existsb (N.eqb c) s.

Definition cons_head (b : N) (l : list str) : list str :=
  match l with h :: t => (b :: h) :: t | [] => [[b]] end.

(** [s.split(c)] for an ASCII char: always at least one piece. *)
Fixpoint split_byte (c : N) (s : str) : list str :=
  match s with
  | [] => [[]]
  | b :: r => if b =? c then [] :: split_byte c r else cons_head b (split_byte c r)
  end.

(** [s.split(|ch| ch == c1 || ch == c2)] *)
Fixpoint split_byte2 (c1 c2 : N) (s : str) : list str :=
  match s with
  | [] => [[]]
  | b :: r => if (b =? c1) || (b =? c2) then [] :: split_byte2 c1 c2 r else cons_head b (split_byte2 c1 c2 r)
  end.

(** [s.split("=>")]: leftmost non-overlapping matches. *)
Fixpoint split_arrow (s : str) : list str :=
  match s with
  | [] => [[]]
  | b :: r =>
    match r with
    | b2 :: r2 => if (b =? 61) && (b2 =? 62) then [] :: split_arrow r2 else cons_head b (split_arrow r)
    | [] => [[b]]
    end
  end.

(** [s.split_once(c)] *)
Fixpoint split_once (c : N) (s : str) : option (str * str) :=
  match s with
  | [] => None
  | b :: r => if b =? c then Some ([], r)
              else match split_once c r with Some (x, y) => Some (b :: x, y) | None => None end
  end.

(** [s.splitn(2, c)]: the first piece and, if the separator occurs, the rest. *)
Definition splitn2 (c : N) (s : str) : str * option str :=
  match split_once c s with Some (x, y) => (x, Some y) | None => (s, None) end.

Fixpoint strip_prefix (p s : str) : option str :=
  match p with
  | [] => Some s
  | a :: p' => match s with b :: s' => if a =? b then strip_prefix p' s' else None | [] => None end
  end.
Definition starts_with (p s : str) : bool := match strip_prefix p s with Some _ => true | None => false end.
Definition ends_with (p s : str) : bool := starts_with (rev p) (rev s).
Definition strip_suffix (p s : str) : option str := option_map (@rev N) (strip_prefix (rev p) (rev s)).

Fixpoint str_eqb (a b : str) : bool :=
  match a, b with
  | [], [] => true
  | x :: a', y :: b' => (x =? y) && str_eqb a' b'
  | _, _ => false
  end.

(** ** [str::trim]: Unicode White_Space, as UTF-8 byte sequences
    U+0009-000D, U+0020 | U+0085 (C2 85), U+00A0 (C2 A0) | U+1680 (E1 9A 80),
    U+2000-200A (E2 80 80-8A), U+2028/2029/202F (E2 80 A8/A9/AF), U+205F (E2 81 9F),
    U+3000 (E3 80 80). *)
Definition is_ws1 (b : N) : bool := ((9 <=? b) && (b <=? 13)) || (b =? 32).
Definition is_ws2 (b c : N) : bool := (b =? 194) && ((c =? 133) || (c =? 160)).
Definition is_ws3 (b c d : N) : bool :=
  ((b =? 225) && (c =? 154) && (d =? 128))
  || ((b =? 226) && (c =? 128) && (((128 <=? d) && (d <=? 138)) || (d =? 168) || (d =? 169) || (d =? 175)))
  || ((b =? 226) && (c =? 129) && (d =? 159))
  || ((b =? 227) && (c =? 128) && (d =? 128)).

Fixpoint trim_start (s : str) : str :=
  match s with
  | [] => []
  | b :: r =>
    if is_ws1 b then trim_start r
    else match r with
         | c :: r1 =>
           if is_ws2 b c then trim_start r1
           else match r1 with
                | d :: r2 => if is_ws3 b c d then trim_start r2 else s
                | [] => s
                end
         | [] => s
         end
  end.

(** The same on the reversed string (bytes of a character appear last-first). *)
Fixpoint trim_start_rev (s : str) : str :=
  match s with
  | [] => []
  | b :: r =>
    if is_ws1 b then trim_start_rev r
    else match r with
         | c :: r1 =>
           if is_ws2 c b then trim_start_rev r1
           else match r1 with
                | d :: r2 => if is_ws3 d c b then trim_start_rev r2 else s
                | [] => s
                end
         | [] => s
         end
  end.
Definition trim_end (s : str) : str := rev (trim_start_rev (rev s)).
Definition trim (s : str) : str := trim_end (trim_start s).

(** [str::lines]: [split_inclusive('\n')], each piece without its final "\n" and,
    only then, without a final "\r"; no empty piece after a final "\n". *)
Definition strip_cr (l : str) : str := match strip_suffix [13] l with Some l' => l' | None => l end.
Fixpoint lines_aux (cur : str) (s : str) : list str :=
  match s with
  | [] => match cur with [] => [] | _ => [rev cur] end
  | b :: r => if b =? 10 then strip_cr (rev cur) :: lines_aux [] r else lines_aux (b :: cur) r
  end.
Definition lines (s : str) : list str := lines_aux [] s.

(** ** Integer parsing: [uN::from_str_radix] for unsigned types.
    Empty, a lone sign, any non-digit (including '-') and overflow are errors;
    one leading '+' is accepted; leading zeros are accepted. *)
Definition digit_val (radix b : N) : option N :=
  let d := if (48 <=? b) && (b <=? 57) then Some (b - 48)
           else if (97 <=? b) && (b <=? 122) then Some (b - 97 + 10)
           else if (65 <=? b) && (b <=? 90) then Some (b - 65 + 10)
           else None in
  match d with Some v => if v <? radix then Some v else None | None => None end.

Fixpoint parse_digits (radix acc : N) (s : str) : option N :=
  match s with
  | [] => Some acc
  | b :: r => match digit_val radix b with
              | Some d => parse_digits radix (acc * radix + d) r
              | None => None
              end
  end.

Definition parse_uint (radix max : N) (s : str) : option N :=
  match s with
  | [] => None
  | b :: r =>
    let digits := if b =? 43 then r else s in
    match digits with
    | [] => None
    | _ => match parse_digits radix 0 digits with
           | Some v => if v <=? max then Some v else None
           | None => None
           end
    end
  end.

Definition U8_MAX : N := 255.
Definition U32_MAX : N := 4294967295.
Definition U128_MAX : N := 340282366920938463463374607431768211455.
Definition parse_u8 : str -> option N := parse_uint 10 U8_MAX.
Definition parse_u32 : str -> option N := parse_uint 10 U32_MAX.
Definition parse_u128 : str -> option N := parse_uint 10 U128_MAX.

(** ** core::net::parser (Ipv4Addr / Ipv6Addr FromStr) *)
Fixpoint read_digits (radix acc : N) (cnt : nat) (s : str) : N * nat * str :=
  match s with
  | b :: r => match digit_val radix b with
              | Some d => read_digits radix (acc * radix + d) (S cnt) r
              | None => (acc, cnt, s)
              end
  | [] => (acc, cnt, [])
  end.

(** Parser::read_number(radix, Some(max_digits), allow_zero_prefix) into a type
    with maximum [max_val]. *)
Definition read_number (radix : N) (max_digits : nat) (allow_zero_prefix : bool) (max_val : N) (s : str)
  : option (N * str) :=
  let has_leading_zero := match s with b :: _ => b =? 48 | [] => false end in
  let '(v, cnt, rest) := read_digits radix 0 O s in
  if Nat.eqb cnt 0 then None
  else if Nat.ltb max_digits cnt then None
  else if negb allow_zero_prefix && has_leading_zero && Nat.ltb 1 cnt then None
  else if v <=? max_val then Some (v, rest) else None.

Definition read_given (c : N) (s : str) : option str :=
  match s with b :: r => if b =? c then Some r else None | [] => None end.

Definition read_sep (c : N) (index : nat) (s : str) : option str :=
  match index with O => Some s | _ => read_given c s end.

Definition read_octet (index : nat) (s : str) : option (N * str) :=
  match read_sep 46 index s with Some s1 => read_number 10 3 false 255 s1 | None => None end.

(** Parser::read_ipv4_addr *)
Definition read_ipv4 (s : str) : option (N * str) :=
  match read_octet 0 s with
  | Some (a, s1) =>
    match read_octet 1 s1 with
    | Some (b, s2) =>
      match read_octet 2 s2 with
      | Some (c, s3) =>
        match read_octet 3 s3 with
        | Some (d, s4) => Some (((a * 256 + b) * 256 + c) * 256 + d, s4)
        | None => None
        end
      | None => None
      end
    | None => None
    end
  | None => None
  end.

(** Ipv4Addr::from_str: at most 15 bytes, whole input consumed. *)
Definition parse_ipv4 (s : str) : option N :=
  if Nat.ltb 15 (length s) then None
  else match read_ipv4 s with Some (a, []) => Some a | _ => None end.

(** read_groups of Parser::read_ipv6_addr: groups read so far, whether an
    embedded IPv4 address ended the chunk, rest of the input. *)
Fixpoint read_groups (fuel i limit : nat) (s : str) : list N * bool * str :=
  match fuel with
  | O => ([], false, s)
  | S fuel' =>
    if Nat.leb limit i then ([], false, s)
    else
      let v4 := if Nat.ltb i (limit - 1)
                then match read_sep 58 i s with Some s1 => read_ipv4 s1 | None => None end
                else None in
      match v4 with
      | Some (a, rest) => ([a / 65536; a mod 65536], true, rest)
      | None =>
        match read_sep 58 i s with
        | Some s1 =>
          match read_number 16 4 true 65535 s1 with
          | Some (g, rest) =>
            let '(gs, f, rest') := read_groups fuel' (S i) limit rest in (g :: gs, f, rest')
          | None => ([], false, s)
          end
        | None => ([], false, s)
        end
      end
  end.

Definition groups_val (gs : list N) : N := fold_left (fun acc g => acc * 65536 + g) gs 0.

Definition read_ipv6 (s : str) : option (N * str) :=
  let '(head, h4, rest) := read_groups 8 0 8 s in
  if Nat.eqb (length head) 8 then Some (groups_val head, rest)
  else if h4 then None
  else match rest with
       | 58 :: 58 :: rest2 =>
         let limit := (8 - (length head + 1))%nat in
         let '(tail, _, rest3) := read_groups limit 0 limit rest2 in
         Some (groups_val (head ++ repeat 0 (8 - length head - length tail)%nat ++ tail), rest3)
       | _ => None
       end.

Definition parse_ipv6 (s : str) : option N :=
  match read_ipv6 s with Some (a, []) => Some a | _ => None end.

(** ** Small helpers *)
Definition is_alnum (b : N) : bool :=
  ((48 <=? b) && (b <=? 57)) || ((65 <=? b) && (b <=? 90)) || ((97 <=? b) && (b <=? 122)).

(** rpki::util::hex::encode_u8: two upper-case hex digits. *)
Definition hex_digit (n : N) : N := if n <? 10 then 48 + n else 55 + n.
Definition hex_u8 (b : N) : str := [hex_digit (b / 16 mod 16); hex_digit (b mod 16)].
Definition hex_str (s : str) : str := flat_map hex_u8 s.

Fixpoint trailing_zeros_pos (p : positive) : nat :=
  match p with xO p' => S (trailing_zeros_pos p') | _ => O end.
(** [uN::trailing_zeros] for a [bits]-bit integer. *)
Definition trailing_zeros (bits : nat) (a : N) : nat :=
  match a with N0 => bits | Npos p => trailing_zeros_pos p end.
