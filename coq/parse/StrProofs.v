(** C16 - lemmas about the string layer: char boundaries, substrings, and the
    fact that the safe [str] operations return substrings of their argument. *)
From KV Require Import base.Tac parse.Str.
Open Scope N_scope.

(** Boolean comparisons to propositions. *)
Ltac bprop :=
  repeat match goal with
  | H : _ && _ = true |- _ => apply andb_true_iff in H; destruct H
  | H : _ || _ = false |- _ => apply orb_false_iff in H; destruct H
  | H : negb _ = true |- _ => apply negb_true_iff in H
  | H : negb _ = false |- _ => apply negb_false_iff in H
  | H : (_ <=? _) = true |- _ => apply N.leb_le in H
  | H : (_ <=? _) = false |- _ => apply N.leb_gt in H
  | H : (_ <? _) = true |- _ => apply N.ltb_lt in H
  | H : (_ <? _) = false |- _ => apply N.ltb_ge in H
  | H : (_ =? _) = true |- _ => apply N.eqb_eq in H
  | H : (_ =? _) = false |- _ => apply N.eqb_neq in H
  end.

Ltac bgoal :=
  repeat match goal with
  | |- _ && _ = true => apply andb_true_iff; split
  | |- negb _ = true => apply negb_true_iff
  | |- negb _ = false => apply negb_false_iff
  | |- (_ <=? _) = true => apply N.leb_le
  | |- (_ <=? _) = false => apply N.leb_gt
  | |- (_ <? _) = true => apply N.ltb_lt
  | |- (_ <? _) = false => apply N.ltb_ge
  | |- (_ =? _) = true => apply N.eqb_eq
  | |- (_ =? _) = false => apply N.eqb_neq
  end.

(** ** Three-valued results *)
Lemma pbind_np {A B} (x : pres A) (f : A -> pres B) :
  x <> PPanic -> (forall v, x = POk v -> f v <> PPanic) -> pbind x f <> PPanic.
Proof. destruct x; simpl; intros Hx Hf; auto; discriminate. Qed.

Lemma pmap_np {A B} (f : A -> B) (x : pres A) : x <> PPanic -> pmap f x <> PPanic.
Proof. destruct x; simpl; intros; congruence. Qed.

Lemma of_opt_np {A} (o : option A) : of_opt o <> PPanic.
Proof. destruct o; discriminate. Qed.

Lemma pmap_panic_iff {A B} (f : A -> B) (x : pres A) : pmap f x = PPanic <-> x = PPanic.
Proof. destruct x; simpl; split; congruence. Qed.

#[export] Hint Resolve of_opt_np pmap_np : np.

(** ** The separation property: no continuation byte directly after an ASCII byte.
    It follows from (loose) UTF-8 well-formedness and, unlike well-formedness, is
    inherited by every contiguous substring, which is what the parsers produce. *)
Fixpoint sep_ok (s : str) : bool :=
  match s with
  | b :: r => (match r with c :: _ => negb (is_ascii_byte b && is_cont c) | [] => true end) && sep_ok r
  | [] => true
  end.

Definition head_not_cont (s : str) : Prop := match s with b :: _ => is_cont b = false | [] => True end.

Lemma is_cont_false_lt b : b < 128 -> is_cont b = false.
Proof. intros. unfold is_cont. destruct (128 <=? b) eqn:E; bprop; simpl; auto; lia. Qed.
Lemma is_cont_false_ge b : 192 <= b -> is_cont b = false.
Proof. intros. unfold is_cont. destruct (b <? 192) eqn:E; bprop; [lia|]. apply andb_false_r. Qed.
Lemma is_cont_not_ascii b : is_cont b = true -> is_ascii_byte b = false.
Proof. unfold is_cont, is_ascii_byte. intros. bprop. bgoal. lia. Qed.

Lemma sep_ok_cons_nonascii b r : is_ascii_byte b = false -> sep_ok (b :: r) = sep_ok r.
Proof. intros Hb. simpl. rewrite Hb. destruct r; reflexivity. Qed.

Lemma sep_ok_cons_ascii b r : head_not_cont r -> sep_ok (b :: r) = sep_ok r.
Proof. intros H. simpl. destruct r as [|c r]; [reflexivity|]. simpl in H. rewrite H, andb_false_r. reflexivity. Qed.

Lemma wf_utf8_sep_aux : forall n s, (length s <= n)%nat -> wf_utf8 s = true -> sep_ok s = true /\ head_not_cont s.
Proof.
  induction n as [|n IH]; intros s Hl Hw.
  - destruct s; [split; [reflexivity|exact I]|simpl in Hl; lia].
  - destruct s as [|b r]; [split; [reflexivity|exact I]|].
    simpl in Hl. cbn [wf_utf8] in Hw.
    destruct (b <? 128) eqn:E1.
    + bprop. destruct (IH r ltac:(lia) Hw) as [Hs Hh]. split.
      * rewrite sep_ok_cons_ascii; auto.
      * simpl. apply is_cont_false_lt; auto.
    + assert (Hna : is_ascii_byte b = false) by exact E1.
      destruct ((192 <=? b) && (b <? 224)) eqn:E2.
      { destruct r as [|c1 r1]; [discriminate|]. bprop. simpl in Hl.
        destruct (IH r1 ltac:(lia) H0) as [Hs _]. split.
        - rewrite sep_ok_cons_nonascii by auto. rewrite sep_ok_cons_nonascii by (apply is_cont_not_ascii; auto). auto.
        - simpl. apply is_cont_false_ge. lia. }
      destruct ((224 <=? b) && (b <? 240)) eqn:E3.
      { destruct r as [|c1 [|c2 r2]]; try discriminate. bprop. simpl in Hl.
        destruct (IH r2 ltac:(lia) H0) as [Hs _]. split.
        - rewrite sep_ok_cons_nonascii by auto. do 2 rewrite sep_ok_cons_nonascii by (apply is_cont_not_ascii; auto). auto.
        - simpl. apply is_cont_false_ge. lia. }
      destruct ((240 <=? b) && (b <? 248)) eqn:E4; [|discriminate].
      destruct r as [|c1 [|c2 [|c3 r3]]]; try discriminate. bprop. simpl in Hl.
      destruct (IH r3 ltac:(lia) H0) as [Hs _]. split.
      * rewrite sep_ok_cons_nonascii by auto. do 3 rewrite sep_ok_cons_nonascii by (apply is_cont_not_ascii; auto). auto.
      * simpl. apply is_cont_false_ge. lia.
Qed.

(** Every Rust string has the separation property. *)
Lemma wf_utf8_sep_ok s : wf_utf8 s = true -> sep_ok s = true.
Proof. intros H. exact (proj1 (wf_utf8_sep_aux (length s) s (le_n _) H)). Qed.

Lemma all_ascii_sep_ok s : all_ascii s = true -> sep_ok s = true.
Proof.
  induction s as [|b r IH]; [reflexivity|]. simpl. intros H. bprop.
  rewrite IH by auto. rewrite andb_true_r. destruct r as [|c r]; [reflexivity|].
  simpl in H0. bprop. rewrite (is_cont_false_lt c); [rewrite andb_false_r; reflexivity|].
  unfold is_ascii_byte in H0. bprop. auto.
Qed.

Lemma sep_ok_app a b : sep_ok (a ++ b) = true -> sep_ok a = true /\ sep_ok b = true.
Proof.
  induction a as [|x a IH]; simpl; [auto|]. intros H. bprop. destruct (IH H0) as [Ha Hb]. split; [|auto].
  rewrite Ha, andb_true_r. destruct a as [|y a]; [reflexivity|]. simpl in H. exact H.
Qed.

(** ** Substrings *)
Definition substr (a s : str) : Prop := exists p q, s = p ++ a ++ q.

Lemma substr_refl s : substr s s.
Proof. exists [], []. rewrite app_nil_r. reflexivity. Qed.
Lemma substr_trans a b c : substr a b -> substr b c -> substr a c.
Proof. intros [p [q ->]] [p' [q' ->]]. exists (p' ++ p), (q ++ q'). rewrite !app_assoc. reflexivity. Qed.
Lemma substr_prefix a q : substr a (a ++ q).
Proof. exists [], q. reflexivity. Qed.
Lemma substr_suffix p a : substr a (p ++ a).
Proof. exists p, []. rewrite app_nil_r. reflexivity. Qed.
Lemma substr_cons a s b : substr a s -> substr a (b :: s).
Proof. intros [p [q ->]]. exists (b :: p), q. reflexivity. Qed.
Lemma substr_nil s : substr [] s.
Proof. exists [], s. reflexivity. Qed.

Lemma sep_ok_substr a s : sep_ok s = true -> substr a s -> sep_ok a = true.
Proof. intros H [p [q ->]]. apply sep_ok_app in H. destruct H as [_ H]. apply sep_ok_app in H. tauto. Qed.

Lemma all_ascii_substr a s : all_ascii s = true -> substr a s -> all_ascii a = true.
Proof. unfold all_ascii. intros H [p [q ->]]. rewrite !forallb_app in H. bprop. auto. Qed.

(** ** Char boundaries *)
Lemma boundary_shift x r i : is_char_boundary (x :: r) (S (S i)) = is_char_boundary r (S i).
Proof. reflexivity. Qed.

Lemma nth_error_skipn {A} (s : list A) i b : nth_error s i = Some b -> exists r, skipn i s = b :: r.
Proof.
  revert s; induction i as [|i IH]; intros [|x s]; simpl; try discriminate.
  - intros [= ->]. eauto.
  - apply IH.
Qed.

(** An index holding a non-continuation byte is a boundary. *)
Lemma boundary_at_non_cont s i b : nth_error s i = Some b -> is_cont b = false -> is_char_boundary s i = true.
Proof.
  intros Hn Hb. destruct i as [|i]; [reflexivity|].
  unfold is_char_boundary. destruct (nth_error_skipn _ _ _ Hn) as [r ->]. rewrite Hb. reflexivity.
Qed.

(** The index after an ASCII byte is a boundary (in a string with the separation property). *)
Lemma boundary_after_ascii : forall i s b, sep_ok s = true -> nth_error s i = Some b -> is_ascii_byte b = true ->
  is_char_boundary s (S i) = true.
Proof.
  induction i as [|i IH]; intros [|x r] b Hs Hn Hb; simpl in Hn; try discriminate.
  - injection Hn as ->. unfold is_char_boundary. simpl skipn. destruct r as [|c r]; [reflexivity|].
    simpl in Hs. rewrite Hb in Hs. bprop. simpl in H. rewrite H. reflexivity.
  - rewrite boundary_shift. simpl in Hs. bprop. eapply IH; eauto.
Qed.

Lemma boundary_len s : is_char_boundary s (length s) = true.
Proof.
  unfold is_char_boundary. destruct (length s) eqn:E; [reflexivity|]. rewrite <- E.
  rewrite skipn_all. apply Nat.eqb_refl.
Qed.

Lemma all_ascii_boundary s i : all_ascii s = true -> (i <= length s)%nat -> is_char_boundary s i = true.
Proof.
  intros Ha Hi. destruct (Nat.eq_dec i (length s)) as [->|Hne]; [apply boundary_len|].
  destruct (nth_error s i) as [b|] eqn:E.
  - eapply boundary_at_non_cont; eauto. apply is_cont_false_lt.
    unfold all_ascii in Ha. rewrite forallb_forall in Ha. apply nth_error_In in E. apply Ha in E.
    unfold is_ascii_byte in E. bprop. auto.
  - apply nth_error_None in E. lia.
Qed.

Lemma slice_from_ok s i : is_char_boundary s i = true -> slice_from s i = POk (skipn i s).
Proof. unfold slice_from. intros ->. reflexivity. Qed.
Lemma slice_to_ok s i : is_char_boundary s i = true -> slice_to s i = POk (firstn i s).
Proof. unfold slice_to. intros ->. reflexivity. Qed.

(** ** find / rfind *)
Lemma find_byte_nth c s i : find_byte c s = Some i -> nth_error s i = Some c.
Proof.
  revert i; induction s as [|b r IH]; simpl; intros i; [discriminate|].
  destruct (b =? c) eqn:E.
  - intros [= <-]. bprop. subst. reflexivity.
  - destruct (find_byte c r) as [j|]; simpl; [|discriminate]. intros [= <-]. simpl. auto.
Qed.

Lemma rfind_byte_nth c s i : rfind_byte c s = Some i -> nth_error s i = Some c.
Proof.
  revert i; induction s as [|b r IH]; simpl; intros i; [discriminate|].
  destruct (rfind_byte c r) as [j|].
  - intros [= <-]. simpl. auto.
  - destruct (b =? c) eqn:E; [|discriminate]. intros [= <-]. bprop. subst. reflexivity.
Qed.

Lemma nth_error_lt {A} (s : list A) i b : nth_error s i = Some b -> (i < length s)%nat.
Proof. intros H. apply nth_error_Some. congruence. Qed.

(** Slices at the position of an ASCII separator found by [find] never panic. *)
Lemma slices_at_found c s i : c < 128 -> sep_ok s = true -> find_byte c s = Some i ->
  slice_to s i = POk (firstn i s) /\ slice_from s (S i) = POk (skipn (S i) s).
Proof.
  intros Hc Hs Hf. apply find_byte_nth in Hf. split.
  - apply slice_to_ok. eapply boundary_at_non_cont; eauto. apply is_cont_false_lt; auto.
  - apply slice_from_ok. eapply boundary_after_ascii; eauto. unfold is_ascii_byte. bgoal. auto.
Qed.

Lemma firstn_substr {A} i (s : list A) : exists q, s = firstn i s ++ q.
Proof. exists (skipn i s). symmetry. apply firstn_skipn. Qed.

Lemma substr_firstn i s : substr (firstn i s) s.
Proof. destruct (firstn_substr i s) as [q H]. rewrite H at 2. apply substr_prefix. Qed.
Lemma substr_skipn i s : substr (skipn i s) s.
Proof. rewrite <- (firstn_skipn i s) at 2. apply substr_suffix. Qed.

(** ** split *)
Lemma split_byte_spec c s : exists h t, split_byte c s = h :: t /\ (exists q, s = h ++ q) /\ (forall x, In x t -> substr x s).
Proof.
  induction s as [|b r IH]; simpl.
  - exists [], []. repeat split; [exists []; reflexivity|intros x []].
  - destruct IH as [h [t [E [[q Hq] Ht]]]]. destruct (b =? c).
    + exists [], (split_byte c r). repeat split; [exists (b :: r); reflexivity|].
      intros x Hx. apply substr_cons. rewrite E in Hx. destruct Hx as [<-|Hx]; [rewrite Hq; apply substr_prefix|auto].
    + rewrite E. simpl. exists (b :: h), t. repeat split; [exists q; rewrite Hq at 1; reflexivity|].
      intros x Hx. apply substr_cons. auto.
Qed.

Lemma split_byte_substr c s x : In x (split_byte c s) -> substr x s.
Proof.
  destruct (split_byte_spec c s) as [h [t [E [[q Hq] Ht]]]]. rewrite E. intros [<-|Hx]; [|auto].
  rewrite Hq at 1. apply substr_prefix.
Qed.

Lemma split_arrow_spec : forall n s, (length s <= n)%nat ->
  exists h t, split_arrow s = h :: t /\ (exists q, s = h ++ q) /\ (forall x, In x t -> substr x s).
Proof.
  induction n as [|n IH]; intros s Hl.
  - destruct s; [|simpl in Hl; lia]. exists [], []. repeat split; [exists []; reflexivity|intros x []].
  - destruct s as [|b r]; [exists [], []; repeat split; [exists []; reflexivity|intros x []]|].
    simpl in Hl. cbn [split_arrow]. destruct r as [|b2 r2].
    + exists [b], []. repeat split; [exists []; reflexivity|intros x []].
    + destruct ((b =? 61) && (b2 =? 62)).
      * simpl in Hl. destruct (IH r2 ltac:(lia)) as [h [t [E [[q Hq] Ht]]]].
        exists [], (split_arrow r2). repeat split; [exists (b :: b2 :: r2); reflexivity|].
        intros x Hx. apply substr_cons, substr_cons. rewrite E in Hx. destruct Hx as [<-|Hx]; [rewrite Hq; apply substr_prefix|auto].
      * destruct (IH (b2 :: r2) ltac:(lia)) as [h [t [E [[q Hq] Ht]]]]. rewrite E. simpl.
        exists (b :: h), t. repeat split; [exists q; rewrite Hq at 1; reflexivity|].
        intros x Hx. apply substr_cons. auto.
Qed.

Lemma split_arrow_substr s x : In x (split_arrow s) -> substr x s.
Proof.
  destruct (split_arrow_spec (length s) s (le_n _)) as [h [t [E [[q Hq] Ht]]]]. rewrite E. intros [<-|Hx]; [|auto].
  rewrite Hq at 1. apply substr_prefix.
Qed.

Lemma split_once_spec c s x y : split_once c s = Some (x, y) -> s = x ++ c :: y.
Proof.
  revert x; induction s as [|b r IH]; simpl; intros x; [discriminate|].
  destruct (b =? c) eqn:E.
  - intros [= <- <-]. bprop. subst. reflexivity.
  - destruct (split_once c r) as [[x' y']|]; [|discriminate]. intros [= <- <-]. simpl. f_equal. apply IH. reflexivity.
Qed.

Lemma split_once_substr c s x y : split_once c s = Some (x, y) -> substr x s /\ substr y s.
Proof.
  intros H. apply split_once_spec in H. subst. split; [apply substr_prefix|].
  exists (x ++ [c]), []. rewrite app_nil_r, <- app_assoc. reflexivity.
Qed.

Lemma splitn2_substr c s x o : splitn2 c s = (x, o) -> substr x s /\ (forall y, o = Some y -> substr y s).
Proof.
  unfold splitn2. destruct (split_once c s) as [[a b]|] eqn:E.
  - intros [= <- <-]. apply split_once_substr in E. split; [tauto|]. intros y [= <-]. tauto.
  - intros [= <- <-]. split; [apply substr_refl|discriminate].
Qed.

Lemma strip_prefix_spec p s r : strip_prefix p s = Some r -> s = p ++ r.
Proof.
  revert s; induction p as [|a p IH]; simpl; intros s.
  - intros [= ->]. reflexivity.
  - destruct s as [|b s]; [discriminate|]. destruct (a =? b) eqn:E; [|discriminate].
    intros H. bprop. subst. f_equal. auto.
Qed.

Lemma strip_prefix_substr p s r : strip_prefix p s = Some r -> substr r s.
Proof. intros H. apply strip_prefix_spec in H. subst. apply substr_suffix. Qed.

Lemma strip_suffix_prefix p s r : strip_suffix p s = Some r -> exists q, s = r ++ q.
Proof.
  unfold strip_suffix. destruct (strip_prefix (rev p) (rev s)) as [x|] eqn:E; [|discriminate].
  intros [= <-]. apply strip_prefix_spec in E. exists p.
  rewrite <- (rev_involutive s), E, rev_app_distr, rev_involutive. reflexivity.
Qed.

(** ** trim *)
Lemma trim_start_suffix : forall n s, (length s <= n)%nat -> exists p, s = p ++ trim_start s.
Proof.
  induction n as [|n IH]; intros s Hl.
  - destruct s; [exists []; reflexivity|simpl in Hl; lia].
  - destruct s as [|b r]; [exists []; reflexivity|]. simpl in Hl. cbn [trim_start].
    destruct (is_ws1 b).
    + destruct (IH r ltac:(lia)) as [p Hp]. exists (b :: p). simpl. f_equal. auto.
    + destruct r as [|c r1]; [exists []; reflexivity|]. simpl in Hl.
      destruct (is_ws2 b c).
      * destruct (IH r1 ltac:(lia)) as [p Hp]. exists (b :: c :: p). simpl. do 2 f_equal. auto.
      * destruct r1 as [|d r2]; [exists []; reflexivity|]. simpl in Hl.
        destruct (is_ws3 b c d); [|exists []; reflexivity].
        destruct (IH r2 ltac:(lia)) as [p Hp]. exists (b :: c :: d :: p). simpl. do 3 f_equal. auto.
Qed.

Lemma trim_start_rev_suffix : forall n s, (length s <= n)%nat -> exists p, s = p ++ trim_start_rev s.
Proof.
  induction n as [|n IH]; intros s Hl.
  - destruct s; [exists []; reflexivity|simpl in Hl; lia].
  - destruct s as [|b r]; [exists []; reflexivity|]. simpl in Hl. cbn [trim_start_rev].
    destruct (is_ws1 b).
    + destruct (IH r ltac:(lia)) as [p Hp]. exists (b :: p). simpl. f_equal. auto.
    + destruct r as [|c r1]; [exists []; reflexivity|]. simpl in Hl.
      destruct (is_ws2 c b).
      * destruct (IH r1 ltac:(lia)) as [p Hp]. exists (b :: c :: p). simpl. do 2 f_equal. auto.
      * destruct r1 as [|d r2]; [exists []; reflexivity|]. simpl in Hl.
        destruct (is_ws3 d c b); [|exists []; reflexivity].
        destruct (IH r2 ltac:(lia)) as [p Hp]. exists (b :: c :: d :: p). simpl. do 3 f_equal. auto.
Qed.

Lemma trim_start_substr s : substr (trim_start s) s.
Proof. destruct (trim_start_suffix (length s) s (le_n _)) as [p Hp]. rewrite Hp at 2. apply substr_suffix. Qed.

Lemma trim_end_substr s : substr (trim_end s) s.
Proof.
  unfold trim_end. destruct (trim_start_rev_suffix (length (rev s)) (rev s) (le_n _)) as [p Hp].
  apply (f_equal (@rev N)) in Hp. rewrite rev_involutive, rev_app_distr in Hp.
  exists [], (rev p). exact Hp.
Qed.

Lemma trim_substr s : substr (trim s) s.
Proof. unfold trim. eapply substr_trans; [apply trim_end_substr|apply trim_start_substr]. Qed.

(** ** lines *)
Lemma strip_cr_substr l : substr (strip_cr l) l.
Proof.
  unfold strip_cr. destruct (strip_suffix [13] l) as [l'|] eqn:E; [|apply substr_refl].
  apply strip_suffix_prefix in E. destruct E as [q ->]. apply substr_prefix.
Qed.

Lemma lines_aux_substr : forall s cur x, In x (lines_aux cur s) -> substr x (rev cur ++ s).
Proof.
  induction s as [|b r IH]; intros cur x; simpl.
  - destruct cur; [intros []|]. intros [<-|[]]. rewrite app_nil_r. apply substr_refl.
  - destruct (b =? 10).
    + intros [<-|Hx].
      * eapply substr_trans; [apply strip_cr_substr|apply substr_prefix].
      * apply (IH [] x) in Hx. simpl in Hx. destruct Hx as [p [q ->]].
        exists (rev cur ++ b :: p), q. rewrite <- app_assoc. reflexivity.
    + intros Hx. apply IH in Hx. simpl in Hx. rewrite <- app_assoc in Hx. exact Hx.
Qed.

Lemma lines_substr s x : In x (lines s) -> substr x s.
Proof. intros H. apply (lines_aux_substr s [] x H). Qed.
