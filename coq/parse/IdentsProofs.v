(** C16 - proofs about identifiers, handles, queue keys, request paths, object names.
    Besides "no panic", the results of the functions that build an [Ident] through an
    [unsafe { .._unchecked(..) }] constructor are shown to satisfy [check_bytes] (the
    safety condition those constructors rely on). *)
From KV Require Import base.Tac parse.Str parse.StrProofs parse.Idents.
Open Scope N_scope.

(** ** check_bytes *)
Lemma check_bytes_iff s :
  check_bytes s = true <-> s <> [] /\ hd 0 s <> 46 /\ forallb ident_char s = true.
Proof.
  unfold check_bytes. destruct s as [|b r]; [split; [discriminate|intros [H _]; congruence]|].
  cbn [hd]. destruct (b =? 46) eqn:E; bprop.
  - split; [discriminate|]. intros [_ [H _]]. congruence.
  - split; [intros H; repeat split; auto; discriminate|tauto].
Qed.

Lemma check_bytes_app a b : check_bytes a = true -> forallb ident_char b = true -> check_bytes (a ++ b) = true.
Proof.
  intros Ha Hb. apply check_bytes_iff in Ha. destruct Ha as [Hn [Hh Hf]]. apply check_bytes_iff.
  destruct a as [|x a]; [congruence|]. repeat split; [discriminate|exact Hh|].
  rewrite forallb_app, Hf, Hb. reflexivity.
Qed.

Theorem no_panic_ident_from_bytes : forall s, ident_from_bytes s <> PPanic.
Proof. intros s. unfold ident_from_bytes. destruct (check_bytes s); discriminate. Qed.

(** ** hex *)
Lemma hex_digit_alnum n : n < 16 -> is_alnum (hex_digit n) = true.
Proof.
  intros H. unfold hex_digit, is_alnum. destruct (n <? 10) eqn:E; bprop.
  - replace ((48 <=? 48 + n) && (48 + n <=? 57)) with true; [reflexivity|]. symmetry. bgoal; lia.
  - replace ((65 <=? 55 + n) && (55 + n <=? 90)) with true; [rewrite orb_true_r; reflexivity|]. symmetry. bgoal; lia.
Qed.

Lemma ident_char_alnum b : is_alnum b = true -> ident_char b = true.
Proof. unfold ident_char. intros ->. reflexivity. Qed.

Lemma hex_str_ident_chars s : forallb ident_char (hex_str s) = true.
Proof.
  induction s as [|b r IH]; [reflexivity|]. unfold hex_str in *. cbn [flat_map]. rewrite forallb_app, IH, andb_true_r.
  unfold hex_u8. cbn [forallb]. rewrite !ident_char_alnum; [reflexivity| |];
    apply hex_digit_alnum; apply N.mod_lt; lia.
Qed.

(** ** from_str_or_replace / push_converted_str always yield valid identifiers *)
Theorem from_str_or_replace_valid : forall src, check_bytes (from_str_or_replace src) = true.
Proof.
  intros src. unfold from_str_or_replace. destruct src as [|b r]; [reflexivity|].
  destruct (negb (starts_with [95] (b :: r)) && check_bytes (b :: r)) eqn:E.
  - bprop. auto.
  - apply check_bytes_iff. repeat split; [discriminate|cbn; lia|].
    cbn [forallb]. rewrite hex_str_ident_chars. reflexivity.
Qed.

Theorem push_converted_str_valid : forall content s,
  check_bytes content = true -> check_bytes (push_converted_str content s) = true.
Proof.
  intros content s Hc. unfold push_converted_str. destruct s as [|b r]; [exact Hc|].
  destruct (negb (starts_with [43] (b :: r)) && check_bytes (b :: r)) eqn:E.
  - bprop. apply check_bytes_app; auto. apply check_bytes_iff in H0. tauto.
  - apply check_bytes_app; auto. cbn [forallb]. rewrite hex_str_ident_chars. reflexivity.
Qed.

(** ** handles *)
Lemma handle_char_cases b : handle_char b = true ->
  (b = 47 \/ b = 92) \/ (b <> 47 /\ b <> 92 /\ b <> 46 /\ ident_char b = true).
Proof.
  unfold handle_char, ident_char, is_alnum. intros H.
  destruct (b =? 47) eqn:E1; bprop; [left; left; auto|].
  destruct (b =? 92) eqn:E2; bprop; [left; right; auto|]. right.
  repeat split; auto.
  - intros ->. cbv in H. discriminate.
  - rewrite !orb_false_r in H. apply orb_true_iff in H. destruct H as [H|H].
    + apply orb_true_iff in H. destruct H as [H|H]; rewrite H; [reflexivity|].
      rewrite !orb_true_r. reflexivity.
    + rewrite H. rewrite !orb_true_r. reflexivity.
Qed.

Lemma replace_slashes_ident_chars h : forallb handle_char h = true -> forallb ident_char (replace_slashes h) = true.
Proof.
  unfold replace_slashes. induction h as [|b r IH]; [reflexivity|]. cbn [forallb map]. intros H. bprop.
  rewrite IH by auto. rewrite andb_true_r.
  destruct (handle_char_cases b H) as [[->| ->]|[H1 [H2 [_ Hi]]]]; try reflexivity.
  destruct (b =? 47) eqn:E1; bprop; [congruence|]. destruct (b =? 92) eqn:E2; bprop; [congruence|]. exact Hi.
Qed.

Lemma no_slash_ident_chars h : forallb handle_char h = true ->
  existsb (fun b => (b =? 47) || (b =? 92)) h = false -> forallb ident_char h = true.
Proof.
  induction h as [|b r IH]; [reflexivity|]. cbn [forallb existsb]. intros H He. bprop.
  rewrite IH by auto. rewrite andb_true_r.
  destruct (handle_char_cases b H) as [[->| ->]|[_ [_ [_ Hi]]]]; try congruence.
Qed.

(** Ident::from_handle: for every handle accepted by Handle::from_str the result is a
    valid identifier - the [debug_assert!] never fires and the unchecked constructors
    are used within their safety condition. *)
Theorem ident_from_handle_valid : forall s h, handle_from_str s = POk h ->
  exists i, ident_from_handle h = mkOut (POk i) false /\ check_bytes i = true.
Proof.
  intros s h. unfold handle_from_str. destruct (verify_name s) eqn:Ev; [|discriminate]. intros [= <-].
  unfold verify_name in Ev. bprop. rename H into Hchars. rename H1 into Hne.
  unfold ident_from_handle.
  set (res := if existsb _ s then replace_slashes s else s).
  assert (Hv : check_bytes res = true).
  { apply check_bytes_iff. destruct s as [|b r]; [discriminate|].
    assert (Hf : forallb ident_char res = true).
    { subst res. destruct (existsb _ (b :: r)) eqn:Ee; [apply replace_slashes_ident_chars|apply no_slash_ident_chars]; auto. }
    repeat split; auto.
    - subst res. destruct (existsb _ (b :: r)); discriminate.
    - cbn [forallb] in Hchars. bprop.
      assert (Hb : hd 0 res = b \/ hd 0 res = 43).
      { subst res. destruct (existsb _ (b :: r)); [|left; reflexivity]. cbn. destruct ((b =? 47) || (b =? 92)); auto. }
      destruct Hb as [-> | ->]; [|lia].
      destruct (handle_char_cases b H) as [[->| ->]|[_ [_ [Hd _]]]]; lia. }
  exists res. rewrite Hv. split; reflexivity.
Qed.

Theorem no_panic_ident_from_handle_str : forall s,
  o_res (ident_from_handle_str s) <> PPanic /\ o_dbg (ident_from_handle_str s) = false.
Proof.
  intros s. unfold ident_from_handle_str. destruct (handle_from_str s) as [h| |] eqn:E.
  - destruct (ident_from_handle_valid s h E) as [i [-> _]]. split; [discriminate|reflexivity].
  - split; [discriminate|reflexivity].
  - unfold handle_from_str in E. destruct (verify_name s); discriminate.
Qed.

(** IdentBuilder::push_handle *)
Lemma split_byte2_parts c1 c2 s x : In x (split_byte2 c1 c2 s) -> forall b, In b x -> In b s /\ b <> c1 /\ b <> c2.
Proof.
  revert x; induction s as [|a r IH]; intros x; cbn [split_byte2].
  - intros [<-|[]] b [].
  - destruct ((a =? c1) || (a =? c2)) eqn:E.
    + intros [<-|Hx] b Hb; [destruct Hb|]. destruct (IH x Hx b Hb) as [H1 H2]. split; [right; auto|auto].
    + bprop. destruct (split_byte2 c1 c2 r) as [|h t] eqn:Es; cbn [cons_head].
      * intros [<-|[]] b [<-|[]]. repeat split; auto. left; reflexivity.
      * intros [<-|Hx] b Hb.
        -- destruct Hb as [<-|Hb]; [repeat split; auto; left; reflexivity|].
           destruct (IH h (or_introl eq_refl) b Hb) as [H1 H2]. split; [right; auto|auto].
        -- destruct (IH x (or_intror Hx) b Hb) as [H1 H2]. split; [right; auto|auto].
Qed.

Lemma handle_part_ident_chars h x : forallb handle_char h = true -> In x (split_byte2 47 92 h) -> forallb ident_char x = true.
Proof.
  intros Hh Hx. apply forallb_forall. intros b Hb.
  destruct (split_byte2_parts 47 92 h x Hx b Hb) as [Hin [H1 H2]].
  rewrite forallb_forall in Hh. destruct (handle_char_cases b (Hh b Hin)) as [[?|?]|[_ [_ [_ Hi]]]]; congruence.
Qed.

Theorem push_handle_valid : forall content s h, check_bytes content = true -> handle_from_str s = POk h ->
  check_bytes (push_handle content h) = true.
Proof.
  intros content s h Hc. unfold handle_from_str. destruct (verify_name s) eqn:Ev; [|discriminate]. intros [= <-].
  unfold verify_name in Ev. bprop. unfold push_handle.
  pose proof (handle_part_ident_chars s) as Hparts. specialize (fun x => Hparts x H).
  destruct (split_byte2 47 92 s) as [|part parts]; [exact Hc|].
  assert (Hstart : check_bytes (content ++ part) = true) by (apply check_bytes_app; auto; apply Hparts; left; reflexivity).
  assert (Hrest : forall x, In x parts -> forallb ident_char x = true) by (intros; apply Hparts; right; auto).
  clear Hparts. revert Hstart Hrest. generalize (content ++ part). induction parts as [|p ps IH]; intros acc Ha Hr; [exact Ha|].
  cbn [fold_left]. apply IH.
  - apply check_bytes_app; auto. cbn [forallb]. rewrite Hr by (left; reflexivity). reflexivity.
  - intros; apply Hr; right; auto.
Qed.

Theorem no_panic_push_handle_str : forall content s, push_handle_str content s <> PPanic.
Proof.
  intros. unfold push_handle_str, handle_from_str. destruct (verify_name s); cbn [pbind]; discriminate.
Qed.

Theorem no_panic_ident_to_handle : forall s, ident_to_handle s <> PPanic.
Proof.
  intros. unfold ident_to_handle, ident_from_bytes, handle_from_str.
  destruct (check_bytes s); cbn [pbind]; [destruct (verify_name s)|]; discriminate.
Qed.

(** ** Queue::split_storage_key *)
Theorem no_panic_split_storage_key : forall key, split_storage_key key <> PPanic.
Proof.
  intros key. unfold split_storage_key. destruct (split_once 45 key) as [[ts name]|]; cbn [pbind of_opt]; [|discriminate].
  destruct name; [discriminate|]. destruct (parse_u128 ts); cbn [pbind of_opt]; discriminate.
Qed.

(** The name handed to [Ident::from_bytes_unchecked]: "not empty and came from an Ident so
    characters are fine" (queue.rs:334-335). Full safety condition of an Ident: *)
Definition split_key_name_is_ident_full : Prop :=
  forall key ts name, check_bytes key = true -> split_storage_key key = POk (ts, name) -> check_bytes name = true.

(** Refuted: "5-.x" is a valid key whose name ".x" has a leading dot. *)
Theorem split_key_name_is_ident_refuted : ~ split_key_name_is_ident_full.
Proof. intros H. specialize (H [53; 45; 46; 120] 5 [46; 120] eq_refl eq_refl). discriminate. Qed.

(** What does hold: the name is not empty and consists of identifier characters. *)
Theorem split_key_name_chars : forall key ts name, check_bytes key = true -> split_storage_key key = POk (ts, name) ->
  name <> [] /\ forallb ident_char name = true.
Proof.
  intros key ts name Hk. unfold split_storage_key.
  destruct (split_once 45 key) as [[t n]|] eqn:E; cbn [pbind of_opt]; [|discriminate].
  destruct n as [|b r]; [discriminate|]. destruct (parse_u128 t); cbn [pbind of_opt]; [|discriminate].
  intros [= <- <-]. split; [discriminate|].
  apply split_once_spec in E. apply check_bytes_iff in Hk. destruct Hk as [_ [_ Hf]].
  rewrite E, forallb_app in Hf. apply andb_true_iff in Hf. destruct Hf as [_ Hf].
  change (ident_char 45 && forallb ident_char (b :: r) = true) in Hf. apply andb_true_iff in Hf. tauto.
Qed.

Example split_key_name_chars_nonvacuous :
  check_bytes [49; 50; 45; 102; 111; 111] = true /\ split_storage_key [49; 50; 45; 102; 111; 111] = POk (12, [102; 111; 111]).
Proof. split; reflexivity. Qed.

(** ** PathIter *)
Lemma find_byte_none_split c s : find_byte c s = None -> split_byte c s = [s].
Proof.
  induction s as [|b r IH]; [reflexivity|]. cbn [find_byte split_byte]. destruct (b =? c); [discriminate|].
  destruct (find_byte c r); [discriminate|]. intros _. rewrite IH by reflexivity. reflexivity.
Qed.

Lemma find_byte_some_split c s i : find_byte c s = Some i ->
  split_byte c s = firstn i s :: split_byte c (skipn (S i) s).
Proof.
  revert i; induction s as [|b r IH]; intros i; [discriminate|]. cbn [find_byte split_byte].
  destruct (b =? c).
  - intros [= <-]. reflexivity.
  - destruct (find_byte c r) as [j|]; [|discriminate]. intros [= <-]. rewrite (IH j eq_refl). reflexivity.
Qed.

Lemma path_iter_collect_spec : forall fuel rem, sep_ok rem = true -> (length rem + 2 <= fuel)%nat ->
  path_iter_collect fuel (Some rem) = POk (split_byte 47 rem).
Proof.
  induction fuel as [|fuel IH]; intros rem Hs Hf; [lia|].
  cbn [path_iter_collect path_iter_next].
  destruct (find_byte 47 rem) as [slash|] eqn:E.
  - destruct (slices_at_found 47 rem slash ltac:(lia) Hs E) as [H1 H2]. rewrite H1, H2. cbn [pbind].
    pose proof (nth_error_lt _ _ _ (find_byte_nth _ _ _ E)) as Hlt.
    rewrite IH.
    + cbn [pbind]. rewrite (find_byte_some_split _ _ _ E). reflexivity.
    + eapply sep_ok_substr; [exact Hs|apply substr_skipn].
    + rewrite skipn_length. lia.
  - cbn [pbind]. destruct fuel as [|fuel']; [lia|]. cbn [path_iter_collect path_iter_next pbind].
    rewrite find_byte_none_split by auto. reflexivity.
Qed.

(** The segments are exactly the '/'-separated pieces of the path without its leading
    slash, and collecting them never panics. *)
Theorem path_segments_spec : forall path, wf_utf8 path = true ->
  path_segments path = POk (split_byte 47 (match strip_prefix [47] path with Some r => r | None => path end)).
Proof.
  intros path Hw. apply wf_utf8_sep_ok in Hw. unfold path_segments, path_iter_new.
  destruct (strip_prefix [47] path) as [r|] eqn:E.
  - apply path_iter_collect_spec.
    + eapply sep_ok_substr; [exact Hw|eapply strip_prefix_substr; eauto].
    + apply strip_prefix_spec in E. subst path. simpl. lia.
  - apply path_iter_collect_spec; [auto|lia].
Qed.

Theorem no_panic_path_segments : forall path, wf_utf8 path = true -> path_segments path <> PPanic.
Proof. intros path H. rewrite path_segments_spec by auto. discriminate. Qed.

(** ** user agent *)
Lemma visible_ascii_all_ascii s : forallb visible_ascii s = true -> all_ascii s = true.
Proof.
  unfold all_ascii. intros H. rewrite forallb_forall in *. intros b Hb. specialize (H b Hb).
  unfold visible_ascii, is_ascii_byte in *. apply orb_true_iff in H. destruct H; bprop; bgoal; lia.
Qed.

Theorem no_panic_user_agent : forall value, user_agent value <> PPanic.
Proof.
  intros value. unfold user_agent. destruct (forallb visible_ascii value) eqn:E; [|discriminate].
  destruct (Nat.ltb USER_AGENT_TRUNCATE (length value)) eqn:El; [|discriminate].
  apply Nat.ltb_lt in El. rewrite slice_to_ok; [discriminate|].
  apply all_ascii_boundary; [apply visible_ascii_all_ascii; auto|lia].
Qed.

(** ** CertInfo::create: name of the certificate *)
Definition cert_object_name_no_panic_full : Prop := forall path, wf_utf8 path = true -> cert_object_name path <> PPanic.

(** Refuted for arbitrary strings: without a '/' the slice starts at byte 1
    ([rfind('/').unwrap_or(0) + 1]); "éx.cer" has a two-byte first character. *)
Theorem cert_object_name_no_panic_refuted : ~ cert_object_name_no_panic_full.
Proof. intros H. apply (H [195; 169; 120; 46; 99; 101; 114]); reflexivity. Qed.

(** rpki::uri::Rsync only holds ASCII (uri.rs is_uri_ascii), and for ASCII paths there is no panic. *)
Theorem no_panic_cert_object_name_ascii : forall path, all_ascii path = true -> cert_object_name path <> PPanic.
Proof.
  intros path Ha. unfold cert_object_name.
  set (als := S _). destruct (negb _ || Nat.ltb (length path) (als + 5)) eqn:G; [discriminate|].
  bprop. apply Nat.ltb_ge in H0. rewrite slice_from_ok; [discriminate|]. apply all_ascii_boundary; auto. lia.
Qed.

(** Also for any string in which the path contains a '/' (the slice then starts after it). *)
Theorem no_panic_cert_object_name_slash : forall path, wf_utf8 path = true -> rfind_byte 47 path <> None ->
  cert_object_name path <> PPanic.
Proof.
  intros path Hw Hr. unfold cert_object_name. destruct (rfind_byte 47 path) as [i|] eqn:E; [|congruence].
  destruct (negb _ || _); [discriminate|]. rewrite slice_from_ok; [discriminate|].
  apply (boundary_after_ascii i path 47); [apply wf_utf8_sep_ok; auto|apply rfind_byte_nth; auto|reflexivity].
Qed.

(** ** URIs built from handles *)
Definition valid_base (base : str) : Prop := https_from_string base = Some base.

Definition BASE_EX : str := [104; 116; 116; 112; 115; 58; 47; 47; 104; 47].   (* "https://h/" *)

(** Repaired tree: never a panic, for any base and any handle text. *)
Theorem no_panic_handle_uris : forall base h, rfc8181_uri base h <> PPanic /\ service_uri_for_ca base h <> PPanic.
Proof. intros. unfold rfc8181_uri, service_uri_for_ca. split; apply of_opt_np. Qed.

(** Findings F16c / F16d on the originally pinned tree: the handle a\b is accepted by Handle::from_str
    (feature "compat" of rpki allows the backslash) but a backslash is not a URI character, so the
    [unwrap] panicked. *)
Example pinned_handle_uri_panics :
  valid_base BASE_EX /\ handle_from_str [97; 92; 98] = POk [97; 92; 98] /\
  rfc8181_uri_pinned BASE_EX [97; 92; 98] = PPanic /\ service_uri_for_ca_pinned BASE_EX [97; 92; 98] = PPanic /\
  rfc8181_uri BASE_EX [97; 92; 98] = PErr /\ service_uri_for_ca BASE_EX [97; 92; 98] = PErr.
Proof. repeat split. Qed.

Lemma uri_char_of_handle_char b : handle_char b = true -> b <> 92 -> uri_char b = true.
Proof.
  unfold handle_char, is_alnum, uri_char.
  rewrite !orb_true_iff, !andb_true_iff, !N.leb_le, !N.eqb_eq. lia.
Qed.

Lemma https_from_string_app base x : valid_base base -> (base <> []) -> forallb uri_char x = true ->
  https_from_string (base ++ x) = Some (base ++ x).
Proof.
  unfold valid_base, https_from_string. intros Hb Hne Hx.
  destruct (forallb uri_char base && _) eqn:E; [|discriminate]. bprop.
  rewrite forallb_app, H, Hx. cbn [andb].
  rewrite map_app. unfold starts_with in *. destruct (strip_prefix HTTPS_SCHEME _) as [r|] eqn:Er; [|discriminate].
  apply strip_prefix_spec in Er. rewrite Er, <- app_assoc.
  assert (Hs : forall p r', strip_prefix p (p ++ r') = Some r').
  { induction p as [|a p IH]; intros; cbn [strip_prefix app]; [reflexivity|]. rewrite N.eqb_refl. apply IH. }
  rewrite Hs. reflexivity.
Qed.

(** Functional characterisation: handles without a backslash always give the URI. *)
Theorem handle_uri_ok_without_backslash : forall base s h, valid_base base -> base <> [] ->
  handle_from_str s = POk h -> existsb (N.eqb 92) h = false ->
  rfc8181_uri base h = POk (base ++ RFC8181_SEG ++ h ++ [47]) /\
  service_uri_for_ca base h = POk (base ++ RFC6492_SEG ++ h).
Proof.
  intros base s h Hb Hne Hh Hbs. unfold handle_from_str in Hh. destruct (verify_name s) eqn:Ev; [|discriminate].
  injection Hh as <-. unfold verify_name in Ev. bprop.
  assert (Hu : forallb uri_char s = true).
  { apply forallb_forall. intros b Hin. rewrite forallb_forall in H. apply uri_char_of_handle_char; [auto|].
    intros ->. assert (existsb (N.eqb 92) s = true) by (apply existsb_exists; exists 92; split; [auto|reflexivity]). congruence. }
  assert (Hu1 : forallb uri_char (RFC8181_SEG ++ s ++ [47]) = true) by (rewrite !forallb_app, Hu; reflexivity).
  assert (Hu2 : forallb uri_char (RFC6492_SEG ++ s) = true) by (rewrite !forallb_app, Hu; reflexivity).
  unfold rfc8181_uri, service_uri_for_ca.
  rewrite (https_from_string_app base _ Hb Hne Hu1), (https_from_string_app base _ Hb Hne Hu2). split; reflexivity.
Qed.

Example handle_uri_ok_without_backslash_nonvacuous :
  valid_base BASE_EX /\ handle_from_str [97; 47; 98] = POk [97; 47; 98] /\ existsb (N.eqb 92) [97; 47; 98] = false.
Proof. repeat split. Qed.
