(** C16 - ASPA and BGPsec notations (src/api/aspa.rs, src/api/bgpsec.rs) and the
    two rpki [FromStr] implementations they call on the raw client text
    (rpki-0.19.2 src/resources/asn.rs:98-110, src/crypto/keys.rs:520-535).
    Definitions only; proofs in NotationsProofs.v. *)
From KV Require Import base.Tac parse.Str.
Open Scope N_scope.

Definition lower (b : N) : N := if (65 <=? b) && (b <=? 90) then b + 32 else b.
Definition eq_ignore_ascii_case (a b : str) : bool := str_eqb (map lower a) (map lower b).

(** *** rpki Asn::from_str (asn.rs:101-109):
      let s = if s.len() > 2 && s[..2].eq_ignore_ascii_case("as") { &s[2..] } else { s };
      u32::from_str(s)
    [s[..2]] is evaluated for every string longer than two bytes. *)
Definition rpki_asn_from_str (s : str) : pres N :=
  let! digits :=
    if Nat.ltb 2 (length s) then
      let! head := slice_to s 2 in
      if eq_ignore_ascii_case head [97; 115] then slice_from s 2 else POk s
    else POk s in
  of_opt (parse_u32 digits).

(** [providers.sort()] on u32 *)
Fixpoint insert_sorted (x : N) (l : list N) : list N :=
  match l with [] => [x] | y :: r => if x <=? y then x :: l else y :: insert_sorted x r end.
Definition sort_n (l : list N) : list N := fold_right insert_sorted [] l.

(** [providers.windows(2).find(|pair| pair[0] == pair[1])]: windows have length 2,
    so the two index operations are in range by construction of [windows]. *)
Fixpoint has_adjacent_dup (l : list N) : bool :=
  match l with
  | x :: (y :: _) as r => (x =? y) || has_adjacent_dup r
  | _ => false
  end.

Fixpoint parse_providers (parts : list str) : pres (list N) :=
  match parts with
  | [] => POk []
  | p :: r => let! a := rpki_asn_from_str (trim p) in
              let! more := parse_providers r in POk (a :: more)
  end.

Definition NONE_STR : str := [60; 110; 111; 110; 101; 62].   (* "<none>" *)

(** *** AspaDefinition::from_str (api/aspa.rs:171-226)  "65000 => 65001, 65002" *)
Definition aspa_from_str (s : str) : pres (N * list N) :=
  match split_arrow s with
  | [] => PErr
  | customer_str :: parts =>
    let! customer := rpki_asn_from_str (trim customer_str) in
    let providers_str := match parts with p :: _ => p | [] => NONE_STR end in
    let! providers :=
      if str_eqb (trim providers_str) NONE_STR then POk []
      else parse_providers (split_byte 44 providers_str) in
    match parts with
    | _ :: _ :: _ => PErr
    | _ => let sorted := sort_n providers in
           if has_adjacent_dup sorted then PErr else POk (customer, sorted)
    end
  end.

(** *** rpki KeyIdentifier::from_str (keys.rs:523-534): 40 ASCII bytes, every
    chunk of two parsed with [u8::from_str_radix(.., 16)]. *)
Fixpoint key_id_chunks (s : str) : option (list N) :=
  match s with
  | [] => Some []
  | a :: b :: r =>
    match parse_uint 16 U8_MAX [a; b], key_id_chunks r with
    | Some v, Some more => Some (v :: more)
    | _, _ => None
    end
  | [_] => None
  end.
Definition key_id_from_str (s : str) : option (list N) :=
  if negb (Nat.eqb (length s) 40) || negb (all_ascii s) then None else key_id_chunks s.

(** *** BgpSecAsnKey::from_str (api/bgpsec.rs:61-83)  "ROUTER-0000FDE8-<40 hex>".
    [parts.first()] / [parts.get(1)] are the checked accessors. *)
Definition ROUTER_PREFIX : str := [82; 79; 85; 84; 69; 82; 45].
Definition bgpsec_key_from_str (s : str) : pres (N * list N) :=
  let! rest := of_opt (strip_prefix ROUTER_PREFIX s) in
  let parts := split_byte 45 rest in
  if negb (Nat.eqb (length parts) 2) then PErr
  else
    let! asn_hex := of_opt (nth_error parts 0) in
    let! key_id_str := of_opt (nth_error parts 1) in
    let! asn := of_opt (parse_uint 16 U32_MAX asn_hex) in
    let! key := of_opt (key_id_from_str key_id_str) in
    POk (asn, key).
