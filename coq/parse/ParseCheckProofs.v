(** C16 - the per-function theorems assembled over the checker's [model], and the link
    between [agrees] and the oracle [c16_ok]. *)
From KV Require Import base.Tac parse.Str parse.StrProofs parse.RoaParse parse.RoaParseProofs
  parse.Idents parse.IdentsProofs parse.Notations parse.NotationsProofs parse.ParseCheck.
Open Scope N_scope.

(** Functions whose model can panic on some (non-ASCII) string: rpki's Asn::from_str,
    what calls it on raw text, and the object-name slice of CertInfo::create. *)
Definition panic_free_fn (f : fn) : bool :=
  match f with FRpkiAsn | FAspa | FCertName => false | _ => true end.

Lemma all_ascii_wf_utf8 s : all_ascii s = true -> wf_utf8 s = true.
Proof.
  induction s as [|b r IH]; [reflexivity|]. cbn [all_ascii forallb wf_utf8]. intros H. bprop.
  unfold is_ascii_byte in H. rewrite H. apply IH, H0.
Qed.

Lemma on_payload_np {B} s (g : payload -> outcome B) : wf_utf8 s = true ->
  (forall p, o_res (g p) <> PPanic) -> o_res (on_payload s g) <> PPanic.
Proof.
  intros Hw Hg. unfold on_payload. destruct (payload_from_str s) eqn:E; [apply Hg|discriminate|].
  exfalso. revert E. apply no_panic_payload, Hw.
Qed.

(** For every Rust string, every modelled function except the three above returns a
    value or an error - never panics (release semantics). *)
Theorem model_no_panic : forall f s, panic_free_fn f = true -> wf_utf8 s = true -> o_res (model f s) <> PPanic.
Proof.
  intros f s Hf Hw. destruct f; try discriminate Hf; cbn [model pure_out out_map o_res].
  - apply pmap_np, no_panic_as_number.
  - apply pmap_np, no_panic_typed_prefix, Hw.
  - apply pmap_np, (no_panic_ipvx_prefix V4 s).
  - apply pmap_np, (no_panic_ipvx_prefix V6 s).
  - apply pmap_np, no_panic_payload, Hw.
  - apply pmap_np, no_panic_config, Hw.
  - apply pmap_np, no_panic_updates, Hw.
  - apply pmap_np, no_panic_announcement, Hw.
  - apply on_payload_np; [exact Hw|]. intros p. discriminate.
  - apply on_payload_np; [exact Hw|]. intros p. cbn [out_map o_res]. apply pmap_np, no_panic_nr_of_specific_prefixes.
  - apply on_payload_np; [exact Hw|]. intros p. destruct (r_max p); [|discriminate].
    cbn [out_map o_res]. apply pmap_np, no_panic_prefix_resize.
  - apply pmap_np, no_panic_agg_key, Hw.
  - apply pmap_np, no_panic_ident_from_bytes.
  - discriminate.
  - discriminate.
  - apply pmap_np, no_panic_ident_from_handle_str.
  - apply pmap_np, no_panic_push_handle_str.
  - apply pmap_np, no_panic_ident_to_handle.
  - apply pmap_np, no_panic_split_storage_key.
  - apply pmap_np, no_panic_path_segments, Hw.
  - discriminate.
  - apply pmap_np, no_panic_user_agent.
  - apply pmap_np, no_panic_bgpsec_key.
  - apply pbind_np; [unfold handle_from_str; destruct (verify_name s); discriminate|].
    intros h _. apply pmap_np, (no_panic_handle_uris BASE h).
  - apply pbind_np; [unfold handle_from_str; destruct (verify_name s); discriminate|].
    intros h _. apply pbind_np; [apply (no_panic_handle_uris BASE h)|intros; discriminate].
Qed.

(** On ASCII input no modelled function panics at all. *)
Theorem model_no_panic_ascii : forall f s, all_ascii s = true -> o_res (model f s) <> PPanic.
Proof.
  intros f s Ha. destruct (panic_free_fn f) eqn:Hf; [apply model_no_panic; auto; apply all_ascii_wf_utf8, Ha|].
  destruct f; try discriminate Hf; cbn [model pure_out o_res].
  - apply pmap_np, no_panic_cert_object_name_ascii, Ha.
  - apply pmap_np, rpki_asn_no_panic_ascii, Ha.
  - apply pmap_np, aspa_no_panic_ascii, Ha.
Qed.

(** Debug-only panics (overflow checks / debug assertions) exist for one function only. *)
Theorem model_no_debug_only_panic : forall f s, f <> FNrSpecific -> o_dbg (model f s) = false.
Proof.
  intros f s Hf. destruct f; try congruence; cbn [model pure_out out_map o_dbg]; try reflexivity.
  - apply (no_panic_ipvx_prefix V4 s).
  - apply (no_panic_ipvx_prefix V6 s).
  - unfold on_payload. destruct (payload_from_str s); reflexivity.
  - unfold on_payload. destruct (payload_from_str s) as [p| |]; try reflexivity.
    destruct (r_max p); [|reflexivity]. cbn [out_map o_dbg]. apply no_panic_prefix_resize.
  - apply no_panic_ident_from_handle_str.
Qed.

(** [agrees] + "the model does not panic" => the oracle holds on the observation. *)
Theorem agrees_no_panic_ok : forall c,
  agrees c = true -> o_res (model (c_fn c) (c_input c)) <> PPanic -> c16_ok c = true.
Proof.
  intros c Ha Hn. unfold agrees, predicted in Ha. unfold c16_ok.
  destruct (c_obs c); try reflexivity.
  destruct (o_dbg _ && c_dbg_build c); [discriminate|].
  destruct (o_res (model (c_fn c) (c_input c))); try discriminate. congruence.
Qed.

(** Hence: an implementation run that agrees with the model on a panic-free function
    did not panic. *)
Theorem agreeing_case_ok : forall c,
  panic_free_fn (c_fn c) = true -> wf_utf8 (c_input c) = true -> agrees c = true -> c16_ok c = true.
Proof. intros c Hf Hw Ha. apply agrees_no_panic_ok; auto. apply model_no_panic; auto. Qed.

Example agreeing_case_ok_nonvacuous :
  let c := mkCase FPayload [49; 48; 46; 48; 46; 48; 46; 48; 47; 56; 32; 61; 62; 32; 49] true
                  (OOk (CL [CN 1; CL [CN 4; CN 167772160; CN 8]; CL []])) in
  panic_free_fn (c_fn c) = true /\ wf_utf8 (c_input c) = true /\ agrees c = true.
Proof. repeat split; vm_compute; reflexivity. Qed.
