(** C16 - proofs about the ROA notation parsers and the payload arithmetic. *)
From KV Require Import base.Tac parse.Str parse.StrProofs parse.RoaParse.
Open Scope N_scope.

(** ** AsNumber *)
Theorem no_panic_as_number : forall s, as_number_from_str s <> PPanic.
Proof. intros s. unfold as_number_from_str. apply of_opt_np. Qed.

(** ** rpki Prefix::from_v4_str / from_v6_str + Prefix::new *)
Lemma no_panic_rpki_prefix f s : sep_ok s = true -> rpki_prefix_from_str f s <> PPanic.
Proof.
  intros Hs. unfold rpki_prefix_from_str.
  destruct (find_byte 47 s) as [sep|] eqn:Ef; cbn [pbind of_opt]; [|discriminate].
  destruct (slices_at_found 47 s sep ltac:(lia) Hs Ef) as [H1 H2]. rewrite H1. cbn [pbind of_opt].
  destruct (match f with V4 => _ | V6 => _ end); cbn [pbind of_opt]; [|discriminate].
  rewrite H2. cbn [pbind of_opt].
  destruct (parse_u8 _) as [len|]; cbn [pbind of_opt]; [|discriminate].
  destruct (fam_bits f <? len) eqn:E1; [discriminate|].
  destruct (128 <? len) eqn:E2; [|discriminate].
  bprop. destruct f; simpl in *; lia.
Qed.

Lemma rpki_prefix_len_bound f s p : rpki_prefix_from_str f s = POk p -> p_fam p = f /\ p_len p <= fam_bits f.
Proof.
  unfold rpki_prefix_from_str.
  destruct (find_byte 47 s) as [sep|]; cbn [pbind of_opt]; [|discriminate].
  destruct (slice_to s sep); cbn [pbind of_opt]; try discriminate.
  destruct (match f with V4 => _ | V6 => _ end); cbn [pbind of_opt]; [|discriminate].
  destruct (slice_from s (S sep)); cbn [pbind of_opt]; try discriminate.
  destruct (parse_u8 _) as [len|]; cbn [pbind of_opt]; [|discriminate].
  destruct (fam_bits f <? len) eqn:E1; [discriminate|].
  destruct (128 <? len); [discriminate|]. intros [= <-]. simpl. bprop. auto.
Qed.

(** ** TypedPrefix::from_str *)
Lemma no_panic_typed_prefix_sep s : sep_ok s = true -> typed_prefix_from_str s <> PPanic.
Proof.
  intros Hs. unfold typed_prefix_from_str.
  assert (Ht : sep_ok (trim s) = true) by (eapply sep_ok_substr; [exact Hs|apply trim_substr]).
  destruct (contains_byte 46 s); apply no_panic_rpki_prefix; exact Ht.
Qed.

Theorem no_panic_typed_prefix : forall s, wf_utf8 s = true -> typed_prefix_from_str s <> PPanic.
Proof. intros s H. apply no_panic_typed_prefix_sep, wf_utf8_sep_ok, H. Qed.

Lemma typed_prefix_len_bound s p : typed_prefix_from_str s = POk p -> p_len p <= fam_bits (p_fam p).
Proof.
  unfold typed_prefix_from_str. destruct (contains_byte 46 s); intros H; apply rpki_prefix_len_bound in H;
    destruct H as [-> H]; exact H.
Qed.

(** ** Ipv4Prefix / Ipv6Prefix ::from_str: no panic in any build. *)
Theorem no_panic_ipvx_prefix : forall f s,
  o_res (ipvx_prefix_from_str f s) <> PPanic /\ o_dbg (ipvx_prefix_from_str f s) = false.
Proof.
  intros f s. unfold ipvx_prefix_from_str.
  destruct (split_once 47 s) as [[a l]|]; [|split; [discriminate|reflexivity]].
  destruct (match f with V4 => parse_ipv4 a | V6 => parse_ipv6 a end) as [addr|]; [|split; [discriminate|reflexivity]].
  destruct (parse_u8 l) as [len|]; [|split; [discriminate|reflexivity]].
  destruct (fam_bits f <? len) eqn:E; [split; [discriminate|reflexivity]|].
  unfold sub_u8. bprop. destruct (len <=? fam_bits f) eqn:E2; bprop; [|lia].
  destruct (N.of_nat _ <? _); simpl; split; try discriminate; reflexivity.
Qed.

Lemma ipvx_prefix_len_bound f s p : o_res (ipvx_prefix_from_str f s) = POk p -> p_fam p = f /\ p_len p <= fam_bits f.
Proof.
  unfold ipvx_prefix_from_str.
  destruct (split_once 47 s) as [[a l]|]; [|discriminate].
  destruct (match f with V4 => parse_ipv4 a | V6 => parse_ipv6 a end) as [addr|]; [|discriminate].
  destruct (parse_u8 l) as [len|]; [|discriminate].
  destruct (fam_bits f <? len) eqn:E; [discriminate|].
  destruct (sub_u8 (fam_bits f) len) as [host ovf]. destruct (N.of_nat _ <? host); simpl; [discriminate|].
  intros [= <-]. simpl. bprop. auto.
Qed.

(** ** RoaPayload::from_str *)
Lemma no_panic_payload_sep s : sep_ok s = true -> payload_from_str s <> PPanic.
Proof.
  intros Hs. unfold payload_from_str.
  destruct (split_arrow s) as [|prefix_part parts] eqn:Ea; [discriminate|].
  assert (Hpp : substr prefix_part s) by (apply split_arrow_substr; rewrite Ea; left; reflexivity).
  destruct (split_byte 45 prefix_part) as [|prefix_str prefix_parts] eqn:Eb; [discriminate|].
  assert (Hps : substr prefix_str prefix_part) by (apply (split_byte_substr 45); rewrite Eb; left; reflexivity).
  apply pbind_np.
  - apply no_panic_typed_prefix_sep. eapply sep_ok_substr; [exact Hs|].
    eapply substr_trans; [apply trim_substr|]. eapply substr_trans; eauto.
  - intros pfx _. apply pbind_np.
    + destruct prefix_parts; [discriminate|apply pmap_np, of_opt_np].
    + intros m _. destruct parts as [|asn_str rest]; [discriminate|]. destruct rest; [|discriminate].
      apply pbind_np; [apply no_panic_as_number|]. intros; discriminate.
Qed.

Theorem no_panic_payload : forall s, wf_utf8 s = true -> payload_from_str s <> PPanic.
Proof. intros s H. apply no_panic_payload_sep, wf_utf8_sep_ok, H. Qed.

(** A parsed payload has a prefix length within its family (the maximum length is NOT checked by the parser). *)
Theorem payload_len_bound : forall s p, payload_from_str s = POk p -> p_len (r_pfx p) <= fam_bits (p_fam (r_pfx p)).
Proof.
  intros s p. unfold payload_from_str.
  destruct (split_arrow s) as [|prefix_part parts]; [discriminate|].
  destruct (split_byte 45 prefix_part) as [|prefix_str prefix_parts]; [discriminate|].
  destruct (typed_prefix_from_str (trim prefix_str)) as [pfx| |] eqn:Et; simpl; try discriminate.
  destruct (match prefix_parts with [] => POk None | length_str :: _ => pmap Some (of_opt (parse_u8 (trim length_str))) end); simpl; try discriminate.
  destruct parts as [|asn_str rest]; [discriminate|]. destruct rest; [|discriminate].
  destruct (as_number_from_str (trim asn_str)); simpl; try discriminate.
  intros [= <-]. simpl. eapply typed_prefix_len_bound; eauto.
Qed.

(** ** RoaConfiguration::from_str *)
Lemma no_panic_config_sep s : sep_ok s = true -> config_from_str s <> PPanic.
Proof.
  intros Hs. unfold config_from_str. destruct (splitn2 35 s) as [pp comment] eqn:E.
  apply splitn2_substr in E. destruct E as [Hpp _].
  apply pbind_np; [|intros; discriminate].
  apply no_panic_payload_sep. eapply sep_ok_substr; eauto.
Qed.

Theorem no_panic_config : forall s, wf_utf8 s = true -> config_from_str s <> PPanic.
Proof. intros s H. apply no_panic_config_sep, wf_utf8_sep_ok, H. Qed.

(** ** RoaConfigurationUpdates::from_str *)
Lemma no_panic_updates_lines : forall ls added removed,
  Forall (fun l => sep_ok l = true) ls -> updates_lines ls added removed <> PPanic.
Proof.
  induction ls as [|line0 rest IH]; intros added removed HF; cbn [updates_lines]; [discriminate|].
  inversion HF as [|? ? Hl Hr]; subst.
  assert (Ht : sep_ok (trim line0) = true) by (eapply sep_ok_substr; [exact Hl|apply trim_substr]).
  destruct (match trim line0 with [] => true | b :: _ => b =? 35 end); [apply IH; auto|].
  destruct (strip_prefix [65; 58] (trim line0)) as [stripped|] eqn:EA.
  - apply pbind_np; [|intros; apply IH; auto].
    apply no_panic_config_sep. eapply sep_ok_substr; [exact Ht|].
    eapply substr_trans; [apply trim_substr|eapply strip_prefix_substr; eauto].
  - destruct (strip_prefix [82; 58] (trim line0)) as [stripped|] eqn:ER; [|discriminate].
    destruct (split_byte 35 stripped) as [|payload_str more] eqn:Es; [discriminate|].
    apply pbind_np; [|intros; apply IH; auto].
    apply no_panic_payload_sep. eapply sep_ok_substr; [exact Ht|].
    eapply substr_trans; [apply trim_substr|].
    eapply substr_trans; [apply (split_byte_substr 35 stripped); rewrite Es; left; reflexivity|].
    eapply strip_prefix_substr; eauto.
Qed.

Theorem no_panic_updates : forall s, wf_utf8 s = true -> updates_from_str s <> PPanic.
Proof.
  intros s H. unfold updates_from_str. apply no_panic_updates_lines.
  apply Forall_forall. intros l Hl. eapply sep_ok_substr; [apply wf_utf8_sep_ok, H|apply lines_substr, Hl].
Qed.

(** ** Announcement::from_str *)
Theorem no_panic_announcement : forall s, wf_utf8 s = true -> announcement_from_str s <> PPanic.
Proof.
  intros s H. unfold announcement_from_str. apply pbind_np; [apply no_panic_payload, H|].
  intros p _. destruct (r_max p); discriminate.
Qed.

(** ** max_length_valid: exactly "prefix length <= max length <= family length". *)
Theorem max_length_valid_iff : forall p,
  max_length_valid p = true <->
  match r_max p with
  | None => True
  | Some m => p_len (r_pfx p) <= m /\ m <= fam_bits (p_fam (r_pfx p))
  end.
Proof.
  intros p. unfold max_length_valid. destruct (r_max p) as [m|]; [|tauto].
  rewrite andb_true_iff, !N.leb_le. tauto.
Qed.

(** ** nr_of_specific_prefixes *)
Definition payload_ok (p : payload) : Prop :=
  p_len (r_pfx p) <= fam_bits (p_fam (r_pfx p)) /\ max_length_valid p = true.

Lemma fam_bits_le_128 f : fam_bits f <= 128.
Proof. destruct f; simpl; lia. Qed.

Lemma payload_ok_eff p : payload_ok p ->
  p_len (r_pfx p) <= effective_max_length p /\ effective_max_length p <= fam_bits (p_fam (r_pfx p)).
Proof.
  intros [Hl Hv]. apply max_length_valid_iff in Hv. unfold effective_max_length.
  destruct (r_max p); lia.
Qed.

(** Never a panic of the release build (the result is always a value). *)
Theorem no_panic_nr_of_specific_prefixes : forall p, o_res (nr_of_specific_prefixes p) <> PPanic.
Proof. intros p. unfold nr_of_specific_prefixes. destruct (sub_u8 _ _). discriminate. Qed.

(** The full statement "no panic in any build, for every validated payload". *)
Definition nr_specific_no_debug_panic_full : Prop :=
  forall p, payload_ok p -> o_dbg (nr_of_specific_prefixes p) = false.

Definition slash0_128 : payload := mkPayload 0 (mkPfx V6 0 0) (Some 128).

(** Refuted: ::/0-128 is a valid payload and shifts a u128 by 128. *)
Theorem nr_specific_no_debug_panic_refuted : ~ nr_specific_no_debug_panic_full.
Proof.
  intros H. specialize (H slash0_128). cbv in H. assert (Hok : payload_ok slash0_128).
  { split; [simpl; lia|reflexivity]. }
  specialize (H Hok). discriminate.
Qed.

(** The witness is what the client notation "::/0-128 => 0" parses to. *)
Example slash0_128_reachable :
  payload_from_str [58; 58; 47; 48; 45; 49; 50; 56; 32; 61; 62; 32; 48] = POk slash0_128.
Proof. vm_compute. reflexivity. Qed.

(** Exactly that shape: for validated payloads the debug-only panic occurs iff
    the prefix is ::/0 (length 0, IPv6) with max length 128. *)
Theorem nr_specific_debug_panic_iff : forall p, payload_ok p ->
  (o_dbg (nr_of_specific_prefixes p) = true <->
   p_fam (r_pfx p) = V6 /\ p_len (r_pfx p) = 0 /\ r_max p = Some 128).
Proof.
  intros p Hok. destruct (payload_ok_eff p Hok) as [H1 H2]. destruct Hok as [Hl Hv].
  pose proof (fam_bits_le_128 (p_fam (r_pfx p))) as H128.
  unfold nr_of_specific_prefixes, sub_u8.
  destruct (p_len (r_pfx p) <=? effective_max_length p) eqn:E; bprop; [|lia].
  cbn [o_dbg orb]. split.
  - intros H. bprop. assert (effective_max_length p = 128 /\ p_len (r_pfx p) = 0) as [He Hz] by lia.
    assert (Hf : p_fam (r_pfx p) = V6). { destruct (p_fam (r_pfx p)); simpl in *; [lia|reflexivity]. }
    repeat split; auto. unfold effective_max_length in He. destruct (r_max p); [congruence|lia].
  - intros [Hf [Hz Hm]]. unfold effective_max_length. rewrite Hm, Hz. reflexivity.
Qed.

(** Strongest true restriction, with the value: away from ::/0-128 the function
    returns 2^(max - len) and no build panics. *)
Theorem nr_specific_except_known : forall p, payload_ok p ->
  ~ (p_fam (r_pfx p) = V6 /\ p_len (r_pfx p) = 0 /\ r_max p = Some 128) ->
  nr_of_specific_prefixes p = mkOut (POk (2 ^ (effective_max_length p - p_len (r_pfx p)))) false.
Proof.
  intros p Hok Hnot. pose proof (nr_specific_debug_panic_iff p Hok) as Hiff.
  destruct (payload_ok_eff p Hok) as [H1 H2].
  pose proof (fam_bits_le_128 (p_fam (r_pfx p))) as H128.
  assert (Hd : o_dbg (nr_of_specific_prefixes p) = false).
  { destruct (o_dbg (nr_of_specific_prefixes p)); [exfalso; apply Hnot, Hiff; reflexivity|reflexivity]. }
  revert Hd. unfold nr_of_specific_prefixes, sub_u8.
  destruct (p_len (r_pfx p) <=? effective_max_length p) eqn:E; bprop; [|lia].
  cbn [o_dbg orb]. intros Hd. bprop.
  set (k := effective_max_length p - p_len (r_pfx p)) in *.
  rewrite (N.mod_small k 128) by lia. rewrite N.shiftl_1_l.
  rewrite N.mod_small by (apply N.pow_lt_mono_r; lia).
  rewrite (proj2 (N.leb_gt 128 k)) by lia. reflexivity.
Qed.

Example nr_specific_except_known_nonvacuous :
  payload_ok (mkPayload 1 (mkPfx V4 167772160 8) (Some 24)) /\
  nr_of_specific_prefixes (mkPayload 1 (mkPfx V4 167772160 8) (Some 24)) = mkOut (POk 65536) false.
Proof. split; [split; [simpl; lia|reflexivity]|reflexivity]. Qed.

(** Inconsistent lengths (max < prefix length) are accepted by the parser; on
    those the u8 subtraction overflows (debug-only). They never reach the
    function in the daemon: process_updates rejects them (max_length_valid). *)
Lemma nr_specific_sub_overflow p : effective_max_length p < p_len (r_pfx p) -> o_dbg (nr_of_specific_prefixes p) = true.
Proof.
  intros H. unfold nr_of_specific_prefixes, sub_u8.
  destruct (p_len (r_pfx p) <=? effective_max_length p) eqn:E; bprop; [lia|reflexivity].
Qed.

(** ** resize: no panic in any build. *)
Theorem no_panic_prefix_resize : forall p n,
  o_res (prefix_resize p n) <> PPanic /\ o_dbg (prefix_resize p n) = false.
Proof.
  intros p n. unfold prefix_resize. destruct (fam_bits (p_fam p) <=? n) eqn:E; simpl; [split; [discriminate|reflexivity]|].
  split; [discriminate|reflexivity].
Qed.

(** ** RoaAggregateKey::from_str: [&asn_part[2..]] is guarded by [starts_with("AS")]. *)
Lemma agg_key_slice_safe : forall part, sep_ok part = true -> starts_with [65; 83] part = true ->
  slice_from part 2 = POk (skipn 2 part).
Proof.
  intros part Hs Hst. unfold starts_with in Hst.
  destruct (strip_prefix [65; 83] part) as [r|] eqn:E; [|discriminate].
  apply strip_prefix_spec in E. subst part. apply slice_from_ok.
  apply (boundary_after_ascii 1 _ 83); auto.
Qed.

Lemma no_panic_agg_key_sep s : sep_ok s = true -> agg_key_from_str s <> PPanic.
Proof.
  intros Hs. unfold agg_key_from_str.
  destruct (split_byte 45 s) as [|asn_part parts] eqn:E; [discriminate|].
  assert (Hp : substr asn_part s) by (apply (split_byte_substr 45); rewrite E; left; reflexivity).
  destruct (negb (starts_with [65; 83] asn_part) || Nat.ltb (length asn_part) 3) eqn:G; [discriminate|].
  bprop. rewrite (agg_key_slice_safe asn_part); auto; [|eapply sep_ok_substr; eauto].
  simpl. apply pbind_np; [apply no_panic_as_number|]. intros asn _.
  apply pbind_np.
  - destruct parts; [discriminate|apply pmap_np, of_opt_np].
  - intros g _. destruct parts as [|? [|? ?]]; discriminate.
Qed.

Theorem no_panic_agg_key : forall s, wf_utf8 s = true -> agg_key_from_str s <> PPanic.
Proof. intros s H. apply no_panic_agg_key_sep, wf_utf8_sep_ok, H. Qed.
