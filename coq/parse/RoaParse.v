(** C16 - Krill's own parsing of, and arithmetic on, client-controlled ROA
    notations (src/api/roa.rs, src/api/bgp.rs, src/server/ca/roa.rs) with explicit
    failure. Definitions only; proofs in RoaParseProofs.v.

    Conventions: every function follows the Rust control flow statement by
    statement; [PErr] is any [Err(..)] (error texts are not compared), [PPanic] a
    panic in every build, the [o_dbg] flag of an [outcome] a panic in builds with
    overflow checks / debug assertions only (release profile of /repo/Cargo.toml:
    panic = "abort", overflow checks off => the arithmetic wraps). *)
From KV Require Import base.Tac parse.Str.
Open Scope N_scope.

Inductive family := V4 | V6.
Definition fam_bits (f : family) : N := match f with V4 => 32 | V6 => 128 end.
Definition family_eqb (a b : family) : bool := match a, b with V4, V4 | V6, V6 => true | _, _ => false end.

(** Ipv4Prefix / Ipv6Prefix / TypedPrefix: address as an integer of the family's width. *)
Record prefix := mkPfx { p_fam : family; p_addr : N; p_len : N }.
(** RoaPayload (api/roa.rs:47-60) *)
Record payload := mkPayload { r_asn : N; r_pfx : prefix; r_max : option N }.
(** RoaConfiguration (api/roa.rs:312-330) *)
Record roa_config := mkConfig { c_payload : payload; c_comment : option str }.

(** u8 subtraction: wrapped value and "overflowed" flag. *)
Definition sub_u8 (a b : N) : N * bool := if b <=? a then (a - b, false) else (a + 256 - b, true).

(** Keep the first [len] of [bits] bits (rpki Addr::to_min seen on the family's
    own width; ipres.rs:1624-1631). *)
Definition mask_to (bits len a : N) : N :=
  if bits <=? len then a else N.shiftl (N.shiftr a (bits - len)) (bits - len).

(** *** AsNumber::from_str (api/roa.rs:1061-1070): trim, then u32. *)
Definition as_number_from_str (s : str) : pres N := of_opt (parse_u32 (trim s)).

(** *** rpki Prefix::from_v4_str / from_v6_str (ipres.rs:1377-1408) followed by
    Prefix::new (ipres.rs:1329-1335: [assert!(len <= 128)], [to_min]).
    The slices are those of the code: [&s[..sep]], [&s[sep + 1..]] with [sep] the
    position of the first '/'. *)
Definition rpki_prefix_from_str (f : family) (s : str) : pres prefix :=
  let! sep := of_opt (find_byte 47 s) in
  let! addr_s := slice_to s sep in
  let! addr := of_opt (match f with V4 => parse_ipv4 addr_s | V6 => parse_ipv6 addr_s end) in
  let! len_s := slice_from s (S sep) in
  let! len := of_opt (parse_u8 len_s) in
  if fam_bits f <? len then PErr
  else if 128 <? len then PPanic
  else POk (mkPfx f (mask_to (fam_bits f) len addr) len).

(** *** TypedPrefix::from_str (api/roa.rs:745-761) *)
Definition typed_prefix_from_str (s : str) : pres prefix :=
  if contains_byte 46 s then rpki_prefix_from_str V4 (trim s)
  else rpki_prefix_from_str V6 (trim s).

(** *** Ipv4Prefix::from_str / Ipv6Prefix::from_str (api/roa.rs:878-899, 983-1004).
    [(32 - addr_len)] is a u8 subtraction (guarded by the [> 32] test before it). *)
Definition ipvx_prefix_from_str (f : family) (s : str) : outcome prefix :=
  match split_once 47 s with
  | None => pure_out PErr
  | Some (a, l) =>
    match (match f with V4 => parse_ipv4 a | V6 => parse_ipv6 a end) with
    | None => pure_out PErr
    | Some addr =>
      match parse_u8 l with
      | None => pure_out PErr
      | Some len =>
        if fam_bits f <? len then pure_out PErr
        else
          let '(host, ovf) := sub_u8 (fam_bits f) len in
          if N.of_nat (trailing_zeros (N.to_nat (fam_bits f)) addr) <? host then mkOut PErr ovf
          else mkOut (POk (mkPfx f addr len)) ovf
      end
    end
  end.

(** *** RoaPayload::from_str (api/roa.rs:144-181)  "192.168.0.0/16-24 => 64496" *)
Definition payload_from_str (s : str) : pres payload :=
  match split_arrow s with
  | [] => PErr                                   (* parts.next() is None: cannot happen *)
  | prefix_part :: parts =>
    match split_byte 45 prefix_part with
    | [] => PErr
    | prefix_str :: prefix_parts =>
      let! pfx := typed_prefix_from_str (trim prefix_str) in
      let! max_length :=
        match prefix_parts with
        | [] => POk None
        | length_str :: _ => pmap Some (of_opt (parse_u8 (trim length_str)))
        end in
      match parts with
      | [] => PErr
      | asn_str :: rest =>
        match rest with
        | _ :: _ => PErr
        | [] => let! origin := as_number_from_str (trim asn_str) in
                POk (mkPayload origin pfx max_length)
        end
      end
    end
  end.

(** *** RoaConfiguration::from_str (api/roa.rs:350-365)  "... => 64496 # comment" *)
Definition config_from_str (s : str) : pres roa_config :=
  let '(payload_part, comment) := splitn2 35 s in
  let! p := payload_from_str payload_part in
  POk (mkConfig p (option_map trim comment)).

(** *** RoaConfigurationUpdates::from_str (api/roa.rs:593-623) *)
Fixpoint updates_lines (ls : list str) (added : list roa_config) (removed : list payload)
  : pres (list roa_config * list payload) :=
  match ls with
  | [] => POk (rev added, rev removed)
  | line0 :: rest =>
    let line := trim line0 in
    if match line with [] => true | b :: _ => b =? 35 end then updates_lines rest added removed
    else match strip_prefix [65; 58] line with
         | Some stripped =>
           let! c := config_from_str (trim stripped) in updates_lines rest (c :: added) removed
         | None =>
           match strip_prefix [82; 58] line with
           | Some stripped =>
             match split_byte 35 stripped with
             | payload_str :: _ =>
               let! p := payload_from_str (trim payload_str) in updates_lines rest added (p :: removed)
             | [] => PErr
             end
           | None => PErr
           end
         end
  end.
Definition updates_from_str (s : str) : pres (list roa_config * list payload) := updates_lines (lines s) [] [].

(** *** Announcement::from_str (api/bgp.rs:1053-1068) *)
Definition announcement_from_str (s : str) : pres (N * prefix) :=
  let! p := payload_from_str s in
  match r_max p with Some _ => PErr | None => POk (r_asn p, r_pfx p) end.

(** *** RoaPayload arithmetic *)
Definition effective_max_length (p : payload) : N :=
  match r_max p with None => p_len (r_pfx p) | Some m => m end.

(** max_length_valid (api/roa.rs:112-125) *)
Definition max_length_valid (p : payload) : bool :=
  match r_max p with
  | Some m => (p_len (r_pfx p) <=? m) && (m <=? fam_bits (p_fam (r_pfx p)))
  | None => true
  end.

(** nr_of_specific_prefixes (api/roa.rs:96-106): [1u128 << (max_len - pfx_len)].
    [max_len - pfx_len] is a u8 subtraction, the shift amount of a u128 must be
    < 128. Release: the subtraction wraps modulo 256, the shift amount is masked
    to 7 bits. Debug: either overflow panics. *)
Definition nr_of_specific_prefixes (p : payload) : outcome N :=
  let '(sh, sub_ovf) := sub_u8 (effective_max_length p) (p_len (r_pfx p)) in
  let shl_ovf := 128 <=? sh in
  mkOut (POk (N.shiftl 1 (sh mod 128) mod 2 ^ 128)) (sub_ovf || shl_ovf).

(** Ipv4Prefix::resize / Ipv6Prefix::resize (api/roa.rs:854-869, 959-974):
    [u32::MAX >> addr_len] is only evaluated when [addr_len < 32]. *)
Definition prefix_resize (p : prefix) (addr_len : N) : outcome prefix :=
  let bits := fam_bits (p_fam p) in
  if bits <=? addr_len then pure_out (POk (mkPfx (p_fam p) (p_addr p) bits))
  else mkOut (POk (mkPfx (p_fam p) (mask_to bits addr_len (p_addr p)) addr_len)) (bits <=? addr_len).

(** *** RoaAggregateKey::from_str (server/ca/roa.rs:323-356)  "AS64496-2" *)
Definition agg_key_from_str (s : str) : pres (N * option N) :=
  match split_byte 45 s with
  | [] => PErr
  | asn_part :: parts =>
    if negb (starts_with [65; 83] asn_part) || Nat.ltb (length asn_part) 3 then PErr
    else
      let! digits := slice_from asn_part 2 in
      let! asn := as_number_from_str digits in
      let! group :=
        match parts with
        | [] => POk None
        | g :: _ => pmap Some (of_opt (parse_u32 g))
        end in
      match parts with
      | _ :: _ :: _ => PErr
      | _ => POk (asn, group)
      end
  end.
