(** C16 - correspondence checker and executable oracle.
    The harness runs the real functions of /repo under [catch_unwind] on generated
    inputs and writes, per call, a [case]: which function, the input bytes, whether
    the harness binary was built with overflow checks / debug assertions, and what
    was observed (the parsed value in canonical form, an error, a panic, or a
    panic whose message is an arithmetic-overflow / debug-assertion message).
    [agrees] compares with the model; [c16_ok] is the property itself on the
    observation: no panic. *)
From KV Require Import base.Tac parse.Str parse.RoaParse parse.Idents parse.Notations.
Open Scope N_scope.

(** Canonical values *)
Inductive cval : Type := CN (n : N) | CB (b : str) | CL (l : list cval).

Fixpoint cval_eqb (a b : cval) {struct a} : bool :=
  match a, b with
  | CN x, CN y => x =? y
  | CB x, CB y => str_eqb x y
  | CL x, CL y =>
    (fix go (l1 l2 : list cval) {struct l1} : bool :=
       match l1, l2 with
       | [], [] => true
       | u :: l1', v :: l2' => cval_eqb u v && go l1' l2'
       | _, _ => false
       end) x y
  | _, _ => false
  end.

Inductive fn : Type :=
| FAsNumber | FTypedPrefix | FIpv4Prefix | FIpv6Prefix | FPayload | FConfig | FUpdates | FAnnouncement
| FMaxLenValid | FNrSpecific | FResize | FAggKey
| FIdent | FStrOrReplace | FPushConverted | FFromHandle | FPushHandle | FToHandle | FSplitKey
| FPathSegments | FStripTrailing | FUserAgent | FCertName
| FRpkiAsn | FAspa | FBgpsecKey
| FRfc8181Uri | FCaServiceUri.

Inductive obs : Type := OOk (v : cval) | OErr | OPanic | ODbgPanic.

Record case := mkCase { c_fn : fn; c_input : str; c_dbg_build : bool; c_obs : obs }.

(** Encoders of model values *)
Definition enc_bool (b : bool) : cval := CN (if b then 1 else 0).
Definition enc_opt_n (o : option N) : cval := match o with Some n => CL [CN n] | None => CL [] end.
Definition enc_opt_s (o : option str) : cval := match o with Some s => CL [CB s] | None => CL [] end.
Definition enc_pfx (p : prefix) : cval :=
  CL [CN (match p_fam p with V4 => 4 | V6 => 6 end); CN (p_addr p); CN (p_len p)].
Definition enc_payload (p : payload) : cval := CL [CN (r_asn p); enc_pfx (r_pfx p); enc_opt_n (r_max p)].
Definition enc_config (c : roa_config) : cval := CL [enc_payload (c_payload c); enc_opt_s (c_comment c)].

Definition out_map {A B} (f : A -> B) (o : outcome A) : outcome B := mkOut (pmap f (o_res o)) (o_dbg o).
(** Run [g] on the parsed payload; a notation that does not parse is an error. *)
Definition on_payload {B} (s : str) (g : payload -> outcome B) : outcome B :=
  match payload_from_str s with
  | POk p => g p
  | PErr => pure_out PErr
  | PPanic => pure_out PPanic
  end.

Definition X : str := [120].   (* the builder content "x" used by the harness *)
(** service_uri of the harness configuration: "https://localhost:3000/" *)
Definition BASE : str := [104; 116; 116; 112; 115; 58; 47; 47; 108; 111; 99; 97; 108; 104; 111; 115; 116; 58; 51; 48; 48; 48; 47].

Definition model (f : fn) (s : str) : outcome cval :=
  match f with
  | FAsNumber => pure_out (pmap CN (as_number_from_str s))
  | FTypedPrefix => pure_out (pmap enc_pfx (typed_prefix_from_str s))
  | FIpv4Prefix => out_map enc_pfx (ipvx_prefix_from_str V4 s)
  | FIpv6Prefix => out_map enc_pfx (ipvx_prefix_from_str V6 s)
  | FPayload => pure_out (pmap enc_payload (payload_from_str s))
  | FConfig => pure_out (pmap enc_config (config_from_str s))
  | FUpdates => pure_out (pmap (fun '(a, r) => CL [CL (map enc_config a); CL (map enc_payload r)]) (updates_from_str s))
  | FAnnouncement => pure_out (pmap (fun '(a, p) => CL [CN a; enc_pfx p]) (announcement_from_str s))
  | FMaxLenValid => on_payload s (fun p => pure_out (POk (enc_bool (max_length_valid p))))
  | FNrSpecific => on_payload s (fun p => out_map CN (nr_of_specific_prefixes p))
  | FResize => on_payload s (fun p => match r_max p with
                                      | Some n => out_map enc_pfx (prefix_resize (r_pfx p) n)
                                      | None => pure_out PErr
                                      end)
  | FAggKey => pure_out (pmap (fun '(a, g) => CL [CN a; enc_opt_n g]) (agg_key_from_str s))
  | FIdent => pure_out (pmap CB (ident_from_bytes s))
  | FStrOrReplace => pure_out (POk (CB (from_str_or_replace s)))
  | FPushConverted => pure_out (POk (CB (push_converted_str X s)))
  | FFromHandle => out_map CB (ident_from_handle_str s)
  | FPushHandle => pure_out (pmap CB (push_handle_str X s))
  | FToHandle => pure_out (pmap CB (ident_to_handle s))
  | FSplitKey => pure_out (pmap (fun '(t, n) => CL [CN t; CB n]) (split_storage_key s))
  | FPathSegments => pure_out (pmap (fun l => CL (map CB l)) (path_segments s))
  | FStripTrailing => pure_out (POk (enc_opt_s (strip_trailing_slash (path_iter_new s))))
  | FUserAgent => pure_out (pmap CB (user_agent s))
  | FCertName => pure_out (pmap CB (cert_object_name s))
  | FRpkiAsn => pure_out (pmap CN (rpki_asn_from_str s))
  | FAspa => pure_out (pmap (fun '(c, ps) => CL [CN c; CL (map CN ps)]) (aspa_from_str s))
  | FBgpsecKey => pure_out (pmap (fun '(a, k) => CL [CN a; CB k]) (bgpsec_key_from_str s))
  | FRfc8181Uri => pure_out (let! h := handle_from_str s in pmap CB (rfc8181_uri BASE h))
  (* observed through CaManager::ca_parent_response for a CA that does not exist: the URI is built first
     (manager.rs:879), then the CA lookup fails - so "URI ok" is observed as an error too *)
  | FCaServiceUri => pure_out (let! h := handle_from_str s in let! _ := service_uri_for_ca BASE h in PErr)
  end.

Definition obs_of (r : pres cval) : obs := match r with POk v => OOk v | PErr => OErr | PPanic => OPanic end.
Definition obs_eqb (a b : obs) : bool :=
  match a, b with
  | OOk x, OOk y => cval_eqb x y
  | OErr, OErr | OPanic, OPanic | ODbgPanic, ODbgPanic => true
  | _, _ => false
  end.

(** What the model predicts for a build with ([dbg] = true) or without overflow
    checks and debug assertions. *)
Definition predicted (dbg_build : bool) (o : outcome cval) : obs :=
  if o_dbg o && dbg_build then ODbgPanic else obs_of (o_res o).

Definition agrees (c : case) : bool := obs_eqb (c_obs c) (predicted (c_dbg_build c) (model (c_fn c) (c_input c))).

(** The property on one observation: request processing did not panic. A panic
    that only exists in debug builds is a separate class (reported, not a
    violation: the release profile has overflow checks and debug assertions off). *)
Definition c16_ok (c : case) : bool := match c_obs c with OPanic => false | _ => true end.

Fixpoint failing_from {A} (f : A -> bool) (i : N) (l : list A) : list N :=
  match l with
  | [] => []
  | x :: r => if f x then failing_from f (i + 1) r else i :: failing_from f (i + 1) r
  end.
Definition failing {A} (f : A -> bool) (base : N) (l : list A) : list N := failing_from f base l.
