(** C16 - storage identifiers, handles, queue keys, request paths and object names:
    Krill's own validation / conversion / slicing of client-influenced names
    (src/commons/storage/ident.rs, src/commons/queue.rs, src/daemon/http/request.rs,
    src/api/ca.rs). Definitions only; proofs in IdentsProofs.v. *)
From KV Require Import base.Tac parse.Str.
Open Scope N_scope.

(** *** Ident::check_bytes (ident.rs:99-119): not empty, no leading '.', only
    ASCII letters and digits, '+', '-', '_', '.'. *)
Definition ident_char (b : N) : bool := is_alnum b || (b =? 43) || (b =? 45) || (b =? 95) || (b =? 46).
Definition check_bytes (s : str) : bool :=
  match s with
  | [] => false
  | first :: _ => if first =? 46 then false else forallb ident_char s
  end.

(** Ident::from_bytes / from_str / boxed_from_string (ident.rs:28-40, 82-87) *)
Definition ident_from_bytes (s : str) : pres str := if check_bytes s then POk s else PErr.

(** Ident::from_str_or_replace (ident.rs:242-260) *)
Definition from_str_or_replace (src : str) : str :=
  match src with
  | [] => [95]
  | _ => if negb (starts_with [95] src) && check_bytes src then src else 95 :: hex_str src
  end.

(** IdentBuilder::push_converted_str (ident.rs:419-439) on builder content [content]. *)
Definition push_converted_str (content s : str) : str :=
  match s with
  | [] => content
  | _ => if negb (starts_with [43] s) && check_bytes s then content ++ s
         else content ++ 43 :: hex_str s
  end.

(** *** rpki Handle::verify_name with feature "compat" (idexchange.rs:161-172):
    [-_A-Za-z0-9/\]{1,255} *)
Definition handle_char (b : N) : bool := is_alnum b || (b =? 45) || (b =? 95) || (b =? 47) || (b =? 92).
Definition verify_name (s : str) : bool :=
  forallb handle_char s && negb (match s with [] => true | _ => false end) && Nat.ltb (length s) 256.
Definition handle_from_str (s : str) : pres str := if verify_name s then POk s else PErr.

(** Ident::from_handle (ident.rs:174-200). The identifier is built with
    [boxed_from_string_unchecked] / [from_bytes_unchecked]; the only check is
    [debug_assert!(Ident::check_bytes(..).is_ok())], i.e. a debug-only panic. *)
Definition replace_slashes (s : str) : str := map (fun b => if (b =? 47) || (b =? 92) then 43 else b) s.
Definition ident_from_handle (h : str) : outcome str :=
  let res := if existsb (fun b => (b =? 47) || (b =? 92)) h then replace_slashes h else h in
  mkOut (POk res) (negb (check_bytes res)).

(** Entry as seen from a client: the handle text is first parsed. *)
Definition ident_from_handle_str (s : str) : outcome str :=
  match handle_from_str s with
  | POk h => ident_from_handle h
  | PErr => pure_out PErr
  | PPanic => pure_out PPanic
  end.

(** IdentBuilder::push_handle (ident.rs:366-389) *)
Definition push_handle (content h : str) : str :=
  match split_byte2 47 92 h with
  | [] => content
  | part :: parts => fold_left (fun acc p => acc ++ 43 :: p) parts (content ++ part)
  end.
Definition push_handle_str (content s : str) : pres str :=
  let! h := handle_from_str s in POk (push_handle content h).

(** Ident::to_handle (ident.rs:205-212): [None] is reported as [PErr]. *)
Definition ident_to_handle (s : str) : pres str :=
  let! i := ident_from_bytes s in handle_from_str i.

(** *** Queue::split_storage_key (queue.rs:327-343) on a stored key (an Ident).
    The name is turned into an Ident with [from_bytes_unchecked]. *)
Definition split_storage_key (key : str) : pres (N * str) :=
  let! parts := of_opt (split_once 45 key) in
  let '(ts, name) := parts in
  match name with
  | [] => PErr
  | _ => let! t := of_opt (parse_u128 ts) in POk (t, name)
  end.

(** *** PathIter (request.rs:325-426) *)
Definition path_iter_new (path : str) : option str :=
  Some (match strip_prefix [47] path with Some r => r | None => path end).

(** One call of [Iterator::next]: the segment and the new [remaining]. *)
Definition path_iter_next (remaining : option str) : pres (option str * option str) :=
  match remaining with
  | None => POk (None, None)
  | Some rem =>
    match find_byte 47 rem with
    | None => POk (Some rem, None)
    | Some slash =>
      let! res := slice_to rem slash in
      let! rest := slice_from rem (S slash) in
      POk (Some res, Some rest)
    end
  end.

(** All segments: [next] until it returns [None]. *)
Fixpoint path_iter_collect (fuel : nat) (remaining : option str) : pres (list str) :=
  match fuel with
  | O => POk []
  | S fuel' =>
    let! step := path_iter_next remaining in
    match step with
    | (None, _) => POk []
    | (Some seg, rem') => let! more := path_iter_collect fuel' rem' in POk (seg :: more)
    end
  end.
Definition path_segments (path : str) : pres (list str) :=
  path_iter_collect (S (S (length path))) (path_iter_new path).

(** PathIter::strip_trailing_slash (request.rs:339-352), the [remaining] part. *)
Definition strip_trailing_slash (remaining : option str) : option str :=
  match remaining with
  | None => None
  | Some [] => None
  | Some r => Some (match strip_suffix [47] r with Some r' => r' | None => r end)
  end.

(** *** Request::user_agent (request.rs:119-133): [HeaderValue::to_str] succeeds on
    visible ASCII and TAB only, then [s[..256]] when longer than 256 bytes. *)
Definition visible_ascii (b : N) : bool := ((32 <=? b) && (b <? 127)) || (b =? 9).
Definition USER_AGENT_TRUNCATE : nat := 256.
Definition user_agent (value : str) : pres str :=
  if forallb visible_ascii value then
    if Nat.ltb USER_AGENT_TRUNCATE (length value) then slice_to value USER_AGENT_TRUNCATE else POk value
  else PErr.

(** *** CertInfo::create, object name from the URI path (api/ca.rs:309-320) *)
Definition cert_object_name (path : str) : pres str :=
  let after_last_slash := S (match rfind_byte 47 path with Some i => i | None => O end) in
  if negb (ends_with [46; 99; 101; 114] path) || Nat.ltb (length path) (after_last_slash + 5) then PErr
  else slice_from path after_last_slash.

(** *** URIs built from a handle: Config::rfc8181_uri (config.rs:1005-1013),
    CaManager::service_uri_for_ca (server/ca/manager.rs:900-909):
      uri::Https::from_string(format!("{}rfc8181/{}/", service_uri, publisher))        -> Result
      uri::Https::from_string(format!("{base_uri}rfc6492/{ca_handle}")).map_err(..)?    -> KrillResult
    rpki uri::Https::from_bytes (uri.rs:544-554) accepts a string iff every byte passes
    is_u8_uri_ascii (uri.rs:919-924) and it starts with an https scheme.
    Repaired tree (commit 27402048, findings F16c/F16d): the error is returned. The originally
    pinned tree called [.unwrap()] on the result: [rfc8181_uri_pinned], [service_uri_for_ca_pinned]. *)
Definition uri_char (b : N) : bool :=
  (b =? 33) || ((36 <=? b) && (b <=? 59)) || (b =? 61) || ((65 <=? b) && (b <=? 90)) || (b =? 95)
  || ((97 <=? b) && (b <=? 122)) || (b =? 126).
Definition HTTPS_SCHEME : str := [104; 116; 116; 112; 115; 58; 47; 47].   (* "https://" *)
Definition https_from_string (s : str) : option str :=
  if forallb uri_char s && starts_with HTTPS_SCHEME (map (fun b => if (65 <=? b) && (b <=? 90) then b + 32 else b) s)
  then Some s else None.
Definition RFC8181_SEG : str := [114; 102; 99; 56; 49; 56; 49; 47].       (* "rfc8181/" *)
Definition RFC6492_SEG : str := [114; 102; 99; 54; 52; 57; 50; 47].       (* "rfc6492/" *)
Definition rfc8181_uri (base h : str) : pres str := of_opt (https_from_string (base ++ RFC8181_SEG ++ h ++ [47])).
Definition service_uri_for_ca (base h : str) : pres str := of_opt (https_from_string (base ++ RFC6492_SEG ++ h)).
Definition rfc8181_uri_pinned (base h : str) : pres str := unwrap_opt (https_from_string (base ++ RFC8181_SEG ++ h ++ [47])).
Definition service_uri_for_ca_pinned (base h : str) : pres str := unwrap_opt (https_from_string (base ++ RFC6492_SEG ++ h)).
