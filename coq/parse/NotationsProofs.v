(** C16 - proofs about the ASPA / BGPsec notations. The faithful model of rpki's
    [Asn::from_str] DOES panic: [s[..2]] on a string whose byte 2 is inside a
    multi-byte character. The full statements are kept, refuted with the witness,
    and the strongest true restrictions are proved. *)
From KV Require Import base.Tac parse.Str parse.StrProofs parse.Notations.
Open Scope N_scope.

(** ** rpki Asn::from_str *)
Definition rpki_asn_no_panic_full : Prop := forall s, wf_utf8 s = true -> rpki_asn_from_str s <> PPanic.

(** The euro sign, E2 82 AC: three bytes, one character. *)
Definition EURO : str := [226; 130; 172].

Theorem rpki_asn_no_panic_refuted : ~ rpki_asn_no_panic_full.
Proof. intros H. apply (H EURO); reflexivity. Qed.

(** Exact panic condition: longer than two bytes and byte offset 2 is not a char boundary. *)
Theorem rpki_asn_panics_iff : forall s,
  rpki_asn_from_str s = PPanic <-> (2 < length s)%nat /\ is_char_boundary s 2 = false.
Proof.
  intros s. unfold rpki_asn_from_str. destruct (Nat.ltb 2 (length s)) eqn:E.
  - apply Nat.ltb_lt in E. unfold slice_to, slice_from. destruct (is_char_boundary s 2) eqn:B; cbn [pbind].
    + split; [|intros [_ H]; discriminate].
      destruct (eq_ignore_ascii_case (firstn 2 s) [97; 115]); cbn [pbind]; intros H; exfalso; revert H; apply of_opt_np.
    + split; [auto|reflexivity].
  - apply Nat.ltb_ge in E. cbn [pbind]. split; [intros H; exfalso; revert H; apply of_opt_np|intros [H _]; lia].
Qed.

(** Strongest restriction that is easy to state on the client side: ASCII input. *)
Theorem rpki_asn_no_panic_ascii : forall s, all_ascii s = true -> rpki_asn_from_str s <> PPanic.
Proof.
  intros s Ha H. apply rpki_asn_panics_iff in H. destruct H as [Hl Hb].
  rewrite all_ascii_boundary in Hb; [discriminate|auto|lia].
Qed.

Example rpki_asn_no_panic_ascii_nonvacuous :
  all_ascii [65; 83; 54; 52; 52; 57; 54] = true /\ rpki_asn_from_str [65; 83; 54; 52; 52; 57; 54] = POk 64496.
Proof. split; reflexivity. Qed.

(** ** AspaDefinition::from_str *)
Definition aspa_no_panic_full : Prop := forall s, wf_utf8 s = true -> aspa_from_str s <> PPanic.

Theorem aspa_no_panic_refuted : ~ aspa_no_panic_full.
Proof. intros H. apply (H EURO); reflexivity. Qed.

Lemma parse_providers_np parts : Forall (fun p => all_ascii p = true) parts -> parse_providers parts <> PPanic.
Proof.
  induction parts as [|p r IH]; intros HF; cbn [parse_providers]; [discriminate|].
  inversion HF; subst. apply pbind_np.
  - apply rpki_asn_no_panic_ascii. eapply all_ascii_substr; [eassumption|apply trim_substr].
  - intros a _. apply pbind_np; [auto|intros; discriminate].
Qed.

Theorem aspa_no_panic_ascii : forall s, all_ascii s = true -> aspa_from_str s <> PPanic.
Proof.
  intros s Ha. unfold aspa_from_str.
  destruct (split_arrow s) as [|customer_str parts] eqn:E; [discriminate|].
  assert (Hsub : forall x, In x (customer_str :: parts) -> all_ascii x = true).
  { intros x Hx. eapply all_ascii_substr; [exact Ha|apply split_arrow_substr; rewrite E; exact Hx]. }
  apply pbind_np.
  - apply rpki_asn_no_panic_ascii. eapply all_ascii_substr; [apply Hsub; left; reflexivity|apply trim_substr].
  - intros customer _. apply pbind_np.
    + destruct (str_eqb _ NONE_STR); [discriminate|]. apply parse_providers_np.
      apply Forall_forall. intros p Hp. eapply all_ascii_substr; [|apply (split_byte_substr 44); exact Hp].
      destruct parts as [|p0 ?]; [reflexivity|]. apply Hsub. right; left; reflexivity.
    + intros providers _. destruct parts as [|? [|? ?]]; try discriminate;
        destruct (has_adjacent_dup _); discriminate.
Qed.

Example aspa_no_panic_ascii_nonvacuous :
  aspa_from_str [54; 53; 48; 48; 48; 32; 61; 62; 32; 50; 44; 32; 49] = POk (65000, [1; 2]).
Proof. reflexivity. Qed.

(** ** BgpSecAsnKey::from_str: no panic for any string. *)
Theorem no_panic_bgpsec_key : forall s, bgpsec_key_from_str s <> PPanic.
Proof.
  intros s. unfold bgpsec_key_from_str.
  apply pbind_np; [apply of_opt_np|]. intros rest _.
  destruct (negb _); [discriminate|].
  repeat (apply pbind_np; [apply of_opt_np|intros ? _]). discriminate.
Qed.
