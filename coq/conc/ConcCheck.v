(** Checkers for the concurrency properties (C07, C18) on traces recorded by the storage probe under
    real threads. *)
From KV Require Import base.Tac ca.Ca conc.Locks conc.LocksProofs conc.Serial.
Open Scope N_scope.

(** Boolean form of [ranked] for concrete lock programs. *)
Fixpoint ranked_b (rk : N -> N) (h : list (N * mode)) (p : list instr) : bool :=
  match p with
  | [] => match h with [] => true | _ => false end
  | Acq l m :: p' => forallb (fun '(l', _) => rk l' <? rk l) h && ranked_b rk ((l, m) :: h) p'
  | Rel l :: p' => existsb (fun '(l', _) => l' =? l) h && ranked_b rk (remove_lock l h) p'
  end.

Lemma ranked_b_sound rk p : forall h, ranked_b rk h p = true -> ranked rk h p.
Proof.
  induction p as [|[l m|l] p IH]; intros h H; simpl in *.
  - destruct h; [reflexivity|discriminate].
  - apply andb_true_iff in H. destruct H as [H1 H2]. split; [|apply IH; auto].
    intros l' m' Hin. rewrite forallb_forall in H1. specialize (H1 _ Hin). simpl in H1. apply N.ltb_lt. auto.
  - apply andb_true_iff in H. destruct H as [H1 H2]. split; [|apply IH; auto].
    apply existsb_exists in H1. destruct H1 as [[l' m'] [Hin E]]. apply N.eqb_eq in E. subst. eauto.
Qed.

(** Replaying the global sequence of lock events (thread index, instruction) through the lock model:
    every observed acquisition must have been possible in the model (no conflicting holder), which is
    the correspondence between the real locks (RwLock / flock) and the model's exclusion rules. *)
Definition holder_conflict (m : mode) (c : config) (i : nat) (l : N) : bool :=
  match m with
  | W => existsb (fun u => holds u l) (others i c)
  | R => existsb (fun u => holds_w u l) (others i c)
  end.

Fixpoint replay_locks (c : config) (evs : list (nat * instr)) : bool :=
  match evs with
  | [] => true
  | (i, ins) :: r =>
      match nth_error c i with
      | None => false
      | Some t =>
          match ins with
          | Acq l m => negb (holder_conflict m c i l) && replay_locks (set_nth i (mkT ((l, m) :: held t) (prog t)) c) r
          | Rel l => holds t l && replay_locks (set_nth i (mkT (remove_lock l (held t)) (prog t)) c) r
          end
      end
  end.

Definition project_thread (i : nat) (evs : list (nat * instr)) : list instr :=
  map snd (filter (fun '(j, _) => Nat.eqb i j) evs).

Record case := mkCase {
  c_nthreads : nat;
  c_lock_events : list (nat * instr);        (* global order of lock acquisitions and releases *)
  c_rank : list (N * N);                     (* rank certificate computed by the harness: lock -> rank *)
  c_trace : list tev;                        (* entity-level trace: exclusive entity locks and mutations *)
  c_completed : bool;                        (* impl: every thread finished within the watchdog limit *)
  c_versions_consecutive : bool;             (* impl: command keys 0..n without gap, none overwritten *)
  c_none_lost_or_doubled : bool;             (* impl: stored = accepted + rejected as seen by the callers; effects present once *)
  c_history_complete : bool }.               (* impl: history API lists every stored command in order *)

Definition rk_of (l : list (N * N)) (x : N) : N := match aget x l with Some r => r | None => 0 end.

Definition agrees (c : case) : bool :=
  replay_locks (repeat (mkT [] []) (c_nthreads c)) (c_lock_events c).

Definition c18_ok (c : case) : bool :=
  forallb (fun i => ranked_b (rk_of (c_rank c)) [] (project_thread i (c_lock_events c))) (seq 0 (c_nthreads c))
  && c_completed c
  (* ... nor lose work: every accepted change is present exactly once, in the log and in the views *)
  && c_versions_consecutive c && c_none_lost_or_doubled c
  (* ... and each entity - a CA, a store, the files of the repository - is only ever mutated by the thread that
     holds its lock, so that its mutations are those of a one-at-a-time execution ([per_entity_serial]) *)
  && well_locked [] (c_trace c).

Definition c07_ok (c : case) : bool :=
  well_locked [] (c_trace c) && c_versions_consecutive c && c_none_lost_or_doubled c && c_history_complete c.

Fixpoint failing_from {A} (f : A -> bool) (i : N) (l : list A) : list N :=
  match l with
  | [] => []
  | x :: r => if f x then failing_from f (i + 1) r else i :: failing_from f (i + 1) r
  end.
Definition failing {A} (f : A -> bool) (base : N) (l : list A) : list N := failing_from f base l.
