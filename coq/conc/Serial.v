(** C07: commands on one entity are serialised - a trace monitor and what a well-locked trace means.

    A trace is what the storage probe records under real threads: lock acquisition and release of an
    entity lock (one scope of one namespace, exclusive) and every key-value mutation or cache write of
    that entity. *)
From KV Require Import base.Tac ca.Ca.
Open Scope N_scope.

Inductive tev :=
| TAcq (t e : N)              (* thread t acquired the exclusive lock of entity e *)
| TRel (t e : N)
| TWr (t e k : N).            (* thread t mutated key k (or the cache entry) of entity e *)

(** Monitor: [own] maps a locked entity to the thread that holds its lock. *)
Fixpoint well_locked (own : list (N * N)) (tr : list tev) : bool :=
  match tr with
  | [] => true
  | TAcq t e :: r => if amem e own then false else well_locked (ainsert e t own) r
  | TRel t e :: r => match aget e own with
                     | Some t' => (t' =? t) && well_locked (aremove e own) r
                     | None => false
                     end
  | TWr t e k :: r => match aget e own with
                      | Some t' => (t' =? t) && well_locked own r
                      | None => false
                      end
  end.

(** All writes to entity [e], in trace order, as (thread, key). *)
Fixpoint writes (e : N) (tr : list tev) : list (N * N) :=
  match tr with
  | [] => []
  | TWr t e' k :: r => if e' =? e then (t, k) :: writes e r else writes e r
  | _ :: r => writes e r
  end.

(** The critical sections on [e] in acquisition order: (thread, its writes). [cur] is the open section. *)
Fixpoint sections (e : N) (cur : option (N * list (N * N))) (tr : list tev) : list (N * list (N * N)) :=
  match tr with
  | [] => match cur with Some s => [s] | None => [] end
  | TAcq t e' :: r =>
      if e' =? e then match cur with Some s => s :: sections e (Some (t, [])) r | None => sections e (Some (t, [])) r end
      else sections e cur r
  | TRel t e' :: r =>
      if e' =? e then match cur with Some s => s :: sections e None r | None => sections e None r end
      else sections e cur r
  | TWr t e' k :: r =>
      if e' =? e then match cur with
                      | Some (t0, ws) => sections e (Some (t0, ws ++ [(t, k)])) r
                      | None => (t, [(t, k)]) :: sections e None r
                      end
      else sections e cur r
  end.
