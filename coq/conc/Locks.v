(** C18: rank-ordered lock programs never deadlock.

    Threads run programs of [Acq l m] / [Rel l] over reader-writer locks. The lock discipline of the
    key-value store (src/commons/storage/backends/{memory,disk}.rs: namespace root lock shared + scope
    lock exclusive, or namespace root lock exclusive) and of the listeners that run inside a command
    (cas -> ca_objects -> tasks -> status ...) is abstracted to such programs. The enabledness rule for
    shared acquisition includes writer preference (a reader waits while another thread waits to write),
    which is how std::sync::RwLock may behave. *)
From KV Require Import base.Tac.
Open Scope N_scope.

Inductive mode := R | W.
Inductive instr := Acq (l : N) (m : mode) | Rel (l : N).

Record thread := mkT { held : list (N * mode); prog : list instr }.
Definition config : Type := list thread.

Section Locks.
  Variable rank : N -> N.

  Definition holds (t : thread) (l : N) : bool := existsb (fun '(l', _) => l' =? l) (held t).
  Definition holds_w (t : thread) (l : N) : bool := existsb (fun '(l', m) => (l' =? l) && match m with W => true | R => false end) (held t).
  Definition waits_w (t : thread) (l : N) : bool := match prog t with Acq l' W :: _ => l' =? l | _ => false end.

  Fixpoint remove_lock (l : N) (h : list (N * mode)) : list (N * mode) :=
    match h with
    | [] => []
    | (l', m) :: r => if l' =? l then r else (l', m) :: remove_lock l r
    end.

  (** [ranked h p]: running program [p] with locks [h] held acquires only locks of strictly higher rank
      than every lock held, releases only held locks, and ends with nothing held. *)
  Fixpoint ranked (h : list (N * mode)) (p : list instr) : Prop :=
    match p with
    | [] => h = []
    | Acq l m :: p' => (forall l' m', In (l', m') h -> rank l' < rank l) /\ ranked ((l, m) :: h) p'
    | Rel l :: p' => (exists m, In (l, m) h) /\ ranked (remove_lock l h) p'
    end.

  (** Others = all threads but the i-th. *)
  Fixpoint others {A} (i : nat) (l : list A) : list A :=
    match l, i with
    | [], _ => []
    | _ :: r, O => r
    | x :: r, Datatypes.S j => x :: others j r
    end.

  Definition enabled (c : config) (i : nat) : bool :=
    match nth_error c i with
    | None => false
    | Some t =>
        match prog t with
        | [] => false
        | Rel _ :: _ => true
        | Acq l W :: _ => negb (existsb (fun u => holds u l) (others i c))
        | Acq l R :: _ => negb (existsb (fun u => holds_w u l) (others i c)) && negb (existsb (fun u => waits_w u l) (others i c))
        end
    end.

  Definition step_thread (t : thread) : thread :=
    match prog t with
    | [] => t
    | Acq l m :: p => mkT ((l, m) :: held t) p
    | Rel l :: p => mkT (remove_lock l (held t)) p
    end.

  Fixpoint set_nth {A} (i : nat) (x : A) (l : list A) : list A :=
    match l, i with
    | [], _ => []
    | _ :: r, O => x :: r
    | y :: r, Datatypes.S j => y :: set_nth j x r
    end.

  Inductive step : config -> config -> Prop :=
  | step_i c i t : nth_error c i = Some t -> enabled c i = true -> step c (set_nth i (step_thread t) c).

  Inductive reachable (c0 : config) : config -> Prop :=
  | reach_refl : reachable c0 c0
  | reach_step c c' : reachable c0 c -> step c c' -> reachable c0 c'.

  Definition all_ranked (c : config) : Prop := Forall (fun t => ranked (held t) (prog t)) c.
  Definition unfinished (t : thread) : bool := match prog t with [] => false | _ => true end.
End Locks.
