(** Proof that rank-ordered lock programs never deadlock (C18). *)
From KV Require Import base.Tac conc.Locks.
Open Scope N_scope.

Section LocksProofs.
  Variable rank : N -> N.

  Notation ranked := (ranked rank).
  Notation all_ranked := (all_ranked rank).

  Lemma ranked_step t : ranked (held t) (prog t) -> ranked (held (step_thread t)) (prog (step_thread t)).
  Proof.
    unfold step_thread. destruct (prog t) as [|[l m|l] p] eqn:E; simpl; intros H.
    - rewrite E. exact H.
    - destruct H as [_ H]. exact H.
    - destruct H as [_ H]. exact H.
  Qed.

  Lemma set_nth_Forall {A} (P : A -> Prop) i x l : Forall P l -> P x -> Forall P (set_nth i x l).
  Proof.
    revert i. induction l as [|y l IH]; intros i Hl Hx; [destruct i; simpl; constructor|].
    inv Hl. destruct i; simpl; constructor; auto.
  Qed.

  Lemma nth_error_Forall {A} (P : A -> Prop) l i x : Forall P l -> nth_error l i = Some x -> P x.
  Proof. intros H E. rewrite Forall_forall in H. apply H. eapply nth_error_In; eauto. Qed.

  Theorem step_keeps_ranked c c' : all_ranked c -> step c c' -> all_ranked c'.
  Proof.
    intros H S. inv S. apply set_nth_Forall; [exact H|]. apply ranked_step.
    apply (nth_error_Forall (fun t => ranked (held t) (prog t)) c i t H H0).
  Qed.

  Theorem reachable_ranked c0 c : all_ranked c0 -> reachable c0 c -> all_ranked c.
  Proof. intros H R. induction R; auto. eapply step_keeps_ranked; eauto. Qed.

  (** A thread that holds a lock still has something to run (it will release it). *)
  Lemma holding_is_unfinished h p : ranked h p -> h <> [] -> p <> [].
  Proof. intros H Hh Hp. subst. simpl in H. contradiction. Qed.

  Lemma in_others {A} i (l : list A) x : In x (others i l) -> In x l.
  Proof.
    revert i. induction l as [|y l IH]; intros i H; [destruct i; simpl in H; auto|].
    destruct i; simpl in H; [right; auto|]. destruct H as [->|H]; [left; auto|right; eauto].
  Qed.

  Lemma holds_in t l : holds t l = true -> exists m, In (l, m) (held t).
  Proof.
    unfold holds. intros H. apply existsb_exists in H. destruct H as [[l' m] [Hin E]].
    apply N.eqb_eq in E. subst. eauto.
  Qed.

  Lemma holds_w_holds t l : holds_w t l = true -> holds t l = true.
  Proof.
    unfold holds_w, holds. intros H. apply existsb_exists in H. destruct H as [[l' m] [Hin E]].
    apply andb_true_iff in E. destruct E as [E _]. apply existsb_exists. exists (l', m). auto.
  Qed.

  (** The lock requested by a thread whose next instruction is an acquisition. *)
  Definition request (t : thread) : option N := match prog t with Acq l _ :: _ => Some l | _ => None end.
  Definition req_rank (t : thread) : N := match request t with Some l => rank l | None => 0 end.

  (** Among a non-empty list of threads that satisfy [P] there is one of maximal [f]. *)
  Lemma exists_max (P : thread -> bool) (f : thread -> N) (c : list thread) :
    (exists t, In t c /\ P t = true) ->
    exists t, In t c /\ P t = true /\ forall u, In u c -> P u = true -> f u <= f t.
  Proof.
    induction c as [|x c IH]; intros [t [Hin Hp]]; [destruct Hin|].
    destruct (existsb P c) eqn:E.
    - apply existsb_exists in E. destruct (IH E) as [m [Hm [Pm Mx]]].
      destruct (P x) eqn:Px.
      + destruct (N.le_gt_cases (f x) (f m)).
        * exists m. split; [right; auto|]. split; auto. intros u [->|Hu] Pu; auto.
        * exists x. split; [left; auto|]. split; auto. intros u [->|Hu] Pu; [lia|]. specialize (Mx u Hu Pu). lia.
      + exists m. split; [right; auto|]. split; auto. intros u [->|Hu] Pu; [congruence|auto].
    - destruct Hin as [->|Hin].
      + exists t. split; [left; auto|]. split; auto. intros u [->|Hu] Pu; [lia|].
        exfalso. assert (existsb P c = true) by (apply existsb_exists; eauto). congruence.
      + exfalso. assert (existsb P c = true) by (apply existsb_exists; eauto). congruence.
  Qed.

  Lemma In_nth_error' {A} (l : list A) x : In x l -> exists i, nth_error l i = Some x.
  Proof. apply In_nth_error. Qed.

  (** Deadlock freedom: in every configuration whose threads follow the rank discipline, if some thread
      is unfinished then some thread can take a step. *)
  Theorem ranked_progress c :
    all_ranked c -> (exists t, In t c /\ unfinished t = true) -> exists i, enabled c i = true.
  Proof.
    intros HR Hun.
    (* a thread about to release can always step *)
    destruct (existsb (fun t => match prog t with Rel _ :: _ => true | _ => false end) c) eqn:ERel.
    { apply existsb_exists in ERel. destruct ERel as [t [Hin Ht]].
      destruct (In_nth_error' _ _ Hin) as [i Hi]. exists i. unfold enabled. rewrite Hi.
      destruct (prog t) as [|[l m|l] p]; try discriminate. reflexivity. }
    assert (NoRel : forall u, In u c -> unfinished u = true -> exists l m p, prog u = Acq l m :: p).
    { intros u Hu Uu. pose proof (proj1 (existsb_false _ c) ERel u Hu) as F. simpl in F.
      unfold unfinished in Uu. destruct (prog u) as [|[l m|l] p]; try discriminate; eauto. }
    destruct (exists_max unfinished req_rank c Hun) as [t [Hin [Ut Mx]]].
    destruct (NoRel t Hin Ut) as [l [m [p Ep]]].
    assert (Rt : req_rank t = rank l) by (unfold req_rank, request; rewrite Ep; reflexivity).
    (* nobody holds the lock that the maximal thread asks for *)
    assert (H0 : forall u, In u c -> holds u l = false).
    { intros u Hu. destruct (holds u l) eqn:E; auto. exfalso.
      destruct (holds_in _ _ E) as [mu Hmu].
      assert (RU : ranked (held u) (prog u)).
      { unfold Locks.all_ranked in HR. rewrite Forall_forall in HR. apply HR. exact Hu. }
      assert (Uu : unfinished u = true).
      { unfold unfinished. destruct (prog u) eqn:Eu; auto. simpl in RU. rewrite RU in Hmu. destruct Hmu. }
      destruct (NoRel u Hu Uu) as [lu [mu' [pu Epu]]]. rewrite Epu in RU. simpl in RU. destruct RU as [Rk _].
      specialize (Rk l mu Hmu).
      specialize (Mx u Hu Uu). rewrite Rt in Mx. unfold req_rank, request in Mx. rewrite Epu in Mx. lia. }
    destruct (In_nth_error' _ _ Hin) as [i Hi].
    destruct m.
    - (* shared request: blocked only by a waiting writer, who can then step itself *)
      destruct (existsb (fun u => waits_w u l) (others i c)) eqn:EW.
      + apply existsb_exists in EW. destruct EW as [w [Hw Ww]]. apply in_others in Hw.
        destruct (In_nth_error' _ _ Hw) as [j Hj]. exists j. unfold enabled. rewrite Hj.
        unfold waits_w in Ww. destruct (prog w) as [|[lw [|]|lw] pw]; try discriminate.
        apply N.eqb_eq in Ww. subst lw. apply negb_true_iff. apply existsb_false.
        intros u Hu. apply H0. eapply in_others; eauto.
      + exists i. unfold enabled. rewrite Hi, Ep. rewrite EW. simpl. rewrite andb_true_r.
        apply negb_true_iff. apply existsb_false. intros u Hu.
        destruct (holds_w u l) eqn:E; auto. apply holds_w_holds in E. rewrite H0 in E; [discriminate|eapply in_others; eauto].
    - exists i. unfold enabled. rewrite Hi, Ep. apply negb_true_iff. apply existsb_false.
      intros u Hu. apply H0. eapply in_others; eauto.
  Qed.

  Theorem ranked_no_deadlock c0 c :
    all_ranked c0 -> reachable c0 c ->
    (exists t, In t c /\ unfinished t = true) -> exists c', step c c'.
  Proof.
    intros H0 R Hun. pose proof (reachable_ranked _ _ H0 R) as HR.
    destruct (ranked_progress c HR Hun) as [i Hi].
    unfold enabled in Hi. destruct (nth_error c i) as [t|] eqn:E; [|discriminate].
    eexists. eapply step_i; eauto. unfold enabled. rewrite E. exact Hi.
  Qed.

  (** Every step strictly decreases the total amount of program left, so runs are finite: together with
      progress, every thread completes. *)
  Definition work (c : config) : nat := fold_right (fun t n => (length (prog t) + n)%nat) 0%nat c.

  Lemma work_set_nth c : forall i t t', nth_error c i = Some t -> (length (prog t') < length (prog t))%nat ->
    (work (set_nth i t' c) < work c)%nat.
  Proof.
    induction c as [|x c IH]; intros i t t' Hn Hl; [destruct i; discriminate|].
    destruct i; simpl in *.
    - inv Hn. lia.
    - specialize (IH i t t' Hn Hl). lia.
  Qed.

  Theorem step_decreases_work c c' : step c c' -> (work c' < work c)%nat.
  Proof.
    intros S. inv S. eapply work_set_nth; eauto.
    unfold enabled in H0. rewrite H in H0. unfold step_thread.
    destruct (prog t) as [|[l m|l] p]; simpl; try discriminate; lia.
  Qed.

End LocksProofs.

(** Non-vacuity: two threads taking locks 1 then 2 in rank order (identity rank), one of them shared,
    follow the discipline; and a configuration in which the second holds lock 1 exclusively still has an
    enabled thread. *)
Example ranked_example :
  all_ranked (fun l => l) [mkT [] [Acq 1 R; Acq 2 W; Rel 2; Rel 1]; mkT [] [Acq 1 W; Acq 2 W; Rel 2; Rel 1]].
Proof.
  repeat constructor; simpl; intros;
    repeat match goal with
    | H : _ \/ _ |- _ => destruct H
    | H : False |- _ => destruct H
    | H : (_, _) = (_, _) |- _ => inv H
    end; eauto; lia.
Qed.

Example progress_example :
  enabled [mkT [] [Acq 1 R; Acq 2 W; Rel 2; Rel 1]; mkT [(1, W)] [Acq 2 W; Rel 2; Rel 1]] 1 = true.
Proof. reflexivity. Qed.
