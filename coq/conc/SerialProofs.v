(** C07: on a well-locked trace the writes to every entity are the concatenation, in lock-acquisition
    order, of critical sections each executed by a single thread. *)
From KV Require Import base.Tac ca.Ca ca.CaProofs conc.Serial.
Open Scope N_scope.

Definition cur_writes (cur : option (N * list (N * N))) : list (N * N) := match cur with Some (_, ws) => ws | None => [] end.

Lemma sections_concat e tr : forall cur,
  concat (map snd (sections e cur tr)) = cur_writes cur ++ writes e tr.
Proof.
  induction tr as [|ev tr IH]; intros cur; simpl.
  - destruct cur as [[t ws]|]; simpl; rewrite ?app_nil_r; reflexivity.
  - destruct ev as [t e'|t e'|t e' k]; destruct (e' =? e) eqn:E; try apply IH.
    + destruct cur as [[t0 ws]|]; simpl; rewrite IH; simpl; rewrite ?app_nil_r; reflexivity.
    + destruct cur as [[t0 ws]|]; simpl; rewrite IH; simpl; rewrite ?app_nil_r; reflexivity.
    + destruct cur as [[t0 ws]|]; simpl; rewrite IH; simpl; [rewrite <- app_assoc; reflexivity|reflexivity].
Qed.

(** The writes of every entity are exactly the concatenation of its sections. *)
Theorem writes_are_sections e tr : concat (map snd (sections e None tr)) = writes e tr.
Proof. apply sections_concat. Qed.

Definition single_thread (s : N * list (N * N)) : Prop := Forall (fun w => fst w = fst s) (snd s).

Definition cur_ok (e : N) (own : list (N * N)) (cur : option (N * list (N * N))) : Prop :=
  match cur with
  | Some (t, ws) => aget e own = Some t /\ Forall (fun w => fst w = t) ws
  | None => aget e own = None
  end.

Lemma well_locked_sections e tr : forall own cur,
  well_locked own tr = true -> cur_ok e own cur -> Forall single_thread (sections e cur tr).
Proof.
  induction tr as [|ev tr IH]; intros own cur WL OK; simpl.
  - destruct cur as [[t ws]|]; constructor; auto. unfold single_thread. simpl. destruct OK. auto.
  - destruct ev as [t e'|t e'|t e' k]; simpl in WL.
    + destruct (amem e' own) eqn:M; [discriminate|].
      destruct (e' =? e) eqn:E.
      * apply N.eqb_eq in E. subst e'. unfold amem in M.
        destruct cur as [[t0 ws]|]; simpl in OK.
        -- destruct OK as [O _]. rewrite O in M. discriminate.
        -- apply (IH (ainsert e t own)); auto. simpl. split; [apply aget_ainsert_eq|constructor].
      * apply (IH (ainsert e' t own)); auto. apply N.eqb_neq in E.
        unfold cur_ok in *. destruct cur as [[t0 ws]|];
          [destruct OK as [O F]; split; [rewrite aget_ainsert_neq; auto|auto]|rewrite aget_ainsert_neq; auto].
    + destruct (aget e' own) as [t'|] eqn:G; [|discriminate]. apply andb_true_iff in WL. destruct WL as [_ WL].
      destruct (e' =? e) eqn:E.
      * apply N.eqb_eq in E. subst e'.
        destruct cur as [[t0 ws]|]; simpl in OK.
        -- destruct OK as [O F]. constructor; [exact F|].
           apply (IH (aremove e own)); auto. simpl. apply aget_aremove_eq.
        -- congruence.
      * apply (IH (aremove e' own)); auto. apply N.eqb_neq in E.
        unfold cur_ok in *. destruct cur as [[t0 ws]|];
          [destruct OK as [O F]; split; [rewrite aget_aremove_neq; auto|auto]|rewrite aget_aremove_neq; auto].
    + destruct (aget e' own) as [t'|] eqn:G; [|discriminate]. apply andb_true_iff in WL. destruct WL as [Tt WL].
      apply N.eqb_eq in Tt. subst t'.
      destruct (e' =? e) eqn:E.
      * apply N.eqb_eq in E. subst e'.
        destruct cur as [[t0 ws]|]; simpl in OK.
        -- destruct OK as [O F]. assert (t0 = t) by congruence. subst t0.
           apply (IH own); auto. simpl. split; auto. apply Forall_app. split; auto.
        -- congruence.
      * apply (IH own); auto.
Qed.

(** C07 (serialisation): on a well-locked trace, for every entity, every critical section is the work of
    one thread, and the entity's writes are those sections one after the other. *)
Theorem per_entity_serial tr e :
  well_locked [] tr = true ->
  Forall single_thread (sections e None tr) /\ concat (map snd (sections e None tr)) = writes e tr.
Proof.
  intros WL. split; [|apply writes_are_sections].
  apply (well_locked_sections e tr [] None WL). simpl. reflexivity.
Qed.

(** A write outside a critical section, or a second thread entering a held lock, is detected. *)
Example unlocked_write_detected : well_locked [] [TAcq 1 7; TRel 1 7; TWr 1 7 0] = false.
Proof. reflexivity. Qed.
Example double_entry_detected : well_locked [] [TAcq 1 7; TAcq 2 7] = false.
Proof. reflexivity. Qed.
Example nonvacuous : well_locked [] [TAcq 1 7; TWr 1 7 0; TAcq 2 8; TWr 2 8 0; TRel 1 7; TAcq 2 7; TWr 2 7 1; TRel 2 7; TRel 2 8] = true.
Proof. reflexivity. Qed.
