(** C17 - ROA analysis agrees with RFC 6811 origin validation.
    Only statements: each theorem is closed by [exact] of a lemma proved in bgp/AnalyserProofs.v
    (prefix tree: bgp/TrieProofs.v). [rov], [covered], [matched] are RFC 6811 as written in bgp/Rov.v;
    [analyse], [suggest], [validate_one], [categorise_roa] are the model of the krill code in bgp/Analyser.v. *)
From Coq Require Import Sorting.Sorted.
From KV Require Import base.Tac bgp.Prefix bgp.Rov bgp.Analyser bgp.BgpCheck bgp.AnalyserProofs bgp.Trie bgp.TrieProofs.
Open Scope N_scope.

(** The mask test of [RoutePrefix::covers] is the bit-prefix test of RFC 6811 for well-formed prefixes. *)
Theorem C17_covers_is_rfc_covered : forall p q, wf_prefix p -> wf_prefix q -> covers p q = covered_pfx p q.
Proof. exact covers_covered_pfx. Qed.

(** [validate] against all covering ROAs gives the RFC 6811 state (announcements not originated by AS0). *)
Theorem C17_validate_is_rfc6811 : forall roas a,
  wf_roas roas -> wf_prefix (a_pfx a) -> a_asn a <> 0 ->
  class_of (v_val (validate_one roas a)) = rov (map vrp_of roas) (route_of a).
Proof. exact validate_is_rfc6811. Qed.

(** AS0/AS0 corner (candidate finding F17a): the full statement, its refutation by
    [10.0.0.0/8 => AS0] against the announcement [10.0.0.0/8] from AS0 (reported valid). *)
Theorem C17_validate_is_rfc6811_refuted :
  ~ (forall roas a, wf_roas roas -> wf_prefix (a_pfx a) ->
       class_of (v_val (validate_one roas a)) = rov (map vrp_of roas) (route_of a)).
Proof. exact validate_is_rfc6811_refuted. Qed.

(** The split of Invalid, characterised. *)
Theorem C17_invalid_length_iff : forall roas a, wf_roas roas -> wf_prefix (a_pfx a) -> a_asn a <> 0 ->
  (v_val (validate_one roas a) = VInvalidLength <->
   rov (map vrp_of roas) (route_of a) = Invalid
   /\ exists r, In r roas /\ covered (vrp_of r) (route_of a) = true /\ r_asn r = a_asn a).
Proof. exact invalid_length_iff. Qed.

Theorem C17_disallowed_iff : forall roas a, wf_roas roas -> wf_prefix (a_pfx a) -> a_asn a <> 0 ->
  (v_val (validate_one roas a) = VDisallowed <->
   rov (map vrp_of roas) (route_of a) = Invalid
   /\ forall r, In r roas -> covered (vrp_of r) (route_of a) = true -> r_asn r = 0).
Proof. exact disallowed_iff. Qed.

Theorem C17_invalid_asn_iff : forall roas a, wf_roas roas -> wf_prefix (a_pfx a) -> a_asn a <> 0 ->
  (v_val (validate_one roas a) = VInvalidAsn <->
   rov (map vrp_of roas) (route_of a) = Invalid
   /\ (forall r, In r roas -> covered (vrp_of r) (route_of a) = true -> r_asn r <> a_asn a)
   /\ exists r, In r roas /\ covered (vrp_of r) (route_of a) = true /\ r_asn r <> 0).
Proof. exact invalid_asn_iff. Qed.

Theorem C17_valid_witness : forall roas a, wf_roas roas -> wf_prefix (a_pfx a) -> a_asn a <> 0 ->
  forall pl, v_val (validate_one roas a) = VValid pl ->
  exists r, In r roas /\ r_pl r = pl /\ matched (vrp_of r) (route_of a) = true.
Proof. exact valid_witness. Qed.

Theorem C17_invalid_disallowed_by : forall roas a, wf_roas roas -> wf_prefix (a_pfx a) -> a_asn a <> 0 ->
  rov (map vrp_of roas) (route_of a) = Invalid ->
  v_dis (validate_one roas a) = map r_pl (filter (fun r => covered (vrp_of r) (route_of a)) roas).
Proof. exact invalid_disallowed_by. Qed.

(** [validate_set] over the sets of the announcement store is [validate_one] on every announcement under the scope. *)
Theorem C17_validated_in_spec : forall store scope roas,
  validated_in store scope roas = map (validate_one roas) (scoped_anns store scope).
Proof. exact validated_in_spec. Qed.

(** The report: exactly the loaded announcements under a scope prefix have an entry, ... *)
Theorem C17_analyse_ann_sound : forall chk roas held limit store es e a,
  analyse chk roas held limit (Some store) = Some es -> wf_scope (scope_of held limit) -> wf_store store ->
  In e es -> e_subj e = SAnn a ->
  In a store /\ in_scope (scope_of held limit) a /\ e = ann_entry (validate_one (roas_held roas held limit) a).
Proof. exact analyse_ann_sound. Qed.

Theorem C17_analyse_ann_complete : forall chk roas held limit store es a,
  analyse chk roas held limit (Some store) = Some es -> wf_scope (scope_of held limit) -> wf_store store ->
  In a store -> in_scope (scope_of held limit) a -> exists e, In e es /\ e_subj e = SAnn a.
Proof. exact analyse_ann_complete. Qed.

(** ... and its state is the RFC 6811 state against the held ROAs, Invalid split as characterised. *)
Theorem C17_analyse_reports_rfc6811 : forall chk roas held limit store es e a,
  analyse chk roas held limit (Some store) = Some es ->
  wf_scope (scope_of held limit) -> wf_store store -> wf_roas roas ->
  In e es -> e_subj e = SAnn a -> a_asn a <> 0 ->
  let hr := roas_held roas held limit in
  let s := rov (map vrp_of hr) (route_of a) in
  state_class (e_state e) = Some s
  /\ (e_state e = AnnInvalidLength <->
      s = Invalid /\ exists r, In r hr /\ covered (vrp_of r) (route_of a) = true /\ r_asn r = a_asn a)
  /\ (e_state e = AnnDisallowed <->
      s = Invalid /\ forall r, In r hr -> covered (vrp_of r) (route_of a) = true -> r_asn r = 0)
  /\ (e_state e = AnnInvalidAsn <->
      s = Invalid /\ (forall r, In r hr -> covered (vrp_of r) (route_of a) = true -> r_asn r <> a_asn a)
      /\ exists r, In r hr /\ covered (vrp_of r) (route_of a) = true /\ r_asn r <> 0).
Proof. exact analyse_reports_rfc6811. Qed.

(** Per-ROA sets are exactly what validation attributes to the ROA. *)
Theorem C17_authorizes_exact : forall chk roas held limit store es e r,
  analyse chk roas held limit (Some store) = Some es ->
  wf_scope (scope_of held limit) -> wf_store store -> wf_roas roas ->
  In e es -> e_subj e = SRoa r -> e_state e <> RoaNotHeld ->
  forall a, In a (e_authorizes e) <->
            In a store /\ in_scope (scope_of held limit) a /\ matched (vrp_of r) (route_of a) = true.
Proof. exact authorizes_exact. Qed.

Theorem C17_disallows_exact : forall chk roas held limit store es e r,
  analyse chk roas held limit (Some store) = Some es ->
  wf_scope (scope_of held limit) -> wf_store store -> wf_roas roas ->
  In e es -> e_subj e = SRoa r -> e_state e <> RoaNotHeld -> r_asn r <> 0 ->
  let hr := roas_held roas held limit in
  forall a, a_asn a <> 0 ->
    (In a (e_disallows e) <->
     In a store /\ in_scope (scope_of held limit) a /\ covered (vrp_of r) (route_of a) = true
     /\ rov (map vrp_of hr) (route_of a) = Invalid
     /\ exists r', In r' hr /\ covered (vrp_of r') (route_of a) = true /\ r_asn r' <> 0).
Proof. exact disallows_exact. Qed.

Theorem C17_as0_disallows_exact : forall chk roas held limit store es e r,
  analyse chk roas held limit (Some store) = Some es ->
  wf_scope (scope_of held limit) -> wf_store store -> wf_roas roas ->
  In e es -> e_subj e = SRoa r -> e_state e = RoaAs0 ->
  forall a, In a (e_disallows e) <->
            In a store /\ in_scope (scope_of held limit) a /\ covered (vrp_of r) (route_of a) = true.
Proof. exact as0_disallows_exact. Qed.

(** Suggestions: a ROA that validates an observed announcement is never proposed as stale, disallowing or
    AS0-redundant, and when it is proposed as redundant another held ROA validates the same announcement. *)
Theorem C17_suggest_keeps_validating : forall chk roas held limit store s,
  suggest chk roas held limit (Some store) = Some s ->
  wf_scope (scope_of held limit) -> wf_store store -> wf_roas roas ->
  forall r a, In a store -> in_scope (scope_of held limit) a -> matched (vrp_of r) (route_of a) = true ->
    ~ In r (s_stale s) /\ ~ In r (s_disallowing s) /\ ~ In r (s_as0_redundant s)
    /\ (In r (s_redundant s) ->
        exists r', In r' (roas_held roas held limit) /\ r_pl r' <> r_pl r /\ matched (vrp_of r') (route_of a) = true).
Proof. exact suggest_keeps_validating. Qed.

(** The strong reading: after the suggested updates (removals: stale, too-permissive currents, AS0-redundant,
    redundant; additions: replacements, not-found, invalid; removals first) every announcement that is valid now is
    still valid. Proved for the repaired [suggest] (/repo 992adfab) for every announcement that is not validated
    through None/Some(len) twin payloads ([twin_match], F17b), in particular whenever the held ROAs have explicit
    maximum lengths, as a krill CA stores them. *)
Theorem C17_suggest_preserves_validity : forall chk roas held limit store s,
  suggest chk roas held limit (Some store) = Some s ->
  wf_scope (scope_of held limit) -> wf_store store -> wf_roas roas ->
  let hr := roas_held roas held limit in
  forall a, In a store -> in_scope (scope_of held limit) a ->
    rov (map vrp_of hr) (route_of a) = Valid -> twin_match hr a = false ->
    rov (map vrp_of_payload (config_after hr s)) (route_of a) = Valid.
Proof. exact suggest_preserves_validity. Qed.

Theorem C17_suggest_preserves_validity_explicit : forall chk roas held limit store s,
  suggest chk roas held limit (Some store) = Some s ->
  wf_scope (scope_of held limit) -> wf_store store -> wf_roas roas ->
  explicit_maxb (roas_held roas held limit) = true ->
  forall a, In a store -> in_scope (scope_of held limit) a ->
    rov (map vrp_of (roas_held roas held limit)) (route_of a) = Valid ->
    rov (map vrp_of_payload (config_after (roas_held roas held limit) s)) (route_of a) = Valid.
Proof. exact suggest_preserves_validity_explicit. Qed.

(** Without the hypothesis it is false also for the repaired code (F17b): [10.0.0.0/24 => 64496] and
    [10.0.0.0/24-24 => 64496] are each reported redundant because of the other. *)
Theorem C17_suggest_preserves_validity_unconditional_refuted :
  ~ (forall roas held limit store s,
      suggest true roas held limit (Some store) = Some s ->
      wf_scope (scope_of held limit) -> wf_store store -> wf_roas roas ->
      forall a, In a store -> in_scope (scope_of held limit) a ->
        rov (map vrp_of (roas_held roas held limit)) (route_of a) = Valid ->
        rov (map vrp_of_payload (config_after (roas_held roas held limit) s)) (route_of a) = Valid).
Proof. exact suggest_preserves_validity_unconditional_refuted. Qed.

(** Regression witness for F17e: the code before 992adfab ([suggest_pinned]: every announcement authorised by any
    other entry is left out of a replacement) refutes the strong reading with [10.0.0.0/22-24 => 64496]
    (too permissive) plus [10.0.0.0/24-24 => 64496] (redundant) and the announcement [10.0.0.0/24 => 64496]. *)
Theorem C17_suggest_preserves_validity_refuted :
  ~ (forall roas held limit store s,
      suggest_pinned true roas held limit (Some store) = Some s ->
      wf_scope (scope_of held limit) -> wf_store store -> wf_roas roas ->
      forall a, In a store -> in_scope (scope_of held limit) a -> a_asn a <> 0 ->
        rov (map vrp_of (roas_held roas held limit)) (route_of a) = Valid ->
        rov (map vrp_of_payload (config_after (roas_held roas held limit) s)) (route_of a) = Valid).
Proof. exact suggest_preserves_validity_refuted. Qed.

(** Partiality: no panic for ROAs with [len <= max] and [max - len < 128]; never without overflow checks;
    the family-valid IPv6 [::/0-128] does panic in a checked build (candidate finding F17d); a report can always
    be turned into a suggestion. *)
Theorem C17_analyse_no_panic : forall chk roas held limit seen,
  (forall r, In r roas -> p_len (r_pfx r) <= r_max r /\ r_max r - p_len (r_pfx r) < 128) ->
  analyse chk roas held limit seen <> None.
Proof. exact analyse_no_panic. Qed.

Theorem C17_analyse_release_total : forall roas held limit seen, analyse false roas held limit seen <> None.
Proof. exact analyse_release_total. Qed.

Theorem C17_analyse_total_refuted :
  ~ (forall roas held limit seen,
      (forall r, In r roas -> p_len (r_pfx r) <= r_max r /\ r_max r <= alen (p_fam (r_pfx r))) ->
      analyse true roas held limit seen <> None).
Proof. exact analyse_total_refuted. Qed.

Theorem C17_suggest_total : forall chk roas held limit seen es,
  analyse chk roas held limit seen = Some es -> suggest_of_entries (report_sort es) <> None.
Proof. exact suggest_total. Qed.

(** The announcement store. [Trie.v] models the path-compressed prefix tree of [RouteOriginCollection]
    (builder [process]/[process_node], [closest_ancestor], lookup [more_specific], iteration) as an inductive tree.
    For every strictly sorted list of well-formed prefix sets of one family the builder terminates, its tree
    is well formed and holds exactly the input in order, ... *)
Theorem C17_trie_build_correct : forall f input,
  Forall (gwf f) input -> StronglySorted glt input ->
  exists t, build f input = Some t /\ wf_tree f t /\ tree_groups t = input.
Proof. exact build_correct. Qed.

(** ... the lookup of any well-formed tree is exact, ... *)
Theorem C17_trie_lookup_wf : forall f t q, wf_tree f t -> wf_prefix q -> p_fam q = f ->
  tree_lookup t q = map snd (filter (fun g => covers q (fst g)) (tree_groups t)).
Proof. exact lookup_wf. Qed.

(** ... hence [eq_or_more_specific (build xs) p] = the stored sets whose prefix [p] covers, in prefix order, ... *)
Theorem C17_trie_lookup_exact : forall f input q,
  Forall (gwf f) input -> StronglySorted glt input -> wf_prefix q -> p_fam q = f ->
  exists t, build f input = Some t
            /\ tree_lookup t q = map snd (filter (fun g => covers q (fst g)) input).
Proof. exact trie_lookup_exact. Qed.

(** ... and, from the loaded announcements (any order, duplicates), the tree answers exactly what the
    specification used by the analyser model answers. *)
Theorem C17_trie_agrees_with_spec : forall store q, wf_store store -> wf_prefix q ->
  trie_eq_or_more_specific store q = Some (eq_or_more_specific store q).
Proof. exact trie_agrees_with_spec. Qed.

Print Assumptions C17_covers_is_rfc_covered.
Print Assumptions C17_validate_is_rfc6811.
Print Assumptions C17_validate_is_rfc6811_refuted.
Print Assumptions C17_invalid_length_iff.
Print Assumptions C17_disallowed_iff.
Print Assumptions C17_invalid_asn_iff.
Print Assumptions C17_valid_witness.
Print Assumptions C17_invalid_disallowed_by.
Print Assumptions C17_validated_in_spec.
Print Assumptions C17_analyse_ann_sound.
Print Assumptions C17_analyse_ann_complete.
Print Assumptions C17_analyse_reports_rfc6811.
Print Assumptions C17_authorizes_exact.
Print Assumptions C17_disallows_exact.
Print Assumptions C17_as0_disallows_exact.
Print Assumptions C17_suggest_keeps_validating.
Print Assumptions C17_suggest_preserves_validity_refuted.
Print Assumptions C17_suggest_preserves_validity.
Print Assumptions C17_suggest_preserves_validity_explicit.
Print Assumptions C17_suggest_preserves_validity_unconditional_refuted.
Print Assumptions C17_analyse_no_panic.
Print Assumptions C17_analyse_release_total.
Print Assumptions C17_analyse_total_refuted.
Print Assumptions C17_suggest_total.
Print Assumptions C17_trie_build_correct.
Print Assumptions C17_trie_lookup_wf.
Print Assumptions C17_trie_lookup_exact.
Print Assumptions C17_trie_agrees_with_spec.
