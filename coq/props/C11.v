(** C11 - RRDP and rsync views are consistent for every client at every instant.
    Only statements: each theorem is closed by [exact] of a lemma proved in pubd/*Proofs.v.
    Model: pubd/Rrdp.v (server state, retention, session reset, model client), pubd/Fs.v (file
    system and operations), pubd/RrdpFiles.v ([update_rrdp_files] as an operation list),
    pubd/Rsync.v ([RsyncdStore::write] as an operation list), on top of C10's pubd/Content.v. *)
From KV Require Import base.Tac pubd.Objects pubd.ObjectsProofs pubd.Staged pubd.StagedProofs pubd.Access
  pubd.Content pubd.ContentProofs pubd.Rrdp pubd.RrdpProofs pubd.Fs pubd.FsProofs pubd.RrdpFiles
  pubd.RrdpFilesProofs pubd.RrdpLinkProofs pubd.Rsync pubd.RsyncProofs.
Open Scope N_scope.

(** ** Serials and sessions *)
(** An update with staged changes raises the serial by exactly one; without staged changes it
    does nothing at all. *)
Theorem C11_serial_step : forall a sz r orc r',
  rstep a sz r OUpdate orc = Some r' ->
  (staged_nonempty (r_st r) = true /\ r_serial r' = r_serial r + 1) \/ (staged_nonempty (r_st r) = false /\ r' = r).
Proof. exact serial_step. Qed.
Print Assumptions C11_serial_step.

Theorem C11_serial_only_moves_on_update_or_reset : forall a sz r o orc r',
  rstep a sz r o orc = Some r' -> is_update o = false -> is_reset o = false -> r_serial r' = r_serial r.
Proof. exact serial_only_moves_on_update_or_reset. Qed.
Print Assumptions C11_serial_only_moves_on_update_or_reset.

(** The session changes only on an explicit reset ... *)
Theorem C11_session_only_on_reset : forall a sz r o orc r',
  rstep a sz r o orc = Some r' -> is_reset o = false -> r_session r' = r_session r.
Proof. exact session_only_on_reset. Qed.
Print Assumptions C11_session_only_on_reset.

(** ... which restarts at serial 1 without deltas, keeps the published objects and the staged
    changes, and takes the fresh session identifier. *)
Theorem C11_reset_restarts : forall a sz r orc r',
  rstep a sz r OReset orc = Some r' ->
  r_serial r' = 1 /\ r_deltas r' = [] /\ r_session r' = or_sess orc /\ r_snapshot r' = r_snapshot r
  /\ st_staged (r_st r') = st_staged (r_st r).
Proof. exact reset_restarts. Qed.
Print Assumptions C11_reset_restarts.

(** ** Retained deltas *)
(** In every state reachable from an initialised server the retained deltas are
    [serial, serial - 1, ...], all above the first serial: a contiguous run ending at the current
    serial. *)
Theorem C11_deltas_contiguous : forall a sz base sess rnd ops r,
  good_rops ops -> rrun a sz (rinit base sess rnd) ops = Some r -> contig (r_serial r) (r_deltas r).
Proof. exact deltas_contiguous. Qed.
Print Assumptions C11_deltas_contiguous.

Theorem C11_rinv_step : forall a sz r o orc r',
  RInv r -> good_op o -> rstep a sz r o orc = Some r' -> RInv r'.
Proof. exact rinv_step. Qed.
Print Assumptions C11_rinv_step.

(** Seen through the concatenated snapshot an update applies the concatenation of the staged
    sets, and that delta passes a client's hash checks against the previous snapshot (this is
    where C10's [staged_refines] enters: it maintains [WF]). *)
Theorem C11_update_flat : forall st,
  WF st -> SNoDup st -> PubDisjoint st ->
  NoDupK (staged_all st) /\ CohL (staged_all st) /\ verified (flat (st_snap st)) (staged_all st)
  /\ oeq (flat (fold_left snap_apply (st_staged st) (st_snap st))) (apply_delta (flat (st_snap st)) (staged_all st)).
Proof. exact update_flat. Qed.
Print Assumptions C11_update_flat.

(** A client that holds the snapshot of any earlier serial of the session reaches exactly the
    current snapshot through the offered deltas, every hash check passing, whenever the chain is
    offered from its serial on. *)
Theorem C11_delta_chain_sound : forall a sz r1 ops r2 c,
  RInv r1 -> good_rops ops -> no_reset ops -> disjoint_run a sz r1 ops ->
  rrun a sz r1 ops = Some r2 ->
  cl_session c = r_session r1 -> cl_serial c = r_serial r1 -> oeq (cl_objs c) (r_snapshot r1) ->
  covers r2 (cl_serial c) ->
  exists o' h, client_update (offer_of r2) c = (mkClient (r_session r2) (r_serial r2) o', h)
               /\ h <> ViaSnapshot /\ oeq o' (r_snapshot r2).
Proof. exact delta_chain_sound. Qed.
Print Assumptions C11_delta_chain_sound.

Theorem C11_client_fallback_is_snapshot : forall f c c',
  client_update f c = (c', ViaSnapshot) -> cl_objs c' = of_snap f.
Proof. exact client_fallback_is_snapshot. Qed.
Print Assumptions C11_client_fallback_is_snapshot.

(** Publishers holding disjoint URI sets: the case for all publishers but one owning nothing. *)
Theorem C11_single_owner_disjoint : forall st h,
  (forall q, q <> h -> snap_of st q = [] /\ staged_of st q = []) -> PubDisjoint st.
Proof. exact single_owner_disjoint. Qed.
Print Assumptions C11_single_owner_disjoint.

(** The snapshot equals the publication state: an update publishes exactly what the publishers
    had been told was theirs (published + staged), empties the staging area and leaves every
    view as it was. *)
Theorem C11_snapshot_is_state : forall a sz r orc r',
  RInv r -> rstep a sz r OUpdate orc = Some r' -> staged_nonempty (r_st r) = true ->
  (forall h, snap_of (r_st r') h = view (r_st r) h) /\ st_staged (r_st r') = []
  /\ (forall h, view (r_st r') h = view (r_st r) h).
Proof. exact snapshot_is_state. Qed.
Print Assumptions C11_snapshot_is_state.

(** ** Retention (code of record: count test [keep + 1 >= max_nr], commit 5d8ba60d) *)
(** The loop always terminates with a result, whatever the arithmetic mode ... *)
Theorem C11_find_total : forall c now ds, exists k, forall a, find_deltas_truncate_age a c now ds = Some k.
Proof. exact find_total. Qed.
Print Assumptions C11_find_total.

(** ... so no request makes the server panic. *)
Theorem C11_rstep_total : forall a sz r o orc, exists r', rstep a sz r o orc = Some r'.
Proof. exact rstep_total. Qed.
Print Assumptions C11_rstep_total.

(** An old delta kept at an index where the count (with the new delta) exceeds max_nr is protected
    by min_nr or min_seconds: all that is left of "more than max_nr deltas" is the documented
    priority of the configured minimums. *)
Theorem C11_kept_beyond_max_protected : forall a c now ds k i x,
  find_deltas_truncate_age a c now ds = Some k -> nth_error ds i = Some x -> N.of_nat i < k ->
  c_max_nr c <= N.of_nat i + 1 -> protected c now (N.of_nat i) x = true.
Proof. exact kept_beyond_max_protected. Qed.
Print Assumptions C11_kept_beyond_max_protected.

(** DESIGN Appendix A.4: if no delta at an index >= max_nr - 1 is protected (index < min_nr or
    younger than min_seconds), at most max_nr - 1 old deltas are kept. *)
Theorem C11_retention_bound : forall a c now ds k,
  1 <= c_max_nr c -> find_deltas_truncate_age a c now ds = Some k ->
  (forall i x, nth_error ds i = Some x -> c_max_nr c - 1 <= N.of_nat i -> protected c now (N.of_nat i) x = false) ->
  k <= c_max_nr c - 1.
Proof. exact retention_bound. Qed.
Print Assumptions C11_retention_bound.

Theorem C11_retention_bound_strong : forall a c now ds k,
  1 <= c_max_nr c -> find_deltas_truncate_age a c now ds = Some k ->
  (forall x, nth_error ds (N.to_nat (c_max_nr c - 1)) = Some x -> protected c now (c_max_nr c - 1) x = false) ->
  k <= c_max_nr c - 1.
Proof. exact retention_bound_strong. Qed.
Print Assumptions C11_retention_bound_strong.

(** For every configuration: if only the first p old deltas can be protected, at most
    max (max_nr - 1) p old deltas are kept. *)
Theorem C11_retention_max_or_protected : forall a c now ds k p,
  find_deltas_truncate_age a c now ds = Some k ->
  (forall i x, nth_error ds i = Some x -> p <= N.of_nat i -> protected c now (N.of_nat i) x = false) ->
  k <= N.max (c_max_nr c - 1) p.
Proof. exact retention_max_or_protected. Qed.
Print Assumptions C11_retention_max_or_protected.

Theorem C11_kept_not_old : forall a c now ds k i x,
  find_deltas_truncate_age a c now ds = Some k -> nth_error ds i = Some x -> N.of_nat i < k ->
  protected c now (N.of_nat i) x = true \/ older_than now (c_max_secs c) x = false.
Proof. exact kept_not_old. Qed.
Print Assumptions C11_kept_not_old.

(** The leading run of protected deltas is never cut ("always keep min_nr files, always keep
    files younger than min_seconds"). *)
Theorem C11_protected_prefix_kept : forall a c now ds k j,
  find_deltas_truncate_age a c now ds = Some k -> (j <= length ds)%nat ->
  (forall i x, (i < j)%nat -> nth_error ds i = Some x -> protected c now (N.of_nat i) x = true) ->
  N.of_nat j <= k.
Proof. exact protected_prefix_kept. Qed.
Print Assumptions C11_protected_prefix_kept.

Theorem C11_truncate_age_stop : forall a c now ds k,
  find_deltas_truncate_age a c now ds = Some k ->
  k = N.of_nat (length ds) \/
  exists x, nth_error ds (N.to_nat k) = Some x /\ protected c now k x = false
            /\ (c_max_nr c <= k + 1 \/ older_than now (c_max_secs c) x = true).
Proof. exact truncate_age_stop. Qed.
Print Assumptions C11_truncate_age_stop.

(** On the server: a retained delta at a position beyond the configured maximum (position 0 is
    the new delta) is an old delta protected by min_nr or min_seconds ... *)
Theorem C11_retention_explained_system : forall a sz r orc r' j d,
  rstep a sz r OUpdate orc = Some r' -> staged_nonempty (r_st r) = true ->
  nth_error (r_deltas r') (S j) = Some d -> c_max_nr (or_cfg orc) <= N.of_nat (S j) ->
  nth_error (r_deltas r) j = Some d /\ protected (or_cfg orc) (or_now orc) (N.of_nat j) d = true.
Proof. exact retention_explained_system. Qed.
Print Assumptions C11_retention_explained_system.

(** ... hence never more than max max_nr (1 + p) deltas, where only the first p old deltas can be
    protected by the configured minimums. *)
Theorem C11_retention_system : forall a sz r orc r' p,
  rstep a sz r OUpdate orc = Some r' -> staged_nonempty (r_st r) = true ->
  (forall i x, nth_error (r_deltas r) i = Some x -> p <= N.of_nat i ->
               protected (or_cfg orc) (or_now orc) (N.of_nat i) x = false) ->
  N.of_nat (length (r_deltas r')) <= N.max (c_max_nr (or_cfg orc)) (1 + p).
Proof. exact retention_system. Qed.
Print Assumptions C11_retention_system.

(** The bound of the property's text, where no configured minimum stands against it: min_nr below
    max_nr and no old delta at an index >= max_nr - 1 younger than min_seconds - then at most max_nr
    deltas are retained, the new one included ... *)
Theorem C11_retention_within_max : forall a sz r orc r',
  rstep a sz r OUpdate orc = Some r' -> staged_nonempty (r_st r) = true ->
  c_min_nr (or_cfg orc) < c_max_nr (or_cfg orc) ->
  (forall i x, nth_error (r_deltas r) i = Some x -> c_max_nr (or_cfg orc) - 1 <= N.of_nat i ->
               younger_than (or_now orc) (c_min_secs (or_cfg orc)) x = false) ->
  N.of_nat (length (r_deltas r')) <= c_max_nr (or_cfg orc).
Proof. exact retention_within_max. Qed.
Print Assumptions C11_retention_within_max.

(** ... and, none being older than max_seconds, the loop keeps exactly the newest max_nr - 1 old
    deltas (all if there are fewer). *)
Theorem C11_truncate_age_exact : forall a c now ds,
  c_min_nr c < c_max_nr c ->
  (forall i x, nth_error ds i = Some x -> c_max_nr c - 1 <= N.of_nat i -> younger_than now (c_min_secs c) x = false) ->
  (forall x, In x ds -> older_than now (c_max_secs c) x = false) ->
  find_deltas_truncate_age a c now ds = Some (N.min (N.of_nat (length ds)) (c_max_nr c - 1)).
Proof. exact truncate_age_exact. Qed.
Print Assumptions C11_truncate_age_exact.

(** What remains of F11a: the clause "never exceed the configured maximum number" at full
    strength is false, because the configured minimums have priority (more than max_nr deltas
    younger than min_seconds; min_nr >= max_nr). *)
Theorem C11_retention_unconditional_refuted : ~ retention_unconditional.
Proof. exact retention_unconditional_refuted. Qed.
Print Assumptions C11_retention_unconditional_refuted.

(** Where the delta at index max_nr - 1 is not protected the count test of before 5d8ba60d
    gives the same result. *)
Theorem C11_rules_agree_where_unprotected : forall a c now ds,
  1 <= c_max_nr c ->
  (forall x, nth_error ds (N.to_nat (c_max_nr c - 1)) = Some x -> protected c now (c_max_nr c - 1) x = false) ->
  find_deltas_truncate_age a c now ds = find_deltas_truncate_age_v CountEq a c now ds.
Proof. exact rules_agree_where_unprotected. Qed.
Print Assumptions C11_rules_agree_where_unprotected.

(** Regression examples about the count test of before 5d8ba60d ([keep == max_nr - 1]).
    F11a (defect part): it kept deltas beyond the maximum that no minimum protected ... *)
Theorem C11_pinned_keeps_unprotected_beyond_max : ~ retention_explained (find_deltas_truncate_age_v CountEq Checked).
Proof. exact pinned_keeps_unprotected_beyond_max. Qed.
Print Assumptions C11_pinned_keeps_unprotected_beyond_max.

(** ... F11b: with max_nr = 0 the subtraction panicked with overflow checks ... *)
Theorem C11_max_nr_zero_panics : forall c now d ds,
  c_max_nr c = 0 -> protected c now 0 d = false -> find_deltas_truncate_age_v CountEq Checked c now (d :: ds) = None.
Proof. exact max_nr_zero_panics. Qed.
Print Assumptions C11_max_nr_zero_panics.

(** ... and wrapped without them, so that nothing was ever cut by number. *)
Theorem C11_max_nr_zero_wraps : forall c now ds,
  c_max_nr c = 0 -> N.of_nat (length ds) < usize_max ->
  (forall d, In d ds -> older_than now (c_max_secs c) d = false) ->
  find_deltas_truncate_age_v CountEq Wrapping c now ds = Some (N.of_nat (length ds)).
Proof. exact max_nr_zero_wraps. Qed.
Print Assumptions C11_max_nr_zero_wraps.

(** ** The files at every instant *)
(** For EVERY cut point [n] of the operations of [update_rrdp_files]: the notification file holds
    exactly what it held before or the complete new notification, and what it holds names only
    files that are present with the stated hashes. *)
Theorem C11_files_consistent_at_every_prefix : forall f0 r archive n,
  NotifOk f0 -> (forall m, read_notif f0 = Some m -> NotifWf m) -> NotAhead (read_notif f0) r ->
  PlannedFresh (read_notif f0) r -> contig (r_serial r) (r_deltas r) ->
  let f' := fst (run (firstn n (update_rrdp_files f0 r archive)) f0) in
  NotifOk f' /\ (forall m, read_notif f' = Some m -> NotifWf m)
  /\ (fs_file notif_path f' = fs_file notif_path f0
      \/ fs_file notif_path f' = Some (CNotif (new_notif (read_notif f0) r))).
Proof. exact files_consistent_at_every_prefix. Qed.
Print Assumptions C11_files_consistent_at_every_prefix.

(** A complete successful run installs the new notification, whose snapshot file is the server's
    snapshot at the server's session and serial. *)
Theorem C11_update_files_success : forall f0 r archive,
  NotifOk f0 -> (forall m, read_notif f0 = Some m -> NotifWf m) -> NotAhead (read_notif f0) r ->
  PlannedFresh (read_notif f0) r -> contig (r_serial r) (r_deltas r) ->
  up_to_date (read_notif f0) r = false -> snd (run (update_rrdp_files f0 r archive) f0) = true ->
  let f' := fst (run (update_rrdp_files f0 r archive) f0) in
  fs_file notif_path f' = Some (CNotif (new_notif (read_notif f0) r)) /\ NotifOkN f' (new_notif (read_notif f0) r)
  /\ n_session (new_notif (read_notif f0) r) = r_session r /\ n_serial (new_notif (read_notif f0) r) = r_serial r
  /\ fs_file (snap_path r) f' = Some (CData (DSnap (r_session r) (r_serial r) (r_snapshot r))).
Proof. exact update_files_success. Qed.
Print Assumptions C11_update_files_success.

(** The files are those of the state. [FilesMatch r f]: the notification in [f] is exactly the
    one of state [r] and everything it names is present. It is established by the first write,
    and preserved by every update and every session reset followed by a complete write (whose
    every intermediate state is consistent by the theorem above: its side conditions hold). *)
Theorem C11_files_match_init : forall f r archive,
  read_notif f = None -> r_deltas r = [] ->
  snd (run (update_rrdp_files f r archive) f) = true ->
  FilesMatch r (fst (run (update_rrdp_files f r archive) f)).
Proof. exact files_match_init. Qed.
Print Assumptions C11_files_match_init.

Theorem C11_files_match_update : forall f r r' archive,
  FilesMatch r f -> contig (r_serial r) (r_deltas r) -> contig (r_serial r') (r_deltas r') ->
  r_session r' = r_session r -> r_serial r < r_serial r' -> Descends (notif_of r) r' ->
  snd (run (update_rrdp_files f r' archive) f) = true ->
  FilesMatch r' (fst (run (update_rrdp_files f r' archive) f)).
Proof. exact files_match_update. Qed.
Print Assumptions C11_files_match_update.

Theorem C11_descends_after_update : forall sz u r,
  contig (r_serial r) (r_deltas r) -> Descends (notif_of r) (apply_rrdp_updated sz u r).
Proof. exact descends_after_update. Qed.
Print Assumptions C11_descends_after_update.

Theorem C11_files_match_reset : forall f r r' archive,
  FilesMatch r f -> contig (r_serial r) (r_deltas r) ->
  r_session r' <> r_session r -> r_deltas r' = [] ->
  snd (run (update_rrdp_files f r' archive) f) = true ->
  FilesMatch r' (fst (run (update_rrdp_files f r' archive) f)).
Proof. exact files_match_reset. Qed.
Print Assumptions C11_files_match_reset.

(** The deltas written and reused are exactly the retained ones. *)
Theorem C11_new_notif_descends : forall n r,
  n_session n = r_session r -> Descends n r -> new_notif (Some n) r = notif_of r.
Proof. exact new_notif_descends. Qed.
Print Assumptions C11_new_notif_descends.

(** What a client reads from such files is what the state offers; with [delta_chain_sound]: a
    client at any earlier serial catches up from the files. *)
Theorem C11_files_offer_state : forall r f, FilesMatch r f -> offer_of_files f = Some (offer_of r).
Proof. exact files_offer_state. Qed.
Print Assumptions C11_files_offer_state.

(** F11g (fixed by 861388f0), about the procedure before the fix: files opened without
    truncation; a stale new-notification.xml makes the next shorter notification end in stale
    bytes. *)
Theorem C11_stale_new_notification_corrupts :
  NotifOk y_fs0
  /\ fs_file notif_path (fst (run_m NonTruncating (update_rrdp_files y_fs0 y_r false) y_fs0)) = Some CMix
  /\ fs_file notif_path (fst (run (update_rrdp_files y_fs0 y_r false) y_fs0)) = Some (CNotif (new_notif (read_notif y_fs0) y_r)).
Proof. exact stale_new_notification_corrupts. Qed.
Print Assumptions C11_stale_new_notification_corrupts.

(** ** The rsync tree *)
(** After a successful write rsync/current holds exactly the snapshot's objects, whatever an
    earlier attempt for the same serial left in rsync/tmp-<serial> (code of record since e2447e97;
    [tmp_wf]: a directory that does not exist has nothing below it). *)
Theorem C11_rsync_equals_snapshot_after_success : forall v f base serial o f',
  tmp_wf serial f = true -> AllInside base o -> RelInjective base o -> NoDupO o ->
  run (rsync_write_ops_v v FreshTmp f base serial o) f = (f', true) ->
  forall rel c, fs_file (current_dir ++ rel) f' = Some c <->
                exists k ob, In (k, ob) o /\ rel_of base k = Some rel /\ c = CData (DObj (o_content ob)).
Proof. exact rsync_equals_snapshot_after_success. Qed.
Print Assumptions C11_rsync_equals_snapshot_after_success.

(** F11f (fixed), about the procedure before e2447e97: the same statement is false, and true only
    from an untouched temporary directory. *)
Theorem C11_rsync_equals_snapshot_unconditional_refuted : forall v, ~ rsync_equals_snapshot_unconditional v KeepTmp.
Proof. exact rsync_equals_snapshot_unconditional_refuted. Qed.
Print Assumptions C11_rsync_equals_snapshot_unconditional_refuted.

Theorem C11_rsync_equals_snapshot_keep_tmp : forall v f base serial o f',
  tmp_clean serial f = true -> RelInjective base o -> NoDupO o ->
  run (rsync_write_ops_v v KeepTmp f base serial o) f = (f', true) ->
  forall rel c, fs_file (current_dir ++ rel) f' = Some c <->
                exists k ob, In (k, ob) o /\ rel_of base k = Some rel /\ c = CData (DObj (o_content ob)).
Proof. exact rsync_equals_snapshot_keep_tmp. Qed.
Print Assumptions C11_rsync_equals_snapshot_keep_tmp.

(** An interrupted write never prevents later writes: the repaired switch (code of record
    since e1f99c61), for every tree, every write, every cut point and every later write whose
    files can be written. *)
Theorem C11_rsync_recovers_after_cut : forall tm, rsync_never_stuck Repaired tm.
Proof. exact rsync_recovers_after_cut. Qed.
Print Assumptions C11_rsync_recovers_after_cut.

(** F11c (fixed), about the procedure before the repair: the same statement is false. *)
Theorem C11_rsync_interrupted_then_stuck : ~ rsync_never_stuck Pinned KeepTmp.
Proof. exact rsync_interrupted_then_stuck. Qed.
Print Assumptions C11_rsync_interrupted_then_stuck.
