(** C05 - Configuration changes are validated against held resources, all or nothing.
    Only statements: each theorem is closed by [exact] of a lemma proved elsewhere. *)
From KV Require Import base.Tac conf.AMap conf.Roa conf.RoaProofs conf.Aspa conf.AspaProofs
  conf.Bgpsec conf.Child conf.BgpsecChildProofs.
Open Scope N_scope.

(** ** ROA deltas (Routes::process_updates, for every state, holding and delta) *)

(** Refused exactly when: an added entry has an invalid max length, or its prefix fails the
    holding check, or a removed payload is not configured, or is removed twice, or an added entry
    is already present with the same comment (counting the earlier entries of the same delta,
    after the removals). *)
Theorem C05_roa_delta_iff : forall res m d,
  is_err (process_updates res m d) = true <->
  (exists c, In c (d_added d) /\ max_length_valid (rc_pl c) = false)
  \/ (exists c, In c (d_added d) /\ is_held_by res (pl_pfx (rc_pl c)) = false)
  \/ (exists p, In p (d_removed d) /\ rget m p = None)
  \/ ~ NoDup (d_removed d)
  \/ (exists l1 c l2, d_added d = l1 ++ c :: l2 /\ is_dup_at res (remove_all m (d_removed d)) l1 c = true).
Proof. exact roa_delta_iff. Qed.

(** The executable right-hand side used by the oracle is that condition. *)
Theorem C05_roa_refuse_spec_correct : forall res m d, is_err (process_updates res m d) = refuse_spec res m d.
Proof. exact roa_refuse_spec_correct. Qed.

(** The error value lists every offending entry, classified in the code's order of checks. *)
Theorem C05_roa_error_complete : forall res m d e,
  process_updates res m d = Err e ->
  e_invalid e = spec_invalid d /\ e_notheld e = spec_notheld res d
  /\ e_unknown e = spec_unknown m d /\ e_dup e = spec_dup res m d.
Proof. exact roa_error_complete. Qed.

(** All or nothing: a refused command stores no event and leaves the routes as they were. *)
Theorem C05_roa_delta_atomic : forall res m d m' evs e,
  ca_routes_update res m d = (m', evs, Some e) -> m' = m /\ evs = [].
Proof. exact roa_delta_atomic. Qed.

Theorem C05_roa_command_refused_iff : forall res m d,
  (exists e, snd (ca_routes_update res m d) = Some e) <-> refused_cond res m (explicit_delta d).
Proof. exact roa_command_refused_iff. Qed.

(** An accepted delta yields (routes \ removed) + added, the last entry for a payload deciding its comment. *)
Theorem C05_roa_delta_ok_spec : forall res m d m' evs,
  ca_routes_update res m d = (m', evs, None) ->
  forall k, rget m' k = expected_get m (explicit_delta d) k.
Proof. exact roa_delta_ok_spec. Qed.

Theorem C05_roa_process_updates_ok_spec : forall res m d m2 evs,
  process_updates res m d = Ok (m2, evs) -> forall k, rget (apply_events m evs) k = expected_get m d k.
Proof. exact process_updates_ok_spec. Qed.

(** Max-length normalisation. *)
Theorem C05_explicit_valid : forall p,
  p_len (pl_pfx p) <= alen (p_fam (pl_pfx p)) -> max_length_valid (explicit_pl p) = max_length_valid p.
Proof. exact explicit_pl_valid. Qed.
Theorem C05_explicit_collapses : forall a p, explicit_pl (mkPl a p None) = explicit_pl (mkPl a p (Some (p_len p))).
Proof. exact explicit_pl_collapses. Qed.

(** The holding check is "a block of the prefix's own family covers the prefix"
    (repaired tree; the family-blind check of the pinned tree is kept as
    [contains_roa_address_pinned] with its counterexample [check_is_held_pinned_refuted]). *)
Theorem C05_check_is_held : forall res p,
  p_len p <= alen (p_fam p) -> is_held_by res p = holds_prefix res p.
Proof. exact check_is_held. Qed.
Theorem C05_covered_iff_all_addresses : forall rs lo hi,
  separated rs -> lo <= hi -> (covered rs lo hi = true <-> forall x, lo <= x <= hi -> in_ranges rs x).
Proof. exact covered_iff_all_addresses. Qed.

(** ** ASPA definitions *)
Theorem C05_aspa_update_iff : forall res m u,
  is_err (aspa_process_updates res m u) = true <->
  (exists c, In c (au_remove u) /\ aget m c = None)
  \/ ~ NoDup (au_remove u)
  \/ (exists d, In d (au_add u) /\
        (ad_provs d = [] \/ In (ad_cust d) (ad_provs d) \/ ~ NoDup (ad_provs d) \/ contains_asn res (ad_cust d) = false)).
Proof. exact aspa_update_iff. Qed.

Theorem C05_aspa_refuse_spec_correct : forall res m u, is_err (aspa_process_updates res m u) = aspa_refuse_spec res m u.
Proof. exact aspa_refuse_spec_correct. Qed.

Theorem C05_aspa_update_atomic : forall res m u m' evs e,
  ca_aspas_update res m u = (m', evs, Some e) -> m' = m /\ evs = [].
Proof. exact aspa_update_atomic. Qed.

(** The definitions the objects are issued from are the requested ones ... *)
Theorem C05_aspa_ok_spec : forall res m u all evs,
  aspa_process_updates res m u = Ok (all, evs) -> forall c, aget all c = aspa_expected_get m u c.
Proof. exact aspa_ok_spec. Qed.

(** ... and so is the stored configuration (as provider sets; stored lists are kept sorted). *)
Theorem C05_aspa_accepted_config : forall res m u m' evs,
  ca_aspas_update res m u = (m', evs, None) ->
  forall c, same_provs (aget m' c) (aspa_expected_get m u c).
Proof. exact aspa_accepted_config. Qed.

Theorem C05_aspa_accepted_wellformed : forall res m u m' evs,
  ca_aspas_update res m u = (m', evs, None) ->
  forall c ps, In c (map ad_cust (au_add u)) -> aget m' c = Some ps ->
  ps <> [] /\ ~ In c ps /\ contains_asn res c = true.
Proof. exact aspa_accepted_wellformed. Qed.

Theorem C05_aspa_existing_iff : forall res m c u,
  is_err (updated_allowed_and_needed res m c u) = true <->
  let updated := apply_prov_update (existing_of m c) u in
  updated <> existing_of m c /\ updated <> [] /\ (contains_asn res c = false \/ In c updated).
Proof. exact aspa_existing_iff. Qed.

Theorem C05_aspa_existing_atomic : forall res m c u m' evs e,
  ca_aspas_update_existing res m c u = (m', evs, Some e) -> m' = m /\ evs = [].
Proof. exact aspa_existing_atomic. Qed.

Theorem C05_aspa_existing_ok_spec : forall res m c u m' evs,
  ca_aspas_update_existing res m c u = (m', evs, None) ->
  (forall c', c' <> c -> aget m' c' = aget m c') /\
  (aget m' c = aget m c \/ aget m' c = None
   \/ exists ps, aget m' c = Some ps /\ ps = apply_prov_update (existing_of m c) u
                 /\ ps <> [] /\ ~ In c ps /\ contains_asn res c = true).
Proof. exact aspa_existing_ok_spec. Qed.

(** ** BGPsec router keys *)
Theorem C05_bgpsec_update_iff : forall res now m u,
  is_err (b_process_updates res now m u) = true <->
  (exists k, In k (bu_remove u) /\ bget m k = None)
  \/ ~ NoDup (bu_remove u)
  \/ (exists d, In d (bu_add u) /\ (bd_sig_ok d = false \/ contains_asn res (bd_asn d) = false)).
Proof. exact bgpsec_update_iff. Qed.

Theorem C05_bgpsec_update_atomic : forall res now m u m' evs e,
  ca_bgpsec_update res now m u = (m', evs, Some e) -> m' = m /\ evs = [].
Proof. exact bgpsec_update_atomic. Qed.

Theorem C05_bgpsec_replay_exact : forall res now m u defs evs,
  b_process_updates res now m u = Ok (defs, evs) -> apply_bevents m evs = defs.
Proof. exact bgpsec_replay_exact. Qed.

(** ** Children *)
Theorem C05_child_add_iff : forall held m c r,
  is_err (child_add held m c r) = true <-> rs_is_empty r = true \/ rs_contains held r = false \/ cget m c <> None.
Proof. exact child_add_iff. Qed.

Theorem C05_child_update_iff : forall held m c r,
  is_err (child_update held m c r) = true <->
  rs_is_empty r = true \/ rs_contains held r = false \/ cget m c = None.
Proof. exact child_update_iff. Qed.

Theorem C05_child_refused_unchanged : forall held m o m' e, ca_child_op held m o = (m', Some e) -> m' = m.
Proof. exact child_refused_unchanged. Qed.

Theorem C05_child_update_nonempty : forall held m c r evs,
  child_update held m c r = Ok evs -> rs_is_empty r = false.
Proof. exact child_update_nonempty. Qed.

Theorem C05_child_update_ok_spec : forall held m c r evs,
  child_update held m c r = Ok evs ->
  rs_is_empty r = false /\ rs_contains held r = true
  /\ exists cur, cget m c = Some cur /\ (evs = [] /\ rs_eqb r cur = true \/ evs = [CEvUpdated c r]).
Proof. exact child_update_ok_spec. Qed.

Print Assumptions C05_roa_delta_iff.
Print Assumptions C05_roa_refuse_spec_correct.
Print Assumptions C05_roa_error_complete.
Print Assumptions C05_roa_delta_atomic.
Print Assumptions C05_roa_command_refused_iff.
Print Assumptions C05_roa_delta_ok_spec.
Print Assumptions C05_roa_process_updates_ok_spec.
Print Assumptions C05_explicit_valid.
Print Assumptions C05_explicit_collapses.
Print Assumptions C05_check_is_held.
Print Assumptions C05_covered_iff_all_addresses.
Print Assumptions C05_aspa_update_iff.
Print Assumptions C05_aspa_refuse_spec_correct.
Print Assumptions C05_aspa_update_atomic.
Print Assumptions C05_aspa_ok_spec.
Print Assumptions C05_aspa_accepted_config.
Print Assumptions C05_aspa_accepted_wellformed.
Print Assumptions C05_aspa_existing_iff.
Print Assumptions C05_aspa_existing_atomic.
Print Assumptions C05_aspa_existing_ok_spec.
Print Assumptions C05_bgpsec_update_iff.
Print Assumptions C05_bgpsec_update_atomic.
Print Assumptions C05_bgpsec_replay_exact.
Print Assumptions C05_child_add_iff.
Print Assumptions C05_child_update_iff.
Print Assumptions C05_child_refused_unchanged.
Print Assumptions C05_child_update_nonempty.
Print Assumptions C05_child_update_ok_spec.
