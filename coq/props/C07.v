(** C07 - Commands are atomic, serialised per entity and completely audited.
    Only statements; proofs in conc/SerialProofs.v and es/EsProofs.v. *)
From KV Require Import base.Tac conc.Serial conc.SerialProofs es.Es es.EsProofs.
Open Scope N_scope.

(** On every well-locked trace (any number of threads and entities, any interleaving), the writes to an
    entity are the concatenation, in lock-acquisition order, of critical sections each run by one thread. *)
Theorem C07_per_entity_serial : forall tr e,
  well_locked [] tr = true ->
  Forall single_thread (sections e None tr) /\ concat (map snd (sections e None tr)) = writes e tr.
Proof. exact per_entity_serial. Qed.

Section Sequential.
  Variables (S Ev : Type) (init : S) (apply : S -> Ev -> S).

  (** Within one critical section a command behaves as the sequential store model says: accepted and
      rejected commands take exactly the next version, no-ops and failed pre-save runs take none. *)
  Theorem C07_versions_consecutive : forall st o,
    consistent S Ev init apply st ->
    length (cmds S Ev (send S Ev init apply st o)) =
      match o with Accepted _ | Rejected => Datatypes.S (length (cmds S Ev st)) | _ => length (cmds S Ev st) end.
  Proof. exact (send_version S Ev init apply). Qed.

  Theorem C07_rejected_only_audit : forall st,
    consistent S Ev init apply st ->
    a_st S (load S Ev init apply (send S Ev init apply st Rejected)) = a_st S (load S Ev init apply st) /\
    a_ver S (load S Ev init apply (send S Ev init apply st Rejected)) = a_ver S (load S Ev init apply st) + 1.
  Proof. exact (rejected_changes_nothing_but_version S Ev init apply). Qed.

  Theorem C07_noop_no_trace_presave_failure_invisible : forall st evs,
    cmds S Ev (send S Ev init apply st NoOp) = cmds S Ev st /\
    send S Ev init apply st (PreSaveFailed evs) = st.
  Proof. exact (noop_and_presave_failure_leave_no_trace S Ev init apply). Qed.

  (** Every reader sees a prefix of the one total order: whatever the cache or a snapshot holds is the
      replay of a prefix of the stored commands, after any history. *)
  Theorem C07_readers_see_prefix : forall os a,
    cache S Ev (run S Ev init apply (empty_store S Ev) os) = Some a ->
    exists n, (n <= length (cmds S Ev (run S Ev init apply (empty_store S Ev) os)))%nat /\
      a = replay S Ev init apply (firstn n (cmds S Ev (run S Ev init apply (empty_store S Ev) os))).
  Proof. exact (replay_eq_live S Ev init apply). Qed.
End Sequential.

Print Assumptions C07_per_entity_serial.
Print Assumptions C07_versions_consecutive.
Print Assumptions C07_rejected_only_audit.
Print Assumptions C07_noop_no_trace_presave_failure_invisible.
Print Assumptions C07_readers_see_prefix.
