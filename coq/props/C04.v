(** C04 - Key rollover is safe in every interleaving and always completes.
    Only statements; proofs in ca/CaProofs.v and ca/CaObjProofs.v. *)
From KV Require Import base.Tac ca.Ca ca.CaProofs ca.CaObjProofs ca.CaCheck ca.CaMirrorProofs ca.KeyCheck.
Open Scope N_scope.

(** No event emitted by a key life-cycle command can hit a panicking arm of [apply]. *)
Theorem C04_events_applicable : forall s c rc cmd evs,
  aget c (ca_classes s) = Some rc -> kprocess c (rc_keys rc) cmd = Ok evs -> apply_all s evs <> None.
Proof. exact events_applicable. Qed.

Theorem C04_key_events_applicable : forall c ks cmd evs,
  kprocess c ks cmd = Ok evs -> ks_apply_all c ks evs <> None.
Proof. exact kprocess_keys_applicable. Qed.

(** From every key state an honest parent and the operator can finish the roll in at most four steps. *)
Theorem C04_roll_can_always_finish : forall c mk ks,
  (forall k, c_key (mk k) = k) -> ks_wf ks ->
  exists ks', krun c ks (finish_plan mk ks) = Some ks' /\ is_active ks' /\ (length (finish_plan mk ks) <= 4)%nat.
Proof. exact roll_can_always_finish. Qed.

Theorem C04_kstep_keeps_wf : forall c ks cmd ks',
  ks_wf ks ->
  (forall fresh k, cmd = CRollInit fresh -> ks_current ks = Some k -> fresh <> k_id k) ->
  kstep c ks cmd = Some ks' -> ks_wf ks'.
Proof. exact kstep_keeps_wf. Qed.

(** Guards: a second initiate is a no-op, activation needs a certified new key and no open request,
    finishing needs an old key. *)
Theorem C04_second_initiate_noop : forall c ks fresh, ~ is_active ks -> kprocess c ks (CRollInit fresh) = Ok [].
Proof. exact second_initiate_noop. Qed.

Theorem C04_activate_guard : forall c ks evs,
  kprocess c ks CRollActivate = Ok evs -> evs <> [] ->
  exists n cur, ks = KRollNew n cur /\ k_req n = false /\ k_req cur = false.
Proof. exact activate_guard. Qed.

Theorem C04_finish_guard : forall c ks evs, kprocess c ks CRollFinish = Ok evs -> exists cur o, ks = KRollOld cur o.
Proof. exact finish_guard. Qed.

(** The key in the current role always carries a certificate for that very key. *)
Theorem C04_certified_key_in_use : forall c ks cmd ks',
  cert_matches ks ->
  (match ks with KRollNew n _ => c_key (k_cert n) = k_id n | _ => True end) ->
  kstep c ks cmd = Some ks' -> cert_matches ks'.
Proof. exact kstep_keeps_cert_matches. Qed.

(** Exactly one key signs products: the staging set is created empty, activation retires the old set to
    manifest and CRL only (everything it published is revoked), and both happen in one listener step. *)
Theorem C04_staging_publishes_nothing : forall env cn objs c crt objs' f,
  listen1 env cn objs (EPendingToNew c crt) = Ok (objs', f) ->
  exists cur, aget c objs = Some (OCur cur) /\ aget c objs' = Some (OStg (os_create (c_key crt) (e_next env)) cur).
Proof. exact staging_publishes_nothing. Qed.

Theorem C04_activation_single_signer : forall env cn objs c stg cur objs' f,
  aget c objs = Some (OStg stg cur) -> s_pub stg = [] ->
  listen1 env cn objs (ERollActivated c) = Ok (objs', f) ->
  exists old, aget c objs' = Some (OOld stg old) /\ s_pub old = [] /\ s_pub stg = [] /\ f = true
              /\ s_key old = s_key cur /\ covered (e_now env) cur old.
Proof. exact activation_single_signer. Qed.

(** No product is lost at activation: with issued and suspended certificates disjoint (an invariant of
    every certificate operation of the repaired tree) re-issuing everything under the new key keeps
    exactly the issued set. *)
Theorem C04_add_issued_keeps_disjoint : forall rc k o, certs_disjoint rc -> certs_disjoint (certs_add_issued rc k o).
Proof. exact add_issued_keeps_disjoint. Qed.
Theorem C04_unsuspend_keeps_disjoint : forall rc k o, certs_disjoint rc -> certs_disjoint (certs_unsuspend rc k o).
Proof. exact unsuspend_keeps_disjoint. Qed.
Theorem C04_suspend_keeps_disjoint : forall rc k o, certs_disjoint rc -> certs_disjoint (certs_suspend rc k o).
Proof. exact suspend_keeps_disjoint. Qed.
Theorem C04_remove_keeps_disjoint : forall rc k, certs_disjoint rc -> certs_disjoint (certs_remove rc k).
Proof. exact remove_keeps_disjoint. Qed.

Theorem C04_activation_keeps_issued : forall rc re k,
  certs_disjoint rc ->
  let '(i, s) := activate_cert_update rc re in
  amem k (rc_issued (apply_cert_update rc i s)) = amem k (rc_issued rc).
Proof. exact activation_keeps_issued. Qed.

(** Mirror: if the key state of a class is in step with its published-object sets (Pending: no sets;
    Active/RollPending: current set of the current key; RollNew: empty staging set of the new key + current;
    RollOld: current set of the new key + emptied old set), every key event that apply accepts is accepted by
    the pre-save listener and leaves them in step; [listen1_class] relates the class-local step to the
    listener on the whole store. *)
Theorem C04_listener_accepts_and_mirrors : forall env c ks o e ks',
  mirror_class (mkRC 0 0 ks [] [] [] [] []) o = true ->
  ks_wf ks ->
  is_key_event_of c e = true ->
  (forall ki crt, e = ECertReceived c ki crt -> ks_knows ks ki = true /\
      match ks with KRollPending p _ => ki <> p_id p | _ => True end) ->
  (forall crt, e = EPendingToNew c crt -> match ks with KRollPending p _ => c_key crt = p_id p | _ => True end) ->
  ks_apply c ks e = Some ks' ->
  exists o', ok_step env o e = Ok o' /\ mirror_class (mkRC 0 0 ks' [] [] [] [] []) o' = true.
Proof. exact mirror_key_event. Qed.

Theorem C04_listener_class_view : forall env cn objs c e,
  is_key_event_of c e = true ->
  match ok_step env (aget c objs) e with
  | Err => listen1 env cn objs e = Err
  | Ok o' => exists objs' f, listen1 env cn objs e = Ok (objs', f) /\ aget c objs' = o'
  end.
Proof. exact listen1_class. Qed.

(** The key state machine driven directly (second scenario `keystates`): for a class with a staged new key the
    implementation's activation must succeed exactly when neither key has an open certificate request - the
    oracle evaluated on the implementation's own KeyState values is that statement. *)
Theorem C04_activation_guard_oracle : forall n cur obs,
  k_ok (mkK (KRollNew n cur) QActivate obs) = true <->
  (if k_req n || k_req cur then obs = ORefused else obs = OEvents [1]).
Proof. exact k_ok_activate_iff. Qed.

Print Assumptions C04_activation_guard_oracle.
Print Assumptions C04_listener_accepts_and_mirrors.
Print Assumptions C04_listener_class_view.
Print Assumptions C04_events_applicable.
Print Assumptions C04_key_events_applicable.
Print Assumptions C04_roll_can_always_finish.
Print Assumptions C04_kstep_keeps_wf.
Print Assumptions C04_second_initiate_noop.
Print Assumptions C04_activate_guard.
Print Assumptions C04_finish_guard.
Print Assumptions C04_certified_key_in_use.
Print Assumptions C04_staging_publishes_nothing.
Print Assumptions C04_activation_single_signer.
Print Assumptions C04_add_issued_keeps_disjoint.
Print Assumptions C04_unsuspend_keeps_disjoint.
Print Assumptions C04_suspend_keeps_disjoint.
Print Assumptions C04_remove_keeps_disjoint.
Print Assumptions C04_activation_keeps_issued.
