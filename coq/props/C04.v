(** C04 - Key rollover is safe in every interleaving and always completes.
    Only statements; proofs in ca/CaProofs.v and ca/CaObjProofs.v. *)
From KV Require Import base.Tac ca.Ca ca.CaProofs ca.CaObjProofs ca.CaCheck ca.CaMirrorProofs ca.KeyCheck.
From KV Require Import ca.Migrate ca.MigrateCheck ca.MigrateProofs.
Open Scope N_scope.

(** No event emitted by a key life-cycle command can hit a panicking arm of [apply]. *)
Theorem C04_events_applicable : forall s c rc cmd evs,
  aget c (ca_classes s) = Some rc -> kprocess c (rc_keys rc) cmd = Ok evs -> apply_all s evs <> None.
Proof. exact events_applicable. Qed.

Theorem C04_key_events_applicable : forall c ks cmd evs,
  kprocess c ks cmd = Ok evs -> ks_apply_all c ks evs <> None.
Proof. exact kprocess_keys_applicable. Qed.

(** From every key state an honest parent and the operator can finish the roll in at most four steps. *)
Theorem C04_roll_can_always_finish : forall c mk ks,
  (forall k, c_key (mk k) = k) -> ks_wf ks ->
  exists ks', krun c ks (finish_plan mk ks) = Some ks' /\ is_active ks' /\ (length (finish_plan mk ks) <= 4)%nat.
Proof. exact roll_can_always_finish. Qed.

Theorem C04_kstep_keeps_wf : forall c ks cmd ks',
  ks_wf ks ->
  (forall fresh k, cmd = CRollInit fresh -> ks_current ks = Some k -> fresh <> k_id k) ->
  kstep c ks cmd = Some ks' -> ks_wf ks'.
Proof. exact kstep_keeps_wf. Qed.

(** Guards: a second initiate is a no-op, activation needs a certified new key and no open request,
    finishing needs an old key. *)
Theorem C04_second_initiate_noop : forall c ks fresh, ~ is_active ks -> kprocess c ks (CRollInit fresh) = Ok [].
Proof. exact second_initiate_noop. Qed.

Theorem C04_activate_guard : forall c ks evs,
  kprocess c ks CRollActivate = Ok evs -> evs <> [] ->
  exists n cur, ks = KRollNew n cur /\ k_req n = false /\ k_req cur = false.
Proof. exact activate_guard. Qed.

Theorem C04_finish_guard : forall c ks evs, kprocess c ks CRollFinish = Ok evs -> exists cur o, ks = KRollOld cur o.
Proof. exact finish_guard. Qed.

(** The key in the current role always carries a certificate for that very key. *)
Theorem C04_certified_key_in_use : forall c ks cmd ks',
  cert_matches ks ->
  (match ks with KRollNew n _ => c_key (k_cert n) = k_id n | _ => True end) ->
  kstep c ks cmd = Some ks' -> cert_matches ks'.
Proof. exact kstep_keeps_cert_matches. Qed.

(** Exactly one key signs products: the staging set is created empty, activation retires the old set to
    manifest and CRL only (everything it published is revoked), and both happen in one listener step. *)
Theorem C04_staging_publishes_nothing : forall env cn objs c crt objs' f,
  listen1 env cn objs (EPendingToNew c crt) = Ok (objs', f) ->
  exists cur, aget c objs = Some (OCur cur) /\ aget c objs' = Some (OStg (os_create (c_key crt) (e_next env)) cur).
Proof. exact staging_publishes_nothing. Qed.

Theorem C04_activation_single_signer : forall env cn objs c stg cur objs' f,
  aget c objs = Some (OStg stg cur) -> s_pub stg = [] ->
  listen1 env cn objs (ERollActivated c) = Ok (objs', f) ->
  exists old, aget c objs' = Some (OOld stg old) /\ s_pub old = [] /\ s_pub stg = [] /\ f = true
              /\ s_key old = s_key cur /\ covered (e_now env) cur old.
Proof. exact activation_single_signer. Qed.

(** No product is lost at activation: with issued and suspended certificates disjoint (an invariant of
    every certificate operation of the repaired tree) re-issuing everything under the new key keeps
    exactly the issued set. *)
Theorem C04_add_issued_keeps_disjoint : forall rc k o, certs_disjoint rc -> certs_disjoint (certs_add_issued rc k o).
Proof. exact add_issued_keeps_disjoint. Qed.
Theorem C04_unsuspend_keeps_disjoint : forall rc k o, certs_disjoint rc -> certs_disjoint (certs_unsuspend rc k o).
Proof. exact unsuspend_keeps_disjoint. Qed.
Theorem C04_suspend_keeps_disjoint : forall rc k o, certs_disjoint rc -> certs_disjoint (certs_suspend rc k o).
Proof. exact suspend_keeps_disjoint. Qed.
Theorem C04_remove_keeps_disjoint : forall rc k, certs_disjoint rc -> certs_disjoint (certs_remove rc k).
Proof. exact remove_keeps_disjoint. Qed.

Theorem C04_activation_keeps_issued : forall rc re k,
  certs_disjoint rc ->
  let '(i, s) := activate_cert_update rc re in
  amem k (rc_issued (apply_cert_update rc i s)) = amem k (rc_issued rc).
Proof. exact activation_keeps_issued. Qed.

(** Mirror: if the key state of a class is in step with its published-object sets (Pending: no sets;
    Active/RollPending: current set of the current key; RollNew: empty staging set of the new key + current;
    RollOld: current set of the new key + emptied old set), every key event that apply accepts is accepted by
    the pre-save listener and leaves them in step; [listen1_class] relates the class-local step to the
    listener on the whole store. *)
Theorem C04_listener_accepts_and_mirrors : forall env c ks o e ks',
  mirror_class (mkRC 0 0 ks [] [] [] [] []) o = true ->
  ks_wf ks ->
  is_key_event_of c e = true ->
  (forall ki crt, e = ECertReceived c ki crt -> ks_knows ks ki = true /\
      match ks with KRollPending p _ => ki <> p_id p | _ => True end) ->
  (forall crt, e = EPendingToNew c crt -> match ks with KRollPending p _ => c_key crt = p_id p | _ => True end) ->
  ks_apply c ks e = Some ks' ->
  exists o', ok_step env o e = Ok o' /\ mirror_class (mkRC 0 0 ks' [] [] [] [] []) o' = true.
Proof. exact mirror_key_event. Qed.

Theorem C04_listener_class_view : forall env cn objs c e,
  is_key_event_of c e = true ->
  match ok_step env (aget c objs) e with
  | Err => listen1 env cn objs e = Err
  | Ok o' => exists objs' f, listen1 env cn objs e = Ok (objs', f) /\ aget c objs' = o'
  end.
Proof. exact listen1_class. Qed.

(** The key state machine driven directly (second scenario `keystates`): for a class with a staged new key the
    implementation's activation must succeed exactly when neither key has an open certificate request - the
    oracle evaluated on the implementation's own KeyState values is that statement. *)
Theorem C04_activation_guard_oracle : forall n cur obs,
  k_ok (mkK (KRollNew n cur) QActivate obs) = true <->
  (if k_req n || k_req cur then obs = ORefused else obs = OEvents [1]).
Proof. exact k_ok_activate_iff. Qed.

(** Repository migration rides on the key roll (model ca/Migrate.v, third scenario `migrate`): in every state
    reachable by ANY interleaving of migrations (also back to a repository that still awaits its clean-up), roll
    steps of the individual classes, class additions and removals, certificate re-issues and clean-ups - no
    assumption about the environment - a repository that is on the deprecated list, which the next synchronisation
    empties completely, is not the place where any key set of any class publishes. *)
Theorem C04_migration_safe : forall r0 st, reachable r0 st ->
  forall r c cs s, In r (m_depr st) -> In (c, cs) (m_classes st) -> In s (sets_of cs) -> publishes_at (m_repo st) s <> r.
Proof. exact migration_safe. Qed.

(** Every key set publishes at the repository its key's certificate points to, in every reachable state - also when
    certificates are re-issued in the middle of a migration. *)
Theorem C04_migration_located : forall r0 st, reachable r0 st ->
  forall c cs, In (c, cs) (m_classes st) ->
    (forall s, In s (sets_of cs) -> publishes_at (m_repo st) s = s_at s) /\ pend_ok (m_repo st) cs.
Proof. exact migration_located. Qed.

(** Regression witnesses - each of the two statements is false for an earlier behaviour of the code: [has_old_repo]
    looking at the staging set only in the Staging arm (seeded change); a migration that leaves its target on the
    deprecated list (before /repo 1c1bdf32, F04e); a re-issued certificate naming the new repository for a key that
    still publishes at the old one (before /repo c6a66d92, F04d). *)
Theorem C04_migration_weak_arm_refuted :
  exists st, run_gen weak (minit 0) critical_ops = Some st /\ ~ safe st.
Proof. exact weak_has_old_repo_refuted. Qed.

Theorem C04_migration_pinned_deprecated_refuted :
  exists st, reachable_gen pinned_depr 0 st /\ ~ safe st.
Proof. exact pinned_deprecated_refuted. Qed.

Theorem C04_migration_pinned_key_refuted :
  exists st, reachable_gen pinned_key 0 st /\ ~ located st.
Proof. exact pinned_key_refuted. Qed.

(** The migration completes: the step that takes the last set away from a repository puts it on the deprecated
    list, and once every class is back to a single active key the repository migrated away from is deprecated, or
    already cleaned, or has become the CA's repository again. *)
Theorem C04_migration_last_user_deprecates : forall st op st' x,
  Inv st -> mstep st op = Some st' -> uses st x -> ~ uses st' x -> In x (m_depr st').
Proof. exact last_user_deprecates. Qed.

Theorem C04_migration_completes : forall ops st st' x,
  Inv st -> run st ops = Some st' ->
  uses st x ->
  (forall c cs, In (c, cs) (m_classes st') -> finished cs) ->
  In x (m_depr st') \/ In (OClean x) ops \/ In (OUpdateRepo x) ops.
Proof. exact old_repo_deprecated_when_done. Qed.

Theorem C04_migration_invariant_reachable : forall r0 st, reachable r0 st -> Inv st.
Proof. exact reachable_inv. Qed.

(** Tie: the oracle of the scenario evaluates exactly the invariant / the two statements on the implementation's
    states, and a case on which model and implementation agree carries them from its first state to the states
    after the command and after the repository synchronisation. *)
Theorem C04_migration_invariant_executable : forall st, inv_b st = true <-> Inv st.
Proof. exact inv_b_spec. Qed.

Theorem C04_migration_safe_executable : forall st, safe_b st = true <-> safe st.
Proof. exact safe_b_spec. Qed.

Theorem C04_migration_located_executable : forall st, located_b st = true <-> located st.
Proof. exact located_b_spec. Qed.

Theorem C04_migration_agrees_keeps_invariant : forall c,
  m_agrees c = true -> Inv (mc_pre c) -> Inv (mc_mid c) /\ Inv (mc_post c).
Proof. exact agrees_keeps_invariant. Qed.

Theorem C04_migration_agrees_keeps_located : forall c,
  m_agrees c = true -> Inv (mc_pre c) -> located (mc_pre c) -> located (mc_mid c) /\ located (mc_post c).
Proof. exact agrees_keeps_located. Qed.

Print Assumptions C04_activation_guard_oracle.
Print Assumptions C04_listener_accepts_and_mirrors.
Print Assumptions C04_listener_class_view.
Print Assumptions C04_events_applicable.
Print Assumptions C04_key_events_applicable.
Print Assumptions C04_roll_can_always_finish.
Print Assumptions C04_kstep_keeps_wf.
Print Assumptions C04_second_initiate_noop.
Print Assumptions C04_activate_guard.
Print Assumptions C04_finish_guard.
Print Assumptions C04_certified_key_in_use.
Print Assumptions C04_staging_publishes_nothing.
Print Assumptions C04_activation_single_signer.
Print Assumptions C04_add_issued_keeps_disjoint.
Print Assumptions C04_unsuspend_keeps_disjoint.
Print Assumptions C04_suspend_keeps_disjoint.
Print Assumptions C04_remove_keeps_disjoint.
Print Assumptions C04_activation_keeps_issued.
Print Assumptions C04_migration_safe.
Print Assumptions C04_migration_weak_arm_refuted.
Print Assumptions C04_migration_pinned_deprecated_refuted.
Print Assumptions C04_migration_located.
Print Assumptions C04_migration_pinned_key_refuted.
Print Assumptions C04_migration_last_user_deprecates.
Print Assumptions C04_migration_completes.
Print Assumptions C04_migration_invariant_reachable.
Print Assumptions C04_migration_invariant_executable.
Print Assumptions C04_migration_safe_executable.
Print Assumptions C04_migration_located_executable.
Print Assumptions C04_migration_agrees_keeps_invariant.
Print Assumptions C04_migration_agrees_keeps_located.
