(** C16 - Untrusted input never brings the daemon down.
    Proved part: Krill's OWN post-decode parsing of, and arithmetic on, client-controlled
    values, modelled in coq/parse with explicit failure (value | error | panic | debug-only
    panic). The byte-level decoders (serde_json, quick-xml, bcder, rpki CMS) are not modelled.
    Only statements: each theorem is closed by [exact] of a lemma proved elsewhere.
    [wf_utf8 s = true] is "s is a Rust string" (loose UTF-8 well-formedness, implied by validity). *)
From KV Require Import base.Tac parse.Str parse.StrProofs parse.RoaParse parse.RoaParseProofs
  parse.Idents parse.IdentsProofs parse.Notations parse.NotationsProofs parse.ParseCheck parse.ParseCheckProofs.
Open Scope N_scope.

(** *** ROA notations (api/roa.rs, api/bgp.rs, server/ca/roa.rs) *)
Theorem C16_no_panic_as_number : forall s, as_number_from_str s <> PPanic.
Proof. exact no_panic_as_number. Qed.

Theorem C16_no_panic_typed_prefix : forall s, wf_utf8 s = true -> typed_prefix_from_str s <> PPanic.
Proof. exact no_panic_typed_prefix. Qed.

Theorem C16_no_panic_ipvx_prefix : forall f s,
  o_res (ipvx_prefix_from_str f s) <> PPanic /\ o_dbg (ipvx_prefix_from_str f s) = false.
Proof. exact no_panic_ipvx_prefix. Qed.

Theorem C16_no_panic_payload : forall s, wf_utf8 s = true -> payload_from_str s <> PPanic.
Proof. exact no_panic_payload. Qed.

Theorem C16_payload_len_bound : forall s p, payload_from_str s = POk p -> p_len (r_pfx p) <= fam_bits (p_fam (r_pfx p)).
Proof. exact payload_len_bound. Qed.

Theorem C16_no_panic_config : forall s, wf_utf8 s = true -> config_from_str s <> PPanic.
Proof. exact no_panic_config. Qed.

Theorem C16_no_panic_updates : forall s, wf_utf8 s = true -> updates_from_str s <> PPanic.
Proof. exact no_panic_updates. Qed.

Theorem C16_no_panic_announcement : forall s, wf_utf8 s = true -> announcement_from_str s <> PPanic.
Proof. exact no_panic_announcement. Qed.

Theorem C16_agg_key_slice_safe : forall part, sep_ok part = true -> starts_with [65; 83] part = true ->
  slice_from part 2 = POk (skipn 2 part).
Proof. exact agg_key_slice_safe. Qed.

Theorem C16_no_panic_agg_key : forall s, wf_utf8 s = true -> agg_key_from_str s <> PPanic.
Proof. exact no_panic_agg_key. Qed.

(** *** Arithmetic on client-controlled lengths *)
Theorem C16_max_length_valid_iff : forall p,
  max_length_valid p = true <->
  match r_max p with
  | None => True
  | Some m => p_len (r_pfx p) <= m /\ m <= fam_bits (p_fam (r_pfx p))
  end.
Proof. exact max_length_valid_iff. Qed.

Theorem C16_no_panic_nr_of_specific_prefixes : forall p, o_res (nr_of_specific_prefixes p) <> PPanic.
Proof. exact no_panic_nr_of_specific_prefixes. Qed.

(** F16a: with overflow checks the shift by 128 panics; refuted full statement, exact
    characterisation, strongest true restriction. *)
Theorem C16_nr_specific_no_debug_panic_refuted :
  ~ (forall p, payload_ok p -> o_dbg (nr_of_specific_prefixes p) = false).
Proof. exact nr_specific_no_debug_panic_refuted. Qed.

Theorem C16_nr_specific_debug_panic_iff : forall p, payload_ok p ->
  (o_dbg (nr_of_specific_prefixes p) = true <->
   p_fam (r_pfx p) = V6 /\ p_len (r_pfx p) = 0 /\ r_max p = Some 128).
Proof. exact nr_specific_debug_panic_iff. Qed.

Theorem C16_nr_specific_except_known : forall p, payload_ok p ->
  ~ (p_fam (r_pfx p) = V6 /\ p_len (r_pfx p) = 0 /\ r_max p = Some 128) ->
  nr_of_specific_prefixes p = mkOut (POk (2 ^ (effective_max_length p - p_len (r_pfx p)))) false.
Proof. exact nr_specific_except_known. Qed.

Theorem C16_no_panic_prefix_resize : forall p n,
  o_res (prefix_resize p n) <> PPanic /\ o_dbg (prefix_resize p n) = false.
Proof. exact no_panic_prefix_resize. Qed.

(** *** Identifiers, handles, queue keys (commons/storage/ident.rs, commons/queue.rs) *)
Theorem C16_no_panic_ident_from_bytes : forall s, ident_from_bytes s <> PPanic.
Proof. exact no_panic_ident_from_bytes. Qed.

Theorem C16_from_str_or_replace_valid : forall src, check_bytes (from_str_or_replace src) = true.
Proof. exact from_str_or_replace_valid. Qed.

Theorem C16_push_converted_str_valid : forall content s,
  check_bytes content = true -> check_bytes (push_converted_str content s) = true.
Proof. exact push_converted_str_valid. Qed.

Theorem C16_ident_from_handle_valid : forall s h, handle_from_str s = POk h ->
  exists i, ident_from_handle h = mkOut (POk i) false /\ check_bytes i = true.
Proof. exact ident_from_handle_valid. Qed.

Theorem C16_push_handle_valid : forall content s h, check_bytes content = true -> handle_from_str s = POk h ->
  check_bytes (push_handle content h) = true.
Proof. exact push_handle_valid. Qed.

Theorem C16_no_panic_ident_to_handle : forall s, ident_to_handle s <> PPanic.
Proof. exact no_panic_ident_to_handle. Qed.

Theorem C16_no_panic_split_storage_key : forall key, split_storage_key key <> PPanic.
Proof. exact no_panic_split_storage_key. Qed.

Theorem C16_split_key_name_is_ident_refuted :
  ~ (forall key ts name, check_bytes key = true -> split_storage_key key = POk (ts, name) -> check_bytes name = true).
Proof. exact split_key_name_is_ident_refuted. Qed.

Theorem C16_split_key_name_chars : forall key ts name, check_bytes key = true -> split_storage_key key = POk (ts, name) ->
  name <> [] /\ forallb ident_char name = true.
Proof. exact split_key_name_chars. Qed.

(** *** Request path, user agent, certificate name (daemon/http/request.rs, api/ca.rs) *)
Theorem C16_path_segments_spec : forall path, wf_utf8 path = true ->
  path_segments path = POk (split_byte 47 (match strip_prefix [47] path with Some r => r | None => path end)).
Proof. exact path_segments_spec. Qed.

Theorem C16_no_panic_path_segments : forall path, wf_utf8 path = true -> path_segments path <> PPanic.
Proof. exact no_panic_path_segments. Qed.

Theorem C16_no_panic_user_agent : forall value, user_agent value <> PPanic.
Proof. exact no_panic_user_agent. Qed.

Theorem C16_cert_object_name_no_panic_refuted :
  ~ (forall path, wf_utf8 path = true -> cert_object_name path <> PPanic).
Proof. exact cert_object_name_no_panic_refuted. Qed.

Theorem C16_no_panic_cert_object_name_ascii : forall path, all_ascii path = true -> cert_object_name path <> PPanic.
Proof. exact no_panic_cert_object_name_ascii. Qed.

Theorem C16_no_panic_cert_object_name_slash : forall path, wf_utf8 path = true -> rfind_byte 47 path <> None ->
  cert_object_name path <> PPanic.
Proof. exact no_panic_cert_object_name_slash. Qed.

(** URIs built from a handle (config.rs:1005-1013, server/ca/manager.rs:900-909), repaired tree
    (findings F16c / F16d, commit 27402048: the result used to be unwrapped and a handle with a
    backslash - accepted by rpki feature "compat" - panicked). *)
Theorem C16_no_panic_handle_uris : forall base h, rfc8181_uri base h <> PPanic /\ service_uri_for_ca base h <> PPanic.
Proof. exact no_panic_handle_uris. Qed.

Theorem C16_handle_uri_ok_without_backslash : forall base s h, valid_base base -> base <> [] ->
  handle_from_str s = POk h -> existsb (N.eqb 92) h = false ->
  rfc8181_uri base h = POk (base ++ RFC8181_SEG ++ h ++ [47]) /\
  service_uri_for_ca base h = POk (base ++ RFC6492_SEG ++ h).
Proof. exact handle_uri_ok_without_backslash. Qed.

(** *** ASPA / BGPsec notations (api/aspa.rs, api/bgpsec.rs; rpki Asn::from_str) *)
(** F16b: rpki's Asn::from_str slices [s[..2]] without a char-boundary check. *)
Theorem C16_rpki_asn_no_panic_refuted : ~ (forall s, wf_utf8 s = true -> rpki_asn_from_str s <> PPanic).
Proof. exact rpki_asn_no_panic_refuted. Qed.

Theorem C16_rpki_asn_panics_iff : forall s,
  rpki_asn_from_str s = PPanic <-> (2 < length s)%nat /\ is_char_boundary s 2 = false.
Proof. exact rpki_asn_panics_iff. Qed.

Theorem C16_rpki_asn_no_panic_ascii : forall s, all_ascii s = true -> rpki_asn_from_str s <> PPanic.
Proof. exact rpki_asn_no_panic_ascii. Qed.

Theorem C16_aspa_no_panic_refuted : ~ (forall s, wf_utf8 s = true -> aspa_from_str s <> PPanic).
Proof. exact aspa_no_panic_refuted. Qed.

Theorem C16_aspa_no_panic_ascii : forall s, all_ascii s = true -> aspa_from_str s <> PPanic.
Proof. exact aspa_no_panic_ascii. Qed.

Theorem C16_no_panic_bgpsec_key : forall s, bgpsec_key_from_str s <> PPanic.
Proof. exact no_panic_bgpsec_key. Qed.

(** *** All modelled functions together, and the link to the executable oracle *)
Theorem C16_model_no_panic : forall f s, panic_free_fn f = true -> wf_utf8 s = true -> o_res (model f s) <> PPanic.
Proof. exact model_no_panic. Qed.

Theorem C16_model_no_panic_ascii : forall f s, all_ascii s = true -> o_res (model f s) <> PPanic.
Proof. exact model_no_panic_ascii. Qed.

Theorem C16_model_no_debug_only_panic : forall f s, f <> FNrSpecific -> o_dbg (model f s) = false.
Proof. exact model_no_debug_only_panic. Qed.

Theorem C16_agreeing_case_ok : forall c,
  panic_free_fn (c_fn c) = true -> wf_utf8 (c_input c) = true -> agrees c = true -> c16_ok c = true.
Proof. exact agreeing_case_ok. Qed.

Print Assumptions C16_no_panic_as_number.
Print Assumptions C16_no_panic_typed_prefix.
Print Assumptions C16_no_panic_ipvx_prefix.
Print Assumptions C16_no_panic_payload.
Print Assumptions C16_payload_len_bound.
Print Assumptions C16_no_panic_config.
Print Assumptions C16_no_panic_updates.
Print Assumptions C16_no_panic_announcement.
Print Assumptions C16_agg_key_slice_safe.
Print Assumptions C16_no_panic_agg_key.
Print Assumptions C16_max_length_valid_iff.
Print Assumptions C16_no_panic_nr_of_specific_prefixes.
Print Assumptions C16_nr_specific_no_debug_panic_refuted.
Print Assumptions C16_nr_specific_debug_panic_iff.
Print Assumptions C16_nr_specific_except_known.
Print Assumptions C16_no_panic_prefix_resize.
Print Assumptions C16_no_panic_ident_from_bytes.
Print Assumptions C16_from_str_or_replace_valid.
Print Assumptions C16_push_converted_str_valid.
Print Assumptions C16_ident_from_handle_valid.
Print Assumptions C16_push_handle_valid.
Print Assumptions C16_no_panic_ident_to_handle.
Print Assumptions C16_no_panic_split_storage_key.
Print Assumptions C16_split_key_name_is_ident_refuted.
Print Assumptions C16_split_key_name_chars.
Print Assumptions C16_path_segments_spec.
Print Assumptions C16_no_panic_path_segments.
Print Assumptions C16_no_panic_user_agent.
Print Assumptions C16_cert_object_name_no_panic_refuted.
Print Assumptions C16_no_panic_cert_object_name_ascii.
Print Assumptions C16_no_panic_cert_object_name_slash.
Print Assumptions C16_no_panic_handle_uris.
Print Assumptions C16_handle_uri_ok_without_backslash.
Print Assumptions C16_rpki_asn_no_panic_refuted.
Print Assumptions C16_rpki_asn_panics_iff.
Print Assumptions C16_rpki_asn_no_panic_ascii.
Print Assumptions C16_aspa_no_panic_refuted.
Print Assumptions C16_aspa_no_panic_ascii.
Print Assumptions C16_no_panic_bgpsec_key.
Print Assumptions C16_model_no_panic.
Print Assumptions C16_model_no_panic_ascii.
Print Assumptions C16_model_no_debug_only_panic.
Print Assumptions C16_agreeing_case_ok.
