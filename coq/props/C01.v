(** C01 - The published tree is relying-party valid and says exactly what was configured.
    Only statements; proofs in rp/RoaDeriveProofs.v and rp/RpProofs.v. *)
From KV Require Import base.Tac ca.Ca rp.Rp rp.RoaDerive rp.RoaDeriveProofs rp.Sys rp.RpProofs.
Open Scope N_scope.

(** * L1 - products are derived exactly from configuration and certificate *)

(** ROAs: after create_updates + apply the payloads carried by the simple and aggregate ROAs of a class are exactly
    the configured routes whose prefix the certificate holds - whatever the previous ROAs were (any of the four
    modes, any mode switch), and simple and aggregate ROAs never exist side by side. *)
Theorem C01_roas_exact : forall (asn_of res_of simple_name aggr_name : N -> N) (sign : N -> list N -> obj)
    (r : roas) (routes : list N) (cert deagg agg : N) (u : rupd),
  wf asn_of r ->
  create_updates asn_of res_of simple_name aggr_name sign r routes cert deagg agg = Some u ->
  wf asn_of (apply_updates r u) /\
  (forall p : N, carries (apply_updates r u) p <-> In p routes /\ held res_of cert p = true).
Proof. exact roas_exact. Qed.

(** make_roa never refuses what create_updates asks it to sign (no empty and no mixed-AS authorisation list). *)
Theorem C01_create_updates_total : forall (asn_of res_of simple_name aggr_name : N -> N) (sign : N -> list N -> obj)
    (r : roas) (routes : list N) (cert deagg agg : N),
  create_updates asn_of res_of simple_name aggr_name sign r routes cert deagg agg <> None.
Proof. exact create_updates_total. Qed.

(** Over whole histories (arbitrary route sets and certificates at every step: shrink-then-regrow while aggregated,
    threshold crossings both ways, renewals in between): the derivation never fails and after the last derivation
    the ROAs say exactly what is configured and held. *)
Theorem C01_roas_history_total : forall (asn_of res_of simple_name aggr_name : N -> N) (sign : N -> list N -> obj)
    (deagg agg : N) (steps : list rstep) (r : roas),
  rsteps_run asn_of res_of simple_name aggr_name sign deagg agg r steps <> None.
Proof. exact roas_history_total. Qed.

Theorem C01_roas_exact_last : forall (asn_of res_of simple_name aggr_name : N -> N) (sign : N -> list N -> obj)
    (deagg agg : N) (steps : list rstep) (routes : list N) (cert : N) (r r' : roas),
  wf asn_of r ->
  rsteps_run asn_of res_of simple_name aggr_name sign deagg agg r (steps ++ [SDerive routes cert]) = Some r' ->
  forall p : N, carries r' p <-> In p routes /\ held res_of cert p = true.
Proof. exact roas_exact_last. Qed.

(** The renewal of a key-roll activation (rc.rs:581-592; create_renewal as repaired for finding F04c, 0ff85b31) keeps
    the invariant, and the payloads afterwards are exactly the payloads carried before that the certificate of the
    NEW key holds. *)
Theorem C01_renewal_fixed_exact : forall (asn_of res_of simple_name aggr_name : N -> N) (sign : N -> list N -> obj) (cert : N) (r : roas),
  wf asn_of r ->
  wf asn_of (apply_updates r (renewal_fixed res_of simple_name aggr_name sign cert r)) /\
  (forall p : N, carries (apply_updates r (renewal_fixed res_of simple_name aggr_name sign cert r)) p <->
                 carries r p /\ held res_of cert p = true).
Proof. exact renewal_fixed_exact. Qed.

(** Concretely: a class holding atoms {0,1} with payloads 1 (atom 0) and 3 (atom 1) whose new key is certified for atom 0
    only publishes payload 1 alone after activation, exactly as a derivation under that certificate would; an
    aggregate ROA keeps the authorisations that remain. *)
Theorem C01_renewal_fixed_no_overclaim :
  match ex_run [SDerive [1; 3] 3; SRenew 1] with Some r => payloads r = [1] | None => False end
  /\ match ex_run [SDerive [1; 3] 3; SDerive [1; 3] 1] with Some r => payloads r = [1] | None => False end
  /\ match ex_run [SDerive [1; 2; 3; 11] 3; SRenew 1] with
     | Some r => payloads r = [1; 2; 11] /\ map fst (ro_simple r) = []
     | None => False
     end.
Proof. exact renewal_fixed_no_overclaim. Qed.

(** Regression witnesses for F04c: the renewal of the originally pinned tree kept every payload without looking at the
    new certificate, and so left payload 3 published outside it. *)
Theorem C01_renewal_pinned_keeps : forall (asn_of simple_name aggr_name : N -> N) (sign : N -> list N -> obj) (r : roas),
  wf asn_of r ->
  wf asn_of (apply_updates r (renewal_pinned simple_name aggr_name sign r)) /\
  (forall p : N, carries (apply_updates r (renewal_pinned simple_name aggr_name sign r)) p <-> carries r p).
Proof. exact renewal_pinned_keeps. Qed.

Theorem C01_renewal_overclaims :
  match ex_run [SDerive [1; 3] 3] with
  | Some r => payloads (apply_updates r (renewal_pinned id id ex_sign r)) = [1; 3] /\ held ex_res 1 3 = false
  | None => False
  end.
Proof. exact renewal_overclaims. Qed.

(** The objects the API reports for a configured payload (configured_roas[*].roa_objects) are exactly the ROA objects
    of the class that carry it, and they are among the products handed to the published-object store. *)
Theorem C01_api_reports_repo_objects : forall (r : roas) (p : N) (o : obj),
  In o (reported r p) <-> exists k i, In (k, i) (ro_simple r ++ ro_aggr r) /\ In p (ri_auths i) /\ ri_obj i = o.
Proof. exact api_reports_repo_objects. Qed.

Theorem C01_reported_are_products : forall (simple_name aggr_name : N -> N) (r : roas) (p : N) (o : obj),
  In o (reported r p) -> In o (map snd (roa_objects simple_name aggr_name r)).
Proof. exact reported_are_products. Qed.

(** ASPAs: exactly the configured customers whose AS the certificate holds, each with exactly its providers. *)
Theorem C01_aspa_exact : forall (ares_of : N -> N) (sign : N -> list N -> obj) (buildable : N -> list N -> bool)
    (o : aobjs) (defs : list (N * list N)) (cert : N) (u : list (N * ainfo) * list N),
  NoDup (map fst defs) ->
  aspa_create_updates ares_of sign buildable o defs cert = Some u ->
  forall (c : N) (ps : list N),
  (exists i : ainfo, aget c (aspa_apply o u) = Some i /\ ai_providers i = ps) <->
  aget c defs = Some ps /\ aheld ares_of cert c = true.
Proof. exact aspa_exact. Qed.

Theorem C01_aspa_create_updates_total : forall (ares_of : N -> N) (sign : N -> list N -> obj) (buildable : N -> list N -> bool)
    (o : aobjs) (defs : list (N * list N)) (cert : N),
  (forall (c : N) (ps : list N), In (c, ps) defs -> buildable c ps = true) ->
  aspa_create_updates ares_of sign buildable o defs cert <> None.
Proof. exact aspa_create_updates_total. Qed.

(** Router certificates: exactly the configured (AS, key) pairs whose AS the certificate holds. *)
Theorem C01_bgpsec_exact : forall (kres_of : N -> N) (sign : N -> obj) (o : list (N * obj)) (defs : list N) (cert k : N),
  amem k (bgp_apply o (bgp_create_updates kres_of sign o defs cert)) = true <->
  nmem k defs = true /\ bheld kres_of cert k = true.
Proof. exact bgpsec_exact. Qed.

(** * L3 - manifests list exactly {CRL} + published objects, after every command *)

(** For every key set of every class, after any run of the pre-save listener: the stored CRL carries exactly the set's
    revocations and the stored manifest lists exactly that CRL and the published objects with their content identities. *)
Theorem C01_manifest_exact : forall (env : env) (cn : N -> N) (xo : xobjects) (evs : list event) (xo' : xobjects),
  xo_exact xo -> x_listener env cn xo evs = Ok xo' -> xo_exact xo'.
Proof. exact manifest_exact. Qed.

(** Every content-changing arm forces re-issuance: an event that does not force leaves every signed set untouched or
    adds a freshly signed one. *)
Theorem C01_noforce_keeps_exact : forall (env : env) (cn : N -> N) (xo : xobjects) (e : event) (xo' : xobjects),
  xo_exact xo -> x_listen1 env cn xo e = Ok (xo', false) -> xo_exact xo'.
Proof. exact noforce_keeps_exact. Qed.

Theorem C01_republish_exact : forall (env : env) (force : bool) (xo : xobjects),
  xo_exact xo -> xo_exact (x_re_issue env force xo).
Proof. exact republish_exact. Qed.

(** The signed store is the published-object store of ca/Ca.v plus the signed pair: the listener commutes with the
    projection (so L2 - products_ok / Mirror of CaCheck and CaMirrorProofs - speaks about the same sets). *)
Theorem C01_listener_projects : forall (env : env) (cn : N -> N) (xo : xobjects) (evs : list event),
  listener env cn (xo_proj xo) evs = lift_res xo_proj (x_listener env cn xo evs).
Proof. exact x_listener_proj. Qed.

Theorem C01_manifest_of_exact_set : forall (x : xset) (crl_name : N) (crl : robj)
    (products : list (N * robj)) (children : list (N * robj * tree)),
  x_exact x ->
  map (fun '(n, o) => (n, r_hash o)) products ++ map (fun '(n, o, _) => (n, r_hash o)) children =
  map (fun '(n, o) => (n, o_ser o)) (s_pub (x_set x)) ->
  expected_entries crl_name crl products children = (crl_name, r_hash crl) :: mf_entries (x_mft x) /\
  mf_crl (x_mft x) = x_crl x /\ cr_revoked (x_crl x) = map fst (s_rev (x_set x)) /\ mf_num (x_mft x) = cr_num (x_crl x).
Proof. exact manifest_of_exact_set. Qed.

(** * L4 - published products lie within the signing certificate (child certificates: C02 hypothesis) *)
Theorem C01_contained : forall (asn_of res_of simple_name aggr_name : N -> N) (sign : N -> list N -> obj) (r : roas)
    (routes : list N) (cert deagg agg : N) (u : rupd) (ares_of : N -> N) (asign : N -> list N -> obj)
    (buildable : N -> list N -> bool) (ao : list (N * ainfo)) (adefs : list (N * list N)) (au : list (N * ainfo) * list N)
    (kres_of : N -> N) (bsign : N -> obj) (bo : list (N * obj)) (bdefs : list N) (children : list (N * N)),
  wf asn_of r ->
  create_updates asn_of res_of simple_name aggr_name sign r routes cert deagg agg = Some u ->
  NoDup (map fst adefs) -> NoDup (map fst ao) ->
  aspa_create_updates ares_of asign buildable ao adefs cert = Some au ->
  NoDup (map fst bo) ->
  (forall k res : N, In (k, res) children -> subset res cert = true) ->
  forall res : N,
  In res (published_resources res_of ares_of kres_of (apply_updates r u) (aspa_apply ao au)
            (bgp_apply bo (bgp_create_updates kres_of bsign bo bdefs cert)) children) ->
  subset res cert = true.
Proof. exact contained. Qed.

(** L4 holds at key-roll activation too (no exception any more): after the renewal under the NEW key's certificate
    every ROA, ASPA and router certificate the class publishes lies within that certificate. *)
Theorem C01_contained_at_activation : forall (asn_of res_of simple_name aggr_name : N -> N) (sign : N -> list N -> obj)
    (r : roas) (cert : N) (ares_of : N -> N) (asign : N -> list N -> obj) (ao : list (N * ainfo))
    (kres_of : N -> N) (bsign : N -> obj) (bo : list (N * obj)) (children : list (N * N)),
  wf asn_of r -> NoDup (map fst ao) -> NoDup (map fst bo) ->
  (forall k res : N, In (k, res) children -> subset res cert = true) ->
  forall res : N,
  In res (published_resources res_of ares_of kres_of
            (apply_updates r (renewal_fixed res_of simple_name aggr_name sign cert r))
            (aspa_apply ao (aspa_renewal ares_of asign cert ao))
            (bgp_apply bo (bgp_renewal kres_of bsign cert bo)) children) ->
  subset res cert = true.
Proof. exact contained_at_activation. Qed.

Theorem C01_contained_fails_after_renewal :
  match ex_run [SDerive [1; 3] 3] with
  | Some r0 => let r := apply_updates r0 (renewal_pinned id id ex_sign r0) in
               existsb (fun '(_, i) => negb (subset (roa_res ex_res (ri_auths i)) 1)) (ro_simple r ++ ro_aggr r) = true
  | None => False
  end
  /\ match ex_run [SDerive [1; 3] 3; SRenew 1] with
     | Some r => forallb (fun '(_, i) => subset (roa_res ex_res (ri_auths i)) 1) (ro_simple r ++ ro_aggr r) = true /\ payloads r = [1]
     | None => False
     end.
Proof. exact contained_fails_after_renewal. Qed.

(** * L5 - after a successful synchronisation the publisher's content is the object store's elements *)
Theorem C01_repo_equals_objects_after_sync : forall (srv : list (N * N) -> list delem -> option (list (N * N)))
    (content elements : list (N * N)),
  server_applies_verified_delta srv ->
  NoDup (map fst content) ->
  exists content' : list (N * N),
    srv content (sync_delta content elements) = Some content' /\ NoDup (map fst content') /\
    (forall u : N, aget u content' = aget u (mapof elements)).
Proof. exact repo_equals_objects_after_sync. Qed.

Theorem C01_sync_idempotent : forall content elements : list (N * N),
  NoDup (map fst content) -> (forall u : N, aget u content = aget u (mapof elements)) -> sync_delta content elements = [].
Proof. exact sync_idempotent. Qed.

(** * Top - a quiescent hierarchy of arbitrary shape validates completely and says exactly its payloads *)
Theorem C01_validate_is_tree_result : forall (now : Z) (R : list (uri * robj)),
  NoDup (map fst R) ->
  forall (fuel : nat) (t : tree),
  (forall f : uri * robj, In f (repo_of t) -> In f R) -> good now t -> (depth t <= fuel)%nat ->
  validate_ca fuel now R (t_info t) = tree_result t.
Proof. exact validate_is_tree_result. Qed.

Theorem C01_rp_valid_and_exact : forall (now : Z) (R : list (uri * robj)) (t : tree) (fuel : nat),
  NoDup (map fst R) ->
  (forall f : uri * robj, In f (repo_of t) -> In f R) ->
  (forall (u : uri) (o : robj), In (u, o) R -> In (fst u) (tree_dirs t) -> In u (map fst (repo_of t))) ->
  good now t ->
  (depth t <= fuel)%nat ->
  let rep := validate fuel now R (t_info t) in
  rejected (rep_res rep) = [] /\ missing (rep_res rep) = [] /\ rep_unlisted rep = [] /\ nofuel (rep_res rep) = false /\
  (forall u : uri, In u (accepted (rep_res rep)) <-> In u (map fst (repo_of t))) /\
  vrps (rep_res rep) = tree_vrps t /\ aspas (rep_res rep) = tree_aspas t /\ rkeys (rep_res rep) = tree_rkeys t.
Proof. exact rp_valid_and_exact. Qed.

Print Assumptions C01_roas_exact.
Print Assumptions C01_create_updates_total.
Print Assumptions C01_roas_history_total.
Print Assumptions C01_roas_exact_last.
Print Assumptions C01_renewal_fixed_exact.
Print Assumptions C01_renewal_fixed_no_overclaim.
Print Assumptions C01_renewal_pinned_keeps.
Print Assumptions C01_renewal_overclaims.
Print Assumptions C01_api_reports_repo_objects.
Print Assumptions C01_reported_are_products.
Print Assumptions C01_aspa_exact.
Print Assumptions C01_aspa_create_updates_total.
Print Assumptions C01_bgpsec_exact.
Print Assumptions C01_manifest_exact.
Print Assumptions C01_noforce_keeps_exact.
Print Assumptions C01_republish_exact.
Print Assumptions C01_listener_projects.
Print Assumptions C01_manifest_of_exact_set.
Print Assumptions C01_contained.
Print Assumptions C01_contained_at_activation.
Print Assumptions C01_contained_fails_after_renewal.
Print Assumptions C01_repo_equals_objects_after_sync.
Print Assumptions C01_sync_idempotent.
Print Assumptions C01_validate_is_tree_result.
Print Assumptions C01_rp_valid_and_exact.
