(** C15 - Trust-anchor proxy and signer only accept each other's fresh messages.
    Only statements: each theorem is closed by [exact] of a lemma proved in ta/TaProofs.v.
    [validate] is the signature validation function; [SigSound validate] (validation under key k
    succeeds iff the message was signed with k and its clear text is the signed content) is the only
    assumption about cryptography and is a hypothesis of the theorems that need it. *)
From KV Require Import base.Tac ta.TaProxy ta.TaSigner ta.TaProofs.
Open Scope N_scope.

(** The proxy accepts a signer response iff it carries the nonce of the open request and the intact
    signature of the associated signer. *)
Theorem C15_response_accepted_iff : forall validate, SigSound validate -> forall p m,
  (exists p', p_step validate p (PResponse m) = POk p') <->
  (exists n si, p_open p = Some n /\ m_nonce m = n /\ p_signer p = Some si
                /\ m_by m = si_id si /\ m_intact m = true).
Proof. exact response_accepted_iff. Qed.

Theorem C15_response_accepted_effect : forall validate p m p',
  p_step validate p (PResponse m) = POk p' ->
  p_open p' = None /\ p_id p' = p_id p
  /\ (exists si, p_signer p = Some si /\ p_signer p' = Some (mkSI (si_id si) (si_ta si) (r_objs (m_content m))))
  /\ p_children p' = apply_resp_children (p_children p) (r_children (m_content m)).
Proof. exact response_accepted_effect. Qed.

(** Anything refused leaves proxy and signer as they were; no accepted command can make apply panic. *)
Theorem C15_refused_no_change : forall validate p c,
  (forall p', p_step validate p c <> POk p') -> p_after validate p c = p.
Proof. exact refused_no_change. Qed.

Theorem C15_refused_no_change_error : forall validate p c e,
  p_process validate p c = Err e -> p_step validate p c = PErr e /\ p_after validate p c = p.
Proof. exact refused_no_change_error. Qed.

Theorem C15_signer_refused_no_change : forall validate s m ov e,
  s_process validate s m ov = Err e -> s_after validate s m ov = s.
Proof. exact signer_refused_no_change. Qed.

Theorem C15_step_never_panics : forall validate p c, p_step validate p c <> PPanic.
Proof. exact step_never_panics. Qed.

(** The signer processes a request iff it carries the associated proxy's intact signature (and every
    child request in it can be carried out). *)
Theorem C15_signer_processes_iff_signed_by_proxy : forall validate, SigSound validate -> forall s m ov,
  (exists s' r, s_process validate s m ov = Ok (s', r)) <->
  (m_by m = s_proxy s /\ m_intact m = true
   /\ exists x, process_children (o_issued (s_objs s)) (m_content m) = Ok x).
Proof. exact signer_processes_iff_signed_by_proxy. Qed.

(** One open request at a time; it is closed only by an accepted response that carries its nonce. *)
Theorem C15_one_open_request : forall validate, SigSound validate ->
  (forall p n, (exists p', p_step validate p (PMake n) = POk p') <-> p_open p = None)
  /\ (forall p n p', p_step validate p (PMake n) = POk p' -> p_open p' = Some n)
  /\ (forall p n0 n, p_open p = Some n0 -> p_step validate p (PMake n) = PErr EHasRequest)
  /\ (forall p c p' n, p_open p = Some n -> p_step validate p c = POk p' ->
        p_open p' = Some n \/ (exists m, c = PResponse m /\ m_nonce m = n /\ p_open p' = None)).
Proof. exact one_open_request. Qed.

(** Well-formedness (unique child handles and request keys) and admission of stored requests are invariants. *)
Theorem C15_wf_proxy_step : forall validate p c p',
  wf_proxy p -> p_step validate p c = POk p' -> wf_proxy p'.
Proof. exact wf_proxy_step. Qed.

Theorem C15_reqs_wf_step : forall validate p c p',
  reqs_wf p -> p_step validate p c = POk p' -> reqs_wf p'.
Proof. exact reqs_wf_step. Qed.

(** Every child request that was forwarded gets exactly one response, handed to the child exactly once
    -- provided the request the signer answered is the proxy's current one when the response arrives
    (hypothesis [p_get_request p = Some req]; without it: candidate finding F15a, TaProofs.late_request_dropped). *)
Theorem C15_exactly_one_response_delivered_once : forall validate p s req ov s' resp p',
  wf_proxy p ->
  p_get_request p = Some req ->
  s_process validate s req ov = Ok (s', resp) ->
  p_step validate p (PResponse resp) = POk p' ->
  forall c k r, open_req p c k = Some r ->
    open_resp p' c k = Some (answer r) /\ req_matches_resp r (answer r) = true
    /\ open_req p' c k = None
    /\ exists p'', child_call validate p' c k r = (ODelivered (answer r), p'')
                   /\ open_resp p'' c k = None
                   /\ forall a, fst (child_call validate p'' c k r) <> ODelivered a.
Proof. exact exactly_one_response_delivered_once. Qed.

Theorem C15_no_spurious_response : forall validate p s req ov s' resp p',
  wf_proxy p ->
  p_get_request p = Some req ->
  s_process validate s req ov = Ok (s', resp) ->
  p_step validate p (PResponse resp) = POk p' ->
  forall c k a, open_resp p' c k = Some a ->
    open_resp p c k = Some a \/ exists r, open_req p c k = Some r /\ a = answer r.
Proof. exact no_spurious_response. Qed.

(** The TA manifest/CRL number only ever increases, for every sequence of operations of an environment
    that may replay, re-order, drop, alter and cross-wire messages at will but cannot forge an intact
    signature of proxy or signer, with fresh nonces and forced numbers above the current one ([ops_ok]).
    Every accepted response is one the associated signer made, and strictly raises the proxy's number;
    every processed request is one the proxy made, and strictly raises the signer's number. *)
Theorem C15_ta_numbers_increase : forall validate, SigSound validate -> forall y0 pre o post,
  sys_init y0 -> ops_ok validate y0 (pre ++ o :: post) ->
  let y := sys_run validate y0 pre in
  let y' := sys_step validate y o in
  pnum (y_p y0) <= pnum (y_p y) /\ snum (y_s y0) <= snum (y_s y)
  /\ pnum (y_p y) <= pnum (y_p y') /\ snum (y_s y) <= snum (y_s y')
  /\ pnum (y_p y') <= pnum (y_p (sys_run validate y0 (pre ++ o :: post)))
  /\ (forall m p', o = YRespond m -> p_step validate (y_p y) (PResponse m) = POk p' ->
        pnum (y_p y) < pnum p' /\ In m (y_resps y))
  /\ (forall m ov s' r, o = YSign m ov -> s_process validate (y_s y) m ov = Ok (s', r) ->
        snum (y_s y) < snum s' /\ rnum r = snum s' /\ In m (y_reqs y)).
Proof. exact ta_numbers_increase. Qed.

(** An open signer request is always completed by one honest exchange (repaired tree, after F15b): for
    every history of disciplined operation -- the signer only ever sees the proxy's current request and
    its answer is handed back before it sees another one ([HExchange]); children call in at any time with
    any admissible request, each key belonging to one child ([owner]); any response message whatsoever may
    be handed to the proxy at any time ([HRespond], no forged signer signatures); fresh nonces. *)
Theorem C15_exchange_always_completes : forall validate, SigSound validate -> forall owner y0 hs,
  sys_init y0 -> p_children (y_p y0) = [] -> hops_ok validate owner y0 hs ->
  let y := hop_run validate y0 hs in
  forall n, p_open (y_p y) = Some n ->
    exists req s' resp p', p_get_request (y_p y) = Some req
      /\ s_process validate (y_s y) req None = Ok (s', resp)
      /\ p_step validate (y_p y) (PResponse resp) = POk p' /\ p_open p' = None.
Proof. exact exchange_always_completes. Qed.

(** Against an ARBITRARY environment the same statement ([exchange_completes_any_env], a Definition in
    TaProofs.v: some response in flight is acceptable, or the signer answers the current request) is
    REFUTED: the signer keeps no memory of nonces; when it answers two versions of one request and the
    older answer is handed to the proxy, a revocation it has already carried out is asked for again and
    fails for ever (witness [desync_ops]). *)
Theorem C15_exchange_completes_any_env_refuted : forall validate, SigSound validate ->
  ~ exchange_completes_any_env validate.
Proof. exact exchange_completes_any_env_refuted. Qed.

Theorem C15_desync_no_new_request :
  let y := sys_run validate_std desync_y0 desync_ops in
  p_open (y_p y) = Some 3
  /\ s_process validate_std (y_s y) (mkMsg 3 1 true (current_requests (y_p y))) None = Err SUnknownKey
  /\ forall n, p_step validate_std (y_p y) (PMake n) = PErr EHasRequest.
Proof. exact desync_no_new_request. Qed.

(** One exchange, any state: unless some open revocation names a key the signer holds no certificate for
    ([Known_C15]), the exchange completes and closes the open request. *)
Theorem C15_exchange_completes_except_known : forall validate, SigSound validate -> forall p s n,
  p_open p = Some n ->
  (exists si, p_signer p = Some si /\ si_id si = s_id s) -> s_proxy s = p_id p ->
  wf_proxy p -> reqs_wf p ->
  NoDup (all_keys (current_requests p)) ->
  ~ Known_C15 p s ->
  exists req s' resp p', p_get_request p = Some req
    /\ s_process validate s req None = Ok (s', resp)
    /\ p_step validate p (PResponse resp) = POk p' /\ p_open p' = None.
Proof. exact exchange_completes_except_known. Qed.

(** add_child of a known handle is refused and changes nothing - whatever ID certificate comes with it;
    a new handle starts with nothing used and nothing open, and no other child is touched. *)
Theorem C15_add_known_child_refused : forall validate p c i ch,
  aget c (p_children p) = Some ch ->
  p_step validate p (PAddChild c i) = PErr EDupChild /\ p_after validate p (PAddChild c i) = p.
Proof. exact add_known_child_refused. Qed.

Theorem C15_add_child_accepted_iff : forall validate p c i,
  (exists p', p_step validate p (PAddChild c i) = POk p') <-> aget c (p_children p) = None.
Proof. exact add_child_accepted_iff. Qed.

Theorem C15_add_new_child_effect : forall validate p c i p',
  p_step validate p (PAddChild c i) = POk p' ->
  aget c (p_children p) = None /\ aget c (p_children p') = Some (new_child i)
  /\ forall c', c' <> c -> aget c' (p_children p') = aget c' (p_children p).
Proof. exact add_new_child_effect. Qed.

(** A response that waits for a child leaves the proxy only by the hand-over to that child (or by an accepted
    signer response); no command other than an accepted signer response changes what is known about a used key. *)
Theorem C15_pending_response_kept : forall validate p cmd p' c k a,
  p_step validate p cmd = POk p' -> open_resp p c k = Some a ->
  open_resp p' c k = Some a \/ cmd = PGive c k \/ (exists m, cmd = PResponse m).
Proof. exact pending_response_kept. Qed.

Theorem C15_used_keys_kept : forall validate p cmd p' c k u,
  p_step validate p cmd = POk p' -> (forall m, cmd <> PResponse m) -> used_key p c k = Some u -> used_key p' c k = Some u.
Proof. exact used_keys_kept. Qed.

(** The intended validation function satisfies the assumption (so the theorems are not vacuous). *)
Theorem C15_validate_std_sound : SigSound validate_std.
Proof. exact validate_std_sound. Qed.

Print Assumptions C15_response_accepted_iff.
Print Assumptions C15_response_accepted_effect.
Print Assumptions C15_refused_no_change.
Print Assumptions C15_refused_no_change_error.
Print Assumptions C15_signer_refused_no_change.
Print Assumptions C15_step_never_panics.
Print Assumptions C15_signer_processes_iff_signed_by_proxy.
Print Assumptions C15_one_open_request.
Print Assumptions C15_wf_proxy_step.
Print Assumptions C15_reqs_wf_step.
Print Assumptions C15_exactly_one_response_delivered_once.
Print Assumptions C15_no_spurious_response.
Print Assumptions C15_ta_numbers_increase.
Print Assumptions C15_exchange_always_completes.
Print Assumptions C15_exchange_completes_any_env_refuted.
Print Assumptions C15_desync_no_new_request.
Print Assumptions C15_exchange_completes_except_known.
Print Assumptions C15_validate_std_sound.
Print Assumptions C15_add_known_child_refused.
Print Assumptions C15_add_child_accepted_iff.
Print Assumptions C15_add_new_child_effect.
Print Assumptions C15_pending_response_kept.
Print Assumptions C15_used_keys_kept.
