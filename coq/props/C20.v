(** C20 - Only genuine credentials authenticate, and only as the configured identity.
    Only statements: each theorem is closed by [exact] of a lemma proved in authn/AuthProofs.v / authn/AuthTie.v.

    Reading guide. [P : prims] are the primitives outside the model (scrypt password check, trim + NFKC,
    ChaCha20-Poly1305, serde_json, base64); what is assumed of them is a premise of each theorem:
    [crypto_ok P] (decryption under a key succeeds only on outputs of encryption under that key and returns the
    encrypted plaintext; round trips), [own_ct P key log b] (key secrecy: if the presented bearer [b] is a
    ciphertext under the instance key at all, it is one the instance's login produced), [b64_strict P], [key_sep P].
    [run P st0 ops = Some (st, log)]: the daemon reached state [st] from its start by the requests [ops]; [log] is
    the list of tokens its login handed out. *)
From Coq Require Import String.
From KV Require Import base.Tac auth.Perm auth.Routes authn.AuthChain authn.AuthToy authn.AuthProofs authn.AuthTie.
From KV Require Import gen.GenAuthn gen.GenRoutes.
Open Scope N_scope.

(** Tie to the source *)
Theorem C20_authn_shapes_recognised : gen_authn_unrecognised = [].
Proof. exact authn_shapes_recognised. Qed.

Theorem C20_chain_shapes_recognised : gen_shapes_unrecognised = [].
Proof. exact chain_shapes_recognised. Qed.

(** Who a request acts as (one life of the daemon) *)
Theorem C20_auth_identity : forall P cfg key st0 ops st log rq st' u r,
  crypto_ok P -> start cfg key = Some st0 -> run P st0 ops = Some (st, log) -> no_restart ops ->
  (forall b, rq_bearer rq = Some b -> own_ct P key log b) ->
  authenticate P st rq = (st', AUser u r) ->
  (rq_bearer rq = Some (cf_admin_token cfg) /\ u = admin_actor /\ r = role_admin)
  \/ (exists b i, rq_bearer rq = Some b /\ In i log /\ same_bytes P b (is_tok i) /\ u = s_user (is_sess i)
        /\ login_facts P cfg (is_sess i) /\ cfg_role cfg u = Some r)
  \/ (exists rn, rq_tr rq = Unix u /\ alookup u (cf_unix cfg) = Some rn /\ alookup rn (cf_roles cfg) = Some r).
Proof. exact auth_identity. Qed.

Theorem C20_auth_identity_strict : forall P cfg key st0 ops st log rq st' u r,
  crypto_ok P -> b64_strict P -> start cfg key = Some st0 -> run P st0 ops = Some (st, log) -> no_restart ops ->
  (forall b, rq_bearer rq = Some b -> own_ct P key log b) ->
  authenticate P st rq = (st', AUser u r) ->
  (rq_bearer rq = Some (cf_admin_token cfg) /\ u = admin_actor /\ r = role_admin)
  \/ (exists i, In i log /\ rq_bearer rq = Some (is_tok i) /\ u = s_user (is_sess i)
        /\ login_facts P cfg (is_sess i) /\ cfg_role cfg u = Some r)
  \/ (exists rn, rq_tr rq = Unix u /\ alookup u (cf_unix cfg) = Some rn /\ alookup rn (cf_roles cfg) = Some r).
Proof. exact auth_identity_strict. Qed.

(** Across restarts with an edited configuration: the strongest statement that holds ... *)
Theorem C20_auth_identity_any_run : forall P cfg key st0 ops st log rq st' u r,
  crypto_ok P -> start cfg key = Some st0 -> run P st0 ops = Some (st, log) ->
  (forall b, rq_bearer rq = Some b -> own_ct P key log b) ->
  authenticate P st rq = (st', AUser u r) ->
  (rq_bearer rq = Some (cf_admin_token (i_cfg st)) /\ u = admin_actor /\ r = role_admin)
  \/ (exists b i, rq_bearer rq = Some b /\ In i log /\ same_bytes P b (is_tok i) /\ u = s_user (is_sess i)
        /\ login_facts P (is_cfg i) (is_sess i)
        /\ alookup (s_role (is_sess i)) (cf_roles (i_cfg st)) = Some r)
  \/ (exists rn, rq_tr rq = Unix u /\ alookup u (cf_unix (i_cfg st)) = Some rn
        /\ alookup rn (cf_roles (i_cfg st)) = Some r).
Proof. exact auth_identity_any_run. Qed.

(** ... and the statement with "the role the configuration now gives that user", which fails (candidate F20c) *)
Theorem C20_auth_identity_restart_refuted : ~ auth_identity_restart_full.
Proof. exact auth_identity_restart_refuted. Qed.

Theorem C20_token_valid_forever : forall P cfg key st0 ops st log i r tr,
  crypto_ok P -> start cfg key = Some st0 -> run P st0 ops = Some (st, log) ->
  In i log -> cf_auth (i_cfg st) = ConfigFile -> is_tok i <> cf_admin_token (i_cfg st) ->
  alookup (s_role (is_sess i)) (cf_roles (i_cfg st)) = Some r ->
  snd (authenticate P st (mkRq (Some (is_tok i)) tr)) = AUser (s_user (is_sess i)) r.
Proof. exact token_valid_forever. Qed.

(** Login *)
Theorem C20_login_iff : forall P st name pw b id rn,
  cf_auth (i_cfg st) = ConfigFile -> names_normal P (i_cfg st) ->
  ((exists st' tok, login P st (Some (name, pw)) b = (st', LOk tok id rn)) <->
   (exists d r, alookup name (cf_users (i_cfg st)) = Some d /\ u_salt_hex d = true
      /\ p_pw_ok P (u_cred d) name (p_norm P pw) = true
      /\ alookup (u_role d) (cf_roles (i_cfg st)) = Some r /\ is_allowed r Login None = true
      /\ id = name /\ rn = u_role d)).
Proof. exact login_iff. Qed.

Theorem C20_login_sound : forall P st name pw b st' tok id rn,
  crypto_ok P -> cf_auth (i_cfg st) = ConfigFile ->
  login P st (Some (name, pw)) b = (st', LOk tok id rn) ->
  id = p_norm P name /\ login_facts P (i_cfg st) (mkSess id rn).
Proof. exact login_sound. Qed.

(** Without the hypothesis on the configured names both directions fail (candidate F20b) *)
Theorem C20_login_identity_refuted : ~ login_identity_full.
Proof. exact login_identity_refuted. Qed.

Theorem C20_login_complete_refuted : ~ login_complete_full.
Proof. exact login_complete_refuted. Qed.

(** A credential that is not genuine gains nothing *)
Theorem C20_bad_credential_no_gain : forall P cfg key st0 ops st log b tr,
  crypto_ok P -> start cfg key = Some st0 -> run P st0 ops = Some (st, log) ->
  own_ct P key log b -> ~ genuine P (i_cfg st) log b ->
  authenticate P st (mkRq (Some b) tr) = authenticate P st (mkRq None tr).
Proof. exact bad_credential_no_gain. Qed.

Theorem C20_refused_everywhere : forall P cfg key st0 ops st log b tr,
  crypto_ok P -> start cfg key = Some st0 -> run P st0 ops = Some (st, log) ->
  own_ct P key log b -> ~ genuine P (i_cfg st) log b ->
  (tr = Tcp \/ exists p, tr = Unix p /\ alookup p (cf_unix (i_cfg st)) = None) ->
  let a := snd (authenticate P st (mkRq (Some b) tr)) in
  (forall p res, allowed a p res = false)
  /\ (forall tb q r, find_route spec_routes q = Some r -> rt_gates r <> [] ->
        authorize spec_routes tb (to_auth a) q <> Served)
  /\ actor_name a = "anonymous"%string.
Proof. exact refused_everywhere. Qed.

Theorem C20_bad_credential_unix_peer : forall P cfg key st0 ops st log b p r,
  crypto_ok P -> start cfg key = Some st0 -> run P st0 ops = Some (st, log) ->
  own_ct P key log b -> ~ genuine P (i_cfg st) log b -> alookup p (i_unix st) = Some r ->
  authenticate P st (mkRq (Some b) (Unix p)) = (st, AUser p r).
Proof. exact bad_credential_unix_peer. Qed.

Theorem C20_other_instance_token_rejected :
  forall P cfgA keyA stA0 opsA stA logA cfgB keyB stB0 opsB stB logB i tr,
  crypto_ok P -> key_sep P -> keyA <> keyB ->
  start cfgA keyA = Some stA0 -> run P stA0 opsA = Some (stA, logA) ->
  start cfgB keyB = Some stB0 -> run P stB0 opsB = Some (stB, logB) ->
  In i logB -> is_tok i <> cf_admin_token (i_cfg stA) ->
  authenticate P stA (mkRq (Some (is_tok i)) tr) = authenticate P stA (mkRq None tr).
Proof. exact other_instance_token_rejected. Qed.

(** Nonces *)
Theorem C20_nonces_fresh : forall P cfg key st0 ops st log,
  crypto_ok P -> start cfg key = Some st0 -> run P st0 ops = Some (st, log) -> no_restart ops ->
  NoDup (map is_nonce log).
Proof. exact nonces_fresh. Qed.

Theorem C20_nonce_reuse_after_restart :
  exists P cfg key st0 ops st log i j,
    crypto_ok P /\ start cfg key = Some st0 /\ run P st0 ops = Some (st, log)
    /\ In i log /\ In j log /\ is_nonce i = is_nonce j /\ is_sess i <> is_sess j.
Proof. exact nonce_reuse_after_restart. Qed.

(** The hypotheses can be met together *)
Theorem C20_toy_crypto_ok : forall norms creds,
  crypto_ok (toy norms creds) /\ b64_strict (toy norms creds) /\ key_sep (toy norms creds).
Proof. exact (fun n c => conj (toy_crypto_ok n c) (conj (toy_b64_strict n c) (toy_key_sep n c))). Qed.

Print Assumptions C20_authn_shapes_recognised.
Print Assumptions C20_chain_shapes_recognised.
Print Assumptions C20_auth_identity.
Print Assumptions C20_auth_identity_strict.
Print Assumptions C20_auth_identity_any_run.
Print Assumptions C20_auth_identity_restart_refuted.
Print Assumptions C20_token_valid_forever.
Print Assumptions C20_login_iff.
Print Assumptions C20_login_sound.
Print Assumptions C20_login_identity_refuted.
Print Assumptions C20_login_complete_refuted.
Print Assumptions C20_bad_credential_no_gain.
Print Assumptions C20_refused_everywhere.
Print Assumptions C20_bad_credential_unix_peer.
Print Assumptions C20_other_instance_token_rejected.
Print Assumptions C20_nonces_fresh.
Print Assumptions C20_nonce_reuse_after_restart.
Print Assumptions C20_toy_crypto_ok.
