(** C20 - Only genuine credentials authenticate, and only as the configured identity.
    Only statements: each theorem is closed by [exact] of a lemma proved in authn/AuthProofs.v / authn/AuthTie.v.

    Reading guide. [P : prims] are the primitives outside the model (scrypt password check, trim + NFKC,
    ChaCha20-Poly1305, serde_json, base64); what is assumed of them is a premise of each theorem:
    [crypto_ok P] (decryption under a key succeeds only on outputs of encryption under that key and returns the
    encrypted plaintext; round trips), [own_ct P key log b] (key secrecy: if the presented bearer [b] is a
    ciphertext under the instance key at all, it is one the instance's login produced), [b64_strict P], [key_sep P].
    [start cfg key sender = Some st0]: a daemon started on a storage holding session key [key]; [sender] is the
    random sender id of its nonces. [run P st0 ops = Some (st, log)]: it reached state [st] by the requests and
    restarts [ops] (a restart may come with an edited configuration and draws a new sender id); [log] is the list
    of tokens its logins handed out.

    The model describes the tree with the repairs e31fb922 (F20d), a6855108 (F20b), a7a0b51d (F20c). The
    theorems named [..._pinned...] are regression witnesses: the same statements are refuted for the model of the
    originally pinned tree ([pinned] in authn/AuthChain.v). *)
From Coq Require Import String.
From KV Require Import base.Tac auth.Perm auth.Routes authn.AuthChain authn.AuthToy authn.AuthProofs authn.AuthTie.
From KV Require Import gen.GenAuthn gen.GenRoutes.
Open Scope N_scope.

(** Tie to the source *)
Theorem C20_authn_shapes_recognised : gen_authn_unrecognised = [].
Proof. exact authn_shapes_recognised. Qed.

Theorem C20_chain_shapes_recognised : gen_shapes_unrecognised = [].
Proof. exact chain_shapes_recognised. Qed.

(** Who a request acts as - in every run, restarts with an edited configuration included: the role is the one
    the configuration gives the user NOW, and a user who is no longer configured is nobody. *)
Theorem C20_auth_identity : forall P cfg key sender st0 ops st log rq st' u r,
  crypto_ok P -> start cfg key sender = Some st0 -> run P st0 ops = Some (st, log) ->
  (forall b, rq_bearer rq = Some b -> own_ct P key log b) ->
  authenticate P st rq = (st', AUser u r) ->
  (rq_bearer rq = Some (cf_admin_token (i_cfg st)) /\ u = admin_actor /\ r = role_admin)
  \/ (exists b i, rq_bearer rq = Some b /\ In i log /\ same_bytes P b (is_tok i) /\ u = s_user (is_sess i)
        /\ login_facts P (is_cfg i) (is_sess i) /\ cfg_role (i_cfg st) u = Some r)
  \/ (exists rn, rq_tr rq = Unix u /\ alookup u (cf_unix (i_cfg st)) = Some rn
        /\ alookup rn (cf_roles (i_cfg st)) = Some r).
Proof. exact auth_identity. Qed.

Theorem C20_auth_identity_strict : forall P cfg key sender st0 ops st log rq st' u r,
  crypto_ok P -> b64_strict P -> start cfg key sender = Some st0 -> run P st0 ops = Some (st, log) ->
  (forall b, rq_bearer rq = Some b -> own_ct P key log b) ->
  authenticate P st rq = (st', AUser u r) ->
  (rq_bearer rq = Some (cf_admin_token (i_cfg st)) /\ u = admin_actor /\ r = role_admin)
  \/ (exists i, In i log /\ rq_bearer rq = Some (is_tok i) /\ u = s_user (is_sess i)
        /\ login_facts P (is_cfg i) (is_sess i) /\ cfg_role (i_cfg st) u = Some r)
  \/ (exists rn, rq_tr rq = Unix u /\ alookup u (cf_unix (i_cfg st)) = Some rn
        /\ alookup rn (cf_roles (i_cfg st)) = Some r).
Proof. exact auth_identity_strict. Qed.

(** regression witness F20c: on the pinned tree a removed user's token kept its role *)
Theorem C20_auth_identity_pinned_refuted : ~ auth_identity_on pinned.
Proof. exact auth_identity_pinned_refuted. Qed.

(** Token lifetime: no expiry, logout and cache eviction do not revoke - within the configured user set *)
Theorem C20_token_valid_forever : forall P cfg key sender st0 ops st log i r tr,
  crypto_ok P -> start cfg key sender = Some st0 -> run P st0 ops = Some (st, log) ->
  In i log -> cf_auth (i_cfg st) = ConfigFile -> is_tok i <> cf_admin_token (i_cfg st) ->
  cfg_role (i_cfg st) (s_user (is_sess i)) = Some r ->
  snd (authenticate P st (mkRq (Some (is_tok i)) tr)) = AUser (s_user (is_sess i)) r.
Proof. exact token_valid_forever. Qed.

Theorem C20_removed_user_token_refused : forall P cfg key sender st0 ops st log i tr,
  crypto_ok P -> start cfg key sender = Some st0 -> run P st0 ops = Some (st, log) ->
  In i log -> cf_auth (i_cfg st) = ConfigFile -> is_tok i <> cf_admin_token (i_cfg st) ->
  alookup (s_user (is_sess i)) (cf_users (i_cfg st)) = None ->
  snd (authenticate P st (mkRq (Some (is_tok i)) tr)) = snd (authenticate P st (mkRq None tr)).
Proof. exact removed_user_token_refused. Qed.

(** Login: exactly the configured user of the submitted name with the matching password whose role permits
    login, as that user - for every configuration *)
Theorem C20_login_iff : forall P st name pw b id rn,
  cf_auth (i_cfg st) = ConfigFile ->
  ((exists st' tok, login P st (Some (name, pw)) b = (st', LOk tok id rn)) <->
   (exists d r, alookup name (cf_users (i_cfg st)) = Some d /\ u_salt_hex d = true
      /\ p_pw_ok P (u_cred d) (p_norm P name) (p_norm P pw) = true
      /\ alookup (u_role d) (cf_roles (i_cfg st)) = Some r /\ is_allowed r Login None = true
      /\ id = name /\ rn = u_role d)).
Proof. exact login_iff. Qed.

Theorem C20_login_identity : forall P st name pw b st' tok id rn,
  crypto_ok P -> cf_auth (i_cfg st) = ConfigFile ->
  login P st (Some (name, pw)) b = (st', LOk tok id rn) ->
  exists d, alookup name (cf_users (i_cfg st)) = Some d /\ id = name /\ rn = u_role d
            /\ p_pw_ok P (u_cred d) (p_norm P name) (p_norm P pw) = true.
Proof. exact login_identity. Qed.

Theorem C20_login_complete : forall P st name pw b d r,
  crypto_ok P -> cf_auth (i_cfg st) = ConfigFile ->
  alookup name (cf_users (i_cfg st)) = Some d -> u_salt_hex d = true ->
  p_pw_ok P (u_cred d) (p_norm P name) (p_norm P pw) = true ->
  alookup (u_role d) (cf_roles (i_cfg st)) = Some r -> is_allowed r Login None = true ->
  exists st' tok, login P st (Some (name, pw)) b = (st', LOk tok name (u_role d)).
Proof. exact login_complete. Qed.

(** What still depends on the form of a configured name: the name that went into the weak salt when the stored
    hash was made ([n0]; `krillc config user` takes NFKC(id) without trimming) must be the trimmed NFKC form the
    daemon computes - a configured name with an outer blank cannot log in (AuthProofs.login_blank_name_witness) *)
Theorem C20_login_needs_salt_name : forall P st name pw b d r n0,
  cf_auth (i_cfg st) = ConfigFile ->
  alookup name (cf_users (i_cfg st)) = Some d -> u_salt_hex d = true ->
  made_from P (u_cred d) n0 (p_norm P pw) ->
  alookup (u_role d) (cf_roles (i_cfg st)) = Some r -> is_allowed r Login None = true ->
  ((exists st' tok, login P st (Some (name, pw)) b = (st', LOk tok name (u_role d))) <-> p_norm P name = n0).
Proof. exact login_needs_salt_name. Qed.

(** regression witnesses F20b: on the pinned tree both directions failed *)
Theorem C20_login_identity_pinned_refuted : ~ login_identity_on (login_with pinned).
Proof. exact login_identity_pinned_refuted. Qed.

Theorem C20_login_complete_pinned_refuted : ~ login_complete_on (login_with pinned).
Proof. exact login_complete_pinned_refuted. Qed.

(** A credential that is not genuine gains nothing *)
Theorem C20_bad_credential_no_gain : forall P cfg key sender st0 ops st log b tr,
  crypto_ok P -> start cfg key sender = Some st0 -> run P st0 ops = Some (st, log) ->
  own_ct P key log b -> ~ genuine P (i_cfg st) log b ->
  authenticate P st (mkRq (Some b) tr) = authenticate P st (mkRq None tr).
Proof. exact bad_credential_no_gain. Qed.

Theorem C20_refused_everywhere : forall P cfg key sender st0 ops st log b tr,
  crypto_ok P -> start cfg key sender = Some st0 -> run P st0 ops = Some (st, log) ->
  own_ct P key log b -> ~ genuine P (i_cfg st) log b ->
  (tr = Tcp \/ exists p, tr = Unix p /\ alookup p (cf_unix (i_cfg st)) = None) ->
  let a := snd (authenticate P st (mkRq (Some b) tr)) in
  (forall p res, allowed a p res = false)
  /\ (forall tb q r, find_route spec_routes q = Some r -> rt_gates r <> [] ->
        authorize spec_routes tb (to_auth a) q <> Served)
  /\ actor_name a = "anonymous"%string.
Proof. exact refused_everywhere. Qed.

Theorem C20_bad_credential_unix_peer : forall P cfg key sender st0 ops st log b p r,
  crypto_ok P -> start cfg key sender = Some st0 -> run P st0 ops = Some (st, log) ->
  own_ct P key log b -> ~ genuine P (i_cfg st) log b -> alookup p (i_unix st) = Some r ->
  authenticate P st (mkRq (Some b) (Unix p)) = (st, AUser p r).
Proof. exact bad_credential_unix_peer. Qed.

Theorem C20_other_instance_token_rejected :
  forall P cfgA keyA sA stA0 opsA stA logA cfgB keyB sB stB0 opsB stB logB i tr,
  crypto_ok P -> key_sep P -> keyA <> keyB ->
  start cfgA keyA sA = Some stA0 -> run P stA0 opsA = Some (stA, logA) ->
  start cfgB keyB sB = Some stB0 -> run P stB0 opsB = Some (stB, logB) ->
  In i logB -> is_tok i <> cf_admin_token (i_cfg stA) ->
  authenticate P stA (mkRq (Some (is_tok i)) tr) = authenticate P stA (mkRq None tr).
Proof. exact other_instance_token_rejected. Qed.

(** Nonces: distinct sender ids at the starts of the daemon => no (key, nonce) pair is used for two tokens.
    That the random 32-bit sender ids differ is an assumption (trusted base), here the premise [NoDup ...]. *)
Theorem C20_nonces_fresh : forall P cfg key sender st0 ops st log,
  crypto_ok P -> start cfg key sender = Some st0 -> run P st0 ops = Some (st, log) ->
  NoDup (sender :: op_senders ops) -> NoDup (map is_nonce log).
Proof. exact nonces_fresh. Qed.

Theorem C20_issued_under_own_nonce : forall P cfg key sender st0 ops st log i,
  crypto_ok P -> start cfg key sender = Some st0 -> run P st0 ops = Some (st, log) -> In i log ->
  is_tok i = p_b64enc P (p_encrypt P key (is_nonce i) (p_ser P (is_sess i))).
Proof. exact issued_under_own_nonce. Qed.

(** regression witnesses F20d: on the pinned tree a restart repeated the nonces whatever the sender ids *)
Theorem C20_nonce_reuse_pinned :
  exists P cfg key sender st0 ops st log i j,
    crypto_ok P /\ start cfg key sender = Some st0 /\ run_with pinned P st0 ops = Some (st, log)
    /\ NoDup (sender :: op_senders ops)
    /\ In i log /\ In j log /\ is_nonce i = is_nonce j /\ is_sess i <> is_sess j.
Proof. exact nonce_reuse_pinned. Qed.

Theorem C20_nonces_fresh_pinned_refuted : ~ nonces_fresh_on pinned.
Proof. exact nonces_fresh_pinned_refuted. Qed.

(** The hypotheses can be met together *)
Theorem C20_toy_crypto_ok : forall norms creds,
  crypto_ok (toy norms creds) /\ b64_strict (toy norms creds) /\ key_sep (toy norms creds).
Proof. exact (fun n c => conj (toy_crypto_ok n c) (conj (toy_b64_strict n c) (toy_key_sep n c))). Qed.

(** The comparison that decides a login is equality of the computed hash text and the configured text
    (config_file.rs:236): a configured text of another length never matches, so an entry whose password_hash is
    empty, cut short or extended admits no password at all. *)
Theorem C20_hash_matches_iff : forall computed configured,
  hash_matches computed configured = true <-> computed = configured.
Proof. exact hash_matches_iff. Qed.

Theorem C20_hash_other_length_never_matches : forall computed configured,
  String.length computed <> String.length configured -> hash_matches computed configured = false.
Proof. exact hash_other_length_never_matches. Qed.

Theorem C20_login_ok_iff : forall hash stored c name pw,
  login_ok hash stored c name pw = true <-> stored c = Some (hash c name pw).
Proof. exact login_ok_iff. Qed.

Theorem C20_login_ok_other_length : forall hash stored c configured,
  stored c = Some configured ->
  (forall name pw, String.length (hash c name pw) = 64%nat) -> String.length configured <> 64%nat ->
  forall name pw, login_ok hash stored c name pw = false.
Proof. exact login_ok_other_length. Qed.

Theorem C20_empty_hash_never_matches : forall hash c,
  (forall name pw, String.length (hash c name pw) = 64%nat) ->
  forall name pw, login_ok hash (fun _ => Some EmptyString) c name pw = false.
Proof. exact empty_hash_never_matches. Qed.

Theorem C20_login_refused_for_other_length : forall P hash stored st name pw b d configured,
  (forall c n p, p_pw_ok P c n p = login_ok hash stored c n p) ->
  cf_auth (i_cfg st) = ConfigFile ->
  alookup name (cf_users (i_cfg st)) = Some d -> stored (u_cred d) = Some configured ->
  (forall n p, String.length (hash (u_cred d) n p) = 64%nat) -> String.length configured <> 64%nat ->
  forall st' tok id rn, login P st (Some (name, pw)) b <> (st', LOk tok id rn).
Proof. exact login_refused_for_other_length. Qed.

Print Assumptions C20_authn_shapes_recognised.
Print Assumptions C20_chain_shapes_recognised.
Print Assumptions C20_auth_identity.
Print Assumptions C20_auth_identity_strict.
Print Assumptions C20_auth_identity_pinned_refuted.
Print Assumptions C20_token_valid_forever.
Print Assumptions C20_removed_user_token_refused.
Print Assumptions C20_login_iff.
Print Assumptions C20_login_identity.
Print Assumptions C20_login_complete.
Print Assumptions C20_login_needs_salt_name.
Print Assumptions C20_login_identity_pinned_refuted.
Print Assumptions C20_login_complete_pinned_refuted.
Print Assumptions C20_bad_credential_no_gain.
Print Assumptions C20_refused_everywhere.
Print Assumptions C20_bad_credential_unix_peer.
Print Assumptions C20_other_instance_token_rejected.
Print Assumptions C20_nonces_fresh.
Print Assumptions C20_issued_under_own_nonce.
Print Assumptions C20_nonce_reuse_pinned.
Print Assumptions C20_nonces_fresh_pinned_refuted.
Print Assumptions C20_toy_crypto_ok.
Print Assumptions C20_hash_matches_iff.
Print Assumptions C20_hash_other_length_never_matches.
Print Assumptions C20_login_ok_iff.
Print Assumptions C20_login_ok_other_length.
Print Assumptions C20_empty_hash_never_matches.
Print Assumptions C20_login_refused_for_other_length.
