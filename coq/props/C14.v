(** C14 - Manifests, CRLs and signed objects are refreshed in time with rising numbers.
    Only statements; proofs in ca/CaObjProofs.v and ca/CaDueProofs.v. *)
From KV Require Import base.Tac ca.Ca ca.CaProofs ca.CaObjProofs ca.CaCheck ca.CaDueProofs ca.CaOracleProofs.
Open Scope N_scope.

(** A class is re-issued iff forced or one of its key sets (current, staging, old) is within the margin
    of its next update - for every class. *)
Theorem C14_due_iff : forall env force objs c k,
  aget c objs = Some k ->
  aget c (re_issue env force objs) =
    Some (if force || ok_requires (e_now env) (e_margin env) k then ok_reissue (e_now env) (e_next env) k else k).
Proof. exact due_iff. Qed.

Theorem C14_due_characterised : forall now margin s, due now margin s = true <-> (s_next s - margin < now)%Z.
Proof. exact due_characterised. Qed.

(** A maintenance run that finds nothing due changes nothing. *)
Theorem C14_nothing_due_nothing_changes : forall env objs,
  (forall c k, In (c, k) objs -> ok_requires (e_now env) (e_margin env) k = false) ->
  re_issue env false objs = objs.
Proof. exact nothing_due_nothing_changes. Qed.

(** Numbers increase by exactly one per re-issue, for all sets of the class together; manifest and CRL
    share the one revision number by construction (checked on the decoded objects by the harness). *)
Theorem C14_number_plus_one : forall now next s, s_num (os_reissue now next s) = s_num s + 1.
Proof. exact number_plus_one. Qed.

Theorem C14_reissue_numbers : forall now next k,
  map s_num (sets_of_keys (ok_reissue now next k)) = map (fun n => n + 1) (map s_num (sets_of_keys k)).
Proof. exact reissue_numbers. Qed.

(** Content updates never touch the number; a re-issue never changes the set of payloads. *)
Theorem C14_update_keeps_number : forall updated removed s, s_num (os_update_objs s updated removed) = s_num s.
Proof. exact update_objs_num. Qed.

Theorem C14_reissue_preserves_payloads : forall now next s, s_pub (os_reissue now next s) = s_pub s.
Proof. exact reissue_preserves_payloads. Qed.

(** A signed object is renewed iff forced or it expires before [now + re-issue margin]; a run that finds
    nothing expiring renews nothing. *)
Theorem C14_renew_due_iff : forall force th l n,
  In n (renew_names force th l) <-> exists o, In (n, o) l /\ (force = true \/ (o_exp o < th)%Z).
Proof. exact renew_due_iff. Qed.

Theorem C14_nothing_expiring_nothing_renewed : forall th l,
  (forall n o, In (n, o) l -> (th <= o_exp o)%Z) -> renew_names false th l = [].
Proof. exact nothing_expiring_nothing_renewed. Qed.

(** The executable oracle evaluated on the implementation's object stores (every due or forced class has ALL its
    sets at number + 1 after a maintenance run, every other class keeps its numbers) is what the model's run
    satisfies, for every store with distinct keys, every clock, margin and force flag. *)
Theorem C14_maintenance_run_meets_due_oracle : forall now margin next force objs,
  NoDup (map s_key (all_sets objs)) ->
  due_ok_objs now margin force objs (re_issue (mkEnv now margin next) force objs) = true.
Proof. exact reissue_meets_due_ok. Qed.

(** The number oracle evaluated on the implementation's object stores (per key set: the number never falls,
    grows by at most one per command, and grows whenever content or revocations changed; new sets start at 1)
    is what every run of the model satisfies, for every store and command list with fresh keys. *)
Theorem C14_model_run_meets_number_oracle : forall env cn s o ms s' o',
  Fresh o ms -> run_cmds env cn s o ms = Some (s', o') -> numbers_ok (N.of_nat (length ms)) o o' = true.
Proof. exact model_run_meets_numbers_ok. Qed.

Theorem C14_agrees_meets_number_oracle : forall c,
  agrees c = true -> hyps_ok c = true ->
  numbers_ok (N.of_nat (length (c_cmds c))) (c_pre_objs c) (c_post_objs c) = true.
Proof. exact agrees_meets_c14_numbers_checked. Qed.

Print Assumptions C14_model_run_meets_number_oracle.
Print Assumptions C14_agrees_meets_number_oracle.
Print Assumptions C14_maintenance_run_meets_due_oracle.
Print Assumptions C14_renew_due_iff.
Print Assumptions C14_nothing_expiring_nothing_renewed.
Print Assumptions C14_due_iff.
Print Assumptions C14_due_characterised.
Print Assumptions C14_nothing_due_nothing_changes.
Print Assumptions C14_number_plus_one.
Print Assumptions C14_reissue_numbers.
Print Assumptions C14_update_keeps_number.
Print Assumptions C14_reissue_preserves_payloads.
