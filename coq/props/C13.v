(** C13 - Every API route enforces the permission its operation requires.
    Only statements: each theorem is closed by [exact] of a lemma proved in auth/RoutesProofs.v. *)
From Coq Require Import String.
From KV Require Import base.Tac auth.Perm auth.Routes auth.RoutesCheck auth.RoutesProofs gen.GenRoutes.
Open Scope N_scope.

(** Tie to the source: the route tree regenerated from dispatch/*.rs is the specification table. *)
Theorem C13_gen_routes_conform : GenRoutes.table = spec_routes.
Proof. exact gen_routes_conform. Qed.

Theorem C13_gen_perms_conform : gen_perms = map (fun p => (perm_name p, perm_text p)) all_perms.
Proof. exact gen_perms_conform. Qed.

Theorem C13_gen_sets_conform :
  map (fun '(n, g) => (n, set_of_gen g)) gen_sets =
  [ ("ANY", Some ANY); ("NONE", Some NONE); ("READONLY", Some READONLY); ("READWRITE", Some READWRITE);
    ("TESTBED", Some TESTBED); ("CONF_READ", Some CONF_READ); ("CONF_UPDATE", Some CONF_UPDATE) ]%string.
Proof. exact gen_sets_conform. Qed.

Theorem C13_gen_roles_conform :
  gen_builtin_roles = [ ("admin", "ANY"); ("readwrite", "READWRITE"); ("readonly", "READONLY");
                        ("testbed", "TESTBED"); ("anonymous", "NONE") ]%string
  /\ gen_default_roles = [ ("admin", "admin"); ("readwrite", "readwrite"); ("readonly", "readonly") ]%string
  /\ gen_conf_globs = [ ("any", "Any"); ("read", "Read"); ("update", "Update") ]%string
  /\ gen_conf_glob_sets = [ ("Any", "ANY"); ("Read", "CONF_READ"); ("Update", "CONF_UPDATE") ]%string.
Proof. exact gen_roles_conform. Qed.

Theorem C13_gen_shapes_recognised : gen_shapes_unrecognised = [] /\ gen_unreached_handlers = [].
Proof. exact gen_shapes_recognised. Qed.

(** Permission sets mean what their lists say; bit position = declaration order. *)
Theorem C13_perm_index_position : forall p, nth_error all_perms (N.to_nat (perm_index p)) = Some p.
Proof. exact perm_index_position. Qed.

Theorem C13_has_of_list : forall l q, has (of_list l) q = true <-> In q l.
Proof. exact has_of_list. Qed.

Theorem C13_builtin_sets_meaning :
  (forall p, has READONLY p = true <->
     In p [Login; CaList; CaRead; PubList; PubRead; RoutesRead; RoutesAnalysis; AspasRead; BgpsecRead; RtaList; RtaRead])
  /\ (forall p, has READONLY p = true -> is_read_perm p = true)
  /\ (forall p, has READONLY p = true -> has READWRITE p = true)
  /\ has READWRITE PubAdmin = false /\ has READWRITE CaAdmin = false /\ has READWRITE CaDelete = false
  /\ has TESTBED Login = false.
Proof. exact builtin_sets_meaning. Qed.

(** The decision, for every table, role / authentication result and request. *)
Theorem C13_decision_correct : forall (t : list route) (tb : bool) (a : auth) (q : request) (r : route),
  find_route t q = Some r -> (rt_testbed r = true -> tb = true) ->
  (authorize t tb a q = Served <->
   forall g, In g (rt_gates r) -> auth_allows a (g_perm g) (scope_of q (g_scope g)) = true).
Proof. exact decision_correct. Qed.

Theorem C13_refusal_kind : forall t tb a q r,
  find_route t q = Some r -> (rt_testbed r = true -> tb = true) ->
  authorize t tb a q <> Served ->
  (exists g, In g (rt_gates r) /\ auth_allows a (g_perm g) (scope_of q (g_scope g)) = false)
  /\ match a with
     | AuthRole _ => authorize t tb a q = Forbidden
     | AuthError => authorize t tb a q = Unauthenticated
     end.
Proof. exact refusal_kind. Qed.

Theorem C13_testbed_gating : forall t a q r,
  find_route t q = Some r -> rt_testbed r = true -> authorize t false a q = NotFound.
Proof. exact testbed_gating. Qed.

(** Role evaluation. *)
Theorem C13_per_ca_precedence : forall (r : role) (p : perm) (h : handle),
  (forall s, lookup_res h (r_res r) = Some s -> is_allowed r p (Some h) = has s p)
  /\ (lookup_res h (r_res r) = None -> is_allowed r p (Some h) = has (r_any r) p)
  /\ is_allowed r p None = has (r_none r) p.
Proof. exact per_ca_precedence. Qed.

Theorem C13_with_resources_spec : forall s cas p h,
  is_allowed (with_resources s cas) p (Some h) = (existsb (String.eqb h) cas && has s p)
  /\ is_allowed (with_resources s cas) p None = has s p.
Proof. exact with_resources_spec. Qed.

Theorem C13_per_ca_route_precedence : forall tb (ro : role) q r s,
  find_route spec_routes q = Some r -> per_ca r = true ->
  lookup_res (nth 3 (q_path q) ""%string) (r_res ro) = Some s -> has s CaRead = false ->
  authorize spec_routes tb (AuthRole ro) q <> Served.
Proof. exact per_ca_route_precedence. Qed.

(** A role limited to CAs ([cas = [...]] in the configuration file) holds its permissions on CA [h] iff [h] is
    literally - same string, same case - in its list; every route under /api/v1/cas/{ca} refuses it for any other
    {ca}; the listings show it exactly the CAs of its list. *)
Theorem C13_scoped_role_exact : forall s cas p h,
  is_allowed (with_resources s cas) p (Some h) = true <-> In h cas /\ has s p = true.
Proof. exact scoped_role_exact. Qed.

Theorem C13_scoped_role_case_sensitive :
  let ro := with_resources ANY ["alice"]%string in
  is_allowed ro CaRead (Some "alice"%string) = true
  /\ is_allowed ro CaRead (Some "ALICE"%string) = false
  /\ is_allowed ro CaRead (Some "Alice"%string) = false
  /\ is_allowed ro CaRead (Some "alice2"%string) = false
  /\ is_allowed ro CaRead (Some "alic"%string) = false
  /\ listing_of (AuthRole ro) (F CaRead FEntry) ["ALICE"; "Alice"; "alice"; "alice2"]%string = ["alice"]%string
  /\ authorize spec_routes true (AuthRole ro) (mkReq MDELETE ["api"; "v1"; "cas"; "alice"]%string) = Served
  /\ authorize spec_routes true (AuthRole ro) (mkReq MDELETE ["api"; "v1"; "cas"; "ALICE"]%string) = Forbidden
  /\ authorize spec_routes true (AuthRole ro) (mkReq MGET ["api"; "v1"; "cas"; "alice2"; "routes"]%string) = Forbidden.
Proof. exact scoped_role_case_sensitive. Qed.

Theorem C13_scoped_role_route_refused : forall tb s cas q r,
  find_route spec_routes q = Some r -> per_ca r = true ->
  ~ In (nth 3 (q_path q) ""%string) cas ->
  authorize spec_routes tb (AuthRole (with_resources s cas)) q = Forbidden \/
  authorize spec_routes tb (AuthRole (with_resources s cas)) q = NotFound.
Proof. exact scoped_role_route_refused. Qed.

Theorem C13_scoped_listing_exact : forall s cas all h,
  In h (listing_of (AuthRole (with_resources s cas)) (F CaRead FEntry) all)
  <-> In h all /\ In h cas /\ has s CaRead = true.
Proof. exact scoped_listing_exact. Qed.

(** Login permission for everything under the versioned API. *)
Theorem C13_login_gate : forall (tb : bool) (a : auth) (m : meth) (rest : list string),
  authorize spec_routes tb a (mkReq m ("api" :: "v1" :: rest)%string) = Served ->
  auth_allows a Login None = true.
Proof. exact login_gate. Qed.

(** Without credentials exactly the public endpoints (testbed endpoints only in testbed mode). *)
Theorem C13_public_exactly : forall (tb : bool) (q : request) (r : route),
  find_route spec_routes q = Some r ->
  (authorize spec_routes tb (AuthRole role_anonymous) q = Served <->
   In (path_root (q_path q)) public_roots /\ (path_root (q_path q) = "testbed"%string -> tb = true)).
Proof. exact public_exactly. Qed.

(** The /testbed routes are served iff the instance is in testbed mode (the [testbed] section is present), to every
    caller and whatever [ta_support_enabled] says. *)
Theorem C13_testbed_served_is_testbed_mode :
  (forall cfg, testbed_served cfg = testbed_on cfg) /\ (forall ta tb, testbed_served (mkCfg ta tb) = tb).
Proof. exact testbed_served_is_testbed_mode. Qed.

Theorem C13_testbed_routes_iff_testbed_mode : forall cfg a q r,
  find_route spec_routes q = Some r -> rt_testbed r = true ->
  (authorize spec_routes (testbed_served cfg) a q = Served <-> cfg_testbed cfg = true)
  /\ (cfg_testbed cfg = false -> authorize spec_routes (testbed_served cfg) a q = NotFound).
Proof. exact testbed_routes_iff_testbed_mode. Qed.

(** Sanity of the hand-written specification. *)
Theorem C13_spec_sane : forall r, In r spec_routes -> rt_gates r <> [] ->
  (forall g, In g (rt_gates r) -> scope_wf (rt_pat r) (g_scope g) = true)
  /\ (per_ca r = true -> exists g, In g (rt_gates r) /\ g_scope g = SParam ca_ix)
  /\ (state_changing r = true ->
      exists g, In g (rt_gates r) /\ is_read_perm (g_perm g) = false /\ perm_family (g_perm g) = route_family r)
  /\ under_api r = true
  /\ hd_error (rt_gates r) = Some login.
Proof. exact spec_sane. Qed.

Theorem C13_spec_unambiguous :
  pairwise (fun a b => negb (meth_eqb (rt_meth a) (rt_meth b) && unify (rt_pat a) (rt_pat b))) spec_routes = true.
Proof. exact spec_unambiguous. Qed.

(** Listings. *)
Theorem C13_listing_filtered : forall a p all h,
  In h (listing_of a (F p FEntry) all) <-> In h all /\ auth_allows a p (Some h) = true.
Proof. exact listing_filtered. Qed.

Theorem C13_listing_general_all_or_nothing : forall a p all,
  listing_of a (F p FGeneral) all = all \/ listing_of a (F p FGeneral) all = [].
Proof. exact listing_general_all_or_nothing. Qed.

(** The executable oracle used on the implementation's answers follows from agreement with the model. *)
Theorem C13_agrees_implies_ok : forall c, agrees c = true -> c13_ok c = true.
Proof. exact agrees_implies_ok. Qed.

Print Assumptions C13_gen_routes_conform.
Print Assumptions C13_gen_perms_conform.
Print Assumptions C13_gen_sets_conform.
Print Assumptions C13_gen_roles_conform.
Print Assumptions C13_gen_shapes_recognised.
Print Assumptions C13_perm_index_position.
Print Assumptions C13_has_of_list.
Print Assumptions C13_builtin_sets_meaning.
Print Assumptions C13_decision_correct.
Print Assumptions C13_refusal_kind.
Print Assumptions C13_testbed_gating.
Print Assumptions C13_per_ca_precedence.
Print Assumptions C13_with_resources_spec.
Print Assumptions C13_per_ca_route_precedence.
Print Assumptions C13_login_gate.
Print Assumptions C13_public_exactly.
Print Assumptions C13_spec_sane.
Print Assumptions C13_spec_unambiguous.
Print Assumptions C13_listing_filtered.
Print Assumptions C13_listing_general_all_or_nothing.
Print Assumptions C13_agrees_implies_ok.
Print Assumptions C13_scoped_role_exact.
Print Assumptions C13_scoped_role_case_sensitive.
Print Assumptions C13_scoped_role_route_refused.
Print Assumptions C13_scoped_listing_exact.
Print Assumptions C13_testbed_served_is_testbed_mode.
Print Assumptions C13_testbed_routes_iff_testbed_mode.
