(** C19 - Reported parent, repository and child status matches the last exchange.
    Only statements: each theorem is closed by [exact] of a lemma proved in status/StatusProofs.v. *)
From Coq Require Import Ascii String Permutation.
From KV Require Import base.Tac status.Status status.StatusProofs.
Open Scope N_scope.

(** After any history, the entry of a parent shows the outcome of the most recent attempt: a failure, with
    its error, exactly when that attempt failed. Everything else may have happened since (other exchanges,
    repository exchanges, children's requests, other removals, restarts). *)
Theorem C19_failure_iff_last_failed : forall os1 os2 st1 st2 st3 ca p pc ch r x,
  run init os1 = Some st1 ->
  step st1 (OParentSync ca p pc ch r) = Some st2 ->
  run st2 os2 = Some st3 ->
  forallb (fun o => negb (touches_parent ca p o)) os2 = true ->
  good ca -> good p ->
  exchange_result r = Some x ->
  parent_last st3 ca p = Some x
  /\ (forall e, (exists ps, view_parent st3 ca p = Some ps /\ p_last ps = Some (XFail e)) <-> x = XFail e).
Proof. exact failure_iff_last_failed. Qed.

(** One exchange, from any state and for any handles: the entry shows its outcome; the API call returns
    the same outcome unless a local command failed after the exchange. *)
Theorem C19_parent_status_is_last_exchange : forall st ca p pc ch r st' res x,
  parent_sync st ca p pc ch r = (st', res) -> exchange_result r = Some x ->
  parent_last st' ca p = Some x /\ (local_ok r = true -> res = x).
Proof. exact parent_status_is_last_exchange. Qed.

Theorem C19_api_result_is_status_refuted : ~ api_result_is_status.
Proof. exact api_result_is_status_refuted. Qed.

Theorem C19_repo_failure_iff_last_failed : forall os1 os2 st1 st2 st3 ca w lr dr,
  run init os1 = Some st1 ->
  step st1 (ORepoSync ca w lr dr) = Some st2 ->
  run st2 os2 = Some st3 ->
  forallb (fun o => negb (touches_repo ca o)) os2 = true ->
  good ca ->
  r_last (view_repo st3 ca) = Some (snd (repo_sync st1 ca w lr dr)).
Proof. exact repo_failure_iff_last_failed. Qed.

Theorem C19_repo_status_is_last_exchange : forall st ca w lr dr st' res,
  repo_sync st ca w lr dr = (st', res) -> r_last (view_repo st' ca) = Some res.
Proof. exact repo_status_is_last_exchange. Qed.

(** Success comes with the entitlements the parent last returned; every other outcome keeps them. *)
Theorem C19_entitlements_are_last_returned : forall st ca p pc ch ents c st' res,
  parent_sync st ca p pc ch (RList MOk ents c) = (st', res) ->
  exists x, view_parent st' ca p = Some x /\ p_classes x = ents /\ p_all x = union_all ents
            /\ p_last x = Some XOk /\ p_succ x = true.
Proof. exact entitlements_are_last_returned. Qed.

Theorem C19_entitlements_kept_otherwise : forall st ca p pc ch r st' res,
  parent_sync st ca p pc ch r = (st', res) ->
  (forall ents c, r <> RList MOk ents c) ->
  parent_classes st' ca p = parent_classes st ca p.
Proof. exact entitlements_kept_otherwise. Qed.

(** The published list: if it shadowed the server's content before a successful exchange, it shadows the
    server's content after it; a failed exchange leaves it alone. *)
Theorem C19_published_equals_server_after_success : forall st ca wanted srv srv' st',
  Shadow st ca srv ->
  repo_sync st ca wanted (ROk srv) XOk = (st', XOk) ->
  srv_apply srv (diff wanted srv) = Some srv' ->
  Shadow st' ca srv'.
Proof. exact published_equals_server_after_success. Qed.

Theorem C19_published_unchanged_by_failure : forall st ca w lr dr st' e,
  repo_sync st ca w lr dr = (st', XFail e) -> r_pub (view_repo st' ca) = r_pub (view_repo st ca).
Proof. exact published_unchanged_by_failure. Qed.

(** ... but only then: the list is never rebuilt from the list reply (F19b). *)
Theorem C19_shadow_not_self_healing_refuted : ~ shadow_self_healing.
Proof. exact shadow_not_self_healing_refuted. Qed.

(** The parent shows the outcome of the child's most recent request. *)
Theorem C19_child_status_is_last_request : forall st ca p pc ch r st' res x,
  parent_sync st ca p pc ch r = (st', res) ->
  last_recorded (sent_messages r) = Some x ->
  child_last st' pc ch = Some x.
Proof. exact child_status_is_last_request. Qed.

Theorem C19_child_status_is_last_request_in_histories : forall os1 os2 st1 st2 st3 ca p pc ch r x,
  run init os1 = Some st1 ->
  step st1 (OParentSync ca p pc ch r) = Some st2 ->
  run st2 os2 = Some st3 ->
  forallb (fun o => negb (touches_child pc ch o)) os2 = true ->
  good pc -> good ch ->
  last_recorded (sent_messages r) = Some x ->
  child_last st3 pc ch = Some x.
Proof. exact child_status_is_last_request_in_histories. Qed.

Theorem C19_child_message_recorded : forall st pc ch m x,
  recorded m = Some x ->
  exists cs, view_child (deliver st pc ch m) pc ch = Some cs /\ c_last cs = Some x /\ c_susp cs = false.
Proof. exact child_message_recorded. Qed.

(** Restart: the cache rebuilt from the files shows what the cache showed, for handles without '/' and '\';
    the invariant that makes this true holds initially and is kept by every operation, whatever its handles. *)
Theorem C19_restart_preserves : forall st, Sync st -> forall ca, good ca ->
  view_repo (restart st) ca = view_repo st ca
  /\ (forall p, good p -> view_parent (restart st) ca p = view_parent st ca p)
  /\ (forall c, good c -> view_child (restart st) ca c = view_child st ca c).
Proof. exact restart_preserves. Qed.

Theorem C19_sync_init : Sync init.
Proof. exact sync_init. Qed.

Theorem C19_sync_step : forall st o st', Sync st -> step st o = Some st' -> Sync st'.
Proof. exact sync_step. Qed.

Theorem C19_restart_preserves_in_histories : forall os st ca, run init os = Some st -> good ca ->
  view_repo (restart st) ca = view_repo st ca
  /\ (forall p, good p -> view_parent (restart st) ca p = view_parent st ca p)
  /\ (forall c, good c -> view_child (restart st) ca c = view_child st ca c).
Proof. exact restart_preserves_in_histories. Qed.

(** F19a: an entry whose handle contains '/' is written under a name that does not parse back. *)
Theorem C19_restart_loses_slash_handles_refuted : ~ restart_preserves_all.
Proof. exact restart_loses_slash_handles_refuted. Qed.

(** Removing a parent, a child or a CA removes the entry from the cache and from the files, never fails,
    and leaves every other entry alone. *)
Theorem C19_removal_removes : forall st,
  Sync st ->
  (forall ca p, good ca -> good p ->
     exists st', remove_parent st ca p = Some st' /\ view_parent st' ca p = None
                 /\ kv_get (store st') (scope_of ca) (parent_key p) = None /\ Sync st')
  /\ (forall ca c, good ca -> good c ->
     exists st', remove_child st ca c = Some st' /\ view_child st' ca c = None
                 /\ kv_get (store st') (scope_of ca) (child_key c) = None /\ Sync st')
  /\ (forall ca, ca_view (remove_ca st ca) ca = default_ca
                 /\ (forall k, kv_get (store (remove_ca st ca)) (scope_of ca) k = None)
                 /\ Sync (remove_ca st ca)).
Proof. exact removal_removes. Qed.

Theorem C19_removal_frame : forall st ca p st', remove_parent st ca p = Some st' ->
  (forall ca' p', (ca', p') <> (ca, p) -> view_parent st' ca' p' = view_parent st ca' p')
  /\ (forall ca', view_repo st' ca' = view_repo st ca') /\ (forall ca' c, view_child st' ca' c = view_child st ca' c).
Proof. exact removal_frame. Qed.

(** The issues views. The view of one CA lists exactly the failures of its status; its report is empty iff there
    is no repository issue AND no parent issue; the view over all CAs lists a CA iff its last repository exchange
    failed or the last exchange with at least one parent failed, and shows for it what the view of that CA shows;
    the text reports say "no issues found" exactly when there is no failure. *)
Theorem C19_issues_list_exactly_failures : forall s,
  (forall e, i_repo (issues_of s) = Some e <-> r_last (s_repo s) = Some (XFail e))
  /\ (forall p e, In (p, e) (i_parents (issues_of s)) <-> exists x, In (p, x) (s_parents s) /\ p_last x = Some (XFail e)).
Proof. exact issues_list_exactly_failures. Qed.

Theorem C19_issues_empty_iff : forall i, issues_empty i = true <-> i_repo i = None /\ i_parents i = [].
Proof. exact issues_empty_iff. Qed.

Theorem C19_issues_of_empty_iff : forall s, issues_empty (issues_of s) = true <-> ~ repo_failed s /\ ~ parent_failed s.
Proof. exact issues_of_empty_iff. Qed.

Theorem C19_bulk_lists_exactly_failing : forall l ca,
  In ca (map fst (bulk_issues l)) <-> exists s, In (ca, s) l /\ has_failure s.
Proof. exact bulk_lists_exactly_failing. Qed.

Theorem C19_bulk_agrees_with_single : forall l ca i,
  In (ca, i) (bulk_issues l) <-> exists s, In (ca, s) l /\ i = issues_of s /\ issues_empty i = false.
Proof. exact bulk_agrees_with_single. Qed.

(** with [||] instead of [&&] in the emptiness test a CA with only one kind of failure is left out *)
Theorem C19_bulk_lists_exactly_failing_or_refuted : ~ bulk_lists_exactly_failing_with issues_empty_or.
Proof. exact bulk_lists_exactly_failing_or_refuted. Qed.

Theorem C19_text_no_issues_iff : forall s, says_no_issues (issues_of s) = true <-> ~ has_failure s.
Proof. exact text_no_issues_iff. Qed.

Theorem C19_bulk_text_no_issues_iff : forall l,
  bulk_says_no_issues (bulk_issues l) = true <-> forall ca s, In (ca, s) l -> ~ has_failure s.
Proof. exact bulk_text_no_issues_iff. Qed.

(** On a state of the status store, for the CAs that exist. *)
Theorem C19_bulk_view_lists_exactly_failing : forall st cas ca,
  In ca (map fst (bulk_view st cas)) <-> In ca cas /\ has_failure (ca_view st ca).
Proof. exact bulk_view_lists_exactly_failing. Qed.

Theorem C19_bulk_view_agrees_with_single : forall st cas ca i,
  In (ca, i) (bulk_view st cas) <-> In ca cas /\ i = issues_view st ca /\ issues_empty i = false.
Proof. exact bulk_view_agrees_with_single. Qed.

(** In histories: a CA whose most recent repository exchange (or most recent exchange with some parent) failed is
    listed in the view over all CAs, with that error in the view of the CA, whatever else happened since. *)
Theorem C19_bulk_shows_last_failed_repo : forall os1 os2 st1 st2 st3 ca w lr dr e cas,
  run init os1 = Some st1 ->
  step st1 (ORepoSync ca w lr dr) = Some st2 ->
  run st2 os2 = Some st3 ->
  forallb (fun o => negb (touches_repo ca o)) os2 = true ->
  good ca ->
  snd (repo_sync st1 ca w lr dr) = XFail e ->
  In ca cas ->
  In ca (map fst (bulk_view st3 cas)) /\ i_repo (issues_view st3 ca) = Some e
  /\ says_no_issues (issues_view st3 ca) = false.
Proof. exact bulk_shows_last_failed_repo. Qed.

Theorem C19_bulk_shows_last_failed_parent : forall os1 os2 st1 st2 st3 ca p pc ch r e cas,
  run init os1 = Some st1 ->
  step st1 (OParentSync ca p pc ch r) = Some st2 ->
  run st2 os2 = Some st3 ->
  forallb (fun o => negb (touches_parent ca p o)) os2 = true ->
  good ca -> good p ->
  exchange_result r = Some (XFail e) ->
  In ca cas ->
  In ca (map fst (bulk_view st3 cas)) /\ In (p, e) (i_parents (issues_view st3 ca))
  /\ says_no_issues (issues_view st3 ca) = false.
Proof. exact bulk_shows_last_failed_parent. Qed.

Print Assumptions C19_failure_iff_last_failed.
Print Assumptions C19_parent_status_is_last_exchange.
Print Assumptions C19_api_result_is_status_refuted.
Print Assumptions C19_repo_failure_iff_last_failed.
Print Assumptions C19_repo_status_is_last_exchange.
Print Assumptions C19_entitlements_are_last_returned.
Print Assumptions C19_entitlements_kept_otherwise.
Print Assumptions C19_published_equals_server_after_success.
Print Assumptions C19_published_unchanged_by_failure.
Print Assumptions C19_shadow_not_self_healing_refuted.
Print Assumptions C19_child_status_is_last_request.
Print Assumptions C19_child_status_is_last_request_in_histories.
Print Assumptions C19_child_message_recorded.
Print Assumptions C19_restart_preserves.
Print Assumptions C19_sync_init.
Print Assumptions C19_sync_step.
Print Assumptions C19_restart_preserves_in_histories.
Print Assumptions C19_restart_loses_slash_handles_refuted.
Print Assumptions C19_removal_removes.
Print Assumptions C19_removal_frame.
Print Assumptions C19_issues_list_exactly_failures.
Print Assumptions C19_issues_empty_iff.
Print Assumptions C19_issues_of_empty_iff.
Print Assumptions C19_bulk_lists_exactly_failing.
Print Assumptions C19_bulk_agrees_with_single.
Print Assumptions C19_bulk_lists_exactly_failing_or_refuted.
Print Assumptions C19_text_no_issues_iff.
Print Assumptions C19_bulk_text_no_issues_iff.
Print Assumptions C19_bulk_view_lists_exactly_failing.
Print Assumptions C19_bulk_view_agrees_with_single.
Print Assumptions C19_bulk_shows_last_failed_repo.
Print Assumptions C19_bulk_shows_last_failed_parent.
