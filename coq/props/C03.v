(** C03 - Whatever is revoked, removed or replaced is withdrawn and stays on the CRL.
    Only statements; proofs in ca/CaObjProofs.v. *)
From KV Require Import base.Tac ca.Ca ca.CaProofs ca.CaObjProofs.
Open Scope N_scope.

(** Every insert/remove in a key's object set records a revocation for the superseded object. *)
Theorem C03_insert_revokes_replaced : forall now s n o, covered now s (os_insert s n o).
Proof. exact covered_insert. Qed.
Theorem C03_remove_revokes : forall now s n, covered now s (os_remove s n).
Proof. exact covered_remove. Qed.
Theorem C03_update_objects_revokes : forall now updated removed s, covered now s (os_update_objs s updated removed).
Proof. exact covered_update_objs. Qed.
Theorem C03_update_certs_revokes : forall now issued removed suspended s,
  covered now s (os_update_certs s issued removed suspended []).
Proof. exact covered_update_certs. Qed.
(** retire(): the old key revokes everything it published. *)
Theorem C03_retire_revokes_everything : forall now s, covered now s (os_retire now s) /\ s_pub (os_retire now s) = [].
Proof. intros now s. split; [exact (covered_retire now s)|exact (retire_publishes_nothing now s)]. Qed.
(** Re-issuing only drops revocations that have expired. *)
Theorem C03_reissue_keeps_unexpired : forall now next s, covered now s (os_reissue now next s).
Proof. exact covered_reissue. Qed.

(** For every event the pre-save listener sees, every key set of the class is covered by the set of the
    same key afterwards (or that key has no set any more): revoked until expiry, for as long as the key
    publishes a CRL. *)
Theorem C03_listener_keeps_revocations : forall env cn objs e objs' f c k,
  listen1 env cn objs e = Ok (objs', f) ->
  no_unsuspended e ->
  aget c objs = Some k -> keys_distinct k ->
  (forall crt, e = EPendingToNew c crt -> c_key crt <> s_key (ok_current k)) ->
  match aget c objs' with
  | Some k' => ok_covered (e_now env) k k' /\ keys_distinct k'
  | None => True
  end.
Proof. exact listener_keeps_revocations. Qed.

Theorem C03_reissue_keeps_revocations : forall now next k,
  keys_distinct k -> ok_covered now k (ok_reissue now next k) /\ keys_distinct (ok_reissue now next k).
Proof. exact reissue_keeps_revocations. Qed.

Theorem C03_covered_transitive : forall now a b c, covered now a b -> covered now b c -> covered now a c.
Proof. exact covered_trans. Qed.

Print Assumptions C03_insert_revokes_replaced.
Print Assumptions C03_remove_revokes.
Print Assumptions C03_update_objects_revokes.
Print Assumptions C03_update_certs_revokes.
Print Assumptions C03_retire_revokes_everything.
Print Assumptions C03_reissue_keeps_unexpired.
Print Assumptions C03_listener_keeps_revocations.
Print Assumptions C03_reissue_keeps_revocations.
Print Assumptions C03_covered_transitive.
