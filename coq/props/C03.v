(** C03 - Whatever is revoked, removed or replaced is withdrawn and stays on the CRL.
    Only statements; proofs in ca/CaObjProofs.v and ca/CaOracleProofs.v. *)
From KV Require Import base.Tac ca.Ca ca.CaProofs ca.CaObjProofs ca.CaCheck ca.CaOracleProofs ca.KeyCheck.
Open Scope N_scope.

(** Every insert/remove in a key's object set records a revocation for the superseded object. *)
Theorem C03_insert_revokes_replaced : forall now s n o, covered now s (os_insert s n o).
Proof. exact covered_insert. Qed.
Theorem C03_remove_revokes : forall now s n, covered now s (os_remove s n).
Proof. exact covered_remove. Qed.
Theorem C03_update_objects_revokes : forall now updated removed s, covered now s (os_update_objs s updated removed).
Proof. exact covered_update_objs. Qed.
Theorem C03_update_certs_revokes : forall now issued removed suspended s,
  covered now s (os_update_certs s issued removed suspended []).
Proof. exact covered_update_certs. Qed.
(** retire(): the old key revokes everything it published. *)
Theorem C03_retire_revokes_everything : forall now s, covered now s (os_retire now s) /\ s_pub (os_retire now s) = [].
Proof. intros now s. split; [exact (covered_retire now s)|exact (retire_publishes_nothing now s)]. Qed.
(** Re-issuing only drops revocations that have expired. *)
Theorem C03_reissue_keeps_unexpired : forall now next s, covered now s (os_reissue now next s).
Proof. exact covered_reissue. Qed.

(** For every event the pre-save listener sees, every key set of the class is covered by the set of the
    same key afterwards (or that key has no set any more): revoked until expiry, for as long as the key
    publishes a CRL. *)
Theorem C03_listener_keeps_revocations : forall env cn objs e objs' f c k,
  listen1 env cn objs e = Ok (objs', f) ->
  no_unsuspended e ->
  aget c objs = Some k -> keys_distinct k ->
  (forall crt, e = EPendingToNew c crt -> c_key crt <> s_key (ok_current k)) ->
  match aget c objs' with
  | Some k' => ok_covered (e_now env) k k' /\ keys_distinct k'
  | None => True
  end.
Proof. exact listener_keeps_revocations. Qed.

Theorem C03_reissue_keeps_revocations : forall now next k,
  keys_distinct k -> ok_covered now k (ok_reissue now next k) /\ keys_distinct (ok_reissue now next k).
Proof. exact reissue_keeps_revocations. Qed.

Theorem C03_covered_transitive : forall now a b c, covered now a b -> covered now b c -> covered now a c.
Proof. exact covered_trans. Qed.

(** The executable oracle evaluated on the implementation's object stores ([revoked_ok]: whatever was published
    is still published under its name with the same serial, or its serial is on the revocation list of the
    set with the same key, or it has expired; no revocation dropped before expiry) is what EVERY run of the
    model satisfies - for every store with distinct object names per set, every command list whose new key
    sets get fresh keys ([Fresh]) and that does not use the legacy 'unsuspended' list ([NoUnsusp]). *)
Theorem C03_model_run_meets_oracle : forall env cn s o ms s' o',
  names_wf o -> Fresh o ms -> NoUnsusp ms ->
  run_cmds env cn s o ms = Some (s', o') -> revoked_ok (e_now env) o o' = true.
Proof. exact model_run_meets_revoked_ok. Qed.

(** ... hence an observed transition that agrees with the model satisfies it ([hyps_ok] is the boolean form of
    the hypotheses above plus distinct class names in the observed post store). *)
Theorem C03_agrees_meets_oracle : forall c, agrees c = true -> hyps_ok c = true -> c03_ok c = true.
Proof. exact agrees_meets_c03_checked. Qed.

(** The freshness hypothesis is needed: a key set re-created under a key that was used before loses the
    revocations of that key (the model takes the key from the event without a freshness check). *)
Theorem C03_model_run_meets_oracle_without_freshness_refuted : ~ model_run_meets_revoked_ok_full.
Proof. exact model_run_meets_revoked_ok_full_refuted. Qed.

(** When a class goes (parent removed, CA deleted, entitlement lost) every key of the class that holds a
    certificate - and only those - gets a revocation request; the second scenario `keystates` compares the
    implementation's KeyState::revoke with [ks_revoke_keys] in every key state. *)
Theorem C03_revoke_covers_every_certified_key : forall ks ki,
  ks_certified ks ki = true <-> In ki (ks_revoke_keys ks).
Proof. exact revoke_covers_every_certified_key. Qed.

Print Assumptions C03_revoke_covers_every_certified_key.
Print Assumptions C03_model_run_meets_oracle.
Print Assumptions C03_agrees_meets_oracle.
Print Assumptions C03_model_run_meets_oracle_without_freshness_refuted.
Print Assumptions C03_insert_revokes_replaced.
Print Assumptions C03_remove_revokes.
Print Assumptions C03_update_objects_revokes.
Print Assumptions C03_update_certs_revokes.
Print Assumptions C03_retire_revokes_everything.
Print Assumptions C03_reissue_keeps_unexpired.
Print Assumptions C03_listener_keeps_revocations.
Print Assumptions C03_reissue_keeps_revocations.
Print Assumptions C03_covered_transitive.
