(** C18 - Concurrent requests and background tasks never deadlock or lose work.
    Only statements; proofs in conc/LocksProofs.v, conc/ConcCheck.v. *)
From KV Require Import base.Tac conc.Locks conc.LocksProofs conc.ConcCheck.
Open Scope N_scope.

(** The rank discipline is kept by every step. *)
Theorem C18_reachable_ranked : forall rank c0 c, all_ranked rank c0 -> reachable c0 c -> all_ranked rank c.
Proof. exact reachable_ranked. Qed.

(** No reachable configuration of rank-ordered lock programs is stuck: while any thread is unfinished
    some thread can take a step - for any number of threads and locks, reader-writer locks with writer
    preference included. *)
Theorem C18_ranked_no_deadlock : forall rank c0 c,
  all_ranked rank c0 -> reachable c0 c ->
  (exists t, In t c /\ unfinished t = true) -> exists c', step c c'.
Proof. exact ranked_no_deadlock. Qed.

Theorem C18_ranked_progress : forall rank c,
  all_ranked rank c -> (exists t, In t c /\ unfinished t = true) -> exists i, enabled c i = true.
Proof. exact ranked_progress. Qed.

(** Every step consumes program text: runs are finite, so with progress every thread completes. *)
Theorem C18_step_decreases_work : forall c c', step c c' -> (work c' < work c)%nat.
Proof. exact step_decreases_work. Qed.

(** The boolean check evaluated on the lock programs recorded from the real code is sound for the
    hypothesis of the theorems above. *)
Theorem C18_ranked_check_sound : forall rk p h, ranked_b rk h p = true -> ranked rk h p.
Proof. exact ranked_b_sound. Qed.

Print Assumptions C18_reachable_ranked.
Print Assumptions C18_ranked_no_deadlock.
Print Assumptions C18_ranked_progress.
Print Assumptions C18_step_decreases_work.
Print Assumptions C18_ranked_check_sound.
