(** C18 - Concurrent requests and background tasks never deadlock or lose work.
    Only statements; proofs in conc/LocksProofs.v, conc/ConcCheck.v. *)
From KV Require Import base.Tac conc.Locks conc.LocksProofs conc.Serial conc.SerialProofs conc.ConcCheck.
Open Scope N_scope.

(** The rank discipline is kept by every step. *)
Theorem C18_reachable_ranked : forall rank c0 c, all_ranked rank c0 -> reachable c0 c -> all_ranked rank c.
Proof. exact reachable_ranked. Qed.

(** No reachable configuration of rank-ordered lock programs is stuck: while any thread is unfinished
    some thread can take a step - for any number of threads and locks, reader-writer locks with writer
    preference included. *)
Theorem C18_ranked_no_deadlock : forall rank c0 c,
  all_ranked rank c0 -> reachable c0 c ->
  (exists t, In t c /\ unfinished t = true) -> exists c', step c c'.
Proof. exact ranked_no_deadlock. Qed.

Theorem C18_ranked_progress : forall rank c,
  all_ranked rank c -> (exists t, In t c /\ unfinished t = true) -> exists i, enabled c i = true.
Proof. exact ranked_progress. Qed.

(** Every step consumes program text: runs are finite, so with progress every thread completes. *)
Theorem C18_step_decreases_work : forall c c', step c c' -> (work c' < work c)%nat.
Proof. exact step_decreases_work. Qed.

(** The boolean check evaluated on the lock programs recorded from the real code is sound for the
    hypothesis of the theorems above. *)
Theorem C18_ranked_check_sound : forall rk p h, ranked_b rk h p = true -> ranked rk h p.
Proof. exact ranked_b_sound. Qed.

(** "Each is answered as in some one-at-a-time execution": on every trace in which entities (a CA, a store, the
    files of the repository under the publication server's update lock) are only mutated by the thread holding
    their lock, the mutations of an entity are the concatenation of single-thread critical sections in lock order.
    The check evaluates [well_locked] on the trace recorded from the real threads. *)
Theorem C18_per_entity_serial : forall tr e,
  well_locked [] tr = true ->
  Forall single_thread (sections e None tr) /\ concat (map snd (sections e None tr)) = writes e tr.
Proof. exact per_entity_serial. Qed.

Print Assumptions C18_reachable_ranked.
Print Assumptions C18_ranked_no_deadlock.
Print Assumptions C18_ranked_progress.
Print Assumptions C18_step_decreases_work.
Print Assumptions C18_ranked_check_sound.
Print Assumptions C18_per_entity_serial.
