(** C10 - Publication protocol: atomic deltas, hash checks and publisher isolation.
    Only statements: each theorem is closed by [exact] of a lemma proved in pubd/*Proofs.v.
    Model: pubd/Objects.v (URIs, jails, CurrentObjects, deltas), pubd/Staged.v (staged merge),
    pubd/Access.v (handles, jails), pubd/Content.v (requests as a state machine, invariants,
    the full statements that the code does not satisfy). *)
From KV Require Import base.Tac pubd.Objects pubd.ObjectsProofs pubd.Staged pubd.StagedProofs
  pubd.Access pubd.Content pubd.ContentProofs.
Open Scope N_scope.

(** A delta is accepted exactly when every element lies in the publisher's jail, every
    published URI is new and every updated or withdrawn URI holds content with the stated
    hash - all relative to the publisher's current objects *including* staged changes. *)
Theorem C10_publish_iff : forall st h j d,
  h_get h (st_pubs st) = Some j ->
  (snd (step st (OPublish h d)) = RDone <->
   forall e, In e d -> in_jail j (e_uri e) = true /\ ok_elem (view st h) e).
Proof. exact publish_iff. Qed.

Theorem C10_publish_unknown : forall st h d,
  h_get h (st_pubs st) = None -> step st (OPublish h d) = (st, RErrUnknown).
Proof. exact publish_unknown. Qed.

(** ... where the jail is the one derived from the publisher's own handle, in every state the
    server can reach. *)
Theorem C10_reachable_inv : forall base st, reachable base st ->
  st_base st = base /\ RegOk st /\ JailInv st /\ HNoDup st.
Proof. exact reachable_inv. Qed.

(** Not at all: a refused delta leaves the whole server state as it was. *)
Theorem C10_publish_atomic : forall st h d st' r,
  step st (OPublish h d) = (st', r) -> r <> RDone -> st' = st.
Proof. exact publish_atomic. Qed.

(** Completely: an accepted delta (each URI once, coherent spellings) turns the publisher's
    view into [apply_delta view d]; nobody else's view changes; the invariant is kept. *)
Theorem C10_publish_effect : forall st h d st',
  WF st -> NoDupK d -> CohL d -> step st (OPublish h d) = (st', RDone) ->
  (forall k, o_get k (view st' h) = o_get k (apply_delta (view st h) d))
  /\ (forall q, q <> h -> view st' q = view st q)
  /\ WF st'.
Proof. exact publish_effect. Qed.

Theorem C10_publish_complete : forall st h d st',
  WF st -> NoDupK d -> CohL d -> step st (OPublish h d) = (st', RDone) ->
  (forall e, In e d -> o_get (canon (e_uri e)) (view st' h) = eff e)
  /\ (forall k, (forall e, In e d -> canon (e_uri e) <> k) -> o_get k (view st' h) = o_get k (view st h)).
Proof. exact publish_complete. Qed.

Theorem C10_reachable_good_wf : forall base st, reachable_good base st -> WF st /\ reachable base st.
Proof. exact reachable_good_wf. Qed.

(** The building blocks on the object level. *)
Theorem C10_verify_iff : forall o d j,
  verify_delta_applies o d j = None <->
  (forall e, In e d -> in_jail j (e_uri e) = true /\ ok_elem o e).
Proof. exact verify_iff. Qed.

Theorem C10_apply_get : forall o d k, NoDupK d -> CohL d ->
  o_get k (apply_delta o d) =
  match kfind uri_eqb ekey k d with Some e => eff e | None => o_get k o end.
Proof. exact apply_get. Qed.

(** The staged merge: what is left under each URI, and that it is the sequential composition
    of the staged delta and the new one while staying applicable to the *published* snapshot
    (what an RRDP client checks when it applies the generated delta). *)
Theorem C10_merge_find : forall st d k, NoDupK d ->
  kfind uri_eqb ekey k (merge_new_elements st d) = mres (kfind uri_eqb ekey k st) (kfind uri_eqb ekey k d).
Proof. exact merge_find. Qed.

Theorem C10_staged_refines : forall snap st d,
  StagedInv snap st -> NoDupK d -> CohL d ->
  verified (apply_delta snap (staged_delta st)) d ->
  (forall k, o_get k (apply_delta snap (staged_delta (merge_new_elements st d)))
             = o_get k (apply_delta (apply_delta snap (staged_delta st)) d))
  /\ StagedInv snap (merge_new_elements st d).
Proof. exact staged_refines. Qed.

Theorem C10_conflict_arms_unreachable : forall snap st d,
  StagedInv snap st -> NoDupK d -> CohL d ->
  verified (apply_delta snap (staged_delta st)) d ->
  forall e, In e d -> conflict_arm (s_find (e_uri e) st) e = false.
Proof. exact conflict_arms_unreachable. Qed.

(** The list reply is the publisher's current content including staged changes. *)
Theorem C10_list_is_view : forall st h, step st (OList h) = (st, RList (list_reply (view st h))).
Proof. exact list_is_view. Qed.

Theorem C10_list_reply_exact : forall o k hh, In (k, hh) (list_reply o) <-> exists c, In (k, (hh, c)) o.
Proof. exact in_list_reply. Qed.

(** RRDP updates, session resets and publisher creation change no view. *)
Theorem C10_update_preserves_views : forall st st' r,
  HNoDup st -> step st OUpdate = (st', r) -> forall h, view st' h = view st h.
Proof. exact update_preserves_views. Qed.

Theorem C10_reset_preserves_views : forall st st' r,
  step st OReset = (st', r) -> forall h, view st' h = view st h.
Proof. exact reset_preserves_views. Qed.

Theorem C10_create_preserves_views : forall st h st' r,
  step st (OCreate h) = (st', r) -> forall q, view st' q = view st q.
Proof. exact create_preserves_views. Qed.

(** Isolation. A request made for one publisher never changes another publisher's view (no
    hypothesis); every object lies in the jail derived from its publisher's handle; publishers
    whose jails do not nest never hold the same URI and cannot list each other's objects. *)
Theorem C10_step_other_view : forall st o p st' r q,
  actor o = Some p -> step st o = (st', r) -> q <> p -> view st' q = view st q.
Proof. exact step_other_view. Qed.

Theorem C10_view_in_jail : forall base st h k,
  reachable base st -> o_get k (view st h) <> None -> in_jail (jail_of base h) k = true.
Proof. exact view_in_jail. Qed.

Theorem C10_isolation : forall base st p q,
  reachable base st -> p <> q -> jails_nest (jail_of base p) (jail_of base q) = false ->
  (forall k, o_get k (view st p) <> None -> o_get k (view st q) = None)
  /\ (forall o st' r, actor o = Some p -> step st o = (st', r) -> view st' q = view st q)
  /\ (forall k hh, In (k, hh) (list_reply (view st p)) -> o_get k (view st q) = None).
Proof. exact isolation. Qed.

(** Known finding F10a: jails are *not* disjoint in general (handles may contain '/', and "ta"
    gets the whole base), and then the full statement fails. *)
Theorem C10_isolation_refuted : ~ isolation_full.
Proof. exact isolation_refuted. Qed.

Theorem C10_isolation_refuted_ta :
  exists st k, reachable w_base st /\ o_get k (view st [ta_seg]) <> None /\ o_get k (view st [7]) <> None.
Proof. exact isolation_refuted_ta. Qed.

(** Removing a publisher withdraws all of its objects and nothing else. *)
Theorem C10_remove_exact : forall base st h st' r,
  reachable_good base st -> step st (ORemove h) = (st', r) ->
  view st' h = []
  /\ (forall q, q <> h -> view st' q = view st q)
  /\ (h_get h (st_pubs st') = None)
  /\ (r = RDone <-> h_get h (st_pubs st) <> None).
Proof. exact remove_exact. Qed.

(** Finding F10b: with URIs whose scheme is not spelled in lower case (and whose authority
    is), the key of CurrentObjects and the key of StagedElements disagree; removal then leaves
    an object behind and a staged withdraw can be undone by a publish. *)
Theorem C10_remove_exact_refuted : ~ remove_exact_full.
Proof. exact remove_exact_refuted. Qed.

Theorem C10_publish_complete_refuted : ~ publish_complete_full.
Proof. exact publish_complete_refuted. Qed.

Print Assumptions C10_publish_iff.
Print Assumptions C10_publish_unknown.
Print Assumptions C10_reachable_inv.
Print Assumptions C10_publish_atomic.
Print Assumptions C10_publish_effect.
Print Assumptions C10_publish_complete.
Print Assumptions C10_reachable_good_wf.
Print Assumptions C10_verify_iff.
Print Assumptions C10_apply_get.
Print Assumptions C10_merge_find.
Print Assumptions C10_staged_refines.
Print Assumptions C10_conflict_arms_unreachable.
Print Assumptions C10_list_is_view.
Print Assumptions C10_list_reply_exact.
Print Assumptions C10_update_preserves_views.
Print Assumptions C10_reset_preserves_views.
Print Assumptions C10_create_preserves_views.
Print Assumptions C10_step_other_view.
Print Assumptions C10_view_in_jail.
Print Assumptions C10_isolation.
Print Assumptions C10_isolation_refuted.
Print Assumptions C10_isolation_refuted_ta.
Print Assumptions C10_remove_exact.
Print Assumptions C10_remove_exact_refuted.
Print Assumptions C10_publish_complete_refuted.
