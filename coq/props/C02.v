(** C02 - Delegation follows entitlements, never over-claims, converges and is idempotent.
    Only statements: each theorem is closed by [exact] of a lemma proved in deleg/DelegProofs.v.
    Model: deleg/Deleg.v (resource sets are bit masks, deleg/Bits.v). *)
From KV Require Import base.Tac ca.Ca ca.CaProofs deleg.Bits deleg.Deleg deleg.DelegProofs.
Open Scope N_scope.

(** ** What is issued *)

(** A certificate is issued exactly when the request limit fits what the child can get; it then carries the
    child's entitlement intersected with the issuing certificate, narrowed by the limit. *)
Theorem C02_issued_exact : forall signing ent l r,
  issue_cert signing ent l = Some r <-> apply_limit l (inter signing ent) = Some r.
Proof. exact issued_exact. Qed.

Theorem C02_issued_exact_no_limit : forall signing ent, issue_cert signing ent no_limit = Some (inter signing ent).
Proof. exact issued_exact_no_limit. Qed.

Theorem C02_issued_within : forall signing ent l r,
  issue_cert signing ent l = Some r -> subset r signing = true /\ subset r ent = true.
Proof. exact issued_within. Qed.

(** the failure mode of the limit *)
Theorem C02_issue_refused_iff : forall signing ent l,
  issue_cert signing ent l = None <-> apply_limit l (inter signing ent) = None.
Proof. exact issue_refused_iff. Qed.

(** the narrowed set lies within the set the limit was applied to, and is closed under the limit *)
Theorem C02_apply_limit_sub : forall l set r, apply_limit l set = Some r -> subset r set = true.
Proof. exact apply_limit_sub. Qed.

Theorem C02_apply_limit_closed : forall l set r, apply_limit l set = Some r -> lim_closed l r.
Proof. exact apply_limit_closed. Qed.

(** ** Never over-claims: an invariant of every command *)

(** Whatever command the CA processes (child add / update / mapping / certify / revoke / remove / suspend /
    unsuspend, certificate received, class dropped, parent removed, key roll initiate / activate / finish, route
    update): if before it every issued and every suspended child certificate lay within the certificate of
    its class's current key, the same holds after it. There is no command after which it holds only later. *)
Theorem C02_never_overclaims : forall s cmd s', contained_all s -> dprocess s cmd = Done s' -> contained_all s'.
Proof. exact never_overclaims. Qed.

(** ** Shrinking *)

(** A certificate received for the current key is processed in one step: the state that very command produces
    carries the new certificate on the current key and no child certificate outside it. *)
Theorem C02_shrink_same_command : forall s c crt na exp s' dc cur,
  dprocess s (XReceived c crt na exp) = Done s' ->
  aget c (da_classes s) = Some dc -> ks_current (d_keys dc) = Some cur -> c_key crt = k_id cur -> ks_wf (d_keys dc) ->
  contained dc ->
  exists dc', aget c (da_classes s') = Some dc' /\ cur_res dc' = Some (c_res crt) /\ contained dc'
              /\ all_within (c_res crt) (d_issued dc') /\ all_within (c_res crt) (d_susp dc').
Proof. exact shrink_same_command. Qed.

(** Every certificate comes out with exactly what it had intersected with the new certificate, keeping its
    limit, or is removed if nothing is left. *)
Theorem C02_shrink_exact : forall newres exp m m' rm,
  shrink_map newres exp m = Some (m', rm) ->
  Forall (fun kc => cert_ok (snd kc)) m -> NoDup (map fst m) ->
  forall k c, aget k m = Some c ->
    if is_empty (inter (i_res c) newres) then aget k m' = None /\ In k rm
    else exists c', aget k m' = Some c' /\ i_res c' = inter (i_res c) newres /\ i_limit c' = i_limit c.
Proof. exact shrink_exact. Qed.

(** ... for issued and suspended certificates alike: the suspension history of a child makes no difference. *)
Theorem C02_shrink_exact_class : forall routes dc cur crt na exp dc' rm,
  cl_received_current routes dc cur crt na exp = Some (dc', rm) ->
  ks_current (d_keys dc) = Some cur -> ks_wf (d_keys dc) ->
  c_res crt <> c_res (k_cert cur) ->
  Forall (fun kc => cert_ok (snd kc)) (d_issued dc) -> NoDup (map fst (d_issued dc)) ->
  Forall (fun kc => cert_ok (snd kc)) (d_susp dc) -> NoDup (map fst (d_susp dc)) ->
  forall k c, (aget k (d_issued dc) = Some c ->
                 if is_empty (inter (i_res c) (c_res crt)) then aget k (d_issued dc') = None /\ In k rm
                 else exists c', aget k (d_issued dc') = Some c' /\ i_res c' = inter (i_res c) (c_res crt) /\ i_limit c' = i_limit c)
           /\ (aget k (d_susp dc) = Some c ->
                 if is_empty (inter (i_res c) (c_res crt)) then aget k (d_susp dc') = None /\ In k rm
                 else exists c', aget k (d_susp dc') = Some c' /\ i_res c' = inter (i_res c) (c_res crt) /\ i_limit c' = i_limit c).
Proof. exact shrink_exact_class. Qed.

(** ** Unsuspension *)

(** When a suspended child comes back, every issued certificate is either one that was issued before, untouched,
    or the re-issue of a suspended one: what that held, intersected with the issuing certificate and narrowed
    by its limit - and within the child's entitlement of that moment. *)
Theorem C02_unsuspend_within_entitlement : forall ent now exp keys dc dc' rm,
  cl_unsuspend dc ent keys now exp = Some (dc', rm) ->
  forall k c', aget k (d_issued dc') = Some c' ->
    aget k (d_issued dc) = Some c'
    \/ (exists s sg, aget k (d_susp dc) = Some s /\ cur_res dc = Some sg
                     /\ issue_cert sg (i_res s) (i_limit s) = Some (i_res c')
                     /\ subset (i_res s) ent = true /\ subset (i_res c') ent = true).
Proof. exact unsuspend_within_entitlement. Qed.

(** A suspended certificate is dropped only if it exceeds the entitlement or is about to expire. *)
Theorem C02_unsuspend_removes_only_unfit : forall ent now exp keys dc dc' rm,
  cl_unsuspend dc ent keys now exp = Some (dc', rm) ->
  forall k, In k rm -> exists s, aget k (d_susp dc) = Some s /\ ((now + 86400 <? i_exp s)%Z && subset (i_res s) ent) = false.
Proof. exact unsuspend_removes_only_unfit. Qed.

(** ** Finding F02a (known): a certificate issued under a request limit cannot be shrunk when the shrink
    touches a limited family. Full statement, refutation, strongest true restriction. *)
Theorem C02_shrink_total_refuted : ~ shrink_total_full.
Proof. exact shrink_total_refuted. Qed.

Theorem C02_shrink_total_except_limit : forall newres exp c,
  cert_ok c -> limit_untouched (i_limit c) newres -> exists o, shrink_one newres exp c = Some o.
Proof. exact shrink_total_except_limit. Qed.

Theorem C02_received_total_refuted : ~ received_total_full.
Proof. exact received_total_refuted. Qed.

Theorem C02_received_total_except_limit : forall routes dc cur crt na exp,
  ks_current (d_keys dc) = Some cur -> c_key crt = k_id cur ->
  Forall (fun kc => cert_ok (snd kc) /\ limit_untouched (i_limit (snd kc)) (c_res crt)) (d_issued dc) ->
  Forall (fun kc => cert_ok (snd kc) /\ limit_untouched (i_limit (snd kc)) (c_res crt)) (d_susp dc) ->
  exists r, cl_received_current routes dc cur crt na exp = Some r.
Proof. exact received_total_except_limit. Qed.

(** ** Key-roll activation (finding F04c, repaired in the tree by 0ff85b31) *)

(** After activation no ROA and no child certificate lies outside the certificate of the new current key,
    whatever the certificates of the two keys were. *)
Theorem C02_activate_roas_within : forall dc exp dc' rm, cl_activate dc exp = Some (Some (dc', rm)) -> roas_within dc'.
Proof. exact activate_roas_within. Qed.

Theorem C02_activate_contained : forall dc exp dc' rm, cl_activate dc exp = Some (Some (dc', rm)) -> contained dc'.
Proof. exact cl_activate_contained. Qed.

(** Regression witness: the originally pinned activation re-issued the ROAs without looking at the new
    certificate (full statement about the pinned function, its refutation, the restriction that did hold). *)
Theorem C02_activate_roas_refuted : ~ activate_roas_pinned_full.
Proof. exact activate_roas_pinned_refuted. Qed.

Theorem C02_activate_roas_pinned_except_smaller : forall dc exp dc' n cur,
  d_keys dc = KRollNew n cur -> subset (c_res (k_cert cur)) (c_res (k_cert n)) = true ->
  roas_within dc -> cl_activate_pinned dc exp = Some (Some dc') -> roas_within dc'.
Proof. exact activate_roas_pinned_except_smaller. Qed.

(** and a received certificate keeps the ROAs within it *)
Theorem C02_received_roas_within : forall routes dc crt na exp dc' rm,
  cl_received routes dc crt na exp = Some (dc', rm) -> roas_within dc -> roas_within dc'.
Proof. exact received_roas_within. Qed.

(** ** The sync driver *)

(** From every state in which the child is not in the middle of a key roll (no class yet, a pending key with
    its request, an active key with or without request), with a parent able to serve, at most two syncs
    reach Settled: no class if nothing is entitled, otherwise one class whose key carries exactly the entitled
    resources, no open request. The third hypothesis excludes the stuck state of [C02_open_request_empty_entitlement_stuck]. *)
Theorem C02_sync_converges : forall cfg pcn parent i1 i2 s pc R,
  pgood pcn s pc R -> start_ok pcn s ->
  (has_pending_requests (st_xc s) = true -> inter R (dc_ent (st_ch s)) <> 0) ->
  settledb pcn (sync_n cfg pcn parent [i1] s) = true \/ settledb pcn (sync_n cfg pcn parent [i1; i2] s) = true.
Proof. exact sync_converges. Qed.

(** From the last phase of a key roll (old key waiting for its revocation) at most three syncs reach Settled,
    provided the parent still knows the old key (see [C02_revoke_refused_stuck]). *)
Theorem C02_sync_converges_rollold : forall cfg pcn parent i1 i2 i3 s pc R x cur old,
  pgood pcn s pc R -> st_xc s = Some x -> d_keys x = KRollOld cur old -> unlimited x ->
  d_prcn x = name_for_child (dc_ch (st_ch s)) pcn ->
  ch_is_issued (dc_ch (st_ch s)) (k_id old) = true ->
  (k_req cur = true -> inter R (dc_ent (st_ch s)) <> 0) ->
  settledb pcn (sync_n cfg pcn parent [i1] s) = true
  \/ settledb pcn (sync_n cfg pcn parent [i1; i2] s) = true
  \/ settledb pcn (sync_n cfg pcn parent [i1; i2; i3] s) = true.
Proof. exact sync_converges_rollold. Qed.

(** In a settled state in which the parent reports nothing new a sync changes nothing and stores no command. *)
Theorem C02_sync_idempotent : forall cfg pcn parent inp s pc R x c,
  pgood pcn s pc R -> st_xc s = Some x -> d_keys x = KActive c -> settledb pcn s = true ->
  quiet cfg pcn inp pc (st_ch s) x c ->
  sync_step cfg pcn parent inp s = mkSres s 0 0 false.
Proof. exact sync_idempotent. Qed.

Theorem C02_sync_idempotent_none : forall cfg pcn parent inp s pc R,
  pgood pcn s pc R -> st_xc s = None -> settledb pcn s = true ->
  sync_step cfg pcn parent inp s = mkSres s 0 0 false.
Proof. exact sync_idempotent_none. Qed.

(** "nothing new" holds when the parent's copy of the child's certificate is the one the child holds, it is
    not within the re-issue threshold of its expiry, and it is the only certificate the parent lists *)
Theorem C02_quiet_fresh : forall cfg pcn inp pc dch x c ic R,
  cur_res pc = Some R -> d_keys x = KActive c -> c_res (k_cert c) = inter R (dc_ent dch) ->
  filter (fun k => amem k (d_issued pc)) (child_issued (dc_ch dch) pcn) = [k_id c] ->
  aget (k_id c) (d_issued pc) = Some ic -> i_exp ic = na_of x (k_id c) -> (si_now inp + cf_thr cfg < i_exp ic)%Z ->
  quiet cfg pcn inp pc dch x c.
Proof. exact quiet_fresh. Qed.

(** wants_update in arithmetic form: a new certificate is requested iff the resources differ, or the eligible
    not-after lies in the future, differs from the current one, and is more than 10 % shorter, or the current
    one has passed, or it is more than 10 % or at least a week longer. *)
Theorem C02_wants_update_spec : forall cur_res new_res cur_na new_na now,
  wants_update true false cur_res new_res cur_na new_na now = true <->
  new_res <> cur_res
  \/ (let rc := (cur_na - now)%Z in let re := (new_na - now)%Z in
      (0 < re /\ rc <> re /\ ((0 < rc /\ 10 * re < 9 * rc) \/ rc <= 0 \/ 11 * rc < 10 * re \/ 604800 <= re - rc))%Z).
Proof. exact wants_update_spec. Qed.

(** One sync of the request branch serves the open request of a pending or active key. *)
Theorem C02_step_request : forall cfg pcn parent inp s pc R x k,
  pgood pcn s pc R -> st_xc s = Some x -> unlimited x -> d_prcn x = name_for_child (dc_ch (st_ch s)) pcn ->
  (d_keys x = KPending (mkPK k true) \/ exists c, d_keys x = KActive c /\ k_id c = k /\ k_req c = true) ->
  inter R (dc_ent (st_ch s)) <> 0 ->
  settledb pcn (sr_st (sync_step cfg pcn parent inp s)) = true /\ sr_err (sync_step cfg pcn parent inp s) = false.
Proof. exact step_request. Qed.

(** Candidate finding (reported, see the evidence note): an open request that meets an empty entitlement is
    never cleared - each sync makes the parent store a certificate without resources, the response fails, the
    child stays where it was and never reaches the entitlement branch. *)
Theorem C02_open_request_empty_entitlement_stuck :
  let ins := [mkSin 100 50; mkSin 200 51; mkSin 300 52; mkSin 400 53; mkSin 500 54] in
  settledb 0 (sync_n ex_cfg 0 2 ins stuck_state) = false
  /\ st_xc (sync_n ex_cfg 0 2 ins stuck_state) = st_xc stuck_state
  /\ sr_err (sync_step ex_cfg 0 2 (mkSin 100 50) stuck_state) = true
  /\ sr_pcmds (sync_step ex_cfg 0 2 (mkSin 100 50) stuck_state) = 1
  /\ (exists pc', st_pc (sr_st (sync_step ex_cfg 0 2 (mkSin 100 50) stuck_state)) = Some pc'
                  /\ aget 8 (d_issued pc') = Some (mkIC 0 no_limit 31449700)).
Proof. exact sync_stuck_witness. Qed.

(** Candidate finding (reported): once the parent has removed the certificate of the child's old key, the
    revocation request that ends the key roll is refused for ever; the state is a fixed point of the driver. *)
Theorem C02_revoke_refused_stuck :
  let ins := [mkSin 100 50; mkSin 200 51; mkSin 300 52; mkSin 400 53] in
  sync_n ex_cfg 0 2 ins stuck_revoke_state = stuck_revoke_state
  /\ settledb 0 stuck_revoke_state = false
  /\ sr_err (sync_step ex_cfg 0 2 (mkSin 100 50) stuck_revoke_state) = true.
Proof. exact sync_stuck_revoke_witness. Qed.

(** ** A class the child gives up (its parent stopped listing it): nothing is left behind at the parent *)

(** After a revocation request naming (class as the parent names it for this child, key) has been performed, the
    parent holds no certificate for the key in that class - neither published nor suspended - and no longer
    counts the key as in use. *)
Theorem C02_revoke_clears : forall s h crcn ki s' dch,
  aget h (da_children s) = Some dch ->
  amem (name_in_parent (dc_ch dch) crcn) (da_classes s) = true ->
  dprocess s (XRevoke h crcn ki) = Done s' ->
  (exists dc', aget (name_in_parent (dc_ch dch) crcn) (da_classes s') = Some dc' /\ holds_key dc' ki = false)
  /\ (exists dch', aget h (da_children s') = Some dch' /\ ch_is_issued (dc_ch dch') ki = false).
Proof. exact revoke_clears. Qed.

(** The revocation requests of a given-up class (one per certified key, naming the class as the PARENT names it),
    all performed: the parent class behind that name holds no certificate for any certified key of that class. *)
Theorem C02_dropped_class_revoked : forall s h dch x c s',
  aget h (da_children s) = Some dch ->
  name_in_parent (dc_ch dch) (d_prcn x) = c ->
  amem c (da_classes s) = true ->
  revoke_all s h (class_revocations x) = Done s' ->
  exists dc', aget c (da_classes s') = Some dc' /\ forall k, In k (ks_certified (d_keys x)) -> holds_key dc' k = false.
Proof. exact dropped_class_revoked. Qed.

(** The name is all that ties a request to the certificate: requests under a name the parent does not know (such as
    the name the child itself gave the class) are all confirmed and change nothing. *)
Theorem C02_revocations_under_unknown_name_keep : forall s h dch wrong keys,
  aget h (da_children s) = Some dch ->
  aget (name_in_parent (dc_ch dch) wrong) (da_classes s) = None ->
  revoke_all s h (map (fun k => (wrong, k)) keys) = Done s.
Proof. exact revocations_under_unknown_name_keep. Qed.

(** The pair of the sync driver: the parent no longer lists the class, the child (no request open) synchronises,
    gives the class up and its revocation requests are performed: the parent class holds no certificate, published
    or suspended, for any key it counts as in use by this child. *)
Theorem C02_unlisted_class_leaves_nothing : forall cfg pcn parent inp s x pc' dch',
  st_xc s = Some x -> pending_requested x -> has_pending_requests (st_xc s) = false ->
  name_in_parent (dc_ch (st_ch s)) (d_prcn x) = pcn ->
  held_sub pcn s ->
  st_xc (sr_st (sync_step cfg pcn parent inp s)) = None ->
  p_revoke_all pcn (st_pc (sr_st (sync_step cfg pcn parent inp s))) (st_ch (sr_st (sync_step cfg pcn parent inp s)))
               (class_revocations x) = Some (pc', dch') ->
  forall pc k, pc' = Some pc -> child_key pcn dch' k -> holds_key pc k = false.
Proof. exact unlisted_class_leaves_nothing. Qed.

(** Candidate finding (replayed on the real code with c02 --revstop 1): "the requests of a given-up class are always
    all performed" is refuted - the exchange ends at the first refused request. A class in RollNew whose new key the
    parent has already revoked: the request for the current key is never sent and its certificate stays. Restriction:
    all are performed when the parent still counts every certified key of the class as in use. *)
Theorem C02_revocations_performed_refuted : ~ revocations_performed_full.
Proof. exact revocations_performed_refuted. Qed.

Theorem C02_revocation_stops_at_refused_request :
  class_revocations rs_given_up = [(0, 8); (0, 7)]
  /\ revoke_all rs_parent 4 (class_revocations rs_given_up) = Refused
  /\ (exists dc, aget 0 (da_classes rs_parent) = Some dc /\ holds_key dc 7 = true)
  /\ (exists s' dc', revoke_all rs_parent 4 [(0, 7)] = Done s' /\ aget 0 (da_classes s') = Some dc' /\ holds_key dc' 7 = false).
Proof. exact revocation_stops_at_refused_request. Qed.

Theorem C02_revocations_performed_when_in_use : forall s h dch x,
  aget h (da_children s) = Some dch ->
  amem (name_in_parent (dc_ch dch) (d_prcn x)) (da_classes s) = true ->
  NoDup (ks_certified (d_keys x)) ->
  (forall k, In k (ks_certified (d_keys x)) -> ch_is_issued (dc_ch dch) k = true) ->
  exists s', revoke_all s h (class_revocations x) = Done s'.
Proof. exact revocations_performed_when_in_use. Qed.

Print Assumptions C02_issued_exact.
Print Assumptions C02_issued_exact_no_limit.
Print Assumptions C02_issued_within.
Print Assumptions C02_issue_refused_iff.
Print Assumptions C02_apply_limit_sub.
Print Assumptions C02_apply_limit_closed.
Print Assumptions C02_never_overclaims.
Print Assumptions C02_shrink_same_command.
Print Assumptions C02_shrink_exact.
Print Assumptions C02_shrink_exact_class.
Print Assumptions C02_unsuspend_within_entitlement.
Print Assumptions C02_unsuspend_removes_only_unfit.
Print Assumptions C02_shrink_total_refuted.
Print Assumptions C02_shrink_total_except_limit.
Print Assumptions C02_received_total_refuted.
Print Assumptions C02_received_total_except_limit.
Print Assumptions C02_activate_roas_refuted.
Print Assumptions C02_activate_roas_pinned_except_smaller.
Print Assumptions C02_activate_roas_within.
Print Assumptions C02_activate_contained.
Print Assumptions C02_received_roas_within.
Print Assumptions C02_sync_converges.
Print Assumptions C02_sync_converges_rollold.
Print Assumptions C02_revoke_refused_stuck.
Print Assumptions C02_sync_idempotent.
Print Assumptions C02_sync_idempotent_none.
Print Assumptions C02_quiet_fresh.
Print Assumptions C02_wants_update_spec.
Print Assumptions C02_step_request.
Print Assumptions C02_open_request_empty_entitlement_stuck.
Print Assumptions C02_revoke_clears.
Print Assumptions C02_dropped_class_revoked.
Print Assumptions C02_revocations_under_unknown_name_keep.
Print Assumptions C02_unlisted_class_leaves_nothing.
Print Assumptions C02_revocations_performed_refuted.
Print Assumptions C02_revocation_stops_at_refused_request.
Print Assumptions C02_revocations_performed_when_in_use.
