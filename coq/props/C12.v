(** C12 - Up-down and publication requests act only for the registered identity key.
    Only statements: each theorem is closed by [exact] of a lemma proved in ident/IdentProofs.v.
    The single cryptographic modelling assumption, [cms_sound validate] (validation under key k
    succeeds iff the message was signed by k and is intact, Msg.v), is an explicit hypothesis.
    Unforgeability and the DER/CMS decoder are not proved. *)
From KV Require Import base.Tac ident.Msg ident.Updown ident.Local ident.IdentProofs.
Open Scope N_scope.

(** Both protocols, remote path: whatever is not refused was signed with the key registered for the
    claimed sender, is intact, and is acted upon for that sender only. *)
Theorem C12_acts_only_for_registered_key : forall validate6, cms_sound validate6 -> forall validate8, cms_sound validate8 ->
    (forall st ua m st' out, rfc6492 validate6 st ua m = (st', out) -> out <> Refused ->
       exists ch, aget (sender m) (p_children st) = Some ch /\ signed_by m = ch_id ch /\ intact m = true
                  /\ forall c, acted_for out = Some c -> c = sender m) /\
    (forall rp m rp' out, rfc8181 validate8 rp m = (rp', out) -> out <> Refused ->
       exists pb, aget (sender m) (r_pubs rp) = Some pb /\ signed_by m = pb_id pb /\ intact m = true
                  /\ forall h, acted_for out = Some h -> h = sender m).
Proof. exact acts_only_for_registered_key. Qed.

(** Another child's key, a replaced identity, a random key, an unknown sender, altered content: refused, state untouched. *)
Theorem C12_wrong_key_or_content_refused_6492 : forall validate6, cms_sound validate6 -> forall st ua m,
    (forall ch, aget (sender m) (p_children st) = Some ch -> signed_by m <> ch_id ch \/ intact m = false) ->
    rfc6492 validate6 st ua m = (st, Refused).
Proof. exact wrong_key_or_content_refused_6492. Qed.

Theorem C12_wrong_key_or_content_refused_8181 : forall validate8, cms_sound validate8 -> forall rp m,
    (forall pb, aget (sender m) (r_pubs rp) = Some pb -> signed_by m <> pb_id pb \/ intact m = false) ->
    rfc8181 validate8 rp m = (rp, Refused).
Proof. exact wrong_key_or_content_refused_8181. Qed.

Theorem C12_refused_no_change : forall validate6 validate8,
    (forall st ua m st', rfc6492 validate6 st ua m = (st', Refused) -> st' = st) /\
    (forall rp m rp', rfc8181 validate8 rp m = (rp', Refused) -> rp' = rp).
Proof. exact refused_no_change. Qed.

(** Effects of an accepted provisioning request are confined to its sender (see [confined], Updown.v):
    parent identity and every other child untouched, new or changed certificates within the sender's
    entitlement, removed certificates only for keys the sender had in use. *)
Theorem C12_effects_confined_6492 : forall validate st ua m st' out,
    rfc6492 validate st ua m = (st', out) ->
    match aget (sender m) (p_children st) with
    | Some ch0 => confined (ch_ent ch0) (is_issued ch0) (sender m) st st'
    | None => st' = st
    end.
Proof. exact effects_confined_6492. Qed.

Theorem C12_new_cert_within_entitlement : forall ent iu c st st' rcn rc rc' k ic,
    confined ent iu c st st' -> aget rcn (p_classes st) = Some rc -> aget rcn (p_classes st') = Some rc' ->
    aget k (rc_issued rc') = Some ic -> aget k (rc_issued rc) <> Some ic -> subset (ic_res ic) ent = true.
Proof. exact confined_new_cert. Qed.

Theorem C12_removed_cert_was_senders : forall ent iu c st st' rcn rc rc' k ic,
    confined ent iu c st st' -> aget rcn (p_classes st) = Some rc -> aget rcn (p_classes st') = Some rc' ->
    aget k (rc_issued rc) = Some ic -> aget k (rc_issued rc') = None -> iu k = true.
Proof. exact confined_removed_cert. Qed.

Theorem C12_other_children_untouched : forall ent iu c st st' c' x,
    confined ent iu c st st' -> c' <> c -> aget c' (p_children st) = Some x ->
    exists y, aget c' (p_children st') = Some y /\ ch_id y = ch_id x /\ ch_ent y = ch_ent x /\
              ch_susp y = ch_susp x /\ ch_last y = ch_last x /\
              forall k, aget k (ch_used y) = aget k (ch_used x) \/ (aget k (ch_used y) = Some Revoked /\ iu k = true).
Proof. exact confined_other_child. Qed.

Theorem C12_issue_within_entitlement : forall validate st ua m st' c r rcn k limit csr,
    rfc6492 validate st ua m = (st', Served c r) -> payload m = RIssue rcn k limit csr ->
    exists ch0 res, aget (sender m) (p_children st) = Some ch0 /\ payload r = RepIssue rcn k res /\
                    subset res (ch_ent ch0) = true.
Proof. exact issue_within_entitlement. Qed.

Theorem C12_effects_confined_8181 : forall validate rp m rp' out,
    rfc8181 validate rp m = (rp', out) -> confined8181 (sender m) rp rp' \/ rp' = rp.
Proof. exact effects_confined_8181. Qed.

Theorem C12_publish_within_jail : forall validate rp m rp' h r d pb,
    rfc8181 validate rp m = (rp', Served h r) -> payload m = QDelta d -> payload r = PSuccess ->
    aget (sender m) (r_pubs rp) = Some pb ->
    forall e, In e d -> prefix_b (pb_jail pb) (elem_uri e) = true.
Proof. exact publish_within_jail. Qed.

(** Replies carry the server side's identity key of that moment; before and after identity updates. *)
Theorem C12_reply_signed_with_current_id : forall validate6 validate8,
    (forall st ua m st' c r, rfc6492 validate6 st ua m = (st', Served c r) ->
       signed_by r = p_id st /\ p_id st' = p_id st /\ intact r = true /\
       sender r = p_handle st /\ recipient r = sender m /\ c = sender m) /\
    (forall rp m rp' h r, rfc8181 validate8 rp m = (rp', Served h r) ->
       signed_by r = r_id rp /\ r_id rp' = r_id rp /\ intact r = true /\ h = sender m).
Proof. exact reply_signed_with_current_id. Qed.

Theorem C12_reply_after_parent_id_update : forall validate6 st k ua m st' c r,
    rfc6492 validate6 (set_parent_id k st) ua m = (st', Served c r) -> signed_by r = k.
Proof. exact reply_after_parent_id_update. Qed.

Theorem C12_replaced_child_key_refused : forall validate6, cms_sound validate6 -> forall st c ch knew ua m,
    aget c (p_children st) = Some ch -> knew <> ch_id ch ->
    sender m = c -> signed_by m = ch_id ch ->
    rfc6492 validate6 (set_child_id c knew st) ua m = (set_child_id c knew st, Refused).
Proof. exact replaced_child_key_refused. Qed.

Theorem C12_new_child_key_validated : forall validate6, cms_sound validate6 -> forall st c ch knew ua m,
    aget c (p_children st) = Some ch -> sender m = c -> signed_by m = knew -> intact m = true ->
    fst (rfc6492 validate6 (set_child_id c knew st) ua m) = fst (process (set_child_id c knew st) ua c (payload m)) /\
    snd (rfc6492 validate6 (set_child_id c knew st) ua m) <> Refused.
Proof. exact new_child_key_validated. Qed.

Theorem C12_replaced_publisher_key_refused : forall validate8, cms_sound validate8 -> forall rp h pb knew jail m,
    aget h (r_pubs rp) = Some pb -> knew <> pb_id pb -> sender m = h -> signed_by m = pb_id pb ->
    let rp1 := add_publisher h knew jail (remove_publisher h rp) in
    rfc8181 validate8 rp1 m = (rp1, Refused).
Proof. exact replaced_publisher_key_refused. Qed.

Theorem C12_acts_only_along_history : forall validate6, cms_sound validate6 -> forall ins st pre i o,
    In (pre, i, o) (run validate6 st ins) ->
    match i, o with
    | InMsg ua m, Some out =>
        (out <> Refused ->
           exists ch, aget (sender m) (p_children pre) = Some ch /\ signed_by m = ch_id ch /\ intact m = true) /\
        (forall c r, out = Served c r -> signed_by r = p_id pre /\ c = sender m)
    | _, _ => True
    end.
Proof. exact acts_only_along_history. Qed.

(** [CertAuth::apply]'s unwraps are never reached from a provisioning request. *)
Theorem C12_rfc6492_never_panics : forall validate st ua m, snd (rfc6492 validate st ua m) <> Panicked.
Proof. exact rfc6492_never_panics. Qed.

(** The local shortcut (repaired tree, /repo 1a6ebc01): it acts only for a child whose registered ID key is the
    calling CA's own ID key ... *)
Theorem C12_local_acts_only_for_registered_key : forall st cl r st' out c,
    local6492 st cl r = (st', out) -> acted_for out = Some c ->
    exists ch, aget c (p_children st) = Some ch /\ ch_id ch = cl_id cl.
Proof. exact local_acts_only_for_registered_key. Qed.

(** ... a caller with any other key (or a contact naming nobody) is refused, and a refusal changes nothing ... *)
Theorem C12_local_wrong_key_refused : forall st cl r,
    (forall ch, aget (cl_contact_child cl) (p_children st) = Some ch -> ch_id ch <> cl_id cl) ->
    local6492 st cl r = (st, Refused).
Proof. exact local_wrong_key_refused. Qed.

Theorem C12_local_refused_no_change : forall st cl r st', local6492 st cl r = (st', Refused) -> st' = st.
Proof. exact local_refused_no_change. Qed.

(** ... the shortcut coincides, in every case, with the remote path fed with the message the caller would have
    signed with its own ID key ... *)
Theorem C12_local_equals_remote : forall validate st cl r,
    cms_sound validate ->
    let m := mkMsg (cl_contact_child cl) (p_handle st) r (cl_id cl) true in
    fst (local6492 st cl r) = fst (rfc6492 validate st local_ua m) /\
    match snd (local6492 st cl r), snd (rfc6492 validate st local_ua m) with
    | Served c1 r1, Served c2 r2 => c1 = c2 /\ payload r1 = payload r2
    | Errored c1, Errored c2 | Failed c1, Failed c2 => c1 = c2
    | Panicked, Panicked | Refused, Refused => True
    | _, _ => False
    end.
Proof. exact local_equals_remote. Qed.

(** ... and the effects stay confined to the child named in the contact. *)
Theorem C12_local_effects_confined : forall st cl r st' out,
    local6492 st cl r = (st', out) ->
    match aget (cl_contact_child cl) (p_children st) with
    | Some ch0 => confined (ch_ent ch0) (is_issued ch0) (cl_contact_child cl) st st'
    | None => st' = st
    end.
Proof. exact local_effects_confined. Qed.

(** Regression witness (finding F12a, fixed): the originally pinned shortcut, which involved no key, does NOT
    satisfy the statement - a CA whose stored parent contact names another child's handle was served as that
    child; it was right exactly for honest contacts. *)
Theorem C12_local_pinned_refuted : ~ local_acts_only_for_registered_key_on local6492_pinned.
Proof. exact local_pinned_refuted. Qed.

Theorem C12_local_pinned_acts_only_when_contact_matches : forall st cl r st' out c,
    contact_handle_matches_registration st cl ->
    local6492_pinned st cl r = (st', out) -> acted_for out = Some c -> out <> Errored c ->
    exists ch, aget c (p_children st) = Some ch /\ ch_id ch = cl_id cl.
Proof. exact local_pinned_acts_only_when_contact_matches. Qed.

(** The trust-anchor proxy as local parent: the same three statements, with the child table of the proxy. *)
Theorem C12_ta_local_acts_only_for_registered_key : forall st cl r st' ok,
    ta_local6492 st cl r = (st', Some ok) ->
    exists ch, aget (cl_contact_child cl) (ta_children st) = Some ch /\ tc_id ch = cl_id cl.
Proof. exact ta_local_acts_only_for_registered_key. Qed.

Theorem C12_ta_local_wrong_key_refused : forall st cl r,
    (forall ch, aget (cl_contact_child cl) (ta_children st) = Some ch -> tc_id ch <> cl_id cl) ->
    ta_local6492 st cl r = (st, None).
Proof. exact ta_local_wrong_key_refused. Qed.

Theorem C12_ta_local_refused_no_change : forall st cl r st', ta_local6492 st cl r = (st', None) -> st' = st.
Proof. exact ta_local_refused_no_change. Qed.

Theorem C12_ta_local_effects_confined : forall st cl r st' res c',
    ta_local6492 st cl r = (st', res) -> c' <> cl_contact_child cl ->
    aget c' (ta_children st') = aget c' (ta_children st).
Proof. exact ta_local_effects_confined. Qed.

(** Regression witness: without the comparison a request is queued at the TA in another child's name. *)
Theorem C12_ta_local_pinned_refuted : ~ ta_acts_only_for_registered_key_on ta_local6492_pinned.
Proof. exact ta_local_pinned_refuted. Qed.

(** The publication shortcut (repaired tree, /repo 346cb17c): it acts only for the publisher that carries the calling
    CA's handle, and only if that publisher's registered ID key is the calling CA's own ID key ... *)
Theorem C12_local8181_acts_only_for_registered_key : forall rp cl q rp' out h,
    local8181 rp cl q = (rp', out) -> acted_for out = Some h ->
    exists pb, aget h (r_pubs rp) = Some pb /\ pb_id pb = cl_id cl.
Proof. exact local8181_acts_only_for_registered_key. Qed.

Theorem C12_local8181_serves_own_handle : forall rp cl q rp' out h,
    local8181 rp cl q = (rp', out) -> acted_for out = Some h -> h = cl_handle cl.
Proof. exact local8181_serves_own_handle. Qed.

(** ... a caller with any other key (or without a publisher of its name) is refused, a refusal changes nothing ... *)
Theorem C12_local8181_wrong_key_refused : forall rp cl q,
    (forall pb, aget (cl_handle cl) (r_pubs rp) = Some pb -> pb_id pb <> cl_id cl) ->
    local8181 rp cl q = (rp, Refused).
Proof. exact local8181_wrong_key_refused. Qed.

Theorem C12_local8181_refused_no_change : forall rp cl q rp', local8181 rp cl q = (rp', Refused) -> rp' = rp.
Proof. exact local8181_refused_no_change. Qed.

(** ... for a query it coincides with the remote path fed with the message the caller would have signed with its own
    ID key and posted to the URL of the publisher that carries its handle ... *)
Theorem C12_local8181_equals_remote : forall validate rp cl q,
    cms_sound validate -> q <> QReply ->
    let m := mkMsg (cl_handle cl) 0 q (cl_id cl) true in
    fst (local8181 rp cl q) = fst (rfc8181 validate rp m) /\
    match snd (local8181 rp cl q), snd (rfc8181 validate rp m) with
    | Served h1 r1, Served h2 r2 => h1 = h2 /\ payload r1 = payload r2
    | Errored h1, Errored h2 | Failed h1, Failed h2 => h1 = h2
    | Panicked, Panicked | Refused, Refused => True
    | _, _ => False
    end.
Proof. exact local8181_equals_remote. Qed.

(** ... and the effects stay confined to that publisher's jail. *)
Theorem C12_local8181_effects_confined : forall rp cl q rp' out,
    local8181 rp cl q = (rp', out) -> confined8181 (cl_handle cl) rp rp' \/ rp' = rp.
Proof. exact local8181_effects_confined. Qed.

(** Regression witness (finding F12b, fixed): the originally pinned publication shortcut, which involved no key, does
    NOT satisfy the statement - a CA of the instance that carries the handle of a publisher registered with a
    different ID key was served as that publisher; it was right exactly when handle and registration matched. *)
Theorem C12_local8181_pinned_refuted : ~ local8181_acts_only_for_registered_key_on local8181_pinned.
Proof. exact local8181_pinned_refuted. Qed.

Theorem C12_local8181_pinned_acts_only_when_handle_matches : forall rp cl q rp' out h,
    publisher_handle_matches_registration rp cl ->
    local8181_pinned rp cl q = (rp', out) -> acted_for out = Some h ->
    exists pb, aget h (r_pubs rp) = Some pb /\ pb_id pb = cl_id cl.
Proof. exact local8181_pinned_acts_only_when_handle_matches. Qed.

(** Child updates ([ca_child_update]) in every shape - ID certificate only, resources only, both in one request, and
    a request whose resource part is refused: after an update that carries an ID certificate for an existing child
    the registered key IS the new key ... *)
Theorem C12_update_with_id_replaces_key : forall c u st k ch,
    aget c (p_children st) = Some ch -> u_id u = Some k ->
    exists ch', aget c (p_children (fst (child_update c u st))) = Some ch' /\ ch_id ch' = k /\ ch_susp ch' = ch_susp ch.
Proof. exact update_with_id_replaces_key. Qed.

(** ... an update without one leaves every registered key alone; no update touches another child, the parent's
    identity or any certificate; a successful one that carries resources sets exactly those ... *)
Theorem C12_update_without_id_keeps_keys : forall c u st c',
    u_id u = None ->
    option_map ch_id (aget c' (p_children (fst (child_update c u st)))) = option_map ch_id (aget c' (p_children st)).
Proof. exact update_without_id_keeps_keys. Qed.

Theorem C12_update_frame : forall c u st,
    p_id (fst (child_update c u st)) = p_id st /\ p_handle (fst (child_update c u st)) = p_handle st /\
    p_classes (fst (child_update c u st)) = p_classes st /\
    forall c', c' <> c -> aget c' (p_children (fst (child_update c u st))) = aget c' (p_children st).
Proof. exact update_frame. Qed.

Theorem C12_update_sets_entitlement : forall c u st st' r,
    child_update c u st = (st', true) -> u_res u = Some r ->
    exists ch', aget c (p_children st') = Some ch' /\ ch_ent ch' = r.
Proof. exact update_sets_entitlement. Qed.

(** ... so after an update of ANY shape that carries a new ID certificate a request signed with the replaced key is
    refused without change, and a request signed with the new key is validated (a list request is answered). *)
Theorem C12_replaced_key_refused_after_update : forall validate6, cms_sound validate6 -> forall st c ch u knew ua m,
    aget c (p_children st) = Some ch -> u_id u = Some knew -> knew <> ch_id ch ->
    sender m = c -> signed_by m = ch_id ch ->
    rfc6492 validate6 (fst (child_update c u st)) ua m = (fst (child_update c u st), Refused).
Proof. exact replaced_key_refused_after_update. Qed.

Theorem C12_new_key_served_after_update : forall validate6, cms_sound validate6 -> forall st c ch u knew ua m,
    aget c (p_children st) = Some ch -> u_id u = Some knew ->
    sender m = c -> signed_by m = knew -> intact m = true ->
    snd (rfc6492 validate6 (fst (child_update c u st)) ua m) <> Refused /\
    fst (rfc6492 validate6 (fst (child_update c u st)) ua m) = fst (process (fst (child_update c u st)) ua c (payload m)).
Proof. exact new_key_served_after_update. Qed.

Theorem C12_new_key_list_answered_after_update : forall validate6, cms_sound validate6 -> forall st c ch u knew ua m,
    aget c (p_children st) = Some ch -> u_id u = Some knew -> ch_susp ch = false ->
    sender m = c -> signed_by m = knew -> intact m = true -> payload m = RList ->
    exists rep st', rfc6492 validate6 (fst (child_update c u st)) ua m = (st', Served c rep).
Proof. exact new_key_list_answered_after_update. Qed.

(** The jail of a publisher is the directory named like its handle, for every handle other than exactly "ta"
    ([ta_name]) - whatever the handle starts with; a publisher that is added gets that jail and the given key. *)
Theorem C12_jail_is_own_directory : forall h, h <> ta_name -> jail_of h = [h].
Proof. exact jail_is_own_directory. Qed.

Theorem C12_create_publisher_jail : forall h k rp rp',
    create_publisher h k rp = (rp', true) ->
    exists pb, aget h (r_pubs rp') = Some pb /\ pb_id pb = k /\ pb_jail pb = jail_of h /\ pb_objs pb = [] /\
               forall h', h' <> h -> aget h' (r_pubs rp') = aget h' (r_pubs rp).
Proof. exact create_publisher_jail. Qed.

(** Along every history of publishers added and removed (an identity change is remove + add) and of messages, every
    stored jail is the one the handle determines ... *)
Theorem C12_jails_wf_along_history : forall validate ins rp, jails_wf rp -> jails_wf (rrun validate rp ins).
Proof. exact jails_wf_along_history. Qed.

(** ... hence an accepted delta names only URIs inside the jail the sender's HANDLE determines: for every sender other
    than exactly "ta", inside the directory named like the sender. *)
Theorem C12_publish_within_own_directory : forall validate rp m rp' h r d,
    jails_wf rp ->
    rfc8181 validate rp m = (rp', Served h r) -> payload m = QDelta d -> payload r = PSuccess ->
    forall e, In e d -> prefix_b (jail_of (sender m)) (elem_uri e) = true.
Proof. exact publish_within_own_directory. Qed.

Theorem C12_publish_only_under_own_handle_along_history : forall validate ins k v m rp' h r d,
    sender m <> ta_name ->
    rfc8181 validate (rrun validate (mkRepo k [] v) ins) m = (rp', Served h r) -> payload m = QDelta d -> payload r = PSuccess ->
    forall e, In e d -> exists rest, elem_uri e = sender m :: rest.
Proof. exact publish_only_under_own_handle_along_history. Qed.

(** The validator used to evaluate observed cases satisfies the modelling assumption. *)
Theorem C12_ideal_validate_sound : forall P, cms_sound (@ideal_validate P).
Proof. exact @ideal_validate_sound. Qed.

Print Assumptions C12_acts_only_for_registered_key.
Print Assumptions C12_wrong_key_or_content_refused_6492.
Print Assumptions C12_wrong_key_or_content_refused_8181.
Print Assumptions C12_refused_no_change.
Print Assumptions C12_effects_confined_6492.
Print Assumptions C12_new_cert_within_entitlement.
Print Assumptions C12_removed_cert_was_senders.
Print Assumptions C12_other_children_untouched.
Print Assumptions C12_issue_within_entitlement.
Print Assumptions C12_effects_confined_8181.
Print Assumptions C12_publish_within_jail.
Print Assumptions C12_reply_signed_with_current_id.
Print Assumptions C12_reply_after_parent_id_update.
Print Assumptions C12_replaced_child_key_refused.
Print Assumptions C12_new_child_key_validated.
Print Assumptions C12_replaced_publisher_key_refused.
Print Assumptions C12_acts_only_along_history.
Print Assumptions C12_rfc6492_never_panics.
Print Assumptions C12_local_acts_only_for_registered_key.
Print Assumptions C12_local_wrong_key_refused.
Print Assumptions C12_local_refused_no_change.
Print Assumptions C12_local_equals_remote.
Print Assumptions C12_local_effects_confined.
Print Assumptions C12_local_pinned_refuted.
Print Assumptions C12_local_pinned_acts_only_when_contact_matches.
Print Assumptions C12_ta_local_acts_only_for_registered_key.
Print Assumptions C12_ta_local_wrong_key_refused.
Print Assumptions C12_ta_local_refused_no_change.
Print Assumptions C12_ta_local_effects_confined.
Print Assumptions C12_ta_local_pinned_refuted.
Print Assumptions C12_local8181_acts_only_for_registered_key.
Print Assumptions C12_local8181_serves_own_handle.
Print Assumptions C12_local8181_wrong_key_refused.
Print Assumptions C12_local8181_refused_no_change.
Print Assumptions C12_local8181_equals_remote.
Print Assumptions C12_local8181_effects_confined.
Print Assumptions C12_local8181_pinned_refuted.
Print Assumptions C12_local8181_pinned_acts_only_when_handle_matches.
Print Assumptions C12_update_with_id_replaces_key.
Print Assumptions C12_update_without_id_keeps_keys.
Print Assumptions C12_update_frame.
Print Assumptions C12_update_sets_entitlement.
Print Assumptions C12_replaced_key_refused_after_update.
Print Assumptions C12_new_key_served_after_update.
Print Assumptions C12_new_key_list_answered_after_update.
Print Assumptions C12_jail_is_own_directory.
Print Assumptions C12_create_publisher_jail.
Print Assumptions C12_jails_wf_along_history.
Print Assumptions C12_publish_within_own_directory.
Print Assumptions C12_publish_only_under_own_handle_along_history.
Print Assumptions C12_ideal_validate_sound.
