(** C09 - Background work is durable and recurring maintenance never stops.
    Only statements: each theorem is closed by [exact] of a lemma proved elsewhere. *)
From Coq Require Import String.
From KV Require Import base.Tac queue.Queue queue.QueueProofs queue.FollowSpec queue.QueueSpec queue.TaskName queue.QueueCheck queue.QueueOracleProofs gen.GenQueue.
Open Scope N_scope.

(** Due tasks are handed out earliest first. *)
Theorem C09_claim_earliest : forall now now2 q q' k v,
  In (q', RClaimed k v) (claim now now2 q) ->
  exists e, In e (pend q) /\ e_ts e <= now /\ e_val e = v /\ e_name e = snd k
    /\ (forall e', In e' (pend q) -> e_ts e' <= now -> e_ts e <= e_ts e')
    /\ pend q' = del (pend q) (ekey e)
    /\ run q' = put (run q) (mkE (fst k) (snd k) v)
    /\ (fst k = now \/ (has (run q) (now, e_name e) = true /\ fst k = now2)).
Proof. exact claim_earliest. Qed.

Theorem C09_claim_none_iff : forall now now2 q,
  (exists q', In (q', RNone) (claim now now2 q)) <-> (forall e, In e (pend q) -> now < e_ts e).
Proof. exact claim_none_iff. Qed.

Theorem C09_claim_some_when_due : forall now now2 q e,
  In e (pend q) -> e_ts e <= now ->
  forall q' r, In (q', r) (claim now now2 q) -> exists k v, r = RClaimed k v.
Proof. exact claim_some_when_due. Qed.

(** Re-scheduling keeps the earlier of the two times. *)
Theorem C09_soonest_keeps_earlier : forall m n v t q q',
  f_min (flags m) = true -> f_if_absent (flags m) = false ->
  In q' (schedule m n v t q) ->
  exists e, In e (pend q') /\ e_name e = n /\ e_val e = v /\ e_ts e <= t /\
    ((forall x, In x (pend q) -> e_name x <> n) /\ e_ts e = t
     \/ exists old, In old (pend q) /\ e_name old = n /\ e_ts e = N.min t (e_ts old)).
Proof. exact soonest_keeps_earlier. Qed.

Theorem C09_if_missing_spec : forall n v t q q',
  In q' (schedule IfMissing n v t q) ->
  (In n (names q) /\ q' = q) \/ (~ In n (names q) /\ q' = mkQ (put (pend q) (mkE t n v)) (run q)).
Proof. exact if_missing_spec. Qed.

(** Nothing is silently dropped, for every operation and every operation sequence. *)
Theorem C09_no_silent_loss : forall q o q' r x,
  In (q', r) (step q o) -> In x (names q) -> In x (names q') \/ finishes o x.
Proof. exact no_silent_loss. Qed.

Theorem C09_never_dropped : forall q os q' x,
  steps q os q' -> In x (names q) -> (forall o, In o os -> ~ finishes o x) -> In x (names q').
Proof. exact never_dropped. Qed.

(** Restart: whatever was running is pending again, whatever the number of running tasks. *)
Theorem C09_restart_requeues_all : forall now_of q, run (startup now_of q) = [].
Proof. exact restart_requeues_all. Qed.

Theorem C09_restart_running_becomes_pending : forall now_of q e,
  NoDup (map ekey (run q)) -> In e (run q) ->
  In (e_name e) (map e_name (pend (startup now_of q))).
Proof. exact restart_running_becomes_pending. Qed.

Theorem C09_recurring_rescheduled_after_every_start : forall now_of tasks q q',
  In q' (start_tasks tasks (startup now_of q)) ->
  forall n v t, In (n, v, t) tasks -> In n (map e_name (pend q')).
Proof. exact recurring_rescheduled_after_every_start. Qed.

(** Result handling. *)
Theorem C09_handle_keeps_unless_done : forall k r q q' res0 x,
  In (q', res0) (handle_result k r q) -> In x (names q) -> r <> Done -> In x (names q').
Proof. exact handle_keeps_unless_done. Qed.

Theorem C09_followup_self_requeues : forall k n v t q q' res0,
  In (q', res0) (handle_result k (FollowUp n v t) q) ->
  (exists e, In e (pend q') /\ e_name e = n /\ e_val e = v /\ e_ts e <= t) /\
  (forall e, In e (run q') -> In e (run q)).
Proof. exact followup_self_requeues. Qed.

(** Ties to the source (regenerated tables) and follow-up completeness. *)
Theorem C09_gen_flags_agree : forall m, gen_flags m = flags m.
Proof. exact GenQueue_flags_agree. Qed.
Theorem C09_gen_tq_agree : forall e, gen_tq_mode e = tq_mode e.
Proof. exact GenQueue_tq_agree. Qed.
Theorem C09_gen_startup_agree : gen_startup_min_running = startup_min_running.
Proof. exact GenQueue_startup_agree. Qed.
Theorem C09_gen_shapes : gen_unrecognised_shapes = [] /\ gen_startup_order_ok = true.
Proof. exact GenQueue_shapes_recognised. Qed.
Theorem C09_followups_complete : forall req, In req required_ca_followups -> has_followup gen_ca_pre_save req = true.
Proof. exact followups_complete. Qed.
Theorem C09_ta_followups_complete : forall req, In req required_ta_pre -> has_followup gen_ta_pre_save req = true.
Proof. exact ta_followups_complete. Qed.
Theorem C09_recurring_queued_at_start : forall t, In t recurring ->
  existsb (fun '(e, t', g) => String.eqb e "schedule_missing" && String.eqb t t' && String.eqb g "") gen_start_tasks = true.
Proof. exact recurring_queued_at_start. Qed.
Theorem C09_recurring_never_done : forall t,
  In t (recurring ++ ["RenewTestbedTa"%string; "RefreshAnnouncementsInfo"%string])%list -> lookup_process t = [("FollowUp"%string, t)].
Proof. exact recurring_never_done. Qed.

(** Task names: two different parent-sync tasks have different queue names provided the CA handles contain
    no '_'; without that restriction the statement is false (known finding F09b). *)
Theorem C09_task_name_injective_without_underscore : forall ca1 p1 ca2 p2,
  no_underscore ca1 -> no_underscore ca2 ->
  sync_parent_name ca1 p1 = sync_parent_name ca2 p2 -> ca1 = ca2 /\ p1 = p2.
Proof. exact name_injective_without_underscore. Qed.

Theorem C09_task_name_injective_refuted : ~ name_injective_full.
Proof. exact name_injective_refuted. Qed.

(** The executable oracle evaluated on the implementation's transitions (nothing lost, earliest due first, the
    scheduling modes, everything running is pending again after a restart) is met by EVERY outcome of EVERY
    operation of the model on EVERY queue - so an implementation transition that agrees with the model
    satisfies it, and an oracle failure always is a disagreement with the model. *)
Theorem C09_model_step_meets_oracle : forall q o q' r,
  In (q', r) (step q o) -> c09_ok (mkCase q o q' r) = true.
Proof. exact step_meets_oracle. Qed.

Theorem C09_agrees_meets_oracle : forall c, agrees c = true -> c09_ok c = true.
Proof. exact agrees_meets_oracle. Qed.

(** After a restart every task that was running is pending again - with no hypothesis on the keys. *)
Theorem C09_restart_running_becomes_pending_any : forall now_of q e,
  In e (run q) -> In (e_name e) (map e_name (pend (startup now_of q))).
Proof. exact restart_running_becomes_pending_any. Qed.

(** Storage keys are distinct within each scope in every queue reachable from the empty one. *)
Theorem C09_keys_distinct_in_reachable_queues : forall os q, steps (mkQ [] []) os q -> wf q.
Proof. exact wf_reachable. Qed.

Print Assumptions C09_model_step_meets_oracle.
Print Assumptions C09_agrees_meets_oracle.
Print Assumptions C09_restart_running_becomes_pending_any.
Print Assumptions C09_keys_distinct_in_reachable_queues.
Print Assumptions C09_task_name_injective_without_underscore.
Print Assumptions C09_task_name_injective_refuted.
Print Assumptions C09_claim_earliest.
Print Assumptions C09_claim_none_iff.
Print Assumptions C09_claim_some_when_due.
Print Assumptions C09_soonest_keeps_earlier.
Print Assumptions C09_if_missing_spec.
Print Assumptions C09_no_silent_loss.
Print Assumptions C09_never_dropped.
Print Assumptions C09_restart_requeues_all.
Print Assumptions C09_restart_running_becomes_pending.
Print Assumptions C09_recurring_rescheduled_after_every_start.
Print Assumptions C09_handle_keeps_unless_done.
Print Assumptions C09_followup_self_requeues.
Print Assumptions C09_gen_flags_agree.
Print Assumptions C09_gen_tq_agree.
Print Assumptions C09_gen_startup_agree.
Print Assumptions C09_gen_shapes.
Print Assumptions C09_followups_complete.
Print Assumptions C09_ta_followups_complete.
Print Assumptions C09_recurring_queued_at_start.
Print Assumptions C09_recurring_never_done.
