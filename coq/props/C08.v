(** C08 - A crash or failed write at any instant is recoverable without loss or divergence.
    Only statements; proofs in crash/CrashProofs.v (model: crash/Crash.v over es/Es.v, ca/Ca.v). *)
From KV Require Import base.Tac es.Es es.EsProofs ca.Ca crash.Crash crash.CrashProofs.
Open Scope N_scope.

Section Generic.
  Variables (S Ev : Type) (init : S) (apply : S -> Ev -> S).
  Variable Ob : Type.
  Variable listen : Ob -> list Ev -> option Ob.
  Variable pre_tasks post_tasks : list Ev -> list task.

  Notation sys := (sys S Ev Ob).
  Notation steps_of := (steps_of S Ev init apply Ob listen pre_tasks post_tasks).
  Notation run_cut := (run_cut S Ev Ob).
  Notation fail_at := (fail_at S Ev Ob).
  Notation crash := (crash S Ev Ob).
  Notation recover := (recover S Ev init apply Ob).
  Notation complete := (complete S Ev init apply Ob listen pre_tasks post_tasks).
  Notation resubmit := (resubmit S Ev init apply Ob listen pre_tasks post_tasks).
  Notation run_hist := (run_hist S Ev init apply Ob listen pre_tasks post_tasks).
  Notation s_log := (s_log S Ev Ob).
  Notation s_objs := (s_objs S Ev Ob).
  Notation s_pend := (s_pend S Ev Ob).
  Notation s_run := (s_run S Ev Ob).
  Notation cmds := (cmds S Ev).
  Notation load := (Es.load S Ev init apply).
  Notation replay := (Es.replay S Ev init apply).
  Notation wf := (wf S Ev init apply Ob).
  Notation extends := (extends S Ev Ob).
  Notation cmd_index := (cmd_index S Ev Ob pre_tasks).
  Notation side_effects := (side_effects S Ev Ob pre_tasks).
  Notation run_side := (run_side S Ev Ob).
  Notation Known := (Known S Ev Ob pre_tasks).

  (** For every operation kind (accepted / rejected / no-op command, re-publication, task scheduling,
      claim, finish, reschedule, follow-up, snapshot), every well-formed state and EVERY cut index n of its
      mutation trace: the cut state exists (no mutation damages the log), the restarted system is
      well-formed, what recovery loads is the replay of the surviving log, and that log extends the old one. *)
  Theorem C08_every_prefix_loads : forall (s : sys) (o : op Ev Ob) (n : nat), wf s ->
    exists s', run_cut n (steps_of s o) s = Some s' /\ wf (crash s') /\
      recover s' = replay (cmds (s_log s')) /\ extends s s'.
  Proof. exact (every_prefix_loads S Ev init apply Ob listen pre_tasks post_tasks). Qed.

  (** The same with one failing write instead of a crash, on the still-running instance. *)
  Theorem C08_every_failed_write_loads : forall (s : sys) (o : op Ev Ob) (n : nat), wf s ->
    exists s', fail_at n (steps_of s o) s = Some s' /\ wf s' /\ load (s_log s') = replay (cmds (s_log s')) /\ extends s s'.
  Proof. exact (every_failed_write_loads S Ev init apply Ob listen pre_tasks post_tasks). Qed.

  (** Any history of completed operations, crashes at any mutation, single failing writes and restarts. *)
  Theorem C08_history_never_damages_log : forall (hs : list (hop Ev Ob)) (s : sys), wf s ->
    exists s', run_hist s hs = Some s' /\ wf s' /\ extends s s'.
  Proof. exact (run_hist_ok S Ev init apply Ob listen pre_tasks post_tasks). Qed.

  (** An acknowledged command stays at its place in the log through every later history, and recovery replays it. *)
  Theorem C08_ack_never_lost : forall (s : sys) (evs : list Ev) (s1 : sys) (hs : list (hop Ev Ob)),
    wf s -> listen (s_objs s) evs <> None -> complete (OCommand evs) s = Some s1 ->
    exists sN, run_hist s1 hs = Some sN /\
      nth_error (cmds (s_log sN)) (length (cmds (s_log s))) = Some (SEvents evs) /\
      recover sN = replay (cmds (s_log sN)).
  Proof. exact (ack_never_lost S Ev init apply Ob listen pre_tasks post_tasks). Qed.

  (** One failing write up to and including the command store: the stored aggregate (commands, snapshot,
      cache) is untouched; what remains is exactly the first n side effects (listener write, then the
      task-queue writes of the events' tasks); other task names and running tasks are untouched. *)
  Theorem C08_failed_write_invisible : forall (s : sys) (evs : list Ev) (o' : Ob) (n : nat),
    wf s -> listen (s_objs s) evs = Some o' -> (n <= cmd_index s evs)%nat ->
    exists s', fail_at n (steps_of s (OCommand evs)) s = Some s' /\
      s' = run_side (firstn n (side_effects s o' evs)) s /\
      s_log s' = s_log s /\ load (s_log s') = load (s_log s) /\
      s_objs s' = match n with O => s_objs s | _ => o' end /\
      s_run s' = s_run s /\
      (forall t, t_mem (pre_tasks evs) t = false -> t_mem (s_pend s') t = t_mem (s_pend s) t).
  Proof. exact (failed_write_invisible S Ev init apply Ob listen pre_tasks post_tasks). Qed.

  Theorem C08_cut_equals_failed_write : forall (s : sys) (evs : list Ev) (o' : Ob) (n : nat),
    listen (s_objs s) evs = Some o' -> (n <= cmd_index s evs)%nat ->
    run_cut n (steps_of s (OCommand evs)) s = fail_at n (steps_of s (OCommand evs)) s.
  Proof. exact (cut_equals_failed_write S Ev init apply Ob listen pre_tasks post_tasks). Qed.

  (** With one failing write anywhere in the command, log and in-memory state move together. *)
  Theorem C08_failed_write_log_and_cache_atomic : forall (s : sys) (evs : list Ev) (o' : Ob) (n : nat) (s' : sys),
    wf s -> listen (s_objs s) evs = Some o' -> fail_at n (steps_of s (OCommand evs)) s = Some s' ->
    s_log s' = s_log s
    \/ (cmds (s_log s') = cmds (s_log s) ++ [SEvents evs] /\
        cache S Ev (s_log s') = Some (replay (cmds (s_log s) ++ [SEvents evs])) /\ s_objs s' = o').
  Proof. exact (failed_write_log_and_cache_atomic S Ev init apply Ob listen pre_tasks post_tasks). Qed.

  (** The atomicity clause outside the known window (cuts 1 .. index of the command store: finding F08a). *)
  Theorem C08_atomic_alike_except_known : forall (s : sys) (evs : list Ev) (o' : Ob) (n : nat) (s' : sys),
    wf s -> listen (s_objs s) evs = Some o' ->
    run_cut n (steps_of s (OCommand evs)) s = Some s' -> ~ Known s evs n ->
    (cmds (s_log (crash s')) = cmds (s_log s) /\ s_objs s' = s_objs s /\ s_pend s' = s_pend s)
    \/ (cmds (s_log (crash s')) = cmds (s_log s) ++ [SEvents evs] /\ s_objs s' = o').
  Proof. exact (atomic_alike_except_known S Ev init apply Ob listen pre_tasks post_tasks). Qed.

  (** At every cut: the log is all-or-nothing; before the command store the published-object store and the
      queue may be ahead by exactly this command's listener output and its own task names. *)
  Theorem C08_log_all_or_nothing_objects_may_lead : forall (s : sys) (evs : list Ev) (o' : Ob) (n : nat) (s' : sys),
    wf s -> listen (s_objs s) evs = Some o' ->
    run_cut n (steps_of s (OCommand evs)) s = Some s' ->
    ((n <= cmd_index s evs)%nat /\ s_log s' = s_log s /\ s_objs s' = match n with O => s_objs s | _ => o' end /\
       s_run s' = s_run s /\ (forall t, t_mem (pre_tasks evs) t = false -> t_mem (s_pend s') t = t_mem (s_pend s) t))
    \/ ((cmd_index s evs < n)%nat /\ cmds (s_log s') = cmds (s_log s) ++ [SEvents evs] /\
        snap S Ev (s_log s') = snap S Ev (s_log s) /\ s_objs s' = o' /\
        (forall t, t_mem (pre_tasks evs) t = true -> t_mem (post_tasks evs) t = false -> t_mem (s_pend s') t = true)).
  Proof. exact (log_all_or_nothing_objects_may_lead S Ev init apply Ob listen pre_tasks post_tasks). Qed.

  (** Resubmission after a cut or failing write before / at the command store, on the surviving or the
      restarted instance: log, snapshot, cache, observable published objects, pending and running task names
      equal those of the run without the fault - provided the listener accepts the same events on its own
      output with the same observable result (true for product updates, false for the key life cycle). *)
  Theorem C08_converges_after_resubmit : forall (V : Type) (obs : Ob -> V)
    (s : sys) (evs : list Ev) (o' o2 : Ob) (n : nat) (s' sr : sys),
    wf s -> listen (s_objs s) evs = Some o' ->
    listen o' evs = Some o2 -> obs o2 = obs o' ->
    (n <= cmd_index s evs)%nat ->
    (run_cut n (steps_of s (OCommand evs)) s = Some s' \/ fail_at n (steps_of s (OCommand evs)) s = Some s') ->
    (sr = s' \/ sr = crash s') ->
    exists s2 twin, resubmit (OCommand evs) sr = Some s2 /\ complete (OCommand evs) s = Some twin /\
      cmds (s_log s2) = cmds (s_log twin) /\ snap S Ev (s_log s2) = snap S Ev (s_log twin) /\
      cache S Ev (s_log s2) = cache S Ev (s_log twin) /\
      obs (s_objs s2) = obs (s_objs twin) /\
      tset_eq (s_pend s2) (s_pend twin) /\ tset_eq (s_run s2) (s_run twin).
  Proof. exact (converges_after_resubmit S Ev init apply Ob listen pre_tasks post_tasks). Qed.
End Generic.

(** The full atomicity clause ("log, memory and published-object set alike") is refuted on the CA instance:
    cut 2 of a ROA update leaves the ROA in the published-object store and a SyncRepo task in the queue for a
    command that is in no log (witness: CrashProofs.atomic_alike_witness). *)
Theorem C08_atomic_alike_refuted :
  ~ atomic_alike_full ca_state event (Some Witness.ca0) ca_apply objects (ca_listen Witness.env0 Witness.cn) (ca_pre 2) ca_post.
Proof. exact atomic_alike_refuted. Qed.

(** The key-roll activation cannot be resubmitted after such a cut: the listener refuses its own output. *)
Theorem C08_keyroll_activation_not_resubmittable :
  exists o' s',
    ca_listen Witness.env0 Witness.cn (s_objs _ _ _ Witness.s_roll) Witness.evs_act = Some o' /\
    run_cut ca_state event objects 1
      (steps_of ca_state event (Some Witness.ca_roll) ca_apply objects (ca_listen Witness.env0 Witness.cn) (ca_pre 2) ca_post Witness.s_roll (OCommand Witness.evs_act))
      Witness.s_roll = Some s' /\
    cmds ca_state event (s_log _ _ _ s') = [] /\
    forall sr, sr = s' \/ sr = crash _ _ _ s' ->
      steps_of ca_state event (Some Witness.ca_roll) ca_apply objects (ca_listen Witness.env0 Witness.cn) (ca_pre 2) ca_post sr (OCommand Witness.evs_act) = [].
Proof. exact keyroll_activation_not_resubmittable. Qed.

(** One failing queue store after the command store: the command is acknowledged and logged, the child's
    recurring parent-sync task is lost from the running daemon's queue. *)
Theorem C08_failed_queue_store_loses_task :
  exists s',
    fail_at ca_state event objects 3
      (steps_of ca_state event (Some Witness.ca_par) ca_apply objects (ca_listen Witness.env0 Witness.cn) (ca_pre 1) ca_post Witness.s_par (OCommand Witness.evs_child))
      Witness.s_par = Some s' /\
    cmds ca_state event (s_log _ _ _ s') = [SEvents Witness.evs_child] /\
    t_mem (s_pend _ _ _ Witness.s_par) (SYNC_PARENT, 2) = true /\
    t_mem (s_pend _ _ _ s') (SYNC_PARENT, 2) = false /\ t_mem (s_run _ _ _ s') (SYNC_PARENT, 2) = false.
Proof. exact failed_queue_store_loses_task. Qed.

(** Publication server content store: a snapshot and the deletion of the change sets, cut anywhere. *)
Theorem C08_wal_snapshot_every_prefix_loads : forall w n,
  ~ In (wal_load w) (w_sets w) ->
  wal_load (wal_run w (firstn n (wal_snapshot_trace w))) = wal_load w.
Proof. exact wal_snapshot_every_prefix_loads. Qed.

(** The same without side condition, for the cut (crash) and for one failing write: the snapshot is stored
    before the change sets are removed (wal.rs:399-414), so at EVERY cut point the stored state loads the
    revision that was acknowledged - nothing acknowledged is lost. *)
Theorem C08_wal_snapshot_recovers_at_every_cut : forall w n,
  wal_load (wal_run w (firstn n (wal_snapshot_trace w))) = wal_load w.
Proof. exact wal_snapshot_recovers_at_every_cut. Qed.

Theorem C08_wal_snapshot_failed_write_recovers : forall w n,
  wal_load (wal_fail_at n (wal_snapshot_trace w) w) = wal_load w.
Proof. exact wal_snapshot_failed_write_recovers. Qed.

Theorem C08_wal_snapshot_keeps_acknowledged : forall w n,
  wal_keeps_acknowledged w (wal_run w (firstn n (wal_snapshot_trace w))) /\
  wal_keeps_acknowledged w (wal_fail_at n (wal_snapshot_trace w) w).
Proof. exact wal_snapshot_keeps_acknowledged. Qed.

(** The swapped order (change sets removed first, snapshot stored last) is refuted: a cut after the first
    removal loses acknowledged change sets; a failing write of the snapshot falls back to the old snapshot,
    which loses every change set acknowledged since then. *)
Theorem C08_wal_snapshot_swapped_refuted : ~ wal_snapshot_swapped_recovers.
Proof. exact wal_snapshot_swapped_refuted. Qed.

Theorem C08_wal_swapped_failed_snapshot_write_falls_back : forall w,
  wal_load (wal_fail_at (length (w_sets w)) (wal_snapshot_trace_swapped w) w) = w_snap w.
Proof. exact wal_swapped_failed_snapshot_write_falls_back. Qed.

Theorem C08_wal_swapped_loses_acknowledged : forall w, In (w_snap w) (w_sets w) ->
  ~ wal_keeps_acknowledged w (wal_fail_at (length (w_sets w)) (wal_snapshot_trace_swapped w) w).
Proof. exact wal_swapped_loses_acknowledged. Qed.

(** The record of a rejected command: one failing write of it leaves log and memory untouched (the store error
    ends the call before the cache update). Written best effort instead (regression witness), memory runs
    ahead of the log and the next accepted command can only be written behind a gap. *)
Theorem C08_rejected_record_failed_write_invisible :
  forall (S Ev : Type) (init : S) (apply : S -> Ev -> S) (Ob : Type) (listen : Ob -> list Ev -> option Ob) (pre post : list Ev -> list task)
    (s : sys S Ev Ob),
  fail_at S Ev Ob 0 (steps_of S Ev init apply Ob listen pre post s ORejected) s = Some s.
Proof. exact rejected_record_failed_write_invisible. Qed.

Theorem C08_rejected_record_best_effort_refuted :
  let s0 := mkSys unit unit unit (empty_store unit unit) tt [] [] in
  let cmd := complete unit unit tt (fun s _ => s) unit (fun _ _ => Some tt) (fun _ => []) (fun _ => []) (OCommand [tt]) in
  exists s1,
    fail_at unit unit unit 0 (steps_rejected_best_effort unit unit tt (fun s _ => s) unit s0) s0 = Some s1 /\
    cmds unit unit (s_log _ _ _ s1) = [] /\
    cache unit unit (s_log _ _ _ s1) = Some (mkAgg unit 2 tt) /\
    cmd s1 = None /\
    (exists s2, cmd (crash unit unit unit s1) = Some s2 /\ cmds unit unit (s_log _ _ _ s2) = [SEvents [tt]]).
Proof. exact rejected_record_best_effort_refuted. Qed.

(** rsync tree switch. *)
Theorem C08_rsync_current_at_every_cut : forall c0 c1 n r',
  rsync_run (rs_clean (Some c0)) (firstn n (rsync_write_trace (rs_clean (Some c0)) c1)) = Some r' ->
  r_current r' = Some c0 \/ r_current r' = None \/ r_current r' = Some c1.
Proof. exact rsync_current_at_every_cut. Qed.

Theorem C08_rsync_between_renames_heals : forall c0 c1 c2 r,
  rsync_run (rs_clean (Some c0)) (firstn 2 (rsync_write_trace (rs_clean (Some c0)) c1)) = Some r ->
  r_current r = None /\
  exists r2, rsync_run r (rsync_write_trace r c2) = Some r2 /\ r_current r2 = Some c2 /\ r_old r2 = None.
Proof. exact rsync_between_renames_heals. Qed.

(** The repaired switch (e1f99c61): after a cut anywhere in a write the next write succeeds, [current] holds
    the new content and the tree is clean again. *)
Theorem C08_rsync_next_write_succeeds_after_any_cut : forall cur c1 c2 n r,
  rsync_run (rs_clean cur) (firstn n (rsync_write_trace (rs_clean cur) c1)) = Some r ->
  rsync_run r (rsync_write_trace r c2) = Some (rs_clean (Some c2)).
Proof. exact rsync_next_write_succeeds_after_any_cut. Qed.

Theorem C08_rsync_write_never_stuck : forall cur c1 c2 n m r,
  rsync_run (rs_clean cur) (firstn n (rsync_write_trace (rs_clean cur) c1)) = Some r ->
  rsync_run r (firstn m (rsync_write_trace r c2)) <> None.
Proof. exact rsync_write_never_stuck. Qed.

(** Regression witness: the originally pinned switch got stuck for ever (F11c). *)
Theorem C08_rsync_stuck_after_cut_pinned : forall c0 c1 r,
  rsync_run (rs_clean (Some c0)) (firstn 3 (rsync_write_trace_pinned (rs_clean (Some c0)) c1)) = Some r ->
  r_current r = Some c1 /\ r_old r = Some c0 /\ forall c2, rsync_run r (rsync_write_trace_pinned r c2) = None.
Proof. exact rsync_stuck_after_cut_pinned. Qed.

(** Two stores updated one after the other (publication server: access aggregate and content store): a
    request cut after any number of steps and submitted again completes iff its first step accepts having
    been applied already; otherwise the cut between the two stores is final. *)
Theorem C08_two_store_converges : forall o cut, idem_first o = true ->
  two_state (two_resubmit o cut) = two_done /\ ((cut <= 1)%nat -> two_resubmit o cut = TOk two_done).
Proof. exact two_store_converges. Qed.

Theorem C08_two_store_refuted : forall o, idem_first o = false -> two_resubmit o 1 = TRefused (mkTwo true false).
Proof. exact two_store_refuted. Qed.

Theorem C08_remove_publisher_converges : forall cut,
  two_state (two_resubmit remove_publisher_op cut) = two_done /\ ((cut <= 1)%nat -> two_resubmit remove_publisher_op cut = TOk two_done).
Proof. exact remove_publisher_converges. Qed.

Theorem C08_remove_publisher_swapped_stuck : two_resubmit remove_publisher_swapped 1 = TRefused (mkTwo true false).
Proof. exact remove_publisher_swapped_stuck. Qed.

Theorem C08_create_publisher_cut_between_stores_stuck : two_resubmit create_publisher_op 1 = TRefused (mkTwo true false).
Proof. exact create_publisher_cut_between_stores_stuck. Qed.

Print Assumptions C08_every_prefix_loads.
Print Assumptions C08_every_failed_write_loads.
Print Assumptions C08_history_never_damages_log.
Print Assumptions C08_ack_never_lost.
Print Assumptions C08_failed_write_invisible.
Print Assumptions C08_cut_equals_failed_write.
Print Assumptions C08_failed_write_log_and_cache_atomic.
Print Assumptions C08_atomic_alike_except_known.
Print Assumptions C08_log_all_or_nothing_objects_may_lead.
Print Assumptions C08_converges_after_resubmit.
Print Assumptions C08_atomic_alike_refuted.
Print Assumptions C08_keyroll_activation_not_resubmittable.
Print Assumptions C08_failed_queue_store_loses_task.
Print Assumptions C08_wal_snapshot_every_prefix_loads.
Print Assumptions C08_wal_snapshot_recovers_at_every_cut.
Print Assumptions C08_wal_snapshot_failed_write_recovers.
Print Assumptions C08_wal_snapshot_keeps_acknowledged.
Print Assumptions C08_wal_snapshot_swapped_refuted.
Print Assumptions C08_wal_swapped_failed_snapshot_write_falls_back.
Print Assumptions C08_wal_swapped_loses_acknowledged.
Print Assumptions C08_rejected_record_failed_write_invisible.
Print Assumptions C08_rejected_record_best_effort_refuted.
Print Assumptions C08_rsync_current_at_every_cut.
Print Assumptions C08_rsync_between_renames_heals.
Print Assumptions C08_rsync_next_write_succeeds_after_any_cut.
Print Assumptions C08_rsync_write_never_stuck.
Print Assumptions C08_rsync_stuck_after_cut_pinned.
Print Assumptions C08_two_store_converges.
Print Assumptions C08_two_store_refuted.
Print Assumptions C08_remove_publisher_converges.
Print Assumptions C08_remove_publisher_swapped_stuck.
Print Assumptions C08_create_publisher_cut_between_stores_stuck.
