(** C06 - State rebuilt from the audit log equals the live state.
    Only statements; proofs in es/EsProofs.v (generic store) and ca/CaProofs.v (CertAuth events). *)
From KV Require Import base.Tac es.Es es.EsProofs ca.Ca ca.CaProofs.
Open Scope N_scope.

Section Generic.
  Variables (S Ev : Type) (init : S) (apply : S -> Ev -> S).

  (** For every history of store operations (accepted, rejected, no-op and failed commands, reads,
      snapshots at any point, restarts, snapshot deletion): loading as is, after a restart, and after a
      restart without snapshot all give the replay of the stored commands from the initialisation. *)
  Theorem C06_load_after_any_history : forall os,
    let st := run S Ev init apply (empty_store S Ev) os in
    load S Ev init apply st = replay S Ev init apply (cmds S Ev st) /\
    load S Ev init apply (drop_cache S Ev st) = replay S Ev init apply (cmds S Ev st) /\
    load S Ev init apply (delete_snapshot S Ev (drop_cache S Ev st)) = replay S Ev init apply (cmds S Ev st).
  Proof. exact (load_after_any_history S Ev init apply). Qed.

  Theorem C06_load_is_replay : forall st, consistent S Ev init apply st ->
    load S Ev init apply st = replay S Ev init apply (cmds S Ev st).
  Proof. exact (load_is_replay S Ev init apply). Qed.

  Theorem C06_every_operation_keeps_consistency : forall st o,
    consistent S Ev init apply st -> consistent S Ev init apply (sstep S Ev init apply st o).
  Proof. exact (sstep_consistent S Ev init apply). Qed.

  (** The state held in memory after a command is the replay of the whole stored history. *)
  Theorem C06_live_is_full_replay : forall st o,
    consistent S Ev init apply st ->
    match o with PreSaveFailed _ => True | _ =>
      cache S Ev (send S Ev init apply st o) = Some (replay S Ev init apply (cmds S Ev (send S Ev init apply st o))) end.
  Proof. exact (live_is_full_replay S Ev init apply). Qed.

  (** A rejected command changes nothing but the version; no-ops and failed pre-save runs leave no trace. *)
  Theorem C06_rejected_changes_nothing_but_version : forall st,
    consistent S Ev init apply st ->
    a_st S (load S Ev init apply (send S Ev init apply st Rejected)) = a_st S (load S Ev init apply st) /\
    a_ver S (load S Ev init apply (send S Ev init apply st Rejected)) = a_ver S (load S Ev init apply st) + 1.
  Proof. exact (rejected_changes_nothing_but_version S Ev init apply). Qed.

  Theorem C06_noop_and_presave_failure_leave_no_trace : forall st evs,
    cmds S Ev (send S Ev init apply st NoOp) = cmds S Ev st /\
    send S Ev init apply st (PreSaveFailed evs) = st.
  Proof. exact (noop_and_presave_failure_leave_no_trace S Ev init apply). Qed.
End Generic.

(** Replaying a stored CertAuth history never panics: the events of the key life cycle are always
    applicable to the state that emitted them (instantiation for the modelled part of CertAuth). *)
Theorem C06_ca_events_applicable : forall s c rc cmd evs,
  aget c (ca_classes s) = Some rc -> kprocess c (rc_keys rc) cmd = Ok evs -> apply_all s evs <> None.
Proof. exact events_applicable. Qed.

Print Assumptions C06_load_after_any_history.
Print Assumptions C06_load_is_replay.
Print Assumptions C06_every_operation_keeps_consistency.
Print Assumptions C06_live_is_full_replay.
Print Assumptions C06_rejected_changes_nothing_but_version.
Print Assumptions C06_noop_and_presave_failure_leave_no_trace.
Print Assumptions C06_ca_events_applicable.
