(** Proofs about the delegation model (property C02). *)
From KV Require Import base.Tac ca.Ca deleg.Bits deleg.Deleg.
Open Scope N_scope.

(** * Request limits *)

Lemma fam_part_sub F lim set a : fam_part F lim set = Some a -> subset a set = true.
Proof.
  unfold fam_part. destruct lim as [m|].
  - destruct (subset m (inter set F)) eqn:E; intro H; inv H. bits.
  - intro H; inv H. bits.
Qed.

Lemma fam_part_in F lim set a : fam_part F lim set = Some a -> subset a F = true.
Proof.
  unfold fam_part. destruct lim as [m|].
  - destruct (subset m (inter set F)) eqn:E; intro H; inv H. bits.
  - intro H; inv H. bits.
Qed.

(** The narrowed set never exceeds the set the limit was applied to. *)
Lemma apply_limit_sub l set r : apply_limit l set = Some r -> subset r set = true.
Proof.
  unfold apply_limit. destruct (limit_is_empty l).
  - intro H; inv H. apply subset_refl.
  - destruct (fam_part FA (l_asn l) set) eqn:Ea; [|discriminate].
    destruct (fam_part F4 (l_v4 l) set) eqn:Eb; [|discriminate].
    destruct (fam_part F6 (l_v6 l) set) eqn:Ec; [|discriminate].
    intro H; inv H.
    apply fam_part_sub in Ea, Eb, Ec. bits.
Qed.

Lemma apply_no_limit set : apply_limit no_limit set = Some set.
Proof. reflexivity. Qed.

Lemma make_issued_spec res l signing r :
  make_issued res l signing = Some r <-> apply_limit l res = Some r /\ subset r signing = true.
Proof.
  unfold make_issued. destruct (apply_limit l res) as [x|].
  - destruct (subset x signing) eqn:E; split; intro H.
    + inv H. auto.
    + destruct H as [H _]. exact H.
    + discriminate.
    + destruct H as [H H']. inv H. congruence.
  - split; [discriminate|intros [H _]; discriminate].
Qed.

(** * issued_exact *)

(** A certificate is issued exactly when the limit fits what the child can get, and then carries the child's
    entitlement intersected with the issuing certificate, narrowed by the limit; it lies within both. *)
Theorem issued_exact signing ent l r :
  issue_cert signing ent l = Some r <-> apply_limit l (inter signing ent) = Some r.
Proof.
  unfold issue_cert. rewrite make_issued_spec. split; [tauto|].
  intro H. split; [exact H|]. apply apply_limit_sub in H. bits.
Qed.

Theorem issued_within signing ent l r :
  issue_cert signing ent l = Some r -> subset r signing = true /\ subset r ent = true.
Proof. rewrite issued_exact. intro H. apply apply_limit_sub in H. split; bits. Qed.

Theorem issued_exact_no_limit signing ent : issue_cert signing ent no_limit = Some (inter signing ent).
Proof. apply issued_exact. reflexivity. Qed.

(** the failure mode: the request is refused exactly when the limit exceeds the intersection *)
Theorem issue_refused_iff signing ent l :
  issue_cert signing ent l = None <-> apply_limit l (inter signing ent) = None.
Proof.
  destruct (issue_cert signing ent l) eqn:E.
  - apply issued_exact in E. rewrite E. split; discriminate.
  - destruct (apply_limit l (inter signing ent)) eqn:E'; [|tauto].
    apply issued_exact in E'. congruence.
Qed.

Example issued_exact_nonvacuous :
  issue_cert 0xF000F 0x3000C (mkLimit None (Some 0x10000) None) = Some 0x1000C
  /\ issue_cert 0xF000F 0x3000C (mkLimit None (Some 0x40000) None) = None.
Proof. vm_compute. auto. Qed.

(** * never_overclaims: the invariant and the class-level operations *)
From KV Require Import ca.CaProofs.

Definition all_within (r : N) (m : certmap) : Prop := Forall (fun kc => subset (i_res (snd kc)) r = true) m.

(** Every issued or suspended child certificate lies within the certificate of the class's current key;
    a class without a current key has issued nothing. *)
Definition contained (dc : dclass) : Prop :=
  match cur_res dc with
  | Some r => all_within r (d_issued dc) /\ all_within r (d_susp dc)
  | None => d_issued dc = [] /\ d_susp dc = []
  end.

Lemma all_within_aremove r k m : all_within r m -> all_within r (aremove k m).
Proof.
  unfold all_within. induction m as [|[k' c] m IH]; simpl; intro H; [constructor|].
  inv H. destruct (k' =? k); [auto|constructor; auto].
Qed.

Lemma all_within_ainsert r k c m : subset (i_res c) r = true -> all_within r m -> all_within r (ainsert k c m).
Proof. intros Hc Hm. unfold ainsert. constructor; [exact Hc|apply all_within_aremove; exact Hm]. Qed.

Lemma all_within_aget r k c m : all_within r m -> aget k m = Some c -> subset (i_res c) r = true.
Proof.
  unfold all_within. induction m as [|[k' c'] m IH]; simpl; intros H E; [discriminate|].
  inv H. destruct (k' =? k); [inv E; auto|auto].
Qed.

Lemma all_within_mono r r' m : subset r r' = true -> all_within r m -> all_within r' m.
Proof.
  intros Hr. unfold all_within. apply Forall_impl. intros [k c] H. simpl in *. eapply subset_trans; eauto.
Qed.

Lemma re_issue_within prev upd signing exp c' : re_issue prev upd signing exp = Some c' -> subset (i_res c') signing = true.
Proof.
  unfold re_issue. destruct (make_issued _ _ _) eqn:E; intro H; inv H. simpl.
  apply make_issued_spec in E. tauto.
Qed.

Lemma shrink_one_within newres exp c o :
  shrink_one newres exp c = Some o ->
  match o with
  | SKeep => subset (i_res c) newres = true
  | SRemove => True
  | SReissue c' => subset (i_res c') newres = true
  end.
Proof.
  unfold shrink_one, reduced_applicable. destruct (subset (i_res c) newres) eqn:E.
  - intro H; inv H. reflexivity.
  - destruct (is_empty _); [intro H; inv H; exact I|].
    destruct (re_issue _ _ _ _) eqn:R; intro H; inv H. eapply re_issue_within; eauto.
Qed.

(** After shrinking, every certificate that is left lies within the new certificate - whatever it held before. *)
Lemma shrink_map_within newres exp m : forall m' rm, shrink_map newres exp m = Some (m', rm) -> all_within newres m'.
Proof.
  induction m as [|[k c] m IH]; simpl; intros m' rm H.
  - inv H. constructor.
  - destruct (shrink_one newres exp c) as [o|] eqn:E; [|discriminate].
    destruct (shrink_map newres exp m) as [[r' rm']|]; [|destruct o; discriminate].
    apply shrink_one_within in E.
    destruct o; inv H; try (constructor; [exact E|eapply IH; eauto]); eapply IH; eauto.
Qed.

Lemma reissue_map_within signing exp m : forall m', reissue_map signing exp m = Some m' -> all_within signing m'.
Proof.
  induction m as [|[k c] m IH]; simpl; intros m' H.
  - inv H. constructor.
  - destruct (re_issue c None signing exp) eqn:E; [|discriminate].
    destruct (reissue_map signing exp m); [|discriminate]. inv H.
    constructor; [eapply re_issue_within; eauto|apply IH; reflexivity].
Qed.

Lemma cur_res_with dc ks kna i s roas : cur_res (dc_with dc ks kna i s roas) = match ks_current ks with Some k => Some (c_res (k_cert k)) | None => None end.
Proof. reflexivity. Qed.

(** certify *)
Lemma cl_certify_contained dc ent ki l exp dc' : contained dc -> cl_certify dc ent ki l exp = Some dc' -> contained dc'.
Proof.
  unfold cl_certify, contained. destruct (cur_res dc) as [sg|] eqn:Ec; [|discriminate].
  destruct (issue_cert sg ent l) as [r|] eqn:Ei; [|discriminate].
  intros [Hi Hs] H. inv H. unfold dc_with_certs. rewrite cur_res_with. unfold cur_res in Ec.
  destruct (ks_current (d_keys dc)); [|discriminate]. inv Ec. simpl.
  split; [apply all_within_ainsert; [simpl; apply issued_within in Ei; tauto|exact Hi]|apply all_within_aremove; exact Hs].
Qed.

(** a certificate for the current key: no hypothesis about the state before is needed *)
Lemma ks_received_current ks ki crt ks' cur :
  ks_received_cert ks ki crt = Some ks' -> ks_current ks = Some cur -> k_id cur = ki ->
  (forall n c, ks = KRollNew n c -> k_id n <> ki) ->
  exists cur', ks_current ks' = Some cur' /\ k_cert cur' = crt.
Proof.
  destruct ks; simpl; intros H Hc Hk Hn; try discriminate; inv H; inv Hc.
  - eexists; split; reflexivity.
  - eexists; split; reflexivity.
  - destruct (k_id n =? k_id cur) eqn:E.
    + apply N.eqb_eq in E. exfalso. eapply Hn; eauto.
    + eexists; split; reflexivity.
  - rewrite N.eqb_refl. eexists; split; reflexivity.
Qed.

Lemma ks_received_keeps_current ks ki crt ks' cur :
  ks_received_cert ks ki crt = Some ks' -> ks_current ks = Some cur ->
  exists cur', ks_current ks' = Some cur' /\ (k_cert cur' = crt \/ k_cert cur' = k_cert cur).
Proof.
  destruct ks; simpl; intros H Hc; try discriminate; inv H; inv Hc.
  - eexists; split; [reflexivity|left; reflexivity].
  - eexists; split; [reflexivity|left; reflexivity].
  - destruct (k_id n =? ki); eexists; split; try reflexivity; [right|left]; reflexivity.
  - destruct (k_id cur =? ki); eexists; split; try reflexivity; [left|right]; reflexivity.
Qed.

From KV Require Import ca.CaObjProofs.

(** What a successful [cl_received_current] produces: the current key carries the received certificate and
    - if the resources changed - both certificate maps are the shrunk ones, in this one result. *)
Lemma cl_received_current_spec routes dc cur crt na exp dc' rm :
  cl_received_current routes dc cur crt na exp = Some (dc', rm) ->
  ks_current (d_keys dc) = Some cur ->
  (forall n c, d_keys dc = KRollNew n c -> k_id n <> c_key crt) ->
  c_key crt = k_id cur
  /\ cur_res dc' = Some (c_res crt)
  /\ ((c_res crt = c_res (k_cert cur) /\ d_issued dc' = d_issued dc /\ d_susp dc' = d_susp dc /\ rm = [] /\ d_roas dc' = d_roas dc)
      \/ (c_res crt <> c_res (k_cert cur) /\ d_roas dc' = roas_for (c_res crt) routes
          /\ exists rm1 rm2, shrink_map (c_res crt) exp (d_issued dc) = Some (d_issued dc', rm1)
                             /\ shrink_map (c_res crt) exp (d_susp dc) = Some (d_susp dc', rm2) /\ rm = rm1 ++ rm2)).
Proof.
  unfold cl_received_current. intros H Hc Hn.
  destruct (c_key crt =? k_id cur) eqn:Ek; simpl in H; [|discriminate].
  apply N.eqb_eq in Ek.
  destruct (ks_received_cert (d_keys dc) (c_key crt) crt) as [ks|] eqn:Er; [|discriminate].
  destruct (ks_received_current _ _ _ _ _ Er Hc (eq_sym Ek) Hn) as [cur' [Hc' Hcert]].
  split; [exact Ek|].
  destruct (c_res crt =? c_res (k_cert cur)) eqn:Eres.
  - injection H as Hdc Hrm. subst dc' rm. apply N.eqb_eq in Eres. rewrite cur_res_with, Hc', Hcert. split; [reflexivity|]. left. simpl. repeat split; auto.
  - apply N.eqb_neq in Eres.
    destruct (shrink_map (c_res crt) exp (d_issued dc)) as [[i rm1]|] eqn:E1; [|discriminate].
    destruct (shrink_map (c_res crt) exp (d_susp dc)) as [[s rm2]|] eqn:E2; [|discriminate].
    injection H as Hdc Hrm. subst dc' rm. rewrite cur_res_with, Hc', Hcert. split; [reflexivity|]. right. split; [exact Eres|]. split; [reflexivity|].
    exists rm1, rm2. simpl. auto.
Qed.

Lemma cl_received_current_contained routes dc cur crt na exp dc' rm :
  cl_received_current routes dc cur crt na exp = Some (dc', rm) ->
  ks_current (d_keys dc) = Some cur ->
  (forall n c, d_keys dc = KRollNew n c -> k_id n <> c_key crt) ->
  contained dc -> contained dc'.
Proof.
  intros H Hc Hn Hin.
  destruct (cl_received_current_spec _ _ _ _ _ _ _ _ H Hc Hn) as [Hk [Hres Hcase]].
  unfold contained in *. rewrite Hres. unfold cur_res in Hin. rewrite Hc in Hin.
  destruct Hcase as [[Esame [Ei [Es _]]]|[_ [_ [rm1 [rm2 [E1 [E2 _]]]]]]].
  - rewrite Ei, Es, Esame. exact Hin.
  - split; eapply shrink_map_within; eauto.
Qed.

Lemma contained_no_current dc : ks_current (d_keys dc) = None -> contained dc -> d_issued dc = [] /\ d_susp dc = [].
Proof. unfold contained, cur_res. intros ->. auto. Qed.

Lemma cl_received_contained routes dc crt na exp dc' rm :
  cl_received routes dc crt na exp = Some (dc', rm) -> contained dc -> contained dc'.
Proof.
  unfold cl_received. intros H Hin. destruct (d_keys dc) eqn:Ek.
  - destruct (p_id p =? c_key crt); [|discriminate]. inv H.
    destruct (contained_no_current dc) as [Hi Hs]; [rewrite Ek; reflexivity|exact Hin|].
    unfold contained. rewrite cur_res_with. simpl. rewrite Hi, Hs. split; constructor.
  - eapply cl_received_current_contained; eauto; [rewrite Ek; reflexivity|intros; congruence].
  - destruct (p_id p =? c_key crt).
    + inv H. unfold contained in *. rewrite cur_res_with. unfold cur_res in Hin. rewrite Ek in Hin. simpl in *. exact Hin.
    + eapply cl_received_current_contained; eauto; [rewrite Ek; reflexivity|intros; congruence].
  - destruct (k_id n =? c_key crt) eqn:En.
    + inv H. unfold contained in *. rewrite cur_res_with. unfold cur_res in Hin. rewrite Ek in Hin. simpl in *. exact Hin.
    + apply N.eqb_neq in En.
      eapply cl_received_current_contained; eauto; [rewrite Ek; reflexivity|intros n0 c0 E0; rewrite Ek in E0; inv E0; exact En].
  - eapply cl_received_current_contained; eauto; [rewrite Ek; reflexivity|intros; congruence].
Qed.

(** activation (repaired tree): what is left lies within the new key's certificate - whatever was there before *)
Lemma activate_one_within signing exp c o :
  activate_one signing exp c = Some o ->
  match o with SKeep => False | SRemove => True | SReissue c' => subset (i_res c') signing = true end.
Proof.
  unfold activate_one. destruct (reduced_applicable signing (i_res c)) as [r|].
  - destruct (is_empty r); [intro H; inv H; exact I|].
    destruct (re_issue _ _ _ _) eqn:R; intro H; inv H. eapply re_issue_within; eauto.
  - destruct (re_issue _ _ _ _) eqn:R; intro H; inv H. eapply re_issue_within; eauto.
Qed.

Lemma activate_map_within signing exp m : forall m' rm, activate_map signing exp m = Some (m', rm) -> all_within signing m'.
Proof.
  induction m as [|[k c] m IH]; simpl; intros m' rm H.
  - inv H. constructor.
  - destruct (activate_one signing exp c) as [o|] eqn:E; [|discriminate].
    destruct (activate_map signing exp m) as [[r' rm']|]; [|destruct o; discriminate].
    apply activate_one_within in E.
    destruct o; inv H; try contradiction; [eapply IH; eauto|constructor; [exact E|eapply IH; eauto]].
Qed.

Lemma cl_activate_contained dc exp dc' rm : cl_activate dc exp = Some (Some (dc', rm)) -> contained dc'.
Proof.
  unfold cl_activate. destruct (d_keys dc) eqn:Ek; try (intro H; inv H; fail).
  destruct (k_req n || k_req c); [discriminate|].
  destruct (activate_map _ exp (d_issued dc)) as [[i rm1]|] eqn:E1; [|discriminate].
  destruct (reissue_map _ exp (d_susp dc)) eqn:E2; [|discriminate].
  intro H; inv H. unfold contained. rewrite cur_res_with. simpl.
  split; [eapply activate_map_within; eauto|eapply reissue_map_within; eauto].
Qed.

(** the originally pinned activation kept child certificates within the new certificate only by failing *)
Lemma cl_activate_pinned_contained dc exp dc' : cl_activate_pinned dc exp = Some (Some dc') -> contained dc'.
Proof.
  unfold cl_activate_pinned. destruct (d_keys dc) eqn:Ek; try (intro H; inv H; fail).
  destruct (k_req n || k_req c); [discriminate|].
  destruct (reissue_map _ exp (d_issued dc)) eqn:E1; [|discriminate].
  destruct (reissue_map _ exp (d_susp dc)) eqn:E2; [|discriminate].
  intro H; inv H. unfold contained. rewrite cur_res_with. simpl.
  split; eapply reissue_map_within; eauto.
Qed.

Lemma activate_classes_contained exp : forall cl cl' rm,
  activate_classes exp cl = Some (cl', rm) ->
  Forall (fun p => contained (snd p)) cl -> Forall (fun p => contained (snd p)) cl'.
Proof.
  induction cl as [|[c dc] cl IH]; simpl; intros cl' rm H Hl.
  - inv H. constructor.
  - destruct (cl_activate dc exp) as [[[dc1 rm1]|]|] eqn:E; [| |discriminate];
      destruct (activate_classes exp cl) as [[r' rm2]|] eqn:E'; try discriminate; inv H; inv Hl.
    + constructor; [eapply cl_activate_contained; eauto|eapply IH; eauto].
    + constructor; [assumption|eapply IH; eauto].
Qed.

Lemma cl_suspend_contained keys : forall dc, contained dc -> contained (cl_suspend dc keys).
Proof.
  unfold cl_suspend. induction keys as [|k keys IH]; simpl; intros dc Hin; [exact Hin|].
  apply IH. destruct (aget k (d_issued dc)) eqn:E; [|exact Hin].
  unfold contained in *. unfold dc_with_certs. rewrite cur_res_with. unfold cur_res in Hin.
  destruct (ks_current (d_keys dc)); simpl.
  - destruct Hin as [Hi Hs]. split; [apply all_within_aremove; exact Hi|].
    apply all_within_ainsert; [apply (all_within_aget _ k _ (d_issued dc)); assumption|exact Hs].
  - destruct Hin as [Hi _]. rewrite Hi in E. discriminate.
Qed.

Lemma remove_key_contained dc k : contained dc -> contained (dc_with_certs dc (aremove k (d_issued dc)) (aremove k (d_susp dc))).
Proof.
  unfold contained, dc_with_certs. rewrite cur_res_with. unfold cur_res.
  destruct (ks_current (d_keys dc)); simpl; intros [Hi Hs].
  - split; apply all_within_aremove; assumption.
  - rewrite Hi, Hs. auto.
Qed.

Lemma cl_unsuspend_contained ent now exp keys : forall dc dc' rm,
  cl_unsuspend dc ent keys now exp = Some (dc', rm) -> contained dc -> contained dc'.
Proof.
  induction keys as [|k keys IH]; simpl; intros dc dc' rm H Hin.
  - inv H. exact Hin.
  - destruct (aget k (d_susp dc)) as [s|] eqn:Es; [|eapply IH; eauto].
    destruct ((now + 86400 <? i_exp s)%Z && subset (i_res s) ent).
    + destruct (cl_certify dc (i_res s) k (i_limit s) exp) as [dc1|] eqn:Ec; [|discriminate].
      eapply IH; eauto. eapply cl_certify_contained; eauto.
    + destruct (cl_unsuspend dc ent keys now exp) as [[dc1 rm1]|] eqn:Eu; [|discriminate].
      inv H. apply remove_key_contained. eapply IH; eauto.
Qed.

(** * never_overclaims over every command of the CA *)
Definition contained_all (s : dca) : Prop := Forall (fun p => contained (snd p)) (da_classes s).

Section ClassLists.
  Context {V : Type} (P : V -> Prop).
  Let Q := fun p : N * V => P (snd p).

  Lemma Forall_snd_aremove k l : Forall Q l -> Forall Q (aremove k l).
  Proof.
    induction l as [|[k' v] l IH]; simpl; intro H; [constructor|].
    inv H. destruct (k' =? k); [auto|constructor; auto].
  Qed.
  Lemma Forall_snd_ainsert k v l : P v -> Forall Q l -> Forall Q (ainsert k v l).
  Proof. intros Hv Hl. unfold ainsert. constructor; [exact Hv|apply Forall_snd_aremove; exact Hl]. Qed.
  Lemma Forall_snd_aget k v l : Forall Q l -> aget k l = Some v -> P v.
  Proof.
    induction l as [|[k' v'] l IH]; simpl; intros H E; [discriminate|].
    inv H. destruct (k' =? k); [inv E; assumption|auto].
  Qed.
  Lemma Forall_snd_filter (f : N * V -> bool) l : Forall Q l -> Forall Q (filter f l).
  Proof.
    induction l as [|x l IH]; simpl; intro H; [constructor|]. inv H. destruct (f x); [constructor|]; auto.
  Qed.
End ClassLists.

Lemma map_classes_Forall (P : dclass -> Prop) f l :
  (forall c dc, P dc -> P (f c dc)) -> Forall (fun p => P (snd p)) l -> Forall (fun p => P (snd p)) (map_classes f l).
Proof.
  intros Hf. unfold map_classes. induction l as [|[c dc] l IH]; simpl; intro H; [constructor|].
  inv H. constructor; [apply Hf; assumption|auto].
Qed.

Lemma map_classes_opt_Forall (P : dclass -> Prop) f : forall l l',
  (forall c dc dc', P dc -> f c dc = Some dc' -> P dc') ->
  map_classes_opt f l = Some l' -> Forall (fun p => P (snd p)) l -> Forall (fun p => P (snd p)) l'.
Proof.
  induction l as [|[c dc] l IH]; simpl; intros l' Hf H Hl.
  - inv H. constructor.
  - destruct (f c dc) eqn:E; [|discriminate]. destruct (map_classes_opt f l) eqn:E'; [|discriminate].
    inv H. inv Hl. constructor; [eapply Hf; eauto|eapply IH; eauto].
Qed.

Lemma unsuspend_classes_contained ch now exp : forall cl cl' rm,
  unsuspend_classes ch now exp cl = Some (cl', rm) ->
  Forall (fun p => contained (snd p)) cl -> Forall (fun p => contained (snd p)) cl'.
Proof.
  induction cl as [|[c dc] cl IH]; simpl; intros cl' rm H Hl.
  - inv H. constructor.
  - destruct (cl_unsuspend dc (dc_ent ch) (child_issued (dc_ch ch) c) now exp) as [[dc' rm1]|] eqn:E; [|discriminate].
    destruct (unsuspend_classes ch now exp cl) as [[r' rm2]|] eqn:E'; [|discriminate].
    inv H. inv Hl. constructor; [eapply cl_unsuspend_contained; eauto|eapply IH; eauto].
Qed.

Lemma all_within_fold_aremove r keys : forall m, all_within r m -> all_within r (fold_left (fun m k => aremove k m) keys m).
Proof. induction keys as [|k keys IH]; simpl; intros m H; [exact H|]. apply IH. apply all_within_aremove. exact H. Qed.

Lemma fold_aremove_nil {V} keys : fold_left (fun (m : list (N * V)) k => aremove k m) keys [] = [].
Proof. induction keys; simpl; auto. Qed.

Lemma same_current_contained dc ks kna roas :
  ks_current ks = ks_current (d_keys dc) -> contained dc -> contained (dc_with dc ks kna (d_issued dc) (d_susp dc) roas).
Proof. unfold contained. rewrite cur_res_with. unfold cur_res. intros ->. auto. Qed.

Theorem never_overclaims s cmd s' : contained_all s -> dprocess s cmd = Done s' -> contained_all s'.
Proof.
  unfold contained_all. intros Hin H. destruct cmd; simpl in H.
  - (* child add *)
    destruct (is_empty ent); [discriminate|]. destruct (negb _); [discriminate|]. destruct (amem h _); [discriminate|].
    inv H. exact Hin.
  - destruct (is_empty ent); [discriminate|]. destruct (negb _); [discriminate|]. destruct (aget h _); [|discriminate]. inv H. exact Hin.
  - destruct (aget h _); [|discriminate]. destruct (child_issued _ a); [|discriminate]. inv H. exact Hin.
  - (* certify *)
    destruct (aget h (da_children s)) as [dch|]; [|discriminate].
    destruct (aget _ (da_classes s)) as [dc|] eqn:Ec; [|discriminate].
    destruct (cl_certify dc (dc_ent dch) ki l exp) as [dc'|] eqn:E; [|discriminate].
    inv H. simpl. apply Forall_snd_ainsert; [|exact Hin].
    eapply cl_certify_contained; eauto. eapply (Forall_snd_aget contained); eauto.
  - (* revoke *)
    destruct (aget h (da_children s)) as [dch|]; [|discriminate].
    destruct (aget _ (da_classes s)) as [dc|] eqn:Ec; [|inv H; exact Hin].
    destruct (negb _); [discriminate|]. inv H. simpl.
    apply Forall_snd_ainsert; [|exact Hin]. apply remove_key_contained. eapply (Forall_snd_aget contained); eauto.
  - (* child remove *)
    destruct (aget h (da_children s)) as [dch|]; [|discriminate]. inv H. simpl.
    apply map_classes_Forall; [|exact Hin]. intros c dc Hdc.
    unfold contained in *. unfold dc_with_certs. rewrite cur_res_with. unfold cur_res in Hdc.
    destruct (ks_current (d_keys dc)); simpl; destruct Hdc as [Hi Hs].
    + split; apply all_within_fold_aremove; assumption.
    + rewrite Hi, Hs, !fold_aremove_nil. auto.
  - (* suspend *)
    destruct (aget h (da_children s)) as [dch|]; [|discriminate].
    destruct (ch_susp _); [inv H; exact Hin|]. destruct (existsb _ _); inv H; [|exact Hin]. simpl.
    apply map_classes_Forall; [|exact Hin]. intros c dc Hdc. apply cl_suspend_contained. exact Hdc.
  - (* unsuspend *)
    destruct (aget h (da_children s)) as [dch|]; [|discriminate].
    destruct (negb _); [inv H; exact Hin|].
    destruct (unsuspend_classes dch now exp (da_classes s)) as [[cl rm]|] eqn:E; [|discriminate].
    destruct (aget h _); [|discriminate]. inv H. simpl. eapply unsuspend_classes_contained; eauto.
  - (* received *)
    destruct (aget c (da_classes s)) as [dc|] eqn:Ec; [|discriminate].
    destruct (cl_received _ dc crt na exp) as [[dc' rm]|] eqn:E; [|discriminate].
    inv H. simpl. apply Forall_snd_ainsert; [|exact Hin].
    eapply cl_received_contained; eauto. eapply (Forall_snd_aget contained); eauto.
  - (* drop *)
    destruct (amem c _); [|discriminate]. inv H. simpl. apply Forall_snd_aremove. exact Hin.
  - inv H. simpl. apply Forall_snd_filter. exact Hin.
  - (* roll init *)
    inv H. simpl. apply map_classes_Forall; [|exact Hin]. intros c dc Hdc.
    destruct (d_keys dc) eqn:Ek; try exact Hdc. destruct (aget c fresh); [|exact Hdc].
    apply same_current_contained; [rewrite Ek; reflexivity|exact Hdc].
  - (* activate *)
    destruct (activate_classes exp (da_classes s)) as [[cl rm]|] eqn:E; [|discriminate]. inv H. simpl.
    eapply activate_classes_contained; eauto.
  - (* roll finish *)
    destruct (aget c (da_classes s)) as [dc|] eqn:Ec; [|discriminate].
    destruct (d_keys dc) eqn:Ek; try discriminate. inv H. simpl.
    apply Forall_snd_ainsert; [|exact Hin].
    apply same_current_contained; [rewrite Ek; reflexivity|eapply (Forall_snd_aget contained); eauto].
  - (* routes *)
    inv H. simpl. apply map_classes_Forall; [|exact Hin]. intros c dc Hdc.
    destruct (cur_res dc); [|exact Hdc]. apply same_current_contained; [reflexivity|exact Hdc].
  - inv H. exact Hin.
Qed.

Example never_overclaims_nonvacuous :
  let dc := mkDC 1 0 (KActive (mkCK 1 (mkCert 1 0xF000F 0) false)) [] [(7, mkIC 0x3000C no_limit 0)] [] [] in
  let s := mkDCA [(0, dc)] [(5, mkDCh 0x3000C (mkChild false [(7, InUse 0)] []))] [] 1 in
  contained_all s /\ exists s', dprocess s (XReceived 0 (mkCert 1 0x10003 0) 0 0) = Done s' /\ contained_all s'.
Proof.
  simpl. split.
  - constructor; [|constructor]. split; repeat constructor.
  - eexists. split; [vm_compute; reflexivity|]. constructor; [|constructor]. split; repeat constructor.
Qed.

(** * shrink_same_command *)

(** A certificate received for the current key is processed in one step: the state that very command produces
    carries the new certificate on the current key and no child certificate - issued or suspended - outside it. *)
Theorem shrink_same_command s c crt na exp s' dc cur :
  dprocess s (XReceived c crt na exp) = Done s' ->
  aget c (da_classes s) = Some dc -> ks_current (d_keys dc) = Some cur -> c_key crt = k_id cur -> ks_wf (d_keys dc) ->
  contained dc ->
  exists dc', aget c (da_classes s') = Some dc' /\ cur_res dc' = Some (c_res crt) /\ contained dc'
              /\ all_within (c_res crt) (d_issued dc') /\ all_within (c_res crt) (d_susp dc').
Proof.
  simpl. intros H Ec Hc Hk Hwf Hin. rewrite Ec in H.
  destruct (cl_received (da_routes s) dc crt na exp) as [[dc' rm]|] eqn:E; [|discriminate].
  inv H. exists dc'. split; [apply aget_ainsert_eq|].
  assert (Hcont : contained dc') by (eapply cl_received_contained; eauto).
  assert (Hres : cur_res dc' = Some (c_res crt)).
  { unfold cl_received in E. destruct (d_keys dc) eqn:Ek; simpl in Hc, Hwf; try discriminate; inv Hc.
    - eapply cl_received_current_spec in E; [tauto|rewrite Ek; reflexivity|intros; congruence].
    - destruct (p_id p =? c_key crt) eqn:Ep; [apply N.eqb_eq in Ep; congruence|].
      eapply cl_received_current_spec in E; [tauto|rewrite Ek; reflexivity|intros; congruence].
    - destruct (k_id n =? c_key crt) eqn:Ep; [apply N.eqb_eq in Ep; congruence|].
      eapply cl_received_current_spec in E; [tauto|rewrite Ek; reflexivity|].
      intros n0 c0 E0. rewrite Ek in E0. inv E0. congruence.
    - eapply cl_received_current_spec in E; [tauto|rewrite Ek; reflexivity|intros; congruence]. }
  split; [exact Hres|]. split; [exact Hcont|]. unfold contained in Hcont. rewrite Hres in Hcont. exact Hcont.
Qed.

(** * shrink_exact *)

Lemma FA_F4 : inter FA F4 = 0. Proof. reflexivity. Qed.
Lemma FA_F6 : inter FA F6 = 0. Proof. reflexivity. Qed.
Lemma F4_F6 : inter F4 F6 = 0. Proof. reflexivity. Qed.

Definition fam_closed (F : N) (lim : option N) (r : N) : Prop := match lim with Some m => inter r F = m | None => True end.

(** A certificate's resources are closed under its limit: in a limited family they are exactly the limit. *)
Definition lim_closed (l : limit) (r : N) : Prop :=
  limit_is_empty l = true
  \/ (subset r UNIV = true /\ fam_closed FA (l_asn l) r /\ fam_closed F4 (l_v4 l) r /\ fam_closed F6 (l_v6 l) r).

Definition cert_ok (c : icert) : Prop := i_res c <> 0 /\ lim_closed (i_limit c) (i_res c).

Global Opaque FA F4 F6.

Lemma fam_part_some F m set a : fam_part F (Some m) set = Some a -> a = m /\ subset m (inter set F) = true.
Proof. unfold fam_part. destruct (subset m (inter set F)); intro H; inv H. auto. Qed.
Lemma fam_part_none F set a : fam_part F None set = Some a -> a = inter set F.
Proof. unfold fam_part. intro H; inv H. reflexivity. Qed.

(** what is issued is closed under the limit it was issued with *)
Lemma apply_limit_closed l set r : apply_limit l set = Some r -> lim_closed l r.
Proof.
  unfold apply_limit, lim_closed. destruct (limit_is_empty l) eqn:El; [auto|].
  destruct (fam_part FA (l_asn l) set) as [a|] eqn:Ea; [|discriminate].
  destruct (fam_part F4 (l_v4 l) set) as [b|] eqn:Eb; [|discriminate].
  destruct (fam_part F6 (l_v6 l) set) as [c|] eqn:Ec; [|discriminate].
  intro H; inv H. right.
  pose proof (fam_part_in _ _ _ _ Ea) as Ha. pose proof (fam_part_in _ _ _ _ Eb) as Hb. pose proof (fam_part_in _ _ _ _ Ec) as Hc.
  pose proof FA_F4 as D1. pose proof FA_F6 as D2. pose proof F4_F6 as D3.
  split; [unfold UNIV; bits|].
  unfold fam_closed. repeat split.
  - destruct (l_asn l) as [m|]; [|exact I]. apply fam_part_some in Ea. destruct Ea as [-> _]. bits.
  - destruct (l_v4 l) as [m|]; [|exact I]. apply fam_part_some in Eb. destruct Eb as [-> _]. bits.
  - destruct (l_v6 l) as [m|]; [|exact I]. apply fam_part_some in Ec. destruct Ec as [-> _]. bits.
Qed.

(** re-applying the limit to a part of a closed set either fails or changes nothing *)
Lemma apply_limit_closed_id l r' r x : lim_closed l r' -> subset r r' = true -> apply_limit l r = Some x -> x = r.
Proof.
  unfold apply_limit, lim_closed. intros Hcl Hsub. destruct (limit_is_empty l); [intro H; inv H; reflexivity|].
  destruct Hcl as [Hcl|[Hu [Ca [C4 C6]]]]; [discriminate|].
  destruct (fam_part FA (l_asn l) r) as [a|] eqn:Ea; [|discriminate].
  destruct (fam_part F4 (l_v4 l) r) as [b|] eqn:Eb; [|discriminate].
  destruct (fam_part F6 (l_v6 l) r) as [c|] eqn:Ec; [|discriminate].
  intro H; inv H.
  assert (Ha : a = inter r FA).
  { destruct (l_asn l) as [m|]; [|apply fam_part_none in Ea; exact Ea]. apply fam_part_some in Ea. destruct Ea as [-> Hm]. simpl in Ca. bits. }
  assert (Hb : b = inter r F4).
  { destruct (l_v4 l) as [m|]; [|apply fam_part_none in Eb; exact Eb]. apply fam_part_some in Eb. destruct Eb as [-> Hm]. simpl in C4. bits. }
  assert (Hc : c = inter r F6).
  { destruct (l_v6 l) as [m|]; [|apply fam_part_none in Ec; exact Ec]. apply fam_part_some in Ec. destruct Ec as [-> Hm]. simpl in C6. bits. }
  subst a b c. clear Ea Eb Ec Ca C4 C6. unfold UNIV in Hu. bits.
Qed.

Lemma shrink_one_exact newres exp c o :
  lim_closed (i_limit c) (i_res c) -> shrink_one newres exp c = Some o ->
  match o with
  | SKeep => inter (i_res c) newres = i_res c
  | SRemove => inter (i_res c) newres = 0
  | SReissue c' => i_res c' = inter (i_res c) newres /\ inter (i_res c) newres <> 0 /\ i_limit c' = i_limit c
                   /\ lim_closed (i_limit c') (i_res c')
  end.
Proof.
  intros Hcl. unfold shrink_one, reduced_applicable. destruct (subset (i_res c) newres) eqn:E.
  - intro H; inv H. bits.
  - destruct (is_empty (inter newres (i_res c))) eqn:Ee.
    + intro H; inv H. apply is_empty_true_eq in Ee. rewrite inter_comm. exact Ee.
    + unfold re_issue. destruct (make_issued _ _ _) as [r|] eqn:Em; intro H; inv H. simpl.
      apply make_issued_spec in Em. destruct Em as [Ea _].
      pose proof (apply_limit_closed _ _ _ Ea) as Hcl'.
      apply (apply_limit_closed_id _ (i_res c)) in Ea; [|exact Hcl|apply inter_sub_r].
      subst r. apply is_empty_false_neq in Ee. rewrite (inter_comm (i_res c)). auto.
Qed.

Lemma shrink_map_keys newres exp k : forall m m' rm, shrink_map newres exp m = Some (m', rm) -> aget k m = None -> aget k m' = None.
Proof.
  induction m as [|[k0 c0] m IH]; simpl; intros m' rm H E.
  - inv H. reflexivity.
  - destruct (shrink_one newres exp c0) as [o|]; [|discriminate].
    destruct (shrink_map newres exp m) as [[r' rm']|] eqn:Er; [|destruct o; discriminate].
    destruct (k0 =? k) eqn:Ek; [discriminate|].
    destruct o; inv H; simpl; rewrite ?Ek; eapply IH; eauto.
Qed.

(** Every certificate of the map - issued or suspended alike, the map does not know which it is - comes out
    with exactly what it had intersected with the new certificate, keeping its limit, or is removed (and named
    in the removed list) if nothing is left. *)
Theorem shrink_exact newres exp : forall m m' rm,
  shrink_map newres exp m = Some (m', rm) ->
  Forall (fun kc => cert_ok (snd kc)) m -> NoDup (map fst m) ->
  forall k c, aget k m = Some c ->
    if is_empty (inter (i_res c) newres) then aget k m' = None /\ In k rm
    else exists c', aget k m' = Some c' /\ i_res c' = inter (i_res c) newres /\ i_limit c' = i_limit c.
Proof.
  induction m as [|[k0 c0] m IH]; simpl; intros m' rm H Hok Hnd k c E; [discriminate|].
  destruct (shrink_one newres exp c0) as [o|] eqn:Eo; [|discriminate].
  destruct (shrink_map newres exp m) as [[r' rm']|] eqn:Er; [|destruct o; discriminate].
  inversion Hok as [|? ? Hc0 Hok']; subst. inversion Hnd as [|? ? Hnin Hnd']; subst. destruct Hc0 as [Hne Hcl]. simpl in *.
  destruct (k0 =? k) eqn:Ek.
  - apply N.eqb_eq in Ek. subst k0. inv E.
    pose proof (shrink_one_exact _ _ _ _ Hcl Eo) as Hx.
    assert (Hnone : aget k r' = None).
    { eapply shrink_map_keys; eauto. destruct (aget k m) eqn:Eg; [|reflexivity].
      exfalso. apply Hnin. apply aget_in in Eg. apply (in_map fst) in Eg. exact Eg. }
    destruct o as [| |cx]; inv H.
    + rewrite Hx. destruct (is_empty (i_res c)) eqn:Ee; [apply is_empty_true_eq in Ee; congruence|].
      exists c. simpl. rewrite N.eqb_refl. auto.
    + rewrite Hx. change (is_empty 0) with true. simpl. split; [exact Hnone|left; reflexivity].
    + destruct Hx as [Hr [Hnz [Hl _]]]. destruct (is_empty (inter (i_res c) newres)) eqn:Ee; [apply is_empty_true_eq in Ee; congruence|].
      exists cx. simpl. rewrite N.eqb_refl. auto.
  - specialize (IH _ _ eq_refl Hok' Hnd' k c E).
    destruct o; inv H; simpl; rewrite ?Ek.
    + exact IH.
    + destruct (is_empty _); [|exact IH]. destruct IH as [? ?]. split; [assumption|right; assumption].
    + exact IH.
Qed.

Example shrink_exact_nonvacuous :
  shrink_map 0x10003 0 [(7, mkIC 0x2000C no_limit 0); (8, mkIC 0x30003 no_limit 0); (9, mkIC 0x3 no_limit 0)]
  = Some ([(8, mkIC 0x10003 no_limit 0); (9, mkIC 0x3 no_limit 0)], [7]).
Proof. vm_compute. reflexivity. Qed.

(** At the level of the class: when a certificate with other resources arrives for the current key, issued
    and suspended certificates are treated alike - a child's earlier suspension makes no difference. *)
Theorem shrink_exact_class routes dc cur crt na exp dc' rm :
  cl_received_current routes dc cur crt na exp = Some (dc', rm) ->
  ks_current (d_keys dc) = Some cur -> ks_wf (d_keys dc) ->
  c_res crt <> c_res (k_cert cur) ->
  Forall (fun kc => cert_ok (snd kc)) (d_issued dc) -> NoDup (map fst (d_issued dc)) ->
  Forall (fun kc => cert_ok (snd kc)) (d_susp dc) -> NoDup (map fst (d_susp dc)) ->
  forall k c, (aget k (d_issued dc) = Some c ->
                 if is_empty (inter (i_res c) (c_res crt)) then aget k (d_issued dc') = None /\ In k rm
                 else exists c', aget k (d_issued dc') = Some c' /\ i_res c' = inter (i_res c) (c_res crt) /\ i_limit c' = i_limit c)
           /\ (aget k (d_susp dc) = Some c ->
                 if is_empty (inter (i_res c) (c_res crt)) then aget k (d_susp dc') = None /\ In k rm
                 else exists c', aget k (d_susp dc') = Some c' /\ i_res c' = inter (i_res c) (c_res crt) /\ i_limit c' = i_limit c).
Proof.
  intros H Hc Hwf Hne Hi Hni Hs Hns k c.
  assert (Hn : forall n c0, d_keys dc = KRollNew n c0 -> k_id n <> c_key crt).
  { intros n c0 E. unfold cl_received_current in H. destruct (c_key crt =? k_id cur) eqn:Ek; [|discriminate].
    apply N.eqb_eq in Ek. rewrite E in Hc, Hwf. simpl in *. inv Hc. congruence. }
  destruct (cl_received_current_spec _ _ _ _ _ _ _ _ H Hc Hn) as [_ [_ [[Esame _]|[_ [_ [rm1 [rm2 [E1 [E2 Erm]]]]]]]]]; [congruence|].
  subst rm. split; intro E.
  - pose proof (shrink_exact _ _ _ _ _ E1 Hi Hni k c E) as X.
    destruct (is_empty _); [destruct X; split; [assumption|apply in_or_app; left; assumption]|exact X].
  - pose proof (shrink_exact _ _ _ _ _ E2 Hs Hns k c E) as X.
    destruct (is_empty _); [destruct X; split; [assumption|apply in_or_app; right; assumption]|exact X].
Qed.

(** * Finding F02a: a certificate issued under a request limit cannot be shrunk when the shrink touches a limited family *)

Definition shrink_total_full : Prop := forall newres exp c, cert_ok c -> exists o, shrink_one newres exp c = Some o.

(** the child asked for 10.2.0.0/16 only (and got its AS numbers and IPv6 unlimited); the issuer loses 10.2.0.0/16 *)
Definition f02a_cert : icert := mkIC (0x4 + 0x40000 + 0x400000000) (mkLimit None (Some 0x40000) None) 0.
Definition f02a_new : N := 0xF + 0xB0000 + 0xF00000000.

Theorem shrink_total_refuted : ~ shrink_total_full.
Proof.
  intro H. destruct (H f02a_new 0%Z f02a_cert) as [o Ho].
  - split; [vm_compute; discriminate|]. right. vm_compute. repeat split; reflexivity.
  - vm_compute in Ho. discriminate.
Qed.

Definition fam_untouched (lim : option N) (newres : N) : Prop := match lim with Some m => subset m newres = true | None => True end.
Definition limit_untouched (l : limit) (newres : N) : Prop :=
  fam_untouched (l_asn l) newres /\ fam_untouched (l_v4 l) newres /\ fam_untouched (l_v6 l) newres.

Lemma fam_part_ok F lim r' newres :
  fam_closed F lim r' -> fam_untouched lim newres -> exists a, fam_part F lim (inter newres r') = Some a.
Proof.
  unfold fam_closed, fam_untouched, fam_part. destruct lim as [m|]; intros Hc Hu; [|eexists; reflexivity].
  replace (subset m (inter (inter newres r') F)) with true; [eexists; reflexivity|]. symmetry. bits.
Qed.

(** the strongest true restriction: the shrink succeeds whenever every limit of the certificate stays within the new set *)
Theorem shrink_total_except_limit newres exp c :
  cert_ok c -> limit_untouched (i_limit c) newres -> exists o, shrink_one newres exp c = Some o.
Proof.
  intros [_ Hcl] [Ua [U4 U6]]. unfold shrink_one, reduced_applicable.
  destruct (subset (i_res c) newres); [eexists; reflexivity|].
  destruct (is_empty _); [eexists; reflexivity|].
  unfold re_issue, make_issued.
  assert (Ha : exists r, apply_limit (i_limit c) (inter newres (i_res c)) = Some r).
  { unfold apply_limit. destruct (limit_is_empty (i_limit c)) eqn:El; [eexists; reflexivity|].
    destruct Hcl as [Hcl|[_ [Ca [C4 C6]]]]; [congruence|].
    destruct (fam_part_ok _ _ _ _ Ca Ua) as [a ->]. destruct (fam_part_ok _ _ _ _ C4 U4) as [b ->].
    destruct (fam_part_ok _ _ _ _ C6 U6) as [d ->]. eexists; reflexivity. }
  destruct Ha as [r Hr]. rewrite Hr.
  replace (subset r newres) with true; [eexists; reflexivity|].
  symmetry. apply apply_limit_sub in Hr. bits.
Qed.

Lemma shrink_map_total newres exp : forall m,
  Forall (fun kc => cert_ok (snd kc) /\ limit_untouched (i_limit (snd kc)) newres) m -> exists r, shrink_map newres exp m = Some r.
Proof.
  induction m as [|[k c] m IH]; simpl; intro H; [eexists; reflexivity|].
  inv H. destruct H2 as [Hok Hu]. simpl in *.
  destruct (shrink_total_except_limit newres exp c Hok Hu) as [o ->].
  destruct (IH H3) as [[r' rm] ->]. destruct o; eexists; reflexivity.
Qed.

(** The whole command: a certificate for the current key is never refused - unless a limit is touched. *)
Definition received_total_full : Prop := forall routes dc cur crt na exp,
  ks_current (d_keys dc) = Some cur -> c_key crt = k_id cur ->
  Forall (fun kc => cert_ok (snd kc)) (d_issued dc) -> Forall (fun kc => cert_ok (snd kc)) (d_susp dc) ->
  exists r, cl_received_current routes dc cur crt na exp = Some r.

Definition f02a_class : dclass :=
  mkDC 1 0 (KActive (mkCK 1 (mkCert 1 (0xF + 0xF0000 + 0xF00000000) 0) false)) [] [(7, f02a_cert)] [] [].

Theorem received_total_refuted : ~ received_total_full.
Proof.
  intro H.
  destruct (H [] f02a_class (mkCK 1 (mkCert 1 (0xF + 0xF0000 + 0xF00000000) 0) false) (mkCert 1 f02a_new 0) 0%Z 0%Z) as [r Hr];
    try reflexivity.
  - constructor; [|constructor]. split; [vm_compute; discriminate|]. right. vm_compute. repeat split; reflexivity.
  - constructor.
  - vm_compute in Hr. discriminate.
Qed.

Theorem received_total_except_limit routes dc cur crt na exp :
  ks_current (d_keys dc) = Some cur -> c_key crt = k_id cur ->
  Forall (fun kc => cert_ok (snd kc) /\ limit_untouched (i_limit (snd kc)) (c_res crt)) (d_issued dc) ->
  Forall (fun kc => cert_ok (snd kc) /\ limit_untouched (i_limit (snd kc)) (c_res crt)) (d_susp dc) ->
  exists r, cl_received_current routes dc cur crt na exp = Some r.
Proof.
  intros Hc Hk Hi Hs. unfold cl_received_current. rewrite Hk, N.eqb_refl. simpl.
  assert (Hr : exists ks, ks_received_cert (d_keys dc) (k_id cur) crt = Some ks).
  { destruct (d_keys dc); simpl in *; try discriminate; eexists; reflexivity. }
  destruct Hr as [ks ->].
  destruct (c_res crt =? c_res (k_cert cur)); [eexists; reflexivity|].
  destruct (shrink_map_total (c_res crt) exp _ Hi) as [[i rm1] ->].
  destruct (shrink_map_total (c_res crt) exp _ Hs) as [[s rm2] ->]. eexists; reflexivity.
Qed.

Example received_total_except_limit_nonvacuous :
  exists r, cl_received_current [] f02a_class (mkCK 1 (mkCert 1 (0xF + 0xF0000 + 0xF00000000) 0) false)
              (mkCert 1 (0x7 + 0xF0000 + 0x700000000) 0) 0%Z 0%Z = Some r.
Proof. eexists. vm_compute. reflexivity. Qed.

(** * Finding F04c (repaired in the tree, 0ff85b31): key-roll activation and the ROAs *)

Definition roas_within (dc : dclass) : Prop :=
  match cur_res dc with
  | Some r => Forall (fun p => subset (snd p) r = true) (d_roas dc)
  | None => d_roas dc = []
  end.

(** The code of record: after activation no ROA lies outside the certificate of the (new) current key -
    whatever the certificates of the two keys were. *)
Theorem activate_roas_within dc exp dc' rm : cl_activate dc exp = Some (Some (dc', rm)) -> roas_within dc'.
Proof.
  unfold cl_activate, roas_within. destruct (d_keys dc) eqn:Ek; try (intro H; inv H; fail).
  destruct (k_req n || k_req c); [discriminate|].
  destruct (activate_map _ _ _) as [[i rm1]|]; [|discriminate]. destruct (reissue_map _ _ _); [|discriminate].
  intro H; inv H. rewrite cur_res_with. simpl.
  apply Forall_forall. intros [k m] Hin. apply filter_In in Hin. simpl. tauto.
Qed.

(** The originally pinned tree, kept as regression witness. *)
Definition activate_roas_pinned_full : Prop := forall dc exp dc',
  roas_within dc -> cl_activate_pinned dc exp = Some (Some dc') -> roas_within dc'.

(** current key certified for atoms 0 and 1, new key (certified after the entitlement shrank) for atom 0 only,
    a ROA in 10.1.0.0/16 *)
Definition f04c_class : dclass :=
  mkDC 1 0 (KRollNew (mkCK 2 (mkCert 2 (0x1 + 0x10000 + 0x100000000) 0) false) (mkCK 1 (mkCert 1 (0x3 + 0x30000 + 0x300000000) 0) false))
       [] [] [] [(1, 0x20000)].

Theorem activate_roas_pinned_refuted : ~ activate_roas_pinned_full.
Proof.
  intro H. specialize (H f04c_class 0%Z).
  assert (E : exists dc', cl_activate_pinned f04c_class 0 = Some (Some dc')) by (eexists; vm_compute; reflexivity).
  destruct E as [dc' E]. specialize (H dc').
  assert (W : roas_within f04c_class) by (unfold roas_within; simpl; constructor; [vm_compute; reflexivity|constructor]).
  specialize (H W E). vm_compute in E. inv E. unfold roas_within in H. simpl in H. inv H. vm_compute in H2. discriminate.
Qed.

(** on the same class the repaired activation removes the ROA *)
Example activate_roas_repaired_on_witness :
  exists dc' rm, cl_activate f04c_class 0 = Some (Some (dc', rm)) /\ d_roas dc' = [] /\ roas_within dc'.
Proof. do 2 eexists. split; [vm_compute; reflexivity|]. split; [reflexivity|constructor]. Qed.

Theorem activate_roas_pinned_except_smaller dc exp dc' n cur :
  d_keys dc = KRollNew n cur -> subset (c_res (k_cert cur)) (c_res (k_cert n)) = true ->
  roas_within dc -> cl_activate_pinned dc exp = Some (Some dc') -> roas_within dc'.
Proof.
  unfold cl_activate_pinned, roas_within. intros Ek Hsub Hw. rewrite Ek.
  destruct (k_req n || k_req cur); [discriminate|].
  destruct (reissue_map _ _ _); [|discriminate]. destruct (reissue_map _ _ _); [|discriminate].
  intro H; inv H. rewrite cur_res_with. simpl. unfold cur_res in Hw. rewrite Ek in Hw. simpl in Hw.
  eapply Forall_impl; [|exact Hw]. intros [i m] Hm. simpl in *. eapply subset_trans; eauto.
Qed.

(** activation under a smaller certificate: the child certificate is reduced, the one with nothing left removed *)
Example activate_shrinks_child_certificates :
  let dc := mkDC 1 0 (KRollNew (mkCK 2 (mkCert 2 0x10001 0) false) (mkCK 1 (mkCert 1 0x30003 0) false)) []
                 [(7, mkIC 0x30003 no_limit 0); (8, mkIC 0x20002 no_limit 0)] [] [(1, 0x20000); (2, 0x10000)] in
  exists dc', cl_activate dc 5 = Some (Some (dc', [8]))
              /\ d_issued dc' = [(7, mkIC 0x10001 no_limit 5)] /\ d_roas dc' = [(2, 0x10000)] /\ contained dc' /\ roas_within dc'.
Proof.
  eexists. split; [vm_compute; reflexivity|]. split; [reflexivity|]. split; [reflexivity|].
  split; [split; repeat constructor|repeat constructor].
Qed.

(** Everywhere else the ROAs follow the certificate: receiving a certificate and changing the routes keep them within. *)
Lemma roas_for_within r routes : Forall (fun p => subset (snd p) r = true) (roas_for r routes).
Proof.
  unfold roas_for. apply Forall_forall. intros [i m] Hin. apply filter_In in Hin. simpl. tauto.
Qed.

Theorem received_roas_within routes dc crt na exp dc' rm :
  cl_received routes dc crt na exp = Some (dc', rm) -> roas_within dc -> roas_within dc'.
Proof.
  intros H Hw. unfold cl_received in H. unfold roas_within in *. unfold cur_res in Hw.
  assert (Hcur : forall cur, ks_current (d_keys dc) = Some cur ->
                 (forall n c, d_keys dc = KRollNew n c -> k_id n <> c_key crt) ->
                 cl_received_current routes dc cur crt na exp = Some (dc', rm) ->
                 match cur_res dc' with Some r => Forall (fun p => subset (snd p) r = true) (d_roas dc') | None => d_roas dc' = [] end).
  { intros cur Hc Hn E. rewrite Hc in Hw.
    destruct (cl_received_current_spec _ _ _ _ _ _ _ _ E Hc Hn) as [_ [-> [[Esame [_ [_ [_ Er]]]]|[_ [Er _]]]]].
    - rewrite Er, Esame. exact Hw.
    - rewrite Er. apply roas_for_within. }
  destruct (d_keys dc) eqn:Ek.
  - destruct (p_id p =? c_key crt); [|discriminate]. inv H. rewrite cur_res_with. simpl. apply roas_for_within.
  - apply (Hcur c); auto. intros; congruence.
  - destruct (p_id p =? c_key crt); [inv H; rewrite cur_res_with; simpl; exact Hw|]. apply (Hcur c); auto. intros; congruence.
  - destruct (k_id n =? c_key crt) eqn:En; [inv H; rewrite cur_res_with; simpl; exact Hw|].
    apply (Hcur c); auto. intros n0 c0 E0. inv E0. apply N.eqb_neq. exact En.
  - apply (Hcur c); auto. intros; congruence.
Qed.

(** * The sync driver: idempotence and convergence *)

Lemma shrink_one_total_nolimit newres exp c : limit_is_empty (i_limit c) = true -> exists o, shrink_one newres exp c = Some o.
Proof.
  intro Hl. unfold shrink_one, reduced_applicable. destruct (subset (i_res c) newres); [eexists; reflexivity|].
  destruct (is_empty _); [eexists; reflexivity|]. unfold re_issue, make_issued, apply_limit. rewrite Hl.
  replace (subset (inter newres (i_res c)) newres) with true; [eexists; reflexivity|]. symmetry. bits.
Qed.

Lemma shrink_map_total_nolimit newres exp : forall m,
  Forall (fun kc => limit_is_empty (i_limit (snd kc)) = true) m -> exists r, shrink_map newres exp m = Some r.
Proof.
  induction m as [|[k c] m IH]; simpl; intro H; [eexists; reflexivity|].
  inv H. simpl in *. destruct (shrink_one_total_nolimit newres exp c H2) as [o ->].
  destruct (IH H3) as [[r' rm] ->]. destruct o; eexists; reflexivity.
Qed.

Definition unlimited (dc : dclass) : Prop :=
  Forall (fun kc => limit_is_empty (i_limit (snd kc)) = true) (d_issued dc)
  /\ Forall (fun kc => limit_is_empty (i_limit (snd kc)) = true) (d_susp dc).

(** a class whose child certificates carry no limits accepts every certificate for its pending or active key *)
Lemma cl_received_total routes x ki r na exp :
  unlimited x ->
  (match d_keys x with KPending p => p_id p = ki | KActive c => k_id c = ki | _ => False end) ->
  exists x' rm c, cl_received routes x (mkCert ki r 0) na exp = Some (x', rm)
                  /\ d_prcn x' = d_prcn x /\ d_keys x' = KActive c /\ c_res (k_cert c) = r /\ k_req c = false.
Proof.
  intros [Hi Hs] Hk. unfold cl_received. destruct (d_keys x) eqn:Ek; try contradiction; simpl.
  - subst ki. rewrite N.eqb_refl. do 3 eexists. split; [reflexivity|]. simpl. auto.
  - subst ki. unfold cl_received_current. simpl. rewrite N.eqb_refl. simpl. rewrite Ek. simpl.
    destruct (r =? c_res (k_cert c)).
    + do 3 eexists. split; [reflexivity|]. simpl. auto.
    + destruct (shrink_map_total_nolimit r exp _ Hi) as [[i rm1] ->].
      destruct (shrink_map_total_nolimit r exp _ Hs) as [[s0 rm2] ->].
      do 3 eexists. split; [reflexivity|]. simpl. auto.
Qed.

Section Sync.
  Variables (cfg : tcfg) (pcn parent : N).

  (** the parent side is able to serve: it holds the class with a certified current key, the child is not
      suspended, and the class-name mapping translates back and forth *)
  Record pgood (s : sst) (pc : dclass) (R : N) : Prop := {
    pg_pc : st_pc s = Some pc;
    pg_cur : cur_res pc = Some R;
    pg_nosusp : ch_susp (dc_ch (st_ch s)) = false;
    pg_map : name_in_parent (dc_ch (st_ch s)) (name_for_child (dc_ch (st_ch s)) pcn) = pcn }.

  Lemma p_contact_nosusp inp pc dch : ch_susp (dc_ch dch) = false -> p_contact cfg pcn inp pc dch = Some (pc, dch, 0).
  Proof. unfold p_contact. intros ->. reflexivity. Qed.

  Lemma cur_res_with_certs dc i s : cur_res (dc_with_certs dc i s) = cur_res dc.
  Proof. reflexivity. Qed.

  Lemma p_issue_ok inp pc dch R crcn ki :
    cur_res pc = Some R -> name_in_parent (dc_ch dch) crcn = pcn -> inter R (dc_ent dch) <> 0 ->
    exists dc' dch',
      p_issue cfg pcn inp (Some pc) dch crcn ki = Some (dc', dch', Some (inter R (dc_ent dch), exp_of cfg inp))
      /\ cur_res dc' = Some R /\ dc_ent dch' = dc_ent dch /\ ch_map (dc_ch dch') = ch_map (dc_ch dch)
      /\ ch_susp (dc_ch dch') = ch_susp (dc_ch dch).
  Proof.
    intros Hc Hn Hne. unfold p_issue. rewrite Hn, N.eqb_refl. simpl.
    unfold cl_certify. rewrite Hc, issued_exact_no_limit.
    set (dc' := dc_with_certs pc _ _). set (dch' := ch_with dch _).
    assert (Hc' : cur_res dc' = Some R) by (unfold dc'; rewrite cur_res_with_certs; exact Hc).
    unfold entitlement_class. rewrite Hc'. change (dc_ent dch') with (dc_ent dch).
    destruct (is_empty (inter R (dc_ent dch))) eqn:Ee; [apply is_empty_true_eq in Ee; contradiction|].
    assert (Hg : aget ki (d_issued dc') = Some (mkIC (inter R (dc_ent dch)) no_limit (exp_of cfg inp))) by (unfold dc'; simpl; apply aget_ainsert_eq).
    rewrite Hg. exists dc', dch'. simpl. auto.
  Qed.

  (** the driver sends the one open request: certify at the parent, response, received at the child *)
  Lemma send_one inp s pc R x k n m :
    pgood s pc R -> st_xc s = Some x -> unlimited x -> d_prcn x = name_for_child (dc_ch (st_ch s)) pcn ->
    (match d_keys x with KPending p => p_id p = k | KActive c => k_id c = k | _ => False end) ->
    inter R (dc_ent (st_ch s)) <> 0 ->
    settledb pcn (sr_st (send_cert_requests cfg pcn inp [k] s n m)) = true
    /\ sr_err (send_cert_requests cfg pcn inp [k] s n m) = false.
  Proof.
    intros [Hpc Hcur Hns Hmap] Hx Hun Hprcn Hkk Hne.
    cbn [send_cert_requests]. rewrite Hx, (p_contact_nosusp inp _ _ Hns). cbv beta iota. rewrite Hpc.
    destruct (p_issue_ok inp pc (st_ch s) R (d_prcn x) k Hcur) as [dc' [dch' [Hi [Hc' [He [Hm Hs]]]]]];
      [rewrite Hprcn; exact Hmap|exact Hne|]. rewrite Hi. cbv beta iota.
    destruct (cl_received_total (st_xroutes s) x k (inter R (dc_ent (st_ch s))) (exp_of cfg inp) (exp_of cfg inp) Hun Hkk)
      as [x' [rm [c' [Hr [Hp [Hks [Hres Hrq']]]]]]].
    rewrite Hr. cbv beta iota. cbn [send_cert_requests sr_st sr_err]. split; [|reflexivity].
    unfold settledb, entitled. cbn [st_xc st_pc st_ch]. rewrite Hc', He, Hks, Hrq', Hres, Hp, Hprcn.
    unfold name_for_child. rewrite Hm.
    destruct (is_empty (inter R (dc_ent (st_ch s)))) eqn:Ee; [apply is_empty_true_eq in Ee; contradiction|].
    rewrite !N.eqb_refl. reflexivity.
  Qed.

  (** One sync in the request branch: the open request of a pending or active key is served. *)
  Lemma step_request inp s pc R x k :
    pgood s pc R -> st_xc s = Some x -> unlimited x -> d_prcn x = name_for_child (dc_ch (st_ch s)) pcn ->
    (d_keys x = KPending (mkPK k true) \/ exists c, d_keys x = KActive c /\ k_id c = k /\ k_req c = true) ->
    inter R (dc_ent (st_ch s)) <> 0 ->
    settledb pcn (sr_st (sync_step cfg pcn parent inp s)) = true /\ sr_err (sync_step cfg pcn parent inp s) = false.
  Proof.
    intros Hg Hx Hun Hprcn Hk Hne.
    assert (Hreq : ks_requests (d_keys x) = [k]
                   /\ match d_keys x with KPending p => p_id p = k | KActive c => k_id c = k | _ => False end).
    { destruct Hk as [->|[c [-> [Hid Hr]]]]; simpl; [repeat split; reflexivity|]. rewrite Hr, Hid. repeat split; reflexivity. }
    destruct Hreq as [Hrq Hkk].
    unfold sync_step. unfold has_pending_requests. rewrite Hx, Hrq. cbv iota.
    destruct (d_keys x) eqn:Ek; try contradiction; cbv beta iota; rewrite Hx; cbv beta iota; rewrite Ek, Hrq.
    all: eapply send_one; eauto; rewrite Ek; exact Hkk.
  Qed.
End Sync.

Section Sync2.
  Variables (cfg : tcfg) (pcn parent : N).

  Lemma wants_false_res cur_res new_res cur_na new_na now :
    wants_update true false cur_res new_res cur_na new_na now = false -> new_res = cur_res.
  Proof.
    unfold wants_update. simpl. destruct (new_res =? cur_res) eqn:E; [intros _; apply N.eqb_eq; exact E|discriminate].
  Qed.

  Lemma dc_with_keys_id x : dc_with_keys x (d_keys x) = x.
  Proof. destruct x; reflexivity. Qed.

  Lemma entitlement_class_some inp pc dch R :
    cur_res pc = Some R -> inter R (dc_ent dch) <> 0 ->
    exists e, entitlement_class cfg pc dch pcn (si_now inp) = Some e
              /\ e_name e = name_for_child (dc_ch dch) pcn /\ e_res e = inter R (dc_ent dch).
  Proof.
    intros Hc Hne. unfold entitlement_class. rewrite Hc.
    destruct (is_empty _) eqn:Ee; [apply is_empty_true_eq in Ee; contradiction|]. eexists. split; [reflexivity|]. simpl. auto.
  Qed.

  Lemma entitlement_class_none inp pc dch R :
    cur_res pc = Some R -> inter R (dc_ent dch) = 0 -> entitlement_class cfg pc dch pcn (si_now inp) = None.
  Proof. intros Hc He. unfold entitlement_class. rewrite Hc, He. reflexivity. Qed.

  (** One sync in the entitlement branch, the child has no class yet. *)
  Lemma step_entitlement_none inp s pc R :
    pgood pcn s pc R -> st_xc s = None ->
    let r := sync_step cfg pcn parent inp s in
    sr_err r = false /\ st_pc (sr_st r) = st_pc s /\ st_ch (sr_st r) = st_ch s
    /\ (inter R (dc_ent (st_ch s)) = 0 -> sr_st r = s)
    /\ (inter R (dc_ent (st_ch s)) <> 0 ->
        exists x', st_xc (sr_st r) = Some x' /\ d_keys x' = KPending (mkPK (si_fresh inp) true) /\ unlimited x'
                   /\ d_prcn x' = name_for_child (dc_ch (st_ch s)) pcn).
  Proof.
    intros [Hpc Hcur Hns Hmap] Hx. unfold sync_step. rewrite Hx. cbn [has_pending_requests].
    rewrite (p_contact_nosusp cfg pcn inp _ _ Hns). cbv beta iota. rewrite Hpc. cbv beta iota.
    destruct (N.eq_dec (inter R (dc_ent (st_ch s))) 0) as [E|E].
    - rewrite (entitlement_class_none inp pc _ R Hcur E). cbn. repeat split; auto; try contradiction.
      intros _. destruct s; simpl in *; subst; reflexivity.
    - destruct (entitlement_class_some inp pc (st_ch s) R Hcur E) as [e [-> [Hn Hr]]]. cbn.
      repeat split; auto; try contradiction. intros _. eexists. split; [reflexivity|]. simpl.
      repeat split; auto; constructor.
  Qed.

  (** One sync in the entitlement branch, the child holds an active key without open request. *)
  Lemma step_entitlement_active inp s pc R x c :
    pgood pcn s pc R -> st_xc s = Some x -> d_keys x = KActive c -> k_req c = false ->
    d_prcn x = name_for_child (dc_ch (st_ch s)) pcn ->
    let r := sync_step cfg pcn parent inp s in
    sr_err r = false /\ st_pc (sr_st r) = st_pc s /\ st_ch (sr_st r) = st_ch s
    /\ (settledb pcn (sr_st r) = true
        \/ (inter R (dc_ent (st_ch s)) <> 0
            /\ st_xc (sr_st r) = Some (dc_with_keys x (KActive (ck_set_req c))))).
  Proof.
    intros [Hpc Hcur Hns Hmap] Hx Hk Hr Hp. unfold sync_step. rewrite Hx. cbn [has_pending_requests]. rewrite Hk. cbn [ks_requests ks_revoke_request]. rewrite Hr.
    cbv beta iota. rewrite (p_contact_nosusp cfg pcn inp _ _ Hns). cbv beta iota. rewrite Hpc. cbv beta iota.
    destruct (N.eq_dec (inter R (dc_ent (st_ch s))) 0) as [E|E].
    - rewrite (entitlement_class_none inp pc _ R Hcur E). cbn. repeat split; auto. left.
      unfold settledb, entitled. cbn [st_xc st_pc st_ch sr_st]. rewrite ?Hpc, Hcur, E. reflexivity.
    - destruct (entitlement_class_some inp pc (st_ch s) R Hcur E) as [e [-> [Hn Hres]]].
      unfold x_entitlements. rewrite Hp, Hn, N.eqb_refl, Hk. cbn [ks_entitlement].
      destruct (class_wants x e (si_now inp) c) eqn:Ew.
      + cbn. repeat split; auto.
      + cbn. repeat split; auto. left.
        unfold class_wants in Ew. apply wants_false_res in Ew.
        unfold settledb, entitled. cbn [st_xc st_pc st_ch sr_st dc_with_keys dc_with d_prcn d_keys]. rewrite ?Hpc, Hcur.
        destruct (is_empty _) eqn:Ee; [apply is_empty_true_eq in Ee; contradiction|].
        rewrite Hp, N.eqb_refl, Hr. simpl. rewrite <- Hres, Ew. apply N.eqb_refl.
  Qed.

  Definition start_ok (s : sst) : Prop :=
    match st_xc s with
    | None => True
    | Some x => unlimited x /\ d_prcn x = name_for_child (dc_ch (st_ch s)) pcn
                /\ ((exists k, d_keys x = KPending (mkPK k true)) \/ (exists c, d_keys x = KActive c))
    end.

  (** sync_converges: from every state in which the child is not in a key roll, at most two syncs reach
      Settled - provided the parent can serve (see [pgood]) and an open request does not meet an empty
      entitlement (candidate finding F02d/F02e: [sync_stuck_witness]). *)
  Theorem sync_converges i1 i2 s pc R :
    pgood pcn s pc R -> start_ok s ->
    (has_pending_requests (st_xc s) = true -> inter R (dc_ent (st_ch s)) <> 0) ->
    settledb pcn (sync_n cfg pcn parent [i1] s) = true \/ settledb pcn (sync_n cfg pcn parent [i1; i2] s) = true.
  Proof.
    intros Hg Hs Hne. unfold start_ok in Hs. cbn [sync_n]. destruct (st_xc s) as [x|] eqn:Hx.
    - destruct Hs as [Hun [Hp [[k Hk]|[c Hk]]]].
      + left. refine (proj1 (step_request cfg pcn parent i1 s pc R x k Hg Hx Hun Hp (or_introl Hk) _)).
        apply Hne. unfold has_pending_requests. rewrite Hk. reflexivity.
      + destruct (k_req c) eqn:Hr.
        * left. refine (proj1 (step_request cfg pcn parent i1 s pc R x (k_id c) Hg Hx Hun Hp (or_intror (ex_intro _ c (conj Hk (conj eq_refl Hr)))) _)).
          apply Hne. unfold has_pending_requests. rewrite Hk. simpl. rewrite Hr. reflexivity.
        * destruct (step_entitlement_active i1 s pc R x c Hg Hx Hk Hr Hp) as [_ [Hpc' [Hch' [Hset|[Hnz Hx']]]]]; [left; exact Hset|].
          right. destruct Hg as [Hpc Hcur Hns Hmap].
          refine (proj1 (step_request cfg pcn parent i2 _ pc R _ (k_id c) _ Hx' _ _ _ _)).
          -- constructor; rewrite ?Hpc', ?Hch'; assumption.
          -- destruct Hun; split; assumption.
          -- rewrite Hch'. exact Hp.
          -- right. exists (ck_set_req c). simpl. auto.
          -- rewrite Hch'. exact Hnz.
    - destruct (step_entitlement_none i1 s pc R Hg Hx) as [_ [Hpc' [Hch' [Hz Hnz]]]].
      destruct (N.eq_dec (inter R (dc_ent (st_ch s))) 0) as [E|E].
      + left. rewrite (Hz E). unfold settledb, entitled. rewrite Hx. destruct Hg as [Hpc Hcur _ _]. rewrite Hpc, Hcur, E. reflexivity.
      + right. destruct (Hnz E) as [x' [Hx' [Hk' [Hun' Hp']]]]. destruct Hg as [Hpc Hcur Hns Hmap].
        refine (proj1 (step_request cfg pcn parent i2 _ pc R x' (si_fresh i1) _ Hx' Hun' _ (or_introl Hk') _)).
        * constructor; rewrite ?Hpc', ?Hch'; assumption.
        * rewrite Hch'. exact Hp'.
        * rewrite Hch'. exact E.
  Qed.

  (** sync_idempotent: in a settled state in which the parent reports nothing new (no resource change, an
      unchanged not-after time, no key the child does not know) a sync changes nothing and stores no command. *)
  Definition quiet (inp : sin) (pc : dclass) (dch : dchild) (x : dclass) (c : ckey) : Prop :=
    forall e, entitlement_class cfg pc dch pcn (si_now inp) = Some e ->
              class_wants x e (si_now inp) c = false /\ unexpected_keys (d_keys x) e = 0.

  Theorem sync_idempotent inp s pc R x c :
    pgood pcn s pc R -> st_xc s = Some x -> d_keys x = KActive c -> settledb pcn s = true ->
    quiet inp pc (st_ch s) x c ->
    sync_step cfg pcn parent inp s = mkSres s 0 0 false.
  Proof.
    intros [Hpc Hcur Hns Hmap] Hx Hk Hset Hq. unfold settledb, entitled in Hset. rewrite Hx, Hpc, Hcur, Hk in Hset.
    apply andb_true_iff in Hset. destruct Hset as [Hset Hc]. apply andb_true_iff in Hset. destruct Hset as [Hne Hp].
    apply andb_true_iff in Hc. destruct Hc as [Hr _]. apply negb_true_iff in Hr, Hne. apply N.eqb_eq in Hp.
    apply is_empty_false_neq in Hne.
    unfold sync_step. rewrite Hx. cbn [has_pending_requests]. rewrite Hk. cbn [ks_requests ks_revoke_request]. rewrite Hr.
    cbv beta iota. rewrite (p_contact_nosusp cfg pcn inp _ _ Hns). cbv beta iota. rewrite Hpc. cbv beta iota.
    destruct (entitlement_class_some inp pc (st_ch s) R Hcur Hne) as [e [He [Hn Hres]]].
    destruct (Hq e He) as [Hw Hu]. rewrite Hk in Hu. rewrite He.
    unfold x_entitlements. rewrite Hp, Hn, N.eqb_refl, Hk. cbn [ks_entitlement]. rewrite Hw, Hu. cbn.
    rewrite <- Hk, dc_with_keys_id. destruct s; simpl in *; subst. reflexivity.
  Qed.

  Theorem sync_idempotent_none inp s pc R :
    pgood pcn s pc R -> st_xc s = None -> settledb pcn s = true ->
    sync_step cfg pcn parent inp s = mkSres s 0 0 false.
  Proof.
    intros Hg Hx Hset. pose proof Hg as [Hpc Hcur Hns Hmap].
    unfold settledb, entitled in Hset. rewrite Hx, Hpc, Hcur in Hset. apply is_empty_true_eq in Hset.
    unfold sync_step. rewrite Hx. cbn [has_pending_requests].
    rewrite (p_contact_nosusp cfg pcn inp _ _ Hns). cbv beta iota. rewrite Hpc. cbv beta iota.
    rewrite (entitlement_class_none inp pc _ R Hcur Hset). cbn. destruct s; simpl in *; subst. reflexivity.
  Qed.

  (** The hypotheses of [sync_idempotent] hold when the parent's copy of the child's certificate is the one
      the child holds, it is not about to expire, and it is the only certificate the parent lists. *)
  Lemma quiet_fresh inp pc dch x c ic R :
    cur_res pc = Some R -> d_keys x = KActive c -> c_res (k_cert c) = inter R (dc_ent dch) ->
    filter (fun k => amem k (d_issued pc)) (child_issued (dc_ch dch) pcn) = [k_id c] ->
    aget (k_id c) (d_issued pc) = Some ic -> i_exp ic = na_of x (k_id c) -> (si_now inp + cf_thr cfg < i_exp ic)%Z ->
    quiet inp pc dch x c.
  Proof.
    intros Hcur Hk Hres Hkeys Hic Hna Hfresh e He. unfold entitlement_class in He. rewrite Hcur in He.
    destruct (is_empty _); [discriminate|]. rewrite Hkeys in He. simpl in He. rewrite Hic in He.
    apply Z.ltb_lt in Hfresh. rewrite Hfresh in He. inv He. split.
    - unfold class_wants, wants_update. simpl. rewrite Hres, N.eqb_refl. simpl. rewrite Hna.
      destruct (na_of x (k_id c) - si_now inp <=? 0)%Z; [reflexivity|]. rewrite Z.eqb_refl. reflexivity.
    - unfold unexpected_keys. simpl. rewrite Hk. simpl. rewrite N.eqb_refl. reflexivity.
  Qed.
End Sync2.

(** non-vacuity: a concrete child and parent; the entitlement grows by one atom; two syncs settle, a third changes nothing *)
Definition ex_cfg : tcfg := mkCfg 31449600 2419200.
Definition ex_parent : dclass := mkDC 1 0 (KActive (mkCK 1 (mkCert 1 0xF000F 0) false)) [] [(7, mkIC 0x30003 no_limit 31449600)] [] [].
Definition ex_child : dclass := mkDC 2 0 (KActive (mkCK 7 (mkCert 7 0x30003 0) false)) [(7, 31449600%Z)] [] [] [].
Definition ex_state : sst := mkSst (Some ex_parent) (mkDCh 0x70007 (mkChild false [(7, InUse 0)] [])) (Some ex_child) [].

Example sync_converges_nonvacuous :
  pgood 0 ex_state ex_parent 0xF000F /\ start_ok 0 ex_state
  /\ settledb 0 ex_state = false
  /\ settledb 0 (sync_n ex_cfg 0 2 [mkSin 100 50] ex_state) = false
  /\ settledb 0 (sync_n ex_cfg 0 2 [mkSin 100 50; mkSin 200 51] ex_state) = true
  /\ sync_step ex_cfg 0 2 (mkSin 300 52) (sync_n ex_cfg 0 2 [mkSin 100 50; mkSin 200 51] ex_state)
     = mkSres (sync_n ex_cfg 0 2 [mkSin 100 50; mkSin 200 51] ex_state) 0 0 false.
Proof.
  split; [constructor; reflexivity|]. split; [split; [split; constructor|split; [reflexivity|right; eexists; reflexivity]]|].
  vm_compute. repeat split; reflexivity.
Qed.

(** Candidate finding F02d/F02e at the level of the model: an open request that meets an empty entitlement is
    never cleared. Every sync stores a certificate without resources at the parent, fails, and leaves the
    child where it was: five syncs later it is still not settled (the entitlement branch, which would remove
    the class, is never reached). *)
Definition stuck_state : sst :=
  mkSst (Some ex_parent) (mkDCh 0 (mkChild false [(7, InUse 0)] []))
        (Some (mkDC 2 0 (KRollPending (mkPK 8 true) (mkCK 7 (mkCert 7 0x30003 0) false)) [(7, 31449600%Z)] [] [] [])) [].

Example sync_stuck_witness :
  let ins := [mkSin 100 50; mkSin 200 51; mkSin 300 52; mkSin 400 53; mkSin 500 54] in
  settledb 0 (sync_n ex_cfg 0 2 ins stuck_state) = false
  /\ st_xc (sync_n ex_cfg 0 2 ins stuck_state) = st_xc stuck_state
  /\ sr_err (sync_step ex_cfg 0 2 (mkSin 100 50) stuck_state) = true
  /\ sr_pcmds (sync_step ex_cfg 0 2 (mkSin 100 50) stuck_state) = 1
  /\ (exists pc', st_pc (sr_st (sync_step ex_cfg 0 2 (mkSin 100 50) stuck_state)) = Some pc'
                  /\ aget 8 (d_issued pc') = Some (mkIC 0 no_limit 31449700)).
Proof. vm_compute. repeat split; try reflexivity. eexists. split; reflexivity. Qed.

(** F02a in the driver: the child's own class holds a limited certificate; the parent shrinks the family; the
    received certificate is refused and the class is dropped (then re-created by later syncs). *)
Example sync_drops_class_on_refusal :
  let x := mkDC 2 0 (KActive (mkCK 7 (mkCert 7 (0xF + 0xF0000 + 0xF00000000) 0) true)) [(7, 31449600%Z)] [(9, f02a_cert)] [] [] in
  let p := mkDC 1 0 (KActive (mkCK 1 (mkCert 1 f02a_new 0) false)) [] [(7, mkIC (0xF + 0xF0000 + 0xF00000000) no_limit 31449600)] [] [] in
  let s := mkSst (Some p) (mkDCh (0xF + 0xF0000 + 0xF00000000) (mkChild false [(7, InUse 0)] [])) (Some x) [] in
  let r := sync_step ex_cfg 0 2 (mkSin 100 50) s in
  st_xc (sr_st r) = None /\ sr_err r = true /\ sr_xcmds r = 1.
Proof. vm_compute. repeat split; reflexivity. Qed.

(** * wants_update: the rule in arithmetic form (certificate with a trailing slash, not the trust anchor) *)
Theorem wants_update_spec cur_res new_res cur_na new_na now :
  wants_update true false cur_res new_res cur_na new_na now = true <->
  new_res <> cur_res
  \/ (let rc := (cur_na - now)%Z in let re := (new_na - now)%Z in
      (0 < re /\ rc <> re /\ ((0 < rc /\ 10 * re < 9 * rc) \/ rc <= 0 \/ 11 * rc < 10 * re \/ 604800 <= re - rc))%Z).
Proof.
  unfold wants_update. cbv zeta. cbn [negb]. destruct (new_res =? cur_res) eqn:E.
  - apply N.eqb_eq in E. cbn [negb].
    destruct (new_na - now <=? 0)%Z eqn:E1; [apply Z.leb_le in E1; split; [discriminate|intros [H|H]; [congruence|lia]]|].
    apply Z.leb_gt in E1.
    destruct (cur_na - now =? new_na - now)%Z eqn:E2; [apply Z.eqb_eq in E2; split; [discriminate|intros [H|H]; [congruence|lia]]|].
    apply Z.eqb_neq in E2.
    destruct ((0 <? cur_na - now)%Z && (10 * (new_na - now) <? 9 * (cur_na - now))%Z) eqn:E3.
    + apply andb_true_iff in E3. destruct E3 as [A B]. apply Z.ltb_lt in A, B. split; [intros _; right; lia|reflexivity].
    + destruct ((cur_na - now <=? 0)%Z || (11 * (cur_na - now) <? 10 * (new_na - now))%Z || (604800 <=? new_na - now - (cur_na - now))%Z) eqn:E4.
      * split; [intros _; right|reflexivity].
        apply orb_true_iff in E4. destruct E4 as [E4|E4]; [apply orb_true_iff in E4; destruct E4 as [E4|E4]|];
          [apply Z.leb_le in E4|apply Z.ltb_lt in E4|apply Z.leb_le in E4]; lia.
      * split; [discriminate|]. intros [H|H]; [congruence|].
        apply orb_false_iff in E4. destruct E4 as [E4 E6]. apply orb_false_iff in E4. destruct E4 as [E4 E5].
        apply Z.leb_gt in E4, E6. apply Z.ltb_ge in E5.
        apply andb_false_iff in E3. destruct E3 as [E3|E3]; [apply Z.ltb_ge in E3|apply Z.ltb_ge in E3]; lia.
  - apply N.eqb_neq in E. cbn [negb]. split; [intros _; left; exact E|reflexivity].
Qed.

Example wants_update_rule_points :
  (* unchanged *) wants_update true false 3 3 1000000 1000000 0 = false
  /\ (* 5 % more, less than a week *) wants_update true false 3 3 1000000 1050000 0 = false
  /\ (* 11 % more *) wants_update true false 3 3 1000000 1110001 0 = true
  /\ (* a week more on a long-lived certificate *) wants_update true false 3 3 31449600 32054400 0 = true
  /\ (* 11 % less *) wants_update true false 3 3 1000000 889999 0 = true
  /\ (* eligible time in the past *) wants_update true false 3 3 1000000 (-5) 0 = false
  /\ (* resources changed *) wants_update true false 3 7 1000000 1000000 0 = true.
Proof. vm_compute. repeat split; reflexivity. Qed.

(** * The last step of a key roll: the old key is revoked, then the driver goes on as from an active key *)
Section Sync3.
  Variables (cfg : tcfg) (pcn parent : N).

  Lemma p_revoke_ok pc dch crcn ki :
    name_in_parent (dc_ch dch) crcn = pcn -> ch_is_issued (dc_ch dch) ki = true ->
    p_revoke pcn (Some pc) dch crcn ki
    = Some (Some (dc_with_certs pc (aremove ki (d_issued pc)) (aremove ki (d_susp pc))), ch_with dch (ch_set_used (dc_ch dch) ki Revoked), 1).
  Proof. intros Hn Hi. unfold p_revoke. rewrite Hn, N.eqb_refl, Hi. reflexivity. Qed.

  Lemma step_rollold inp s pc R x cur old :
    pgood pcn s pc R -> st_xc s = Some x -> d_keys x = KRollOld cur old -> unlimited x ->
    d_prcn x = name_for_child (dc_ch (st_ch s)) pcn ->
    ch_is_issued (dc_ch (st_ch s)) (k_id old) = true ->
    (k_req cur = true -> inter R (dc_ent (st_ch s)) <> 0) ->
    let r := sync_step cfg pcn parent inp s in
    settledb pcn (sr_st r) = true
    \/ (exists pc', pgood pcn (sr_st r) pc' R /\ start_ok pcn (sr_st r) /\ has_pending_requests (st_xc (sr_st r)) = false).
  Proof.
    intros Hg Hx Hk Hun Hp Hiss Hne. pose proof Hg as [Hpc Hcur Hns Hmap].
    unfold sync_step, has_pending_requests. rewrite Hx, Hk.
    replace (match ks_requests (KRollOld cur old) with [] => match ks_revoke_request (KRollOld cur old) with Some _ => true | None => false end | _ :: _ => true end) with true
      by (simpl; destruct (k_req cur), (k_req old); reflexivity).
    cbv beta iota. rewrite (p_contact_nosusp cfg pcn inp _ _ Hns). cbv beta iota. rewrite Hpc.
    rewrite (p_revoke_ok pc (st_ch s) (d_prcn x) (k_id old)); [|rewrite Hp; exact Hmap|exact Hiss].
    cbv beta iota. cbn [st_xc dc_with_keys dc_with d_keys ks_requests].
    set (pc' := dc_with_certs pc _ _). set (ch' := ch_with (st_ch s) _).
    set (x' := mkDC (d_parent x) (d_prcn x) (KActive cur) (d_kna x) (d_issued x) (d_susp x) (d_roas x)).
    set (s1 := mkSst (Some pc') ch' (Some x') (st_xroutes s)).
    assert (Hg1 : pgood pcn s1 pc' R) by (constructor; [reflexivity|exact Hcur|exact Hns|exact Hmap]).
    assert (Hun1 : unlimited x') by (destruct Hun; split; assumption).
    destruct (k_req cur) eqn:Hr.
    - left. refine (proj1 (send_one cfg pcn inp s1 pc' R x' (k_id cur) _ _ Hg1 eq_refl Hun1 Hp _ (Hne eq_refl))). reflexivity.
    - right. cbn [send_cert_requests sr_st]. exists pc'. split; [exact Hg1|]. split.
      + unfold start_ok. cbn [st_xc s1]. split; [exact Hun1|]. split; [exact Hp|]. right. exists cur. reflexivity.
      + cbn. rewrite Hr. reflexivity.
  Qed.

  (** From the last phase of a key roll at most three syncs reach Settled - provided the parent still knows the old
      key (otherwise the revocation is refused for ever: candidate finding F02d, [sync_stuck_revoke_witness]). *)
  Theorem sync_converges_rollold i1 i2 i3 s pc R x cur old :
    pgood pcn s pc R -> st_xc s = Some x -> d_keys x = KRollOld cur old -> unlimited x ->
    d_prcn x = name_for_child (dc_ch (st_ch s)) pcn ->
    ch_is_issued (dc_ch (st_ch s)) (k_id old) = true ->
    (k_req cur = true -> inter R (dc_ent (st_ch s)) <> 0) ->
    settledb pcn (sync_n cfg pcn parent [i1] s) = true
    \/ settledb pcn (sync_n cfg pcn parent [i1; i2] s) = true
    \/ settledb pcn (sync_n cfg pcn parent [i1; i2; i3] s) = true.
  Proof.
    intros Hg Hx Hk Hun Hp Hiss Hne.
    destruct (step_rollold i1 s pc R x cur old Hg Hx Hk Hun Hp Hiss Hne) as [H|[pc' [Hg' [Hs' Hnp]]]]; [left; exact H|].
    right. cbn [sync_n].
    destruct (sync_converges cfg pcn parent i2 i3 _ pc' R Hg' Hs') as [H|H].
    - rewrite Hnp. discriminate.
    - left. exact H.
    - right. exact H.
  Qed.
End Sync3.

(** F02d at the level of the model: the parent removed the certificate of the child's old key (its own
    certificate shrank to nothing the child's certificates held) while the child was waiting to have it
    revoked: the revocation request is refused, every sync fails, the child stays in the roll. *)
Definition stuck_revoke_state : sst :=
  mkSst (Some (mkDC 1 0 (KActive (mkCK 1 (mkCert 1 0xF000F 0) false)) [] [] [] []))
        (mkDCh 0x30003 (mkChild false [(7, Revoked); (8, Revoked)] []))
        (Some (mkDC 2 0 (KRollOld (mkCK 8 (mkCert 8 0x30003 0) false) (mkCK 7 (mkCert 7 0x30003 0) false)) [] [] [] [])) [].

Example sync_stuck_revoke_witness :
  let ins := [mkSin 100 50; mkSin 200 51; mkSin 300 52; mkSin 400 53] in
  sync_n ex_cfg 0 2 ins stuck_revoke_state = stuck_revoke_state
  /\ settledb 0 stuck_revoke_state = false
  /\ sr_err (sync_step ex_cfg 0 2 (mkSin 100 50) stuck_revoke_state) = true.
Proof. vm_compute. repeat split; reflexivity. Qed.

(** further non-vacuity examples *)
Example shrink_same_command_nonvacuous :
  let dc := mkDC 1 0 (KActive (mkCK 1 (mkCert 1 0xF000F 0) false)) [] [(7, mkIC 0x3000C no_limit 0)] [(8, mkIC 0x30003 no_limit 0)] [] in
  let s := mkDCA [(0, dc)] [(5, mkDCh 0x3000C (mkChild false [(7, InUse 0)] [])); (6, mkDCh 0x30003 (mkChild true [(8, InUse 0)] []))] [] 1 in
  contained dc /\ ks_wf (d_keys dc)
  /\ exists s', dprocess s (XReceived 0 (mkCert 1 0x10005 0) 0 0) = Done s'
               /\ aget 0 (da_classes s') = Some (mkDC 1 0 (KActive (mkCK 1 (mkCert 1 0x10005 0) false)) [(1, 0%Z)]
                                                  [(7, mkIC 0x10004 no_limit 0)] [(8, mkIC 0x10001 no_limit 0)] []).
Proof.
  simpl. split; [split; repeat constructor|]. split; [exact I|]. eexists. split; vm_compute; reflexivity.
Qed.

Example sync_converges_rollold_nonvacuous :
  let x := mkDC 2 0 (KRollOld (mkCK 8 (mkCert 8 0x30003 0) false) (mkCK 7 (mkCert 7 0x30003 0) false)) [] [] [] [] in
  let p := mkDC 1 0 (KActive (mkCK 1 (mkCert 1 0xF000F 0) false)) [] [(7, mkIC 0x30003 no_limit 31449600); (8, mkIC 0x30003 no_limit 31449600)] [] [] in
  let s := mkSst (Some p) (mkDCh 0x70007 (mkChild false [(7, InUse 0); (8, InUse 0)] [])) (Some x) [] in
  pgood 0 s p 0xF000F /\ ch_is_issued (dc_ch (st_ch s)) 7 = true
  /\ settledb 0 (sync_n ex_cfg 0 2 [mkSin 100 50; mkSin 200 51] s) = false
  /\ settledb 0 (sync_n ex_cfg 0 2 [mkSin 100 50; mkSin 200 51; mkSin 300 52] s) = true.
Proof. split; [constructor; reflexivity|]. vm_compute. repeat split; reflexivity. Qed.

(** * Unsuspension: what comes back lies within the entitlement of that moment *)

Lemma aget_aremove_some {V} k k' (v : V) l : aget k' (aremove k l) = Some v -> k' <> k /\ aget k' l = Some v.
Proof.
  intro H. destruct (N.eq_dec k' k) as [->|Hn]; [rewrite aget_aremove_eq in H; discriminate|].
  split; [exact Hn|]. rewrite aget_aremove_neq in H; assumption.
Qed.

(** Every issued certificate after [cl_unsuspend] is either one that was issued before, untouched, or the
    re-issue of a suspended one: the suspended certificate's resources intersected with the issuing certificate,
    narrowed by its limit - and within the child's entitlement. *)
Theorem unsuspend_within_entitlement ent now exp keys : forall dc dc' rm,
  cl_unsuspend dc ent keys now exp = Some (dc', rm) ->
  forall k c', aget k (d_issued dc') = Some c' ->
    aget k (d_issued dc) = Some c'
    \/ (exists s sg, aget k (d_susp dc) = Some s /\ cur_res dc = Some sg
                     /\ issue_cert sg (i_res s) (i_limit s) = Some (i_res c')
                     /\ subset (i_res s) ent = true /\ subset (i_res c') ent = true).
Proof.
  induction keys as [|k0 keys IH]; simpl; intros dc dc' rm H k c' E.
  - inv H. left. exact E.
  - destruct (aget k0 (d_susp dc)) as [s|] eqn:Es; [|eapply IH; eauto].
    destruct ((now + 86400 <? i_exp s)%Z && subset (i_res s) ent) eqn:Eok.
    + apply andb_true_iff in Eok. destruct Eok as [_ Hsub].
      destruct (cl_certify dc (i_res s) k0 (i_limit s) exp) as [dc1|] eqn:Ec; [|discriminate].
      unfold cl_certify in Ec. destruct (cur_res dc) as [sg|] eqn:Ecur; [|discriminate].
      destruct (issue_cert sg (i_res s) (i_limit s)) as [r|] eqn:Ei; [|discriminate]. inv Ec.
      destruct (IH _ _ _ H k c' E) as [Hold|[s' [sg' [Hs' [Hc' [Hi' [Hsub' Hin']]]]]]].
      * cbn [d_issued dc_with_certs dc_with] in Hold. destruct (N.eq_dec k k0) as [->|Hn].
        -- rewrite aget_ainsert_eq in Hold. inv Hold. right. exists s, sg. cbn [i_res].
           repeat split; auto. apply issued_within in Ei. destruct Ei as [_ Hr]. eapply subset_trans; eauto.
        -- rewrite aget_ainsert_neq in Hold by exact Hn. left. exact Hold.
      * cbn [d_susp dc_with_certs dc_with] in Hs'. apply aget_aremove_some in Hs'. destruct Hs' as [_ Hs']. right. exists s', sg'.
        change (cur_res dc = Some sg') in Hc'. repeat split; auto; congruence.
    + destruct (cl_unsuspend dc ent keys now exp) as [[dc1 rm1]|] eqn:Eu; [|discriminate].
      inv H. cbn [d_issued dc_with_certs dc_with] in E. apply aget_aremove_some in E. destruct E as [_ E]. eapply IH; eauto.
Qed.

(** ... and a suspended certificate is dropped only if it exceeds the entitlement or is about to expire. *)
Theorem unsuspend_removes_only_unfit ent now exp keys : forall dc dc' rm,
  cl_unsuspend dc ent keys now exp = Some (dc', rm) ->
  forall k, In k rm -> exists s, aget k (d_susp dc) = Some s /\ ((now + 86400 <? i_exp s)%Z && subset (i_res s) ent) = false.
Proof.
  induction keys as [|k0 keys IH]; simpl; intros dc dc' rm H k Hin.
  - inv H. destruct Hin.
  - destruct (aget k0 (d_susp dc)) as [s|] eqn:Es; [|eapply IH; eauto].
    destruct ((now + 86400 <? i_exp s)%Z && subset (i_res s) ent) eqn:Eok.
    + destruct (cl_certify dc (i_res s) k0 (i_limit s) exp) as [dc1|] eqn:Ec; [|discriminate].
      destruct (IH _ _ _ H k Hin) as [s' [Hs' Hbad]].
      unfold cl_certify in Ec. destruct (cur_res dc); [|discriminate]. destruct (issue_cert _ _ _); [|discriminate]. inv Ec.
      cbn [d_susp dc_with_certs dc_with] in Hs'. apply aget_aremove_some in Hs'. destruct Hs' as [_ Hs']. exists s'. auto.
    + destruct (cl_unsuspend dc ent keys now exp) as [[dc1 rm1]|] eqn:Eu; [|discriminate]. inv H.
      destruct Hin as [<-|Hin]; [exists s; auto|eapply IH; eauto].
Qed.

Example unsuspend_within_entitlement_nonvacuous :
  (* suspended with atoms 0,1; the entitlement shrank to atom 0 meanwhile: dropped, not published again *)
  let dc := mkDC 1 0 (KActive (mkCK 1 (mkCert 1 0xF000F 0) false)) [] [] [(7, mkIC 0x30003 no_limit 9999999)] [] in
  cl_unsuspend dc 0x10001 [7] 0 5 = Some (mkDC 1 0 (KActive (mkCK 1 (mkCert 1 0xF000F 0) false)) [] [] [] [], [7])
  (* the entitlement grew to atoms 0,1,2: the certificate comes back as it was *)
  /\ cl_unsuspend dc 0x70007 [7] 0 5
     = Some (mkDC 1 0 (KActive (mkCK 1 (mkCert 1 0xF000F 0) false)) [] [(7, mkIC 0x30003 no_limit 5)] [] [], []).
Proof. vm_compute. split; reflexivity. Qed.

(** * Revocation: what the parent holds after a child gave up a class *)

Definition remove_key (dc : dclass) (k : N) : dclass := dc_with_certs dc (aremove k (d_issued dc)) (aremove k (d_susp dc)).

Lemma holds_key_removed dc k : holds_key (remove_key dc k) k = false.
Proof. unfold holds_key, remove_key. cbn [d_issued d_susp dc_with_certs dc_with]. rewrite !amem_aremove, N.eqb_refl. reflexivity. Qed.

Lemma holds_key_remove_other dc k k' : holds_key dc k = false -> holds_key (remove_key dc k') k = false.
Proof.
  unfold holds_key, remove_key. cbn [d_issued d_susp dc_with_certs dc_with]. rewrite !amem_aremove.
  intro H. apply orb_false_iff in H. destruct H as [-> ->]. rewrite !andb_false_r. reflexivity.
Qed.

Lemma aget_revoke_keys rm h chs :
  aget h (revoke_keys rm chs)
  = option_map (fun dch => ch_with dch (fold_left (fun ch ki => if ch_is_issued ch ki then ch_set_used ch ki Revoked else ch) rm (dc_ch dch))) (aget h chs).
Proof. unfold revoke_keys. apply aget_map_snd. Qed.

(** One revocation request that names a class the parent has (after translation by the child's class-name
    mapping): it is refused unless the key is in use; otherwise exactly that class loses the certificate(s) of the
    key, and the child's key is marked revoked; the class-name mapping is untouched. *)
Lemma revoke_step s h crcn ki s' dch c dc :
  aget h (da_children s) = Some dch -> name_in_parent (dc_ch dch) crcn = c -> aget c (da_classes s) = Some dc ->
  dprocess s (XRevoke h crcn ki) = Done s' ->
  ch_is_issued (dc_ch dch) ki = true
  /\ aget c (da_classes s') = Some (remove_key dc ki)
  /\ exists dch', aget h (da_children s') = Some dch' /\ ch_map (dc_ch dch') = ch_map (dc_ch dch)
                  /\ ch_is_issued (dc_ch dch') ki = false.
Proof.
  intros Hh Hn Hc H. cbn [dprocess] in H. rewrite Hh in H. cbv zeta in H. rewrite Hn, Hc in H.
  destruct (ch_is_issued (dc_ch dch) ki) eqn:Ei; [|discriminate]. cbn [negb] in H. inv H.
  split; [reflexivity|]. split.
  - cbn [da_classes da_with]. apply aget_ainsert_eq.
  - cbn [da_children da_with].
    assert (Hr : ch_is_issued (ch_set_used (dc_ch dch) ki Revoked) ki = false).
    { unfold ch_is_issued, ch_set_used. cbn [ch_used]. rewrite aget_ainsert_eq. reflexivity. }
    rewrite Hr. cbn [aget]. rewrite N.eqb_refl. eexists. split; [reflexivity|]. cbn [dc_ch ch_with]. split; [reflexivity|exact Hr].
Qed.

(** revoke_clears: after a revocation request for (class as the parent names it for this child, key) has been
    performed, the parent holds no certificate for that key in that class - neither published nor suspended -
    and no longer counts the key as in use. *)
Theorem revoke_clears s h crcn ki s' dch :
  aget h (da_children s) = Some dch ->
  amem (name_in_parent (dc_ch dch) crcn) (da_classes s) = true ->
  dprocess s (XRevoke h crcn ki) = Done s' ->
  (exists dc', aget (name_in_parent (dc_ch dch) crcn) (da_classes s') = Some dc' /\ holds_key dc' ki = false)
  /\ (exists dch', aget h (da_children s') = Some dch' /\ ch_is_issued (dc_ch dch') ki = false).
Proof.
  intros Hh Hm H. unfold amem in Hm. destruct (aget _ (da_classes s)) as [dc|] eqn:Hc; [|discriminate].
  destruct (revoke_step _ _ _ _ _ _ _ _ Hh eq_refl Hc H) as [_ [Hc' [dch' [Hh' [_ Hi']]]]]. split.
  - eexists. split; [exact Hc'|apply holds_key_removed].
  - eexists. split; [exact Hh'|exact Hi'].
Qed.

(** ... whereas a request that names a class the parent does not have (certauth.rs:1439-1446) is confirmed
    without anything being done: the name in the request is all that ties it to the certificate. *)
Theorem revoke_unknown_class_noop s h crcn ki dch :
  aget h (da_children s) = Some dch ->
  aget (name_in_parent (dc_ch dch) crcn) (da_classes s) = None ->
  dprocess s (XRevoke h crcn ki) = Done s.
Proof. intros Hh Hc. cbn [dprocess]. rewrite Hh. cbv zeta. rewrite Hc. reflexivity. Qed.

(** All requests for one class name, one after the other *)
Lemma revoke_all_clears h crcn c : forall keys s s' dch dc,
  aget h (da_children s) = Some dch -> name_in_parent (dc_ch dch) crcn = c -> aget c (da_classes s) = Some dc ->
  revoke_all s h (map (fun k => (crcn, k)) keys) = Done s' ->
  exists dc', aget c (da_classes s') = Some dc'
              /\ (forall k, In k keys -> holds_key dc' k = false)
              /\ (forall k, holds_key dc k = false -> holds_key dc' k = false).
Proof.
  induction keys as [|k0 keys IH]; intros s s' dch dc Hh Hn Hc H.
  - inv H. exists dc. repeat split; auto. intros k [].
  - cbn [map revoke_all] in H. destruct (dprocess s (XRevoke h crcn k0)) as [s1| |] eqn:E1; try discriminate.
    destruct (revoke_step _ _ _ _ _ _ _ _ Hh Hn Hc E1) as [_ [Hc1 [dch1 [Hh1 [Hm1 _]]]]].
    assert (Hn1 : name_in_parent (dc_ch dch1) crcn = c) by (unfold name_in_parent in *; rewrite Hm1; exact Hn).
    destruct (IH _ _ _ _ Hh1 Hn1 Hc1 H) as [dc' [Hc' [Hk Hp]]].
    exists dc'. split; [exact Hc'|]. split.
    + intros k [<-|Hin]; [apply Hp, holds_key_removed|apply Hk, Hin].
    + intros k Hf. apply Hp, holds_key_remove_other, Hf.
Qed.

(** dropped_class_revoked: a child gives up a class [x] and its revocation requests ([class_revocations]: one per
    certified key, naming the class as the parent names it) are all performed by the parent. Then the parent
    class behind that name holds no certificate - published or suspended - for any certified key of the dropped
    class: nothing is left for a key the child has discarded. *)
Theorem dropped_class_revoked s h dch x c s' :
  aget h (da_children s) = Some dch ->
  name_in_parent (dc_ch dch) (d_prcn x) = c ->
  amem c (da_classes s) = true ->
  revoke_all s h (class_revocations x) = Done s' ->
  exists dc', aget c (da_classes s') = Some dc' /\ forall k, In k (ks_certified (d_keys x)) -> holds_key dc' k = false.
Proof.
  intros Hh Hn Hm H. unfold amem in Hm. destruct (aget c (da_classes s)) as [dc|] eqn:Hc; [|discriminate].
  destruct (revoke_all_clears h (d_prcn x) c _ _ _ _ _ Hh Hn Hc H) as [dc' [Hc' [Hk _]]].
  exists dc'. split; assumption.
Qed.

(** The hypothesis on the name is what matters: requests under any name the parent does not know are all confirmed
    and leave the parent as it was (the defect this theorem guards against: the child's own name of the class). *)
Theorem revocations_under_unknown_name_keep s h dch wrong : forall keys,
  aget h (da_children s) = Some dch ->
  aget (name_in_parent (dc_ch dch) wrong) (da_classes s) = None ->
  revoke_all s h (map (fun k => (wrong, k)) keys) = Done s.
Proof.
  induction keys as [|k keys IH]; intros Hh Hc; [reflexivity|].
  cbn [map revoke_all]. rewrite (revoke_unknown_class_noop _ _ _ _ _ Hh Hc). apply IH; assumption.
Qed.

(** non-vacuity: parent with the classes 0 and 1; the child (handle 4) holds key 7 in class 1 and calls that class
    2 after having lost and regained it; it drops the class. Requests naming 1 clear the certificate, requests
    naming 2 (the child's own name) are confirmed and the certificate stays. *)
Definition rv_parent : dca :=
  mkDCA [(0, mkDC 1 0 (KActive (mkCK 1 (mkCert 1 0xC000C0 0) false)) [] [(6, mkIC 0xC000C0 no_limit 9)] [] []);
         (1, mkDC 2 0 (KActive (mkCK 2 (mkCert 2 0x300030 0) false)) [] [(7, mkIC 0x300030 no_limit 9)] [] [])]
        [(4, mkDCh 0xF000F0 (mkChild false [(6, InUse 0); (7, InUse 1)] []))] [] 2.
Definition rv_dropped (prcn : N) : dclass := mkDC 9 prcn (KActive (mkCK 7 (mkCert 7 0x300030 0) false)) [] [] [] [].

Example dropped_class_revoked_nonvacuous :
  class_revocations (rv_dropped 1) = [(1, 7)]
  /\ (exists s', revoke_all rv_parent 4 (class_revocations (rv_dropped 1)) = Done s'
                 /\ (exists dc', aget 1 (da_classes s') = Some dc' /\ holds_key dc' 7 = false))
  /\ revoke_all rv_parent 4 (class_revocations (rv_dropped 2)) = Done rv_parent
  /\ (exists dc, aget 1 (da_classes rv_parent) = Some dc /\ holds_key dc 7 = true).
Proof.
  split; [reflexivity|]. split; [eexists; split; [vm_compute; reflexivity|eexists; split; vm_compute; reflexivity]|].
  split; [vm_compute; reflexivity|eexists; split; vm_compute; reflexivity].
Qed.

(** * The pair of the sync model: the parent stops listing the class *)

Lemma amem_of_aget {V} k (v : V) l : aget k l = Some v -> amem k l = true.
Proof. unfold amem. intros ->. reflexivity. Qed.

Lemma holds_key_remove_inv dc k k' : holds_key (remove_key dc k') k = true -> holds_key dc k = true.
Proof.
  unfold holds_key, remove_key. cbn [d_issued d_susp dc_with_certs dc_with]. rewrite !amem_aremove.
  intro H. apply orb_true_iff in H. apply orb_true_iff.
  destruct H as [H|H]; apply andb_true_iff in H; destruct H as [_ H]; auto.
Qed.

(** unsuspension never makes the class hold a certificate for a key it held none for *)
Lemma cl_unsuspend_holds ent now exp keys : forall dc dc' rm,
  cl_unsuspend dc ent keys now exp = Some (dc', rm) -> forall k, holds_key dc' k = true -> holds_key dc k = true.
Proof.
  induction keys as [|k0 keys IH]; simpl; intros dc dc' rm H k Hk.
  - inv H. exact Hk.
  - destruct (aget k0 (d_susp dc)) as [s|] eqn:Es; [|eapply IH; eauto].
    destruct ((now + 86400 <? i_exp s)%Z && subset (i_res s) ent).
    + destruct (cl_certify dc (i_res s) k0 (i_limit s) exp) as [dc1|] eqn:Ec; [|discriminate].
      specialize (IH _ _ _ H k Hk). unfold cl_certify in Ec. destruct (cur_res dc); [|discriminate].
      destruct (issue_cert _ _ _); [|discriminate]. inv Ec.
      unfold holds_key in *. cbn [d_issued d_susp dc_with_certs dc_with] in IH. rewrite amem_ainsert, amem_aremove in IH.
      destruct (N.eqb_spec k0 k) as [<-|Hn].
      * rewrite (amem_of_aget _ _ _ Es). apply orb_true_r.
      * cbn [negb orb andb] in IH. exact IH.
    + destruct (cl_unsuspend dc ent keys now exp) as [[dc1 rm1]|] eqn:Eu; [|discriminate]. inv H.
      eapply IH; [exact Eu|]. eapply holds_key_remove_inv. exact Hk.
Qed.

(** marking keys revoked never puts a key in use *)
Lemma mark_revoked_in_use rm : forall ch k c,
  aget k (ch_used (fold_left (fun ch ki => if ch_is_issued ch ki then ch_set_used ch ki Revoked else ch) rm ch)) = Some (InUse c) ->
  aget k (ch_used ch) = Some (InUse c).
Proof.
  induction rm as [|k0 rm IH]; simpl; intros ch k c H; [exact H|].
  apply IH in H. destruct (ch_is_issued ch k0); [|exact H].
  unfold ch_set_used in H. cbn [ch_used] in H. destruct (N.eq_dec k k0) as [->|Hn].
  - rewrite aget_ainsert_eq in H. discriminate.
  - rewrite aget_ainsert_neq in H by exact Hn. exact H.
Qed.

Lemma mark_revoked_map rm : forall ch,
  ch_map (fold_left (fun ch ki => if ch_is_issued ch ki then ch_set_used ch ki Revoked else ch) rm ch) = ch_map ch.
Proof. induction rm as [|k0 rm IH]; simpl; intro ch; [reflexivity|]. rewrite IH. destruct (ch_is_issued ch k0); reflexivity. Qed.

Section Held.
  Variables (cfg : tcfg) (pcn parent : N).

  (** the parent counts the key as in use by this child in this class *)
  Definition child_key (dch : dchild) (k : N) : Prop := aget k (ch_used (dc_ch dch)) = Some (InUse pcn).

  (** every certificate the parent class holds for a key of this child is for a key the child's class has *)
  Definition held_sub (s : sst) : Prop :=
    forall pc k, st_pc s = Some pc -> child_key (st_ch s) k -> holds_key pc k = true ->
                 exists x, st_xc s = Some x /\ ks_knows (d_keys x) k = true.

  Lemma p_contact_holds inp pc dch ppc dch1 n :
    p_contact cfg pcn inp pc dch = Some (ppc, dch1, n) ->
    (forall dc1, ppc = Some dc1 -> exists dc, pc = Some dc /\ forall k, holds_key dc1 k = true -> holds_key dc k = true)
    /\ (forall k, child_key dch1 k -> child_key dch k)
    /\ ch_map (dc_ch dch1) = ch_map (dc_ch dch).
  Proof.
    unfold p_contact. destruct (ch_susp (dc_ch dch)).
    - destruct pc as [dc|].
      + destruct (cl_unsuspend dc _ _ _ _) as [[dc' rm]|] eqn:Eu; [|discriminate]. intro H. inv H. split; [|split].
        * intros dc1 E. inv E. exists dc. split; [reflexivity|]. eapply cl_unsuspend_holds; eauto.
        * intros k. unfold child_key. cbn [dc_ch ch_with ch_suspended ch_used]. apply mark_revoked_in_use.
        * cbn [dc_ch ch_with ch_suspended ch_map]. apply mark_revoked_map.
      + intro H. inv H. split; [intros ? E; discriminate|]. split; [intros k Hk; exact Hk|reflexivity].
    - intro H. inv H. split; [|split; [auto|reflexivity]].
      intros dc1 ->. exists dc1. auto.
  Qed.

  (** all requests of a given-up class, under a name the parent resolves to this class *)
  Lemma p_revoke_all_clears crcn : forall keys pc dch pc' dch',
    name_in_parent (dc_ch dch) crcn = pcn ->
    p_revoke_all pcn pc dch (map (fun k => (crcn, k)) keys) = Some (pc', dch') ->
    (forall dc', pc' = Some dc' ->
       exists dc, pc = Some dc /\ (forall k, In k keys -> holds_key dc' k = false)
                  /\ (forall k, holds_key dc' k = true -> holds_key dc k = true))
    /\ (forall k, child_key dch' k -> child_key dch k).
  Proof.
    induction keys as [|k0 keys IH]; intros pc dch pc' dch' Hn H.
    - inv H. split; [|auto]. intros dc' ->. exists dc'. repeat split; auto. intros k [].
    - cbn [map p_revoke_all] in H. unfold p_revoke in H. rewrite Hn, N.eqb_refl in H. cbn [negb] in H.
      destruct pc as [dc|].
      + destruct (ch_is_issued (dc_ch dch) k0); [|discriminate]. cbn [negb] in H.
        apply IH in H; [|exact Hn]. destruct H as [Hpc Hch]. split.
        * intros dc' E. destruct (Hpc dc' E) as [dc1 [E1 [Hk Hp]]]. inv E1. exists dc. split; [reflexivity|]. split.
          -- intros k [<-|Hin]; [|apply Hk, Hin].
             destruct (holds_key dc' k0) eqn:Eh; [|reflexivity]. apply Hp in Eh. pose proof (holds_key_removed dc k0) as X. unfold remove_key in X. rewrite X in Eh. discriminate.
          -- intros k Hh. apply Hp in Hh. exact (holds_key_remove_inv dc k k0 Hh).
        * intros k Hk. apply Hch in Hk. unfold child_key in *. cbn [dc_ch ch_with ch_set_used ch_used] in Hk.
          destruct (N.eq_dec k k0) as [->|Hne]; [rewrite aget_ainsert_eq in Hk; discriminate|].
          rewrite aget_ainsert_neq in Hk by exact Hne. exact Hk.
      + apply IH in H; [|exact Hn]. destruct H as [Hpc Hch]. split; [|exact Hch].
        intros dc' E. destruct (Hpc dc' E) as [dc1 [E1 _]]. discriminate.
  Qed.

  (** pending keys always carry their request (they are created with it and lose it only by being certified) *)
  Definition pending_requested (x : dclass) : Prop :=
    match d_keys x with KPending p | KRollPending p _ => p_req p = true | _ => True end.

  Lemma quiet_class_certified x k :
    pending_requested x -> has_pending_requests (Some x) = false -> ks_knows (d_keys x) k = true -> In k (ks_certified (d_keys x)).
  Proof.
    unfold pending_requested, has_pending_requests. destruct (d_keys x) as [p|c|p c|n c|c o]; cbn; intros Hp Hq Hk.
    - rewrite Hp in Hq. discriminate.
    - apply N.eqb_eq in Hk. auto.
    - rewrite Hp in Hq. discriminate.
    - apply orb_true_iff in Hk. destruct Hk as [Hk|Hk]; apply N.eqb_eq in Hk; auto.
    - destruct (k_req c), (k_req o); discriminate.
  Qed.

  (** unlisted_class_leaves_nothing: the parent no longer lists the class for the child (nothing of the
      entitlement is left in it), the child - which has no request open - synchronises, gives the class up and
      sends its revocation requests; once they are performed the parent class holds no certificate, published or
      suspended, for any key it counts as in use by this child. *)
  Theorem unlisted_class_leaves_nothing inp s x pc' dch' :
    st_xc s = Some x -> pending_requested x -> has_pending_requests (st_xc s) = false ->
    name_in_parent (dc_ch (st_ch s)) (d_prcn x) = pcn ->
    held_sub s ->
    st_xc (sr_st (sync_step cfg pcn parent inp s)) = None ->
    p_revoke_all pcn (st_pc (sr_st (sync_step cfg pcn parent inp s))) (st_ch (sr_st (sync_step cfg pcn parent inp s)))
                 (class_revocations x) = Some (pc', dch') ->
    forall pc k, pc' = Some pc -> child_key dch' k -> holds_key pc k = false.
  Proof.
    intros Hx Hpr Hq Hn Hs. unfold sync_step. rewrite Hq.
    destruct (p_contact cfg pcn inp (st_pc s) (st_ch s)) as [[[ppc dch1] n1]|] eqn:Ec.
    - destruct (x_entitlements inp (st_xc s) parent _) as [xc' n2] eqn:Ee. cbn [sr_st st_xc st_pc st_ch].
      intros -> Hr pc k -> Hk.
      destruct (p_contact_holds _ _ _ _ _ _ Ec) as [Hpc [Hch Hm]].
      unfold class_revocations in Hr. apply p_revoke_all_clears in Hr; [|unfold name_in_parent in *; rewrite Hm; exact Hn].
      destruct Hr as [Hpc' Hch']. destruct (Hpc' pc eq_refl) as [dc1 [E1 [Hclr Hsub]]].
      destruct (Hpc dc1 E1) as [dc0 [E0 Hsub0]].
      destruct (holds_key pc k) eqn:Eh; [|reflexivity].
      destruct (Hs dc0 k E0 (Hch k (Hch' k Hk)) (Hsub0 k (Hsub k Eh))) as [x0 [Ex0 Hkn]].
      rewrite Hx in Ex0. inv Ex0. rewrite Hx in Hq.
      rewrite (Hclr k (quiet_class_certified x0 k Hpr Hq Hkn)) in Eh. discriminate.
    - cbn [sr_st]. rewrite Hx. discriminate.
  Qed.
End Held.

(** non-vacuity: the child (key 7, class called 0 by both) is entitled to atoms 4,5; the parent's class holds
    atoms 0-3 only after the entitlement moved: nothing is listed, the class goes and the certificate with it *)
Definition ul_parent : dclass := mkDC 1 0 (KActive (mkCK 1 (mkCert 1 0xF000F 0) false)) [] [(7, mkIC 0x30003 no_limit 31449600)] [] [].
Definition ul_state : sst := mkSst (Some ul_parent) (mkDCh 0x300030 (mkChild false [(7, InUse 0)] [])) (Some ex_child) [].

Example unlisted_class_leaves_nothing_nonvacuous :
  held_sub 0 ul_state /\ pending_requested ex_child /\ has_pending_requests (st_xc ul_state) = false
  /\ st_xc (sr_st (sync_step ex_cfg 0 2 (mkSin 100 50) ul_state)) = None
  /\ p_revoke_all 0 (st_pc (sr_st (sync_step ex_cfg 0 2 (mkSin 100 50) ul_state))) (st_ch (sr_st (sync_step ex_cfg 0 2 (mkSin 100 50) ul_state)))
                  (class_revocations ex_child)
     = Some (Some (mkDC 1 0 (KActive (mkCK 1 (mkCert 1 0xF000F 0) false)) [] [] [] []), mkDCh 0x300030 (mkChild false [(7, Revoked)] [])).
Proof.
  split.
  - intros pc k E Hk Hh. inv E. exists ex_child. split; [reflexivity|].
    unfold child_key in Hk. cbn in Hk. destruct (7 =? k) eqn:E7; [|discriminate]. apply N.eqb_eq in E7. subst k. reflexivity.
  - split; [exact I|]. vm_compute. repeat split; reflexivity.
Qed.

(** * Are the revocation requests of a given-up class always all performed? *)

(** The full statement: whatever class the child gives up, the parent performs every one of its requests. *)
Definition revocations_performed_full : Prop :=
  forall s h dch x,
    aget h (da_children s) = Some dch ->
    amem (name_in_parent (dc_ch dch) (d_prcn x)) (da_classes s) = true ->
    exists s', revoke_all s h (class_revocations x) = Done s'.

(** Candidate finding (replayed on the real code, c02 --revstop 1): the exchange ends at the first refused request
    (manager.rs send_revoke_requests_rfc6492; a parent in the same instance refuses with an error). A class in
    RollNew whose NEW key's certificate the parent already removed (its own certificate shrank): the request for the
    new key is refused (KeyUseNoIssuedCert), the one for the CURRENT key is never sent, and its certificate stays. *)
Definition rs_parent : dca :=
  mkDCA [(0, mkDC 1 0 (KActive (mkCK 1 (mkCert 1 0xE000E 0) false)) [] [(7, mkIC 0xE000E no_limit 9)] [] [])]
        [(4, mkDCh 0x10001 (mkChild false [(7, InUse 0); (8, Revoked)] []))] [] 1.
Definition rs_given_up : dclass :=
  mkDC 9 0 (KRollNew (mkCK 8 (mkCert 8 0x10001 0) false) (mkCK 7 (mkCert 7 0xF000F 0) false)) [] [] [] [].

Theorem revocations_performed_refuted : ~ revocations_performed_full.
Proof.
  intro H. destruct (H rs_parent 4 (mkDCh 0x10001 (mkChild false [(7, InUse 0); (8, Revoked)] [])) rs_given_up eq_refl eq_refl) as [s' E].
  vm_compute in E. discriminate.
Qed.

Example revocation_stops_at_refused_request :
  class_revocations rs_given_up = [(0, 8); (0, 7)]
  /\ revoke_all rs_parent 4 (class_revocations rs_given_up) = Refused
  /\ (exists dc, aget 0 (da_classes rs_parent) = Some dc /\ holds_key dc 7 = true)
  (* sent alone, the request for the current key would have been performed *)
  /\ (exists s' dc', revoke_all rs_parent 4 [(0, 7)] = Done s' /\ aget 0 (da_classes s') = Some dc' /\ holds_key dc' 7 = false).
Proof.
  split; [reflexivity|]. split; [vm_compute; reflexivity|]. split; [eexists; split; vm_compute; reflexivity|].
  do 2 eexists. split; [vm_compute; reflexivity|]. split; vm_compute; reflexivity.
Qed.

(** the other keys of the child are not touched by a revocation *)
Lemma revoke_step_others s h crcn ki s' dch c dc :
  aget h (da_children s) = Some dch -> name_in_parent (dc_ch dch) crcn = c -> aget c (da_classes s) = Some dc ->
  dprocess s (XRevoke h crcn ki) = Done s' ->
  exists dch', aget h (da_children s') = Some dch' /\ ch_map (dc_ch dch') = ch_map (dc_ch dch)
               /\ forall k, k <> ki -> ch_is_issued (dc_ch dch') k = ch_is_issued (dc_ch dch) k.
Proof.
  intros Hh Hn Hc H. cbn [dprocess] in H. rewrite Hh in H. cbv zeta in H. rewrite Hn, Hc in H.
  destruct (ch_is_issued (dc_ch dch) ki) eqn:Ei; [|discriminate]. cbn [negb] in H. inv H.
  cbn [da_children da_with].
  assert (Hr : ch_is_issued (ch_set_used (dc_ch dch) ki Revoked) ki = false).
  { unfold ch_is_issued, ch_set_used. cbn [ch_used]. rewrite aget_ainsert_eq. reflexivity. }
  rewrite Hr. cbn [aget]. rewrite N.eqb_refl. eexists. split; [reflexivity|]. cbn [dc_ch ch_with]. split; [reflexivity|].
  intros k Hk. unfold ch_is_issued, ch_set_used. cbn [ch_used]. rewrite aget_ainsert_neq by exact Hk. reflexivity.
Qed.

(** The strongest restriction: the requests are all performed when the parent still counts every certified key
    of the class as in use (and the keys are distinct). *)
Lemma revoke_all_total h crcn c : forall keys s dch dc,
  aget h (da_children s) = Some dch -> name_in_parent (dc_ch dch) crcn = c -> aget c (da_classes s) = Some dc ->
  NoDup keys -> (forall k, In k keys -> ch_is_issued (dc_ch dch) k = true) ->
  exists s', revoke_all s h (map (fun k => (crcn, k)) keys) = Done s'.
Proof.
  induction keys as [|k0 keys IH]; intros s dch dc Hh Hn Hc Hnd Hall; [eexists; reflexivity|].
  cbn [map revoke_all].
  assert (E1 : exists s1, dprocess s (XRevoke h crcn k0) = Done s1).
  { cbn [dprocess]. rewrite Hh. cbv zeta. rewrite Hn, Hc, (Hall k0 (or_introl eq_refl)). cbn [negb]. eexists. reflexivity. }
  destruct E1 as [s1 E1]. rewrite E1.
  destruct (revoke_step _ _ _ _ _ _ _ _ Hh Hn Hc E1) as [_ [Hc1 _]].
  destruct (revoke_step_others _ _ _ _ _ _ _ _ Hh Hn Hc E1) as [dch1 [Hh1 [Hm1 Hoth]]].
  inv Hnd. eapply (IH s1 dch1); eauto.
  - unfold name_in_parent in *. rewrite Hm1. reflexivity.
  - intros k Hin. rewrite Hoth; [apply Hall; right; exact Hin|]. intros ->. contradiction.
Qed.

Theorem revocations_performed_when_in_use s h dch x :
  aget h (da_children s) = Some dch ->
  amem (name_in_parent (dc_ch dch) (d_prcn x)) (da_classes s) = true ->
  NoDup (ks_certified (d_keys x)) ->
  (forall k, In k (ks_certified (d_keys x)) -> ch_is_issued (dc_ch dch) k = true) ->
  exists s', revoke_all s h (class_revocations x) = Done s'.
Proof.
  intros Hh Hm Hnd Hall. unfold amem in Hm. destruct (aget _ (da_classes s)) as [dc|] eqn:Hc; [|discriminate].
  eapply revoke_all_total; eauto.
Qed.

Example revocations_performed_when_in_use_nonvacuous :
  aget 4 (da_children rv_parent) = Some (mkDCh 0xF000F0 (mkChild false [(6, InUse 0); (7, InUse 1)] []))
  /\ NoDup (ks_certified (d_keys (rv_dropped 1)))
  /\ (forall k, In k (ks_certified (d_keys (rv_dropped 1))) -> ch_is_issued (mkChild false [(6, InUse 0); (7, InUse 1)] []) k = true).
Proof.
  split; [reflexivity|]. split; [repeat constructor; intros []|]. intros k [<-|[]]. reflexivity.
Qed.
