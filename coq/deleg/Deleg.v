(** Model of resource delegation between a parent CA and its children (property C02).

    Rust sources modelled (pinned tree):
    - rpki-0.19.2 ca/provisioning.rs:839-884   RequestResourceLimit::apply_to (per family; errs if the limit exceeds the set)
    - src/commons/crypto/signing/misc.rs:122-153  make_issued_cert (limit applied, containment in the signing certificate)
    - src/server/ca/rc.rs:665-687                 issue_cert (intersection of issuer and child resources)
    - src/api/ca.rs:429-437                       reduced_applicable_resources
    - src/server/ca/child.rs:243-371              activate_key, shrink_overclaiming, re_issue (carries the stored limit)
    - src/server/ca/rc.rs:203-275,354-473         process_received_cert, process_rcvd_cert_current (shrink in the same event list)
    - src/server/ca/rc.rs:560-638                 append_keyroll_activate (repaired tree: ROAs and child certificates limited to the
                                                  new key's certificate; the pinned behaviour is kept as cl_activate_pinned)
    - src/server/ca/certauth.rs:986-1084          entitlement_class (incl. the not-after "lie")
    - src/server/ca/certauth.rs:1110-1133,1225-1261,1297-1328,1338-1416,1422-1466,1469-1509,1522-1571,1589-1657
                                                  child add / update resources / mapping / certify / revoke / remove / suspend / unsuspend
    - src/server/ca/certauth.rs:1877-1981,2042-2062  process_update_entitlements, process_drop_resource_class
    - src/server/ca/keys.rs:80-83,95-214,428-554  set_incoming_cert, wants_update, append_entitlement_events
    - src/server/ca/manager.rs:1048-1123,1173-1251,1588-1615,1722-1760,1913-2107,2251-2269   the sync driver

    Builds on ca/Ca.v for key states ([keystate], [ckey], [cert] with [c_res] = resource mask), the used-key
    bookkeeping of children ([child], [used]) and association lists. Child certificates carry their
    resources here ([icert]); Ca.v only knows their file names.

    Time is [Z] seconds, every clock reading is an explicit argument. No proofs in this file. *)
From KV Require Import base.Tac ca.Ca deleg.Bits.
Open Scope N_scope.

(** * Outcome of a command: performed, refused with an error (nothing stored but the audit entry), or panic *)
Inductive outcome (A : Type) := Done (a : A) | Refused | Panic.
Arguments Done {A}. Arguments Refused {A}. Arguments Panic {A}.

(** * Resource families and request limits *)
Definition FA : N := 0xFFFF.                (* AS numbers *)
Definition F4 : N := 0xFFFF0000.            (* IPv4 *)
Definition F6 : N := 0xFFFF00000000.        (* IPv6 *)
Definition UNIV : N := union FA (union F4 F6).

Record limit := mkLimit { l_asn : option N; l_v4 : option N; l_v6 : option N }.
Definition no_limit : limit := mkLimit None None None.
Definition limit_is_empty (l : limit) : bool :=
  match l with mkLimit None None None => true | _ => false end.

(** provisioning.rs:853-881: per family, the limit replaces the family's part of the set if it is contained in it *)
Definition fam_part (F : N) (lim : option N) (set : N) : option N :=
  match lim with
  | None => Some (inter set F)
  | Some m => if subset m (inter set F) then Some m else None
  end.

(** provisioning.rs:842-884. [None] = Error::limit *)
Definition apply_limit (l : limit) (set : N) : option N :=
  if limit_is_empty l then Some set
  else match fam_part FA (l_asn l) set, fam_part F4 (l_v4 l) set, fam_part F6 (l_v6 l) set with
       | Some a, Some b, Some c => Some (union a (union b c))
       | _, _, _ => None
       end.

(** * Child certificates *)
Record icert := mkIC { i_res : N; i_limit : limit; i_exp : Z }.
Definition certmap : Type := list (N * icert).        (* by child key *)

(** misc.rs:130-133: limit, then containment in the signing certificate (Error::MissingResources) *)
Definition make_issued (res : N) (l : limit) (signing : N) : option N :=
  match apply_limit l res with
  | None => None
  | Some r => if subset r signing then Some r else None
  end.

(** rc.rs:665-687 *)
Definition issue_cert (signing ent : N) (l : limit) : option N := make_issued (inter signing ent) l signing.

(** api/ca.rs:429-437 *)
Definition reduced_applicable (encompassing res : N) : option N :=
  if subset res encompassing then None else Some (inter encompassing res).

(** child.rs:347-371: the previous limit is applied again *)
Definition re_issue (prev : icert) (updated : option N) (signing : N) (exp : Z) : option icert :=
  match make_issued (match updated with Some r => r | None => i_res prev end) (i_limit prev) signing with
  | Some r => Some (mkIC r (i_limit prev) exp)
  | None => None
  end.

(** child.rs:281-341, one certificate *)
Inductive shrunk := SKeep | SRemove | SReissue (c : icert).
Definition shrink_one (newres : N) (exp : Z) (c : icert) : option shrunk :=
  match reduced_applicable newres (i_res c) with
  | None => Some SKeep
  | Some r => if is_empty r then Some SRemove
              else match re_issue c (Some r) newres exp with
                   | Some c' => Some (SReissue c')
                   | None => None                       (* the whole shrink_overclaiming fails *)
                   end
  end.

(** The map after the update is applied (ChildCertificatesUpdated: issued / suspended replace their entry,
    removed deletes it) and the removed keys. [None]: some re-issue failed. *)
Fixpoint shrink_map (newres : N) (exp : Z) (m : certmap) : option (certmap * list N) :=
  match m with
  | [] => Some ([], [])
  | (k, c) :: r =>
      match shrink_one newres exp c, shrink_map newres exp r with
      | Some SKeep, Some (r', rm) => Some ((k, c) :: r', rm)
      | Some SRemove, Some (r', rm) => Some (r', k :: rm)
      | Some (SReissue c'), Some (r', rm) => Some ((k, c') :: r', rm)
      | _, _ => None
      end
  end.

(** child.rs:243-274: everything re-issued with unchanged resources under the new key's certificate *)
Fixpoint reissue_map (signing : N) (exp : Z) (m : certmap) : option certmap :=
  match m with
  | [] => Some []
  | (k, c) :: r =>
      match re_issue c None signing exp, reissue_map signing exp r with
      | Some c', Some r' => Some ((k, c') :: r')
      | _, _ => None
      end
  end.

(** child.rs:243-283 (repaired tree, F04c): at activation an issued certificate is reduced to what the new
    key's certificate holds, like in [shrink_one], but always re-issued; removed if nothing is left.
    (Suspended certificates are still re-issued as they are: [reissue_map].) *)
Definition activate_one (signing : N) (exp : Z) (c : icert) : option shrunk :=
  match reduced_applicable signing (i_res c) with
  | Some r => if is_empty r then Some SRemove
              else match re_issue c (Some r) signing exp with Some c' => Some (SReissue c') | None => None end
  | None => match re_issue c None signing exp with Some c' => Some (SReissue c') | None => None end
  end.

Fixpoint activate_map (signing : N) (exp : Z) (m : certmap) : option (certmap * list N) :=
  match m with
  | [] => Some ([], [])
  | (k, c) :: r =>
      match activate_one signing exp c, activate_map signing exp r with
      | Some SRemove, Some (r', rm) => Some (r', k :: rm)
      | Some (SReissue c'), Some (r', rm) => Some ((k, c') :: r', rm)
      | Some SKeep, Some (r', rm) => Some ((k, c) :: r', rm)
      | _, _ => None
      end
  end.

(** * Resource classes and children with their resources *)
Record dclass := mkDC {
  d_parent : N; d_prcn : N;
  d_keys : keystate;
  d_kna : list (N * Z);               (* not-after of the certificate received for each certified key *)
  d_issued : certmap; d_susp : certmap;
  d_roas : list (N * N) }.            (* ROA objects: payload id, resource mask of the prefix *)

Record dchild := mkDCh { dc_ent : N; dc_ch : child }.

Definition dc_with (dc : dclass) (ks : keystate) (kna : list (N * Z)) (i s : certmap) (roas : list (N * N)) : dclass :=
  mkDC (d_parent dc) (d_prcn dc) ks kna i s roas.
Definition dc_with_keys (dc : dclass) (ks : keystate) : dclass :=
  dc_with dc ks (d_kna dc) (d_issued dc) (d_susp dc) (d_roas dc).
Definition dc_with_certs (dc : dclass) (i s : certmap) : dclass :=
  dc_with dc (d_keys dc) (d_kna dc) i s (d_roas dc).

Definition cur_res (dc : dclass) : option N :=
  match ks_current (d_keys dc) with Some k => Some (c_res (k_cert k)) | None => None end.

(** child.rs:105-144 *)
Definition name_for_child (ch : child) (name_in_parent : N) : N :=
  match aget name_in_parent (ch_map ch) with Some n => n | None => name_in_parent end.
Definition name_in_parent (ch : child) (name_for_child : N) : N :=
  match find (fun '(_, v) => v =? name_for_child) (ch_map ch) with Some (k, _) => k | None => name_for_child end.
Definition child_issued (ch : child) (rcn : N) : list N :=
  map fst (filter (fun '(_, u) => match u with InUse c => c =? rcn | Revoked => false end) (ch_used ch)).

Definition ch_with (dch : dchild) (ch : child) : dchild := mkDCh (dc_ent dch) ch.
Definition ch_suspended (ch : child) (b : bool) : child := mkChild b (ch_used ch) (ch_map ch).

(** certauth.rs:519-527 (apply of ChildCertificatesUpdated.removed): the key becomes Revoked for whoever uses it *)
Definition revoke_keys (rm : list N) (chs : list (N * dchild)) : list (N * dchild) :=
  map (fun '(h, dch) => (h, ch_with dch (fold_left (fun ch ki => if ch_is_issued ch ki then ch_set_used ch ki Revoked else ch) rm (dc_ch dch)))) chs.

(** ROAs: the configured routes the current certificate covers (roa.rs create_updates; simple mode) *)
Definition roas_for (res : N) (routes : list (N * N)) : list (N * N) := filter (fun '(_, m) => subset m res) routes.

(** * Class-level operations *)

(** certauth.rs:1367-1416 + apply: [None] = error (no current key, limit exceeds, not contained) *)
Definition cl_certify (dc : dclass) (child_res : N) (ki : N) (l : limit) (exp : Z) : option dclass :=
  match cur_res dc with
  | None => None
  | Some signing =>
      match issue_cert signing child_res l with
      | None => None
      | Some r => Some (dc_with_certs dc (ainsert ki (mkIC r l exp) (d_issued dc)) (aremove ki (d_susp dc)))
      end
  end.

(** rc.rs:354-473: a certificate for the current key. Shrinking and the ROA update are part of the same
    event list; any failing re-issue fails the whole command. Returns the removed child keys. *)
Definition cl_received_current (routes : list (N * N)) (dc : dclass) (cur : ckey) (crt : cert) (na exp : Z)
  : option (dclass * list N) :=
  if negb (c_key crt =? k_id cur) then None                              (* KeyUseNoMatch *)
  else match ks_received_cert (d_keys dc) (c_key crt) crt with
       | None => None
       | Some ks =>
           let kna := ainsert (c_key crt) na (d_kna dc) in
           if c_res crt =? c_res (k_cert cur) then Some (dc_with dc ks kna (d_issued dc) (d_susp dc) (d_roas dc), [])
           else match shrink_map (c_res crt) exp (d_issued dc), shrink_map (c_res crt) exp (d_susp dc) with
                | Some (i, rm1), Some (s, rm2) => Some (dc_with dc ks kna i s (roas_for (c_res crt) routes), rm1 ++ rm2)
                | _, _ => None
                end
       end.

(** rc.rs:203-275 *)
Definition cl_received (routes : list (N * N)) (dc : dclass) (crt : cert) (na exp : Z) : option (dclass * list N) :=
  let ki := c_key crt in
  let kna := ainsert ki na (d_kna dc) in
  match d_keys dc with
  | KPending p =>
      if p_id p =? ki then Some (dc_with dc (KActive (ck_create crt)) kna (d_issued dc) (d_susp dc) (roas_for (c_res crt) routes), [])
      else None
  | KActive cur => cl_received_current routes dc cur crt na exp
  | KRollPending p cur =>
      if p_id p =? ki then Some (dc_with dc (KRollNew (ck_create crt) cur) kna (d_issued dc) (d_susp dc) (d_roas dc), [])
      else cl_received_current routes dc cur crt na exp
  | KRollNew n cur =>
      if k_id n =? ki then Some (dc_with dc (KRollNew (ck_set_cert n crt) cur) kna (d_issued dc) (d_susp dc) (d_roas dc), [])
      else cl_received_current routes dc cur crt na exp
  | KRollOld cur _ => cl_received_current routes dc cur crt na exp
  end.

(** rc.rs:560-638, keys.rs:765-792, roa.rs:744-815 (repaired tree, F04c). [Some None]: no new key, nothing
    happens for this class; [None]: error. Only the ROAs the new key's certificate holds are re-issued, the
    others are removed; issued child certificates are reduced or removed ([activate_map], the removed keys are
    returned); suspended ones are re-issued as they are (MissingResources if one exceeds the new certificate). *)
Definition cl_activate (dc : dclass) (exp : Z) : option (option (dclass * list N)) :=
  match d_keys dc with
  | KRollNew n cur =>
      if k_req n || k_req cur then None                                   (* KeyRollActivatePendingRequests *)
      else match activate_map (c_res (k_cert n)) exp (d_issued dc), reissue_map (c_res (k_cert n)) exp (d_susp dc) with
           | Some (i, rm), Some s =>
               Some (Some (dc_with dc (KRollOld n cur) (d_kna dc) i s
                                   (filter (fun '(_, m) => subset m (c_res (k_cert n))) (d_roas dc)), rm))
           | _, _ => None                                                 (* MissingResources / limit *)
           end
  | _ => Some None
  end.

(** The originally pinned tree (finding F04c): ROAs re-issued as they are (create_renewal with force), child
    certificates re-issued with unchanged resources or the whole command fails. *)
Definition cl_activate_pinned (dc : dclass) (exp : Z) : option (option dclass) :=
  match d_keys dc with
  | KRollNew n cur =>
      if k_req n || k_req cur then None
      else match reissue_map (c_res (k_cert n)) exp (d_issued dc), reissue_map (c_res (k_cert n)) exp (d_susp dc) with
           | Some i, Some s => Some (Some (dc_with dc (KRollOld n cur) (d_kna dc) i s (d_roas dc)))
           | _, _ => None
           end
  | _ => Some None
  end.

(** certauth.rs:1535-1554: the issued certificates of the child's keys move to the suspended map *)
Definition cl_suspend (dc : dclass) (keys : list N) : dclass :=
  fold_left (fun d k => match aget k (d_issued d) with
                        | Some c => dc_with_certs d (aremove k (d_issued d)) (ainsert k c (d_susp d))
                        | None => d
                        end) keys dc.

(** certauth.rs:1604-1649: suspended certificates that are still good are issued again (from the
    suspended certificate's resources and limit), the others are removed. [None]: a re-issue failed. *)
Fixpoint cl_unsuspend (dc : dclass) (ent : N) (keys : list N) (now exp : Z) : option (dclass * list N) :=
  match keys with
  | [] => Some (dc, [])
  | k :: r =>
      match aget k (d_susp dc) with
      | None => cl_unsuspend dc ent r now exp
      | Some s =>
          if (now + 86400 <? i_exp s)%Z && subset (i_res s) ent then
            match cl_certify dc (i_res s) k (i_limit s) exp with
            | None => None
            | Some dc' => cl_unsuspend dc' ent r now exp
            end
          else match cl_unsuspend dc ent r now exp with
               | None => None
               | Some (dc', rm) => Some (dc_with_certs dc' (aremove k (d_issued dc')) (aremove k (d_susp dc')), k :: rm)
               end
      end
  end.

(** * wants_update (keys.rs:95-214). [slash]: the certificate's caRepository ends with a slash;
    [holds_all]: the certificate holds all resources (trust anchor). The two ratios are computed in
    f64 by the code and in exact arithmetic here. *)
Definition wants_update (slash holds_all : bool) (cur_res new_res : N) (cur_na new_na now : Z) : bool :=
  if negb slash then true
  else if negb (new_res =? cur_res) then true
  else
    let rc := (cur_na - now)%Z in
    let re := (new_na - now)%Z in
    if (re <=? 0)%Z then false
    else if (rc =? re)%Z then false
    else if (0 <? rc)%Z && (10 * re <? 9 * rc)%Z then true
    else if (rc <=? 0)%Z || (11 * rc <? 10 * re)%Z || (604800 <=? re - rc)%Z then true
    else holds_all.

(** * Entitlements *)
Record entl := mkEntl { e_name : N; e_res : N; e_na : Z; e_keys : list N }.
Record tcfg := mkCfg { cf_valid : Z; cf_thr : Z }.       (* validity of new child certificates, re-issue threshold (seconds) *)

(** certauth.rs:986-1084: [my_rcn] is the parent's name of the class *)
Definition entitlement_class (cfg : tcfg) (dc : dclass) (dch : dchild) (my_rcn : N) (now : Z) : option entl :=
  match cur_res dc with
  | None => None
  | Some mine =>
      let r := inter mine (dc_ent dch) in
      if is_empty r then None
      else
        let keys := filter (fun k => amem k (d_issued dc)) (child_issued (dc_ch dch) my_rcn) in
        let na := fold_left (fun na k => match aget k (d_issued dc) with
                                         | Some c => if (now + cf_thr cfg <? i_exp c)%Z then i_exp c else na
                                         | None => na
                                         end) keys (now + cf_valid cfg)%Z in
        Some (mkEntl (name_for_child (dc_ch dch) my_rcn) r na keys)
  end.

(** keys.rs:428-554. [wu k]: wants_update of certified key [k] against this entitlement.
    Returns the new key state and the number of events (requests and unexpected keys). *)
Definition ks_entitlement (ks : keystate) (wu : ckey -> bool) : keystate * N :=
  match ks with
  | KPending p => (ks_issuance_request ks (p_id p), 1)
  | KActive c => if wu c then (ks_issuance_request ks (k_id c), 1) else (ks, 0)
  | KRollPending p c =>
      let ks1 := ks_issuance_request ks (p_id p) in
      if wu c then (ks_issuance_request ks1 (k_id c), 2) else (ks1, 1)
  | KRollNew n c =>
      let '(ks1, n1) := if wu n then (ks_issuance_request ks (k_id n), 1) else (ks, 0) in
      if wu c then (ks_issuance_request ks1 (k_id c), n1 + 1) else (ks1, n1)
  | KRollOld c o =>
      let '(ks1, n1) := if wu c then (ks_issuance_request ks (k_id c), 1) else (ks, 0) in
      if wu o then (ks_issuance_request ks1 (k_id c), n1 + 1)        (* keys.rs:516: the request names the CURRENT key *)
      else (ks1, n1)
  end.

Definition na_of (dc : dclass) (k : N) : Z := match aget k (d_kna dc) with Some z => z | None => 0%Z end.

Definition class_wants (dc : dclass) (e : entl) (now : Z) (k : ckey) : bool :=
  wants_update true false (c_res (k_cert k)) (e_res e) (na_of dc (k_id k)) (e_na e) now.

Definition unexpected_keys (ks : keystate) (e : entl) : N :=
  N.of_nat (length (filter (fun k => negb (ks_knows ks k)) (e_keys e))).

(** * The whole CA (for the command-level correspondence) *)
Record dca := mkDCA {
  da_classes : list (N * dclass);
  da_children : list (N * dchild);
  da_routes : list (N * N);            (* configured routes: payload id, resource mask of the prefix *)
  da_next : N }.

Definition da_with_classes (s : dca) (cl : list (N * dclass)) : dca := mkDCA cl (da_children s) (da_routes s) (da_next s).
Definition da_with (s : dca) (cl : list (N * dclass)) (chs : list (N * dchild)) : dca := mkDCA cl chs (da_routes s) (da_next s).

(** certauth.rs:815-823 *)
Definition all_resources (s : dca) : N :=
  fold_left (fun acc '(_, dc) => match cur_res dc with Some r => union acc r | None => acc end) (da_classes s) 0.

Inductive dcmd :=
| XChildAdd (h ent : N)
| XChildResources (h ent : N)
| XChildMapping (h a b : N)
| XCertify (h child_rcn ki : N) (l : limit) (exp : Z)
| XRevoke (h child_rcn ki : N)
| XChildRemove (h : N)
| XSuspend (h : N)
| XUnsuspend (h : N) (now exp : Z)
| XReceived (c : N) (crt : cert) (na exp : Z)
| XDrop (c : N)
| XParentRemove (p : N)
| XRollInit (fresh : list (N * N))          (* class, key created for it *)
| XActivate (exp : Z)
| XRollFinish (c : N)
| XRoutes (routes : list (N * N))           (* the complete new route configuration *)
| XOpaque.                                  (* not predicted at this level (entitlement updates: see the sync model) *)

Definition map_classes (f : N -> dclass -> dclass) (cl : list (N * dclass)) : list (N * dclass) :=
  map (fun '(c, dc) => (c, f c dc)) cl.

Fixpoint map_classes_opt (f : N -> dclass -> option dclass) (cl : list (N * dclass)) : option (list (N * dclass)) :=
  match cl with
  | [] => Some []
  | (c, dc) :: r => match f c dc, map_classes_opt f r with
                    | Some dc', Some r' => Some ((c, dc') :: r')
                    | _, _ => None
                    end
  end.

(** unsuspend over all classes: threads the removed keys *)
Fixpoint unsuspend_classes (ch : dchild) (now exp : Z) (cl : list (N * dclass)) : option (list (N * dclass) * list N) :=
  match cl with
  | [] => Some ([], [])
  | (c, dc) :: r =>
      match cl_unsuspend dc (dc_ent ch) (child_issued (dc_ch ch) c) now exp, unsuspend_classes ch now exp r with
      | Some (dc', rm), Some (r', rm') => Some ((c, dc') :: r', rm ++ rm')
      | _, _ => None
      end
  end.

(** activation over all classes: threads the removed child keys; [None]: some class refused *)
Fixpoint activate_classes (exp : Z) (cl : list (N * dclass)) : option (list (N * dclass) * list N) :=
  match cl with
  | [] => Some ([], [])
  | (c, dc) :: r =>
      match cl_activate dc exp, activate_classes exp r with
      | Some None, Some (r', rm') => Some ((c, dc) :: r', rm')
      | Some (Some (dc', rm)), Some (r', rm') => Some ((c, dc') :: r', rm ++ rm')
      | _, _ => None
      end
  end.

Definition set_child (s : dca) (h : N) (dch : dchild) : list (N * dchild) := ainsert h dch (da_children s).

Definition dprocess (s : dca) (cmd : dcmd) : outcome dca :=
  match cmd with
  | XChildAdd h ent =>                                                       (* certauth.rs:1110-1133 *)
      if is_empty ent then Refused
      else if negb (subset ent (all_resources s)) then Refused
      else if amem h (da_children s) then Refused
      else Done (da_with s (da_classes s) (set_child s h (mkDCh ent (mkChild false [] []))))
  | XChildResources h ent =>                                                 (* certauth.rs:1225-1268 (empty set refused: repaired tree, F05c) *)
      if is_empty ent then Refused
      else if negb (subset ent (all_resources s)) then Refused
      else match aget h (da_children s) with
           | None => Refused
           | Some dch => Done (da_with s (da_classes s) (set_child s h (mkDCh ent (dc_ch dch))))
           end
  | XChildMapping h a b =>                                                   (* certauth.rs:1297-1328 *)
      match aget h (da_children s) with
      | None => Refused
      | Some dch =>
          match child_issued (dc_ch dch) a with
          | [] => Done (da_with s (da_classes s)
                          (set_child s h (ch_with dch (mkChild (ch_susp (dc_ch dch)) (ch_used (dc_ch dch)) (ainsert a b (ch_map (dc_ch dch)))))))
          | _ => Refused
          end
      end
  | XCertify h child_rcn ki l exp =>                                         (* certauth.rs:1338-1416 *)
      match aget h (da_children s) with
      | None => Refused
      | Some dch =>
          let my_rcn := name_in_parent (dc_ch dch) child_rcn in
          match aget my_rcn (da_classes s) with
          | None => Refused
          | Some dc =>
              match cl_certify dc (dc_ent dch) ki l exp with
              | None => Refused
              | Some dc' => Done (da_with s (ainsert my_rcn dc' (da_classes s))
                                    (set_child s h (ch_with dch (ch_set_used (dc_ch dch) ki (InUse my_rcn)))))
              end
          end
      end
  | XRevoke h child_rcn ki =>                                                (* certauth.rs:1422-1466 (class name translated first: repaired tree, F03a) *)
      match aget h (da_children s) with
      | None => Refused
      | Some dch =>
          let my_rcn := name_in_parent (dc_ch dch) child_rcn in
          match aget my_rcn (da_classes s) with
          | None => Done s                                                   (* a class we do not have: confirmed, nothing to do *)
          | Some dc =>
              if negb (ch_is_issued (dc_ch dch) ki) then Refused
              else
                let dc' := dc_with_certs dc (aremove ki (d_issued dc)) (aremove ki (d_susp dc)) in
                let chs := set_child s h (ch_with dch (ch_set_used (dc_ch dch) ki Revoked)) in
                Done (da_with s (ainsert my_rcn dc' (da_classes s)) (revoke_keys [ki] chs))
          end
      end
  | XChildRemove h =>                                                        (* certauth.rs:1469-1509 *)
      match aget h (da_children s) with
      | None => Refused
      | Some dch =>
          let cl := map_classes (fun c dc =>
                      let keys := filter (fun k => amem k (d_issued dc)) (child_issued (dc_ch dch) c) in
                      dc_with_certs dc (fold_left (fun m k => aremove k m) keys (d_issued dc))
                                       (fold_left (fun m k => aremove k m) keys (d_susp dc))) (da_classes s) in
          let rm := flat_map (fun '(c, dc) => filter (fun k => amem k (d_issued dc)) (child_issued (dc_ch dch) c)) (da_classes s) in
          Done (da_with s cl (aremove h (revoke_keys rm (da_children s))))
      end
  | XSuspend h =>                                                            (* certauth.rs:1522-1571 *)
      match aget h (da_children s) with
      | None => Refused
      | Some dch =>
          if ch_susp (dc_ch dch) then Done s
          else
            let cl := map_classes (fun c dc => cl_suspend dc (child_issued (dc_ch dch) c)) (da_classes s) in
            let any := existsb (fun '(c, _) => match child_issued (dc_ch dch) c with [] => false | _ => true end) (da_classes s) in
            if any then Done (da_with s cl (set_child s h (ch_with dch (ch_suspended (dc_ch dch) true))))
            else Done s
      end
  | XUnsuspend h now exp =>                                                  (* certauth.rs:1589-1657 *)
      match aget h (da_children s) with
      | None => Refused
      | Some dch =>
          if negb (ch_susp (dc_ch dch)) then Done s
          else match unsuspend_classes dch now exp (da_classes s) with
               | None => Refused
               | Some (cl, rm) =>
                   let chs := revoke_keys rm (da_children s) in
                   match aget h chs with
                   | None => Panic
                   | Some dch' => Done (da_with s cl (ainsert h (ch_with dch' (ch_suspended (dc_ch dch') false)) chs))
                   end
               end
      end
  | XReceived c crt na exp =>                                                (* certauth.rs:2007-2032 *)
      match aget c (da_classes s) with
      | None => Refused
      | Some dc =>
          match cl_received (da_routes s) dc crt na exp with
          | None => Refused
          | Some (dc', rm) => Done (da_with s (ainsert c dc' (da_classes s)) (revoke_keys rm (da_children s)))
          end
      end
  | XDrop c =>                                                               (* certauth.rs:2042-2062 *)
      if amem c (da_classes s) then Done (da_with_classes s (aremove c (da_classes s))) else Refused
  | XParentRemove p =>                                                       (* certauth.rs:1827-1855 *)
      Done (da_with_classes s (filter (fun '(_, dc) => negb (d_parent dc =? p)) (da_classes s)))
  | XRollInit fresh =>                                                       (* keys.rs:725-759 *)
      Done (da_with_classes s (map_classes (fun c dc =>
              match d_keys dc, aget c fresh with
              | KActive cur, Some k => dc_with_keys dc (KRollPending (mkPK k true) cur)
              | _, _ => dc
              end) (da_classes s)))
  | XActivate exp =>                                                         (* certauth.rs:2093-2115 *)
      match activate_classes exp (da_classes s) with
      | None => Refused
      | Some (cl, rm) => Done (da_with s cl (revoke_keys rm (da_children s)))
      end
  | XRollFinish c =>                                                         (* rc.rs:641-650 *)
      match aget c (da_classes s) with
      | None => Refused
      | Some dc => match d_keys dc with
                   | KRollOld cur _ => Done (da_with_classes s (ainsert c (dc_with_keys dc (KActive cur)) (da_classes s)))
                   | _ => Refused
                   end
      end
  | XRoutes routes =>                                                        (* rc.rs:704-730 *)
      Done (mkDCA (map_classes (fun _ dc => match cur_res dc with
                                            | Some r => dc_with dc (d_keys dc) (d_kna dc) (d_issued dc) (d_susp dc) (roas_for r routes)
                                            | None => dc
                                            end) (da_classes s))
                  (da_children s) routes (da_next s))
  | XOpaque => Done s
  end.

(** * The parent/child synchronisation driver on one parent class and the child's class under it *)

(** [st_pc]: the parent's resource class (named [pcn] by the parent), if it has one;
    [st_ch]: what the parent knows about the child; [st_xc]: the child's resource class under that parent
    class, if any; [st_xroutes]: the child's route configuration. *)
Record sst := mkSst { st_pc : option dclass; st_ch : dchild; st_xc : option dclass; st_xroutes : list (N * N) }.

(** inputs of one sync: the clock and the key a new resource class would create *)
Record sin := mkSin { si_now : Z; si_fresh : N }.

(** result: the state, commands stored at the parent and at the child, and whether the sync reported an error *)
Record sres := mkSres { sr_st : sst; sr_pcmds : N; sr_xcmds : N; sr_err : bool }.

Definition exp_of (cfg : tcfg) (inp : sin) : Z := (si_now inp + cf_valid cfg)%Z.

(** keys.rs:634-681 *)
Definition ks_requests (ks : keystate) : list N :=
  match ks with
  | KPending p => if p_req p then [p_id p] else []
  | KActive c => if k_req c then [k_id c] else []
  | KRollPending p c => (if p_req p then [p_id p] else []) ++ (if k_req c then [k_id c] else [])
  | KRollNew n c => (if k_req n then [k_id n] else []) ++ (if k_req c then [k_id c] else [])
  | KRollOld c o => (if k_req c then [k_id c] else []) ++ (if k_req o then [k_id o] else [])
  end.
Definition ks_revoke_request (ks : keystate) : option N :=
  match ks with KRollOld _ o => Some (k_id o) | _ => None end.
Definition has_pending_requests (x : option dclass) : bool :=
  match x with
  | None => false
  | Some dc => match ks_requests (d_keys dc), ks_revoke_request (d_keys dc) with [], None => false | _, _ => true end
  end.

(** manager.rs:1060-1084: a suspended child that calls in is unsuspended first (one more parent command).
    [None]: the unsuspend command failed, so does the request. *)
Definition p_contact (cfg : tcfg) (pcn : N) (inp : sin) (pc : option dclass) (dch : dchild) : option (option dclass * dchild * N) :=
  if ch_susp (dc_ch dch) then
    match pc with
    | None => Some (None, ch_with dch (ch_suspended (dc_ch dch) false), 1)
    | Some dc =>
        match cl_unsuspend dc (dc_ent dch) (child_issued (dc_ch dch) pcn) (si_now inp) (exp_of cfg inp) with
        | None => None
        | Some (dc', rm) =>
            let ch' := fold_left (fun ch ki => if ch_is_issued ch ki then ch_set_used ch ki Revoked else ch) rm (dc_ch dch) in
            Some (Some dc', ch_with dch (ch_suspended ch' false), 1)
        end
    end
  else Some (pc, dch, 0).

(** manager.rs:1224-1251 + certauth.rs:1422-1466 on the one parent class. [None] = error response. *)
Definition p_revoke (pcn : N) (pc : option dclass) (dch : dchild) (child_rcn ki : N) : option (option dclass * dchild * N) :=
  if negb (name_in_parent (dc_ch dch) child_rcn =? pcn) then Some (pc, dch, 0)   (* not this class: confirmed, nothing done *)
  else match pc with
       | None => Some (pc, dch, 0)
       | Some dc =>
           if negb (ch_is_issued (dc_ch dch) ki) then None
           else Some (Some (dc_with_certs dc (aremove ki (d_issued dc)) (aremove ki (d_susp dc))),
                      ch_with dch (ch_set_used (dc_ch dch) ki Revoked), 1)
       end.

(** manager.rs:1173-1221: certify, then build the response from the entitlement class. The second component
    is the certificate handed to the child; [None] there = the command was stored but the response failed. *)
Definition p_issue (cfg : tcfg) (pcn : N) (inp : sin) (pc : option dclass) (dch : dchild) (child_rcn ki : N)
  : option (dclass * dchild * option (N * Z)) :=
  if negb (name_in_parent (dc_ch dch) child_rcn =? pcn) then None           (* ResourceClassUnknown *)
  else match pc with
       | None => None
       | Some dc =>
           match cl_certify dc (dc_ent dch) ki no_limit (exp_of cfg inp) with
           | None => None
           | Some dc' =>
               let dch' := ch_with dch (ch_set_used (dc_ch dch) ki (InUse pcn)) in
               match entitlement_class cfg dc' dch' pcn (si_now inp), aget ki (d_issued dc') with
               | Some _, Some c => Some (dc', dch', Some (i_res c, i_exp c))
               | _, _ => Some (dc', dch', None)
               end
           end
       end.

(** manager.rs:1913-1991, 1994-2107: the open certificate requests of the child's class, one by one. *)
Fixpoint send_cert_requests (cfg : tcfg) (pcn : N) (inp : sin) (keys : list N) (s : sst) (pc xc : N) : sres :=
  match keys with
  | [] => mkSres s pc xc false
  | ki :: rest =>
      match st_xc s with
      | None => mkSres s pc xc false
      | Some x =>
          match p_contact cfg pcn inp (st_pc s) (st_ch s) with
          | None => mkSres s pc xc true
          | Some (ppc, dch, n1) =>
              let s1 := mkSst ppc dch (st_xc s) (st_xroutes s) in
              match p_issue cfg pcn inp ppc dch (d_prcn x) ki with
              | None => mkSres s1 (pc + n1) xc true                              (* error, nothing stored for the certify *)
              | Some (dc', dch', None) => mkSres (mkSst (Some dc') dch' (st_xc s) (st_xroutes s)) (pc + n1 + 1) xc true
              | Some (dc', dch', Some (r, na)) =>
                  let s2 := mkSst (Some dc') dch' (st_xc s) (st_xroutes s) in
                  match cl_received (st_xroutes s) x (mkCert ki r 0) na (exp_of cfg inp) with
                  | None =>                                                      (* manager.rs:2069-2107: drop the class *)
                      mkSres (mkSst (Some dc') dch' None (st_xroutes s)) (pc + n1 + 1) (xc + 1) true
                  | Some (x', _) =>
                      send_cert_requests cfg pcn inp rest (mkSst (Some dc') dch' (Some x') (st_xroutes s)) (pc + n1 + 1) (xc + 1)
                  end
              end
          end
      end
  end.

(** certauth.rs:1877-1981 on the one class *)
Definition x_entitlements (inp : sin) (xc : option dclass) (parent : N) (e : option entl) : option dclass * N :=
  match xc, e with
  | None, None => (None, 0)
  | Some _, None => (None, 1)
  | None, Some e => (Some (mkDC parent (e_name e) (KPending (mkPK (si_fresh inp) true)) [] [] [] []), 1)
  | Some x, Some e =>
      if d_prcn x =? e_name e then
        let '(ks, n) := ks_entitlement (d_keys x) (class_wants x e (si_now inp)) in
        let n' := n + unexpected_keys (d_keys x) e in
        (Some (dc_with_keys x ks), if n' =? 0 then 0 else 1)
      else (Some (mkDC parent (e_name e) (KPending (mkPK (si_fresh inp) true)) [] [] [] []), 1)
  end.

(** manager.rs:1588-1615 *)
Definition sync_step (cfg : tcfg) (pcn parent : N) (inp : sin) (s : sst) : sres :=
  if has_pending_requests (st_xc s) then
    match st_xc s with
    | None => mkSres s 0 0 false
    | Some x =>
        (* manager.rs:1735-1760: the revocation request of an old key first *)
        let after_revoke :=
          match d_keys x with
          | KRollOld cur o =>
              match p_contact cfg pcn inp (st_pc s) (st_ch s) with
              | None => inl (mkSres s 0 0 true)
              | Some (ppc, dch, n1) =>
                  match p_revoke pcn ppc dch (d_prcn x) (k_id o) with
                  | None => inl (mkSres (mkSst ppc dch (st_xc s) (st_xroutes s)) n1 0 true)
                  | Some (ppc', dch', n2) =>
                      inr (mkSst ppc' dch' (Some (dc_with_keys x (KActive cur))) (st_xroutes s), n1 + n2, 1)
                  end
              end
          | _ => inr (s, 0, 0)
          end in
        match after_revoke with
        | inl r => r
        | inr (s1, pc, xc) =>
            match st_xc s1 with
            | None => mkSres s1 pc xc false
            | Some x1 => send_cert_requests cfg pcn inp (ks_requests (d_keys x1)) s1 pc xc
            end
        end
    end
  else
    match p_contact cfg pcn inp (st_pc s) (st_ch s) with
    | None => mkSres s 0 0 true
    | Some (ppc, dch, n1) =>
        let e := match ppc with Some dc => entitlement_class cfg dc dch pcn (si_now inp) | None => None end in
        let '(xc', n2) := x_entitlements inp (st_xc s) parent e in
        mkSres (mkSst ppc dch xc' (st_xroutes s)) n1 n2 false
    end.

(** The child is settled under the parent class: no class if nothing is entitled, otherwise one class whose
    certified keys carry exactly the entitled resources, with no open request of any kind. *)
Definition entitled (s : sst) : N :=
  match st_pc s with
  | Some dc => match cur_res dc with Some r => inter r (dc_ent (st_ch s)) | None => 0 end
  | None => 0
  end.

Definition settledb (pcn : N) (s : sst) : bool :=
  match st_xc s with
  | None => is_empty (entitled s)
  | Some x =>
      negb (is_empty (entitled s)) && (d_prcn x =? name_for_child (dc_ch (st_ch s)) pcn)
      && match d_keys x with
         | KActive c => negb (k_req c) && (c_res (k_cert c) =? entitled s)
         | KRollNew n c => negb (k_req n) && negb (k_req c) && (c_res (k_cert n) =? entitled s) && (c_res (k_cert c) =? entitled s)
         | _ => false
         end
  end.

Fixpoint sync_n (cfg : tcfg) (pcn parent : N) (inps : list sin) (s : sst) : sst :=
  match inps with
  | [] => s
  | i :: r => sync_n cfg pcn parent r (sr_st (sync_step cfg pcn parent i s))
  end.

(** * A class the child gives up: the revocation requests it sends, and the parent working through them *)

(** keys.rs:375-407 (KeyState::revoke): one request per CERTIFIED key of the class - nothing for a pending key;
    in RollOld the second one is the stored request of the old key (its class name was fixed at activation,
    rc.rs:560-638, also from parent_rc_name) *)
Definition ks_certified (ks : keystate) : list N :=
  match ks with
  | KPending _ => []
  | KActive c | KRollPending _ c => [k_id c]
  | KRollNew n c => [k_id n; k_id c]
  | KRollOld c o => [k_id c; k_id o]
  end.

(** rc.rs:519-527 (ResourceClass::revoke): the requests name the class as the PARENT names it
    ([d_prcn] = parent_rc_name), not by the name the CA itself gave the class. Used when the parent stops listing
    the class (certauth.rs:1905-1925), when the class is dropped after a refused certificate (certauth.rs:2042-2068)
    and when the parent is removed (certauth.rs:1756-1769). (class name in the request, key) *)
Definition class_revocations (x : dclass) : list (N * N) := map (fun k => (d_prcn x, k)) (ks_certified (d_keys x)).

(** manager.rs:1816-1850 at a parent in the same instance: the requests one by one through the child_revoke_key
    command of the parent; the first one that is refused ends the (best-effort) exchange *)
Fixpoint revoke_all (s : dca) (h : N) (reqs : list (N * N)) : outcome dca :=
  match reqs with
  | [] => Done s
  | (crcn, ki) :: r => match dprocess s (XRevoke h crcn ki) with
                       | Done s1 => revoke_all s1 h r
                       | o => o
                       end
  end.

(** the class holds a certificate, published or suspended, for the key *)
Definition holds_key (dc : dclass) (k : N) : bool := amem k (d_issued dc) || amem k (d_susp dc).

(** The same on the one parent class of the sync model: the requests of a class the child gave up, through
    [p_revoke] one by one. [None]: one of them was refused (the exchange ends there). *)
Fixpoint p_revoke_all (pcn : N) (pc : option dclass) (dch : dchild) (reqs : list (N * N)) : option (option dclass * dchild) :=
  match reqs with
  | [] => Some (pc, dch)
  | (crcn, ki) :: r => match p_revoke pcn pc dch crcn ki with
                       | Some (pc', dch', _) => p_revoke_all pcn pc' dch' r
                       | None => None
                       end
  end.
