(** Correspondence checker and executable oracle for C02.

    Three kinds of cases, all observed on the real code (harness/src/bin/c02.rs):
    - [CCmd]: one stored command of one CA: the delegation view of the CA before (the real state: the
      harness replays the stored events of the command through the real [apply]), the command, whether it
      was stored as an error, the view after, and - when the command is the last one of an API call - the
      child certificates decoded from the CA's published-object store;
    - [CSync]: one call of the sync driver for a child under a parent: both sides before and after;
    - [CSettle]: after a burst of operations the harness lets every CA synchronise top-down until a round
      stores no command: the settled pairs, the number of rounds that were needed and the number of commands an
      extra round stored;
    - [CDropRev]: a CA gave up a resource class (its parent stopped listing it, or a certificate for it could not
      be processed): the class as it was and the revocation requests (class name, key) of the stored event;
    - [CHeld]: after the syncs of a parent and a child have settled: the whole delegation view of the parent
      (every class), what it publishes, and the whole view of the child (every class under every parent). *)
From KV Require Import base.Tac ca.Ca ca.CaCheck deleg.Bits deleg.Deleg.
Open Scope N_scope.

(** ** Boolean equalities. Times (expiry, not-after) are never compared. *)
Definition optN_eqb (a b : option N) : bool :=
  match a, b with Some x, Some y => x =? y | None, None => true | _, _ => false end.
Definition limit_eqb (a b : limit) : bool :=
  optN_eqb (l_asn a) (l_asn b) && optN_eqb (l_v4 a) (l_v4 b) && optN_eqb (l_v6 a) (l_v6 b).
Definition icert_eqb (a b : icert) : bool := (i_res a =? i_res b) && limit_eqb (i_limit a) (i_limit b).
Definition dclass_eqb (a b : dclass) : bool :=
  (d_parent a =? d_parent b) && (d_prcn a =? d_prcn b) && keystate_eqb (d_keys a) (d_keys b)
  && amap_eqb icert_eqb (d_issued a) (d_issued b) && amap_eqb icert_eqb (d_susp a) (d_susp b)
  && amap_eqb N.eqb (d_roas a) (d_roas b).
Definition dchild_eqb (a b : dchild) : bool := (dc_ent a =? dc_ent b) && child_eqb (dc_ch a) (dc_ch b).
Definition dca_eqb (a b : dca) : bool :=
  amap_eqb dclass_eqb (da_classes a) (da_classes b) && amap_eqb dchild_eqb (da_children a) (da_children b)
  && amap_eqb N.eqb (da_routes a) (da_routes b) && (da_next a =? da_next b).
Definition opt_eqb {A} (e : A -> A -> bool) (a b : option A) : bool :=
  match a, b with Some x, Some y => e x y | None, None => true | _, _ => false end.
Definition sst_eqb (a b : sst) : bool :=
  opt_eqb dclass_eqb (st_pc a) (st_pc b) && dchild_eqb (st_ch a) (st_ch b) && opt_eqb dclass_eqb (st_xc a) (st_xc b).

Inductive xcase :=
| CCmd (pre : dca) (cmd : dcmd) (err : bool) (post : dca) (pub : option (list (N * list (N * N))))
| CSync (cfg : tcfg) (pcn parent : N) (inp : sin) (pre post : sst) (err : bool)
| CSettle (pairs : list (N * sst)) (rounds bound extra : N)
| CDropRev (x : dclass) (reqs : list (N * N))
| CHeld (ph : N) (p : dca) (pub : option (list (N * list (N * N)))) (xh : N) (x : dca).

(** ** Model and implementation agree *)
Definition is_opaque (c : dcmd) : bool := match c with XOpaque => true | _ => false end.

Fixpoint list_eqb {A} (e : A -> A -> bool) (a b : list A) : bool :=
  match a, b with
  | [], [] => true
  | x :: a', y :: b' => e x y && list_eqb e a' b'
  | _, _ => false
  end.

Definition agrees (c : xcase) : bool :=
  match c with
  | CCmd pre cmd err post _ =>
      if is_opaque cmd then true
      else match dprocess pre cmd with
           | Done s => negb err && dca_eqb s post
           | Refused => err && dca_eqb pre post
           | Panic => false
           end
  | CSync cfg pcn parent inp pre post err =>
      let r := sync_step cfg pcn parent inp pre in
      sst_eqb (sr_st r) post && Bool.eqb (sr_err r) err
  | CSettle _ _ _ _ => true
  | CDropRev x reqs => list_eqb (fun a b => (fst a =? fst b) && (snd a =? snd b)) (class_revocations x) reqs
  | CHeld _ _ _ _ _ => true
  end.

(** ** The oracle: the theorems of props/C02.v in executable form, on what the implementation did *)

(** never_overclaims: every issued or suspended child certificate, and every ROA, lies within the certificate
    of the class's current key; a class without a current key has issued nothing. *)
Definition over_class (dc : dclass) : bool :=
  match cur_res dc with
  | Some r => forallb (fun '(_, c) => subset (i_res c) r) (d_issued dc)
              && forallb (fun '(_, c) => subset (i_res c) r) (d_susp dc)
  | None => match d_issued dc, d_susp dc with [], [] => true | _, _ => false end
  end.
Definition roas_class (dc : dclass) : bool :=
  match cur_res dc with
  | Some r => forallb (fun '(_, m) => subset m r) (d_roas dc)
  | None => match d_roas dc with [] => true | _ => false end
  end.
Definition over_ok (s : dca) : bool := forallb (fun '(_, dc) => over_class dc) (da_classes s).
Definition roas_ok (s : dca) : bool := forallb (fun '(_, dc) => roas_class dc) (da_classes s).

(** what the CA publishes for its children is exactly what it has issued (decoded certificates) *)
Definition pub_ok (s : dca) (pub : option (list (N * list (N * N)))) : bool :=
  match pub with
  | None => true
  | Some l =>
      forallb (fun '(c, dc) =>
        let mine := map (fun '(k, ic) => (k, i_res ic)) (d_issued dc) in
        match aget c l with
        | Some p => amap_eqb N.eqb mine p
        | None => match mine with [] => true | _ => false end
        end) (da_classes s)
      && forallb (fun '(c, p) => amem c (da_classes s) || match p with [] => true | _ => false end) l
  end.

(** issued_exact: a certify request is refused exactly when the limit exceeds what the child can get, and the
    certificate issued otherwise carries entitlement and issuer intersected, narrowed by the limit *)
Definition certify_ok (pre : dca) (cmd : dcmd) (err : bool) (post : dca) : bool :=
  match cmd with
  | XCertify h crcn ki l _ =>
      match aget h (da_children pre) with
      | None => err
      | Some dch =>
          let my := name_in_parent (dc_ch dch) crcn in
          match aget my (da_classes pre) with
          | None => err
          | Some dc =>
              match cur_res dc with
              | None => err
              | Some sg =>
                  match apply_limit l (inter sg (dc_ent dch)) with
                  | None => err
                  | Some r =>
                      negb err
                      && match aget my (da_classes post) with
                         | Some dc' => match aget ki (d_issued dc') with
                                       | Some c => (i_res c =? r) && limit_eqb (i_limit c) l && subset r sg && subset r (dc_ent dch)
                                       | None => false
                                       end
                         | None => false
                         end
                  end
              end
          end
      end
  | _ => true
  end.

(** shrink_same_command + shrink_exact: a certificate received for the current key with other resources is
    processed (not refused), and in the state after that very command every child certificate, issued or
    suspended, carries what it had intersected with the new certificate, or is gone if that is nothing *)
Definition shrunk_map_ok (newres : N) (pre post : certmap) : bool :=
  forallb (fun '(k, ic) =>
    let r := inter (i_res ic) newres in
    if is_empty (i_res ic) then true          (* a certificate without resources (finding F02f) is outside shrink_exact: [cert_ok] *)
    else if is_empty r then negb (amem k post)
    else match aget k post with Some c' => i_res c' =? r | None => false end) pre.

Definition shrink_ok (pre : dca) (cmd : dcmd) (err : bool) (post : dca) : bool :=
  match cmd with
  | XReceived c crt _ _ =>
      match aget c (da_classes pre) with
      | None => true
      | Some dc =>
          match ks_current (d_keys dc) with
          | None => true
          | Some cur =>
              if (k_id cur =? c_key crt) && negb (c_res crt =? c_res (k_cert cur)) then
                negb err
                && match aget c (da_classes post) with
                   | None => false
                   | Some dc' =>
                       shrunk_map_ok (c_res crt) (d_issued dc) (d_issued dc') && shrunk_map_ok (c_res crt) (d_susp dc) (d_susp dc')
                       && match cur_res dc' with Some r => r =? c_res crt | None => false end
                   end
              else true
          end
      end
  | _ => true
  end.

(** unsuspend_within_entitlement: when a suspended child comes back, every certificate that was suspended is
    either published again - carrying what it held, intersected with the issuing certificate and narrowed by its
    limit, and lying within the child's entitlement of that moment - or it is removed; it is removed exactly when
    it exceeds the entitlement or is about to expire. (Not "= entitlement x issuer": a certificate that holds
    less than an entitlement that grew meanwhile comes back as it was, the child's next sync asks for more.) *)
Definition unsuspend_class_ok (ent : N) (now : Z) (keys : list N) (dc dc' : dclass) : bool :=
  forallb (fun k =>
    match aget k (d_susp dc) with
    | None => true
    | Some sc =>
        if (now + 86400 <? i_exp sc)%Z && subset (i_res sc) ent then
          match cur_res dc, aget k (d_issued dc') with
          | Some sg, Some c' =>
              match apply_limit (i_limit sc) (inter sg (i_res sc)) with
              | Some r => (i_res c' =? r) && subset (i_res c') ent && subset (i_res c') sg && negb (amem k (d_susp dc'))
              | None => false
              end
          | _, _ => false
          end
        else negb (amem k (d_issued dc')) && negb (amem k (d_susp dc'))
    end) keys.

Definition unsuspend_ok (pre : dca) (cmd : dcmd) (err : bool) (post : dca) : bool :=
  match cmd with
  | XUnsuspend h now _ =>
      match aget h (da_children pre) with
      | None => err
      | Some dch =>
          if negb (ch_susp (dc_ch dch)) then true
          else
            (* refused only if a re-issue is impossible (no current key / limit no longer fits) *)
            if err then
              existsb (fun '(c, dc) =>
                existsb (fun k => match aget k (d_susp dc) with
                                  | Some sc => (now + 86400 <? i_exp sc)%Z && subset (i_res sc) (dc_ent dch)
                                               && match cur_res dc with
                                                  | Some sg => match apply_limit (i_limit sc) (inter sg (i_res sc)) with Some _ => false | None => true end
                                                  | None => true
                                                  end
                                  | None => false
                                  end) (child_issued (dc_ch dch) c)) (da_classes pre)
            else
              forallb (fun '(c, dc) =>
                match aget c (da_classes post) with
                | Some dc' => unsuspend_class_ok (dc_ent dch) now (child_issued (dc_ch dch) c) dc dc'
                | None => false
                end) (da_classes pre)
              && match aget h (da_children post) with Some dch' => negb (ch_susp (dc_ch dch')) | None => false end
      end
  | _ => true
  end.

(** activation: under the new key every issued certificate carries what it had intersected with the new key's
    certificate, or is gone if that is nothing; the new key is the current one *)
Definition activate_ok (pre : dca) (cmd : dcmd) (err : bool) (post : dca) : bool :=
  match cmd with
  | XActivate _ =>
      if err then true
      else forallb (fun '(c, dc) =>
             match d_keys dc, aget c (da_classes post) with
             | KRollNew n _, Some dc' =>
                 shrunk_map_ok (c_res (k_cert n)) (d_issued dc) (d_issued dc')
                 && shrunk_map_ok (c_res (k_cert n)) (d_susp dc) (d_susp dc')
                 && match cur_res dc' with Some r => r =? c_res (k_cert n) | None => false end
             | KRollNew _ _, None => false
             | _, _ => true
             end) (da_classes pre)
  | _ => true
  end.

Definition opt_class_ok (o : option dclass) : bool := match o with Some dc => over_class dc | None => true end.

(** dropped_class_revoked / held: once parent and child have settled, the parent holds (publishes or keeps
    suspended) certificates for the child only in classes the child is entitled to something in, and only for keys
    the child still has in its class under that very parent class - no certificate for a key the child has
    discarded survives. Every certificate in a class belongs to a child that is recorded as using the key in that
    class. [ph]: the parent's handle as the child knows it, [xh]: the child's handle at the parent. *)
Definition key_owner (p : dca) (k : N) : option (N * used) :=
  match find (fun '(_, dch) => amem k (ch_used (dc_ch dch))) (da_children p) with
  | Some (h, dch) => match aget k (ch_used (dc_ch dch)) with Some u => Some (h, u) | None => None end
  | None => None
  end.

Definition child_has_key (x : dca) (ph crcn k : N) : bool :=
  existsb (fun '(_, xc) => (d_parent xc =? ph) && (d_prcn xc =? crcn) && ks_knows (d_keys xc) k) (da_classes x).

Definition held_class_ok (ph : N) (p : dca) (xh : N) (x : dca) (c : N) (dc : dclass) : bool :=
  forallb (fun '(k, ic) =>
    match key_owner p k with
    | None => false                                   (* a certificate nobody is recorded to hold *)
    | Some (h, u) =>
        if h =? xh then
          match aget xh (da_children p) with
          | None => false
          | Some dch =>
              match u with InUse c' => c' =? c | Revoked => false end
              (* a certificate without resources (finding F02f) is outside this clause, as in [shrunk_map_ok] *)
              && (is_empty (i_res ic)
                  || negb (is_empty (inter (match cur_res dc with Some r => r | None => 0 end) (dc_ent dch))))
              && child_has_key x ph (name_for_child (dc_ch dch) c) k
          end
        else true
    end) (d_issued dc ++ d_susp dc).

Definition held_ok (ph : N) (p : dca) (xh : N) (x : dca) : bool :=
  forallb (fun '(c, dc) => held_class_ok ph p xh x c dc) (da_classes p).

Definition c02_ok (c : xcase) : bool :=
  match c with
  | CCmd pre cmd err post pub =>
      over_ok post && roas_ok post && pub_ok post pub && certify_ok pre cmd err post && shrink_ok pre cmd err post
      && unsuspend_ok pre cmd err post && activate_ok pre cmd err post
  | CSync _ _ _ _ _ post _ => opt_class_ok (st_pc post) && opt_class_ok (st_xc post)
  | CSettle pairs rounds bound extra =>
      forallb (fun '(pcn, s) => settledb pcn s) pairs && (rounds <=? bound) && (extra =? 0)
  | CDropRev _ _ => true
  | CHeld ph p pub xh x => held_ok ph p xh x && pub_ok p pub && over_ok p
  end.
