(** Resource sets as bit masks over an atom universe (DESIGN section 3).

    A resource set is an [N] read as an unbounded bit mask: bit [i] set = the set holds atom [i].
    The correspondence harness maps atoms to concrete blocks (harness/src/bin/c02.rs: for atom i < 12,
    bit i = AS 64512+i, bit 16+i = 10.i.0.0/16, bit 32+i = 2001:db8:i::/48; bits 15/31/47 = "anything
    else of that family"). rpki::ResourceSet union / intersection / difference / contains are Boolean
    algebra homomorphisms on unions of such blocks, which is what transfers the theorems.

    This file is the algebra layer: definitions, the bit-level specifications and the [bits] tactic
    (extensionality via [N.bits_inj], rewriting with [N.land_spec] / [N.lor_spec] / [N.ldiff_spec],
    specialising subset hypotheses at the bit, case split on [N.testbit]). *)
From KV Require Import base.Tac.
Open Scope N_scope.

Definition inter (a b : N) : N := N.land a b.
Definition union (a b : N) : N := N.lor a b.
Definition diff (a b : N) : N := N.ldiff a b.
Definition empty : N := 0.
Definition is_empty (a : N) : bool := a =? 0.
Definition subset (a b : N) : bool := N.land a b =? a.

Lemma subset_spec a b : subset a b = true <-> forall i, N.testbit a i = true -> N.testbit b i = true.
Proof.
  unfold subset. rewrite N.eqb_eq. split.
  - intros H i Hi. rewrite <- H in Hi. rewrite N.land_spec in Hi. apply andb_true_iff in Hi. tauto.
  - intros H. apply N.bits_inj. intro i. rewrite N.land_spec.
    destruct (N.testbit a i) eqn:E; [rewrite (H i E)|]; reflexivity.
Qed.

Lemma subset_false_spec a b : subset a b = false <-> exists i, N.testbit a i = true /\ N.testbit b i = false.
Proof.
  split.
  - intro H. unfold subset in H. apply N.eqb_neq in H.
    destruct (N.eq_dec (N.ldiff a b) 0) as [E|E].
    + exfalso. apply H. apply N.bits_inj. intro i. rewrite N.land_spec.
      assert (B := f_equal (fun x => N.testbit x i) E). cbv beta in B. rewrite N.ldiff_spec, N.bits_0 in B.
      destruct (N.testbit a i), (N.testbit b i); simpl in *; congruence.
    + exists (N.log2 (N.ldiff a b)). pose proof (N.bit_log2 _ E) as Hi.
      rewrite N.ldiff_spec in Hi.
      destruct (N.testbit a _), (N.testbit b _); simpl in *; try congruence; auto.
  - intros [i [Ha Hb]]. destruct (subset a b) eqn:E; [|reflexivity].
    rewrite subset_spec in E. rewrite (E i Ha) in Hb. discriminate.
Qed.

Lemma is_empty_spec a : is_empty a = true <-> forall i, N.testbit a i = false.
Proof.
  unfold is_empty. rewrite N.eqb_eq. split.
  - intros -> i. apply N.bits_0.
  - intros H. apply N.bits_inj. intro i. rewrite H, N.bits_0. reflexivity.
Qed.

Lemma eq_spec (a b : N) : a = b <-> forall i, N.testbit a i = N.testbit b i.
Proof. split; [intros -> i; reflexivity|apply N.bits_inj]. Qed.

(** The tactic. Hypotheses of the forms [subset a b = true], [is_empty a = true], [a = b] (sets) are
    turned into pointwise facts, the goal (an equation between sets, a [subset _ _ = true] or an
    [is_empty _ = true]) is reduced to one bit, everything is specialised at that bit, and the
    remaining propositional problem is decided by case analysis. *)
Ltac bits_unfold := unfold inter, union, diff, empty in *.

Ltac bits_hyps :=
  repeat match goal with
  | H : subset _ _ = true |- _ => rewrite subset_spec in H
  | H : is_empty _ = true |- _ => rewrite is_empty_spec in H
  | H : (_ =? _) = true |- _ => apply N.eqb_eq in H
  | H : @eq N _ _ |- _ => rewrite eq_spec in H
  end.

Ltac bits_at i :=
  repeat match goal with
  | H : forall j : N, _ |- _ => generalize (H i); clear H; intro H
  end.

Ltac bits_split :=
  repeat match goal with H : context [N.testbit _ _] |- _ => revert H end;
  repeat rewrite ?N.land_spec, ?N.lor_spec, ?N.ldiff_spec, ?N.bits_0;
  repeat match goal with
  | |- context [N.testbit ?x ?i] => destruct (N.testbit x i)
  end;
  simpl; try congruence; try tauto; intuition congruence.

Ltac bits :=
  bits_unfold; bits_hyps;
  match goal with
  | |- subset _ _ = true => rewrite subset_spec; let i := fresh "i" in intro i; bits_at i; bits_split
  | |- is_empty _ = true => rewrite is_empty_spec; let i := fresh "i" in intro i; bits_at i; bits_split
  | |- @eq N _ _ => apply N.bits_inj; let i := fresh "i" in intro i; bits_at i; bits_split
  | |- (_ =? _) = true => apply N.eqb_eq; apply N.bits_inj; let i := fresh "i" in intro i; bits_at i; bits_split
  end.

(** The laws used by the delegation model, each closed by [bits]. *)
Lemma subset_refl a : subset a a = true.
Proof. bits. Qed.
Lemma subset_trans a b c : subset a b = true -> subset b c = true -> subset a c = true.
Proof. intros. bits. Qed.
Lemma subset_antisym a b : subset a b = true -> subset b a = true -> a = b.
Proof. intros. bits. Qed.
Lemma inter_sub_l a b : subset (inter a b) a = true.
Proof. bits. Qed.
Lemma inter_sub_r a b : subset (inter a b) b = true.
Proof. bits. Qed.
Lemma inter_comm a b : inter a b = inter b a.
Proof. bits. Qed.
Lemma inter_assoc a b c : inter a (inter b c) = inter (inter a b) c.
Proof. bits. Qed.
Lemma inter_idem a : inter a a = a.
Proof. bits. Qed.
Lemma inter_absorb a b : subset a b = true -> inter b a = a.
Proof. intros. bits. Qed.
Lemma inter_greatest a b c : subset c a = true -> subset c b = true -> subset c (inter a b) = true.
Proof. intros. bits. Qed.
Lemma subset_inter_mono a b c : subset a b = true -> subset (inter c a) (inter c b) = true.
Proof. intros. bits. Qed.
Lemma union_sub a b c : subset a c = true -> subset b c = true -> subset (union a b) c = true.
Proof. intros. bits. Qed.
Lemma union_ub_l a b : subset a (union a b) = true.
Proof. bits. Qed.
Lemma union_ub_r a b : subset b (union a b) = true.
Proof. bits. Qed.
Lemma diff_sub a b : subset (diff a b) a = true.
Proof. bits. Qed.
Lemma diff_disjoint a b : inter (diff a b) b = empty.
Proof. bits. Qed.
Lemma empty_sub a : subset empty a = true.
Proof. bits. Qed.
Lemma sub_empty a : subset a empty = true -> a = empty.
Proof. intros. bits. Qed.
(** DESIGN Appendix A.3 *)
Lemma inter_shrink r r' ent : subset r' r = true -> inter r' (inter r ent) = inter r' ent.
Proof. intros. bits. Qed.

Lemma subset_eqb_true a b : a = b -> subset a b = true.
Proof. intros ->. apply subset_refl. Qed.
Lemma is_empty_true_eq a : is_empty a = true -> a = 0.
Proof. unfold is_empty. apply N.eqb_eq. Qed.
Lemma is_empty_false_neq a : is_empty a = false -> a <> 0.
Proof. unfold is_empty. apply N.eqb_neq. Qed.
