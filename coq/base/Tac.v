(** Shared imports, settings and small tactics. No axioms. *)
From Coq Require Export List NArith ZArith Bool Lia.
Export ListNotations.

Arguments N.add : simpl never.
Arguments N.sub : simpl never.
Arguments N.mul : simpl never.
Arguments N.eqb : simpl never.
Arguments N.ltb : simpl never.
Arguments N.leb : simpl never.
Arguments N.min : simpl never.
Arguments N.max : simpl never.

Ltac inv H := inversion H; subst; clear H.

Ltac destr_match :=
  match goal with
  | |- context [match ?x with _ => _ end] => destruct x eqn:?
  | H : context [match ?x with _ => _ end] |- _ => destruct x eqn:?
  end.

Lemma in_filter_iff {A} (f : A -> bool) l x : In x (filter f l) <-> In x l /\ f x = true.
Proof. apply filter_In. Qed.

Lemma existsb_In {A} (f : A -> bool) l : existsb f l = true <-> exists x, In x l /\ f x = true.
Proof. apply existsb_exists. Qed.

Lemma existsb_false {A} (f : A -> bool) l : existsb f l = false <-> forall x, In x l -> f x = false.
Proof.
  induction l as [|a l IH]; simpl.
  - split; [intros _ x []|reflexivity].
  - rewrite orb_false_iff, IH. split.
    + intros [Ha Hl] x [->|Hx]; auto.
    + intros H; split; [apply H; auto|intros x Hx; apply H; auto].
Qed.
