(** * pubd/RrdpFiles.v - [RrdpServer::update_rrdp_files] as a list of file-system operations

    Executable model (definitions only) of src/server/pubd/rrdp.rs 460-853:
      - [update_rrdp_files]        460-499: read the old notification (unreadable / unparsable =
                                    none), nothing to do if it has the current session and serial;
      - [write_delta_files]        502-617: reuse the deltas the old notification lists (same
                                    session, sorted, no gaps: rpki rrdp.rs 158-182), drop those below
                                    the lowest retained serial, write a file for every retained
                                    delta above the highest reused one;
      - [write_snapshot_file]      620-634;
      - [write_notification_file]  637-693: new-notification.xml, then one rename;
      - [cleanup_old_rrdp_files]   696-853: other entries of the base directory that are
                                    directories; in the session directory everything that is not a
                                    number, every number outside [lowest delta, highest delta] other
                                    than the current serial (removed or archived), and the
                                    snapshot file of every other number in range.
    The result is the list of [fsop] in the order the code issues them; the clean-up part is
    computed from the directory listing at that point (the order in which [read_dir] yields
    entries is unspecified; the model uses list order, the correspondence compares that part as a
    set). File layout: rrdp/<session>/<serial>/<random>/{snapshot,delta}.xml (1133-1135,
    1631-1633), rrdp/notification.xml, rrdp/new-notification.xml (858-868).

    Also: how an RRDP client reads these files ([offer_of_files]). *)
From KV Require Import base.Tac pubd.Objects pubd.Staged pubd.Access pubd.Content pubd.Rrdp pubd.Fs.
Open Scope N_scope.

Definition rrdp_dir : path := [NRrdp].
Definition notif_path : path := [NRrdp; NNotif].
Definition newnotif_path : path := [NRrdp; NNewNotif].
Definition sess_dir (s : N) : path := [NRrdp; NSess s].
Definition delta_path (sess : N) (d : ddata) : path := [NRrdp; NSess sess; NSer (d_serial d); NRand (d_rnd d); NDelta].
Definition snap_path (r : rrdp) : path := [NRrdp; NSess (r_session r); NSer (r_serial r); NRand (r_snaprnd r); NSnap].
Definition delta_data (sess : N) (d : ddata) : fdata := DDelta sess (d_serial d) (d_elems d).
Definition snap_data (r : rrdp) : fdata := DSnap (r_session r) (r_serial r) (r_snapshot r).
Definition archive_dest (sess s : N) : path := [NArchive; NSess sess; NSer s].

Definition dref : Type := (N * path * fdata)%type.
Definition dr_serial (x : dref) : N := fst (fst x).
Definition dr_path (x : dref) : path := snd (fst x).
Definition dr_hash (x : dref) : fdata := snd x.
Definition dref_of (sess : N) (d : ddata) : dref := (d_serial d, delta_path sess d, delta_data sess d).

(** [file::read] + [NotificationFile::parse] (475-479). *)
Definition read_notif (f : fs) : option notif :=
  match fs_file notif_path f with Some (CNotif n) => Some n | _ => None end.

(** [sort_and_verify_deltas(None)] (rpki rrdp.rs 158-182): stable sort by serial, then no gaps. *)
Fixpoint insert_sorted (x : dref) (l : list dref) : list dref :=
  match l with
  | [] => [x]
  | y :: r => if dr_serial x <? dr_serial y then x :: l else y :: insert_sorted x r
  end.
Definition sort_refs (l : list dref) : list dref := fold_right insert_sorted [] l.
Fixpoint no_gaps (l : list dref) : bool :=
  match l with
  | x :: ((y :: _) as r) => (dr_serial x + 1 =? dr_serial y) && no_gaps r
  | _ => true
  end.

(** 518-569: the reusable references, lowest serial first. *)
Definition reusable (old : option notif) (r : rrdp) : list dref :=
  let from_old :=
    match old with
    | None => []
    | Some n => if n_session n =? r_session r
                then let s := sort_refs (n_deltas n) in if no_gaps s then s else []
                else []
    end in
  match last (map Some (r_deltas r)) None with
  | Some lowest => filter (fun x => d_serial lowest <=? dr_serial x) from_old
  | None => []
  end.

(** 575-608: retained deltas not covered by the reused references, newest first. *)
Definition to_write (reused : list dref) (r : rrdp) : list ddata :=
  match last (map Some reused) None with
  | Some hi => filter (fun d => negb (d_serial d <=? dr_serial hi)) (r_deltas r)
  | None => r_deltas r
  end.

(** 610-616: new references (newest first) followed by the reused ones, reversed. *)
Definition new_notif (old : option notif) (r : rrdp) : notif :=
  let reused := reusable old r in
  mkNotif (r_session r) (r_serial r) (snap_path r, snap_data r)
          (map (dref_of (r_session r)) (to_write reused r) ++ rev reused).

(** The files written before the switch, in order: the new deltas (newest first), the
    snapshot, new-notification.xml. *)
Definition planned (old : option notif) (r : rrdp) : list (path * fcontent) :=
  map (fun d => (delta_path (r_session r) d, CData (delta_data (r_session r) d))) (to_write (reusable old r) r)
  ++ [(snap_path r, CData (snap_data r)); (newnotif_path, CNotif (new_notif old r))].

(** Everything up to and including the notification switch. *)
Definition write_ops (old : option notif) (r : rrdp) : list fsop :=
  flat_map (fun pc => save_c (fst pc) (snd pc)) (planned old r) ++ [ORename newnotif_path notif_path true].

(** 696-853. *)
Definition lowest_delta (r : rrdp) : N := match last (map Some (r_deltas r)) None with Some d => d_serial d | None => 0 end.
Definition highest_delta (r : rrdp) : N := match r_deltas r with d :: _ => d_serial d | [] => 0 end.

Definition cleanup_base (f : fs) (r : rrdp) : list fsop :=
  flat_map (fun e : name * bool =>
              let keep := match fst e with NSess s => s =? r_session r | _ => false end in
              if keep then [] else if snd e then [ORemoveTree (rrdp_dir ++ [fst e]) true] else [])
           (listing rrdp_dir f).

Definition cleanup_session (f : fs) (r : rrdp) (archive : bool) : list fsop :=
  let sd := sess_dir (r_session r) in
  if negb (fs_is_dir sd f) then [OFail] else
  flat_map (fun e : name * bool =>
    let p := sd ++ [fst e] in
    match fst e with
    | NSer s =>
        if s =? r_serial r then []
        else if (s <? lowest_delta r) || (highest_delta r <? s)
        then if archive then [OArchive p (archive_dest (r_session r) s)]
             else if snd e then [ORemoveTree p true] else [ORemoveFile p true]
        else if archive then [] else [ORmSnapshotIn sd s]
    | _ => if snd e then [ORemoveTree p true] else [ORemoveFile p true]
    end) (listing sd f).

Definition cleanup_ops (f : fs) (r : rrdp) (archive : bool) : list fsop :=
  (if fs_is_dir rrdp_dir f then cleanup_base f r else [OFail]) ++ cleanup_session f r archive.

Definition up_to_date (old : option notif) (r : rrdp) : bool :=
  match old with Some n => (n_serial n =? r_serial r) && (n_session n =? r_session r) | None => false end.

Definition update_rrdp_files (f : fs) (r : rrdp) (archive : bool) : list fsop :=
  let old := read_notif f in
  if up_to_date old r then []
  else let main := write_ops old r in
       main ++ cleanup_ops (fst (run main f)) r archive.

(** ** Consistency notions *)
(** The (path, hash) pairs a notification names. *)
Definition refs (n : notif) : list (path * fdata) := n_snap n :: map (fun x => (dr_path x, dr_hash x)) (n_deltas n).
Definition NotifOkN (f : fs) (n : notif) : Prop :=
  forall p d, In (p, d) (refs n) -> fs_file p f = Some (CData d).
Definition NotifOk (f : fs) : Prop :=
  match read_notif f with Some n => NotifOkN f n | None => True end.
Definition notif_ok_b (f : fs) : bool :=
  match read_notif f with
  | Some n => forallb (fun pd => match fs_file (fst pd) f with Some (CData d) => fdata_eqb d (snd pd) | _ => false end) (refs n)
  | None => true
  end.

(** References have the layout this code produces: the delta for serial [s] lives in
    <session>/<s>/<random>/delta.xml, the snapshot in <session>/<serial>/<random>/snapshot.xml,
    no delta is newer than the notification. *)
Definition dref_wf (sess top : N) (x : dref) : Prop :=
  (exists rnd, dr_path x = [NRrdp; NSess sess; NSer (dr_serial x); NRand rnd; NDelta]) /\ dr_serial x <= top.
Definition NotifWf (n : notif) : Prop :=
  (exists rnd, fst (n_snap n) = [NRrdp; NSess (n_session n); NSer (n_serial n); NRand rnd; NSnap])
  /\ forall x, In x (n_deltas n) -> dref_wf (n_session n) (n_serial n) x.

(** The files about to be written are not the ones the old notification names (they are new
    paths: other serial, fresh random component). [create_file] empties an existing file
    before it is rewritten, so rewriting a file that is still referenced would expose an
    empty file for a moment. *)
Definition PlannedFresh (old : option notif) (r : rrdp) : Prop :=
  match old with
  | Some n => forall p c d, In (p, c) (planned old r) -> ~ In (p, d) (refs n)
  | None => True
  end.

(** The old notification is not ahead of the server state (it would be after a write with a
    stale [Arc<RepositoryContent>], candidate F11d). *)
Definition NotAhead (old : option notif) (r : rrdp) : Prop :=
  match old with Some n => n_session n = r_session r -> n_serial n <= r_serial r | None => True end.

(** The old notification was written from an earlier state of this server in this session: it
    lists that state's deltas [ds0] (newest first, down from its serial), and the server's
    retained deltas are newer ones followed by an initial segment of [ds0]. *)
Definition notif_of (r : rrdp) : notif :=
  mkNotif (r_session r) (r_serial r) (snap_path r, snap_data r) (map (dref_of (r_session r)) (r_deltas r)).
Definition Descends (n : notif) (r : rrdp) : Prop :=
  exists (ds0 newer : list ddata) (k : nat),
    n_deltas n = map (dref_of (r_session r)) ds0 /\ contig (n_serial n) ds0 /\
    r_deltas r = newer ++ firstn k ds0 /\ (forall d, In d newer -> n_serial n < d_serial d).
Definition Agrees (old : option notif) (r : rrdp) : Prop :=
  match old with Some n => n_session n = r_session r -> Descends n r | None => True end.

(** The notification on disk is the one of the state, and what it names is there. *)
Definition FilesMatch (r : rrdp) (f : fs) : Prop := read_notif f = Some (notif_of r) /\ NotifOk f.

(** ** The client's view of the files *)
Definition fetch (f : fs) (p : path) (h : fdata) : option fdata :=
  match fs_file p f with Some (CData d) => if fdata_eqb d h then Some d else None | _ => None end.

Definition offer_of_files (f : fs) : option offer :=
  match read_notif f with
  | None => None
  | Some n =>
      match fetch f (fst (n_snap n)) (snd (n_snap n)) with
      | Some (DSnap s ser o) =>
          if (s =? n_session n) && (ser =? n_serial n)
          then Some (mkOffer (n_session n) (n_serial n) o
                 (flat_map (fun x => match fetch f (dr_path x) (dr_hash x) with
                                     | Some (DDelta s' ser' e) =>
                                         if (s' =? n_session n) && (ser' =? dr_serial x) then [(ser', e)] else []
                                     | _ => []
                                     end) (n_deltas n)))
          else None
      | _ => None
      end
  end.
