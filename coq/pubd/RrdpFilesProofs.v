(** * pubd/RrdpFilesProofs.v - the RRDP files are consistent at every instant of an update

    Main result: [files_consistent_at_every_prefix]. Take any directory tree whose notification
    (if it has one) names only files that are present with the stated hashes, and any server
    state; run any prefix of the operations of [update_rrdp_files]. The notification file then
    holds either exactly what it held before or the complete new notification, and what it holds
    names only files present with the stated hashes. Side conditions, all explicit:
      - [PlannedFresh]: the files about to be written are not among those the old notification
        names (they are new paths: other serial, fresh random component);
      - [NotAhead]: the old notification is not ahead of the state (candidate F11d);
      - the old notification has the layout this code produces ([NotifWf]; preserved);
      - the retained deltas are contiguous ([deltas_contiguous] of RrdpProofs.v).
    Before commit 861388f0 files were opened without truncation; then a stale longer
    new-notification.xml corrupted the next notification: [stale_new_notification_corrupts]
    (finding F11g, fixed; the witness is about the pinned procedure). *)
From KV Require Import base.Tac pubd.Objects pubd.ObjectsProofs pubd.Staged pubd.Access pubd.Content
  pubd.Rrdp pubd.RrdpProofs pubd.Fs pubd.FsProofs pubd.RrdpFiles.
Open Scope N_scope.

(** ** Content comparison is reflexive *)
Lemma seteq_refl {A : Type} (eqb : A -> A -> bool) (l : list A) : (forall x, eqb x x = true) -> seteq eqb l l = true.
Proof.
  intros Hr. unfold seteq. rewrite N.eqb_refl. simpl.
  assert (H : forallb (fun x => existsb (eqb x) l) l = true).
  { apply forallb_forall. intros x Hx. apply existsb_exists. exists x. auto. }
  rewrite H. reflexivity.
Qed.
Lemma obj_eqb'_refl o : obj_eqb' o o = true.
Proof. unfold obj_eqb'. rewrite !N.eqb_refl. reflexivity. Qed.
Lemma uri_eqb_refl' u : uri_eqb u u = true.
Proof. apply uri_eqb_spec. reflexivity. Qed.
Lemma elem_eqb'_refl e : elem_eqb' e e = true.
Proof. destruct e; simpl; rewrite ?uri_eqb_refl', ?obj_eqb'_refl, ?N.eqb_refl; reflexivity. Qed.
Lemma fdata_eqb_refl d : fdata_eqb d d = true.
Proof.
  destruct d; simpl; rewrite ?N.eqb_refl; try reflexivity; simpl; apply seteq_refl.
  - intros [u ob]. unfold entry_eqb'. simpl. rewrite uri_eqb_refl', obj_eqb'_refl. reflexivity.
  - apply elem_eqb'_refl.
Qed.
Lemma list_eqb_refl {A : Type} (eqb : A -> A -> bool) (l : list A) : (forall x, eqb x x = true) -> list_eqb eqb l l = true.
Proof. intros Hr. induction l; simpl; [reflexivity|]. rewrite Hr, IHl. reflexivity. Qed.
Lemma notif_eqb_refl n : notif_eqb n n = true.
Proof.
  unfold notif_eqb. rewrite !N.eqb_refl, path_eqb_refl, fdata_eqb_refl. simpl. apply list_eqb_refl.
  intros [[s p] d]. unfold dref_eqb. simpl. rewrite N.eqb_refl, path_eqb_refl, fdata_eqb_refl. reflexivity.
Qed.
Lemma fcontent_eqb_refl c : fcontent_eqb c c = true.
Proof. destruct c; simpl; auto using fdata_eqb_refl, notif_eqb_refl. Qed.
Lemma overlay_same c : overlay c c = c.
Proof. unfold overlay. destruct c; try reflexivity; rewrite fcontent_eqb_refl; reflexivity. Qed.

(** ** The save phase *)
Definition saves (W : list (path * fcontent)) : list fsop := flat_map (fun pc => save_c (fst pc) (snd pc)) W.

Lemma in_saves o W : In o (saves W) -> exists p c, In (p, c) W /\ (o = OMkParents p \/ o = OCreateFile p \/ o = OWrite p c).
Proof.
  unfold saves. rewrite in_flat_map. intros [[p c] [Hin Ho]]. exists p, c. split; [exact Hin|].
  simpl in Ho. destruct Ho as [<-|[<-|[<-|[]]]]; auto.
Qed.

(** An operation of the save sequence for [(p, c)] leaves every other file alone. *)
Lemma save_op_frame o p c f f' :
  (o = OMkParents p \/ o = OCreateFile p \/ o = OWrite p c) -> p <> [] -> exec o f = Some f' ->
  forall q, q <> p -> fs_file q f' = fs_file q f.
Proof.
  intros [ -> | [ -> | -> ] ] Hp H q Hq.
  - rewrite exec_mkparents in H. eapply mk_parents_file; eassumption.
  - rewrite exec_create in H. unfold fs_file. rewrite (proj1 (create_file_get p f f' q H Hp) Hq). reflexivity.
  - rewrite exec_write in H. unfold fs_file. rewrite (proj1 (write_file_get p c f f' q H Hp) Hq). reflexivity.
Qed.

Definition PathsOk (W : list (path * fcontent)) : Prop :=
  NoDup (map fst W) /\ forall p c, In (p, c) W -> p <> [].

(** The invariant of the save phase relative to the starting tree [f0]: nothing but the planned
    files changes. *)
Definition SaveInv (W : list (path * fcontent)) (f0 f : fs) : Prop :=
  forall q, ~ In q (map fst W) -> fs_file q f = fs_file q f0.

Lemma saveinv_step W f0 o f f' :
  PathsOk W -> In o (saves W) -> SaveInv W f0 f -> exec o f = Some f' -> SaveInv W f0 f'.
Proof.
  intros [Hn Hp] Hin I1 He. destruct (in_saves _ _ Hin) as [p [c [Hw Ho]]].
  intros q Hq. rewrite (save_op_frame _ _ _ _ _ Ho (Hp _ _ Hw) He); [apply I1; exact Hq|].
  intros ->. apply Hq. apply (in_map fst) in Hw. exact Hw.
Qed.

Lemma saveinv_init W f0 : SaveInv W f0 f0.
Proof. intros q _. reflexivity. Qed.

(** When the whole phase has succeeded every planned file holds its content: it was emptied
    when it was opened and then written. *)
Lemma saves_done W : forall f,
  PathsOk W -> snd (run (saves W) f) = true ->
  forall p c, In (p, c) W -> fs_file p (fst (run (saves W) f)) = Some c.
Proof.
  induction W as [|[p0 c0] W IH]; intros f [Hn Hp] Hok p c Hin; [destruct Hin|].
  simpl in Hn. inv Hn.
  pose proof (Hp p0 c0 (or_introl eq_refl)) as Hp0.
  change (saves ((p0, c0) :: W)) with (OMkParents p0 :: OCreateFile p0 :: OWrite p0 c0 :: saves W) in *.
  rewrite run_cons, exec_mkparents in *.
  destruct (mk_parents p0 f) as [f1|] eqn:E1; [|discriminate Hok].
  rewrite run_cons, exec_create in *.
  destruct (create_file p0 f1) as [f2|] eqn:E2; [|discriminate Hok].
  rewrite run_cons, exec_write in *.
  destruct (write_file p0 c0 f2) as [f3|] eqn:E3; [|discriminate Hok].
  assert (F3 : fs_file p0 f3 = Some c0).
  { destruct (write_file_get p0 c0 f2 f3 p0 E3 Hp0) as [_ [old [G1 G2]]].
    unfold fs_file at 1. rewrite G2.
    destruct (create_file_get p0 f1 f2 p0 E2 Hp0) as [_ G3].
    apply fs_file_get in G3. rewrite G3 in G1. inv G1. reflexivity. }
  assert (PW : PathsOk W) by (split; [assumption|intros; eapply Hp; right; eassumption]).
  destruct Hin as [Hin|Hin].
  - inv Hin.
    assert (G : fs_file p (fst (run (saves W) f3)) = fs_file p f3).
    { apply (run_inv (fun g => fs_file p g = fs_file p f3)); [|reflexivity].
      intros o g g' Ho Hg He. destruct (in_saves _ _ Ho) as [p' [c' [Hw Hk]]].
      rewrite (save_op_frame _ _ _ _ _ Hk (Hp p' c' (or_intror Hw)) He); [exact Hg|].
      intros ->. apply H1. apply (in_map fst) in Hw. exact Hw. }
    rewrite G. exact F3.
  - apply IH; assumption.
Qed.

(** ** The layout of references *)
Lemma in_insert_sorted x y l : In x (insert_sorted y l) <-> x = y \/ In x l.
Proof.
  induction l as [|z l IH]; simpl; [intuition congruence|].
  destruct (dr_serial y <? dr_serial z); simpl; [intuition congruence|]. rewrite IH. intuition congruence.
Qed.
Lemma in_sort_refs x l : In x (sort_refs l) <-> In x l.
Proof.
  unfold sort_refs. induction l as [|y l IH]; simpl; [tauto|]. rewrite in_insert_sorted, IH. split; intros [H|H]; auto.
Qed.

Lemma last_some_in {A : Type} (l : list A) x : last (map Some l) None = Some x -> In x l.
Proof.
  induction l as [|a l IH]; simpl; [discriminate|]. destruct l as [|b l]; simpl in *; [intros H; inv H; auto|].
  intros H. right. apply IH. exact H.
Qed.
Lemma last_none_nil {A : Type} (l : list A) : last (map Some l) None = None -> l = [].
Proof.
  induction l as [|a l IH]; simpl; [reflexivity|]. destruct l as [|b l]; simpl in *; [discriminate|]. intros H. specialize (IH H). discriminate.
Qed.

Lemma contig_in s ds d : contig s ds -> In d ds -> 1 < d_serial d <= s.
Proof.
  intros Hc Hin. apply In_nth_error in Hin. destruct Hin as [i Hi].
  destruct (contig_nth _ _ Hc _ _ Hi). lia.
Qed.
Lemma contig_lowest s ds d l : contig s ds -> In d ds -> last (map Some ds) None = Some l -> d_serial l <= d_serial d.
Proof.
  revert s. induction ds as [|x ds IH]; intros s Hc Hin Hl; [destruct Hin|].
  destruct Hc as [H1 [H2 H3]]. destruct ds as [|y ds'].
  - simpl in Hl. inv Hl. destruct Hin as [->|[]]. lia.
  - change (last (map Some (x :: y :: ds')) None) with (last (map Some (y :: ds')) None) in Hl.
    destruct Hin as [->|Hin].
    + apply last_some_in in Hl. destruct (contig_in _ _ _ H3 Hl). lia.
    + eapply IH; eassumption.
Qed.

(** ** The new notification: layout and range of its references *)
Lemma lowest_delta_in r l : last (map Some (r_deltas r)) None = Some l -> lowest_delta r = d_serial l.
Proof. unfold lowest_delta. intros ->. reflexivity. Qed.

Lemma highest_is_serial r : contig (r_serial r) (r_deltas r) -> r_deltas r <> [] -> highest_delta r = r_serial r.
Proof. unfold highest_delta. destruct (r_deltas r) as [|d ds]; [congruence|]. intros [H _] _. exact H. Qed.

Lemma delta_in_range r d : contig (r_serial r) (r_deltas r) -> In d (r_deltas r) ->
  lowest_delta r <= d_serial d <= highest_delta r /\ d_serial d <= r_serial r.
Proof.
  intros Hc Hin. assert (Hne : r_deltas r <> []) by (intros E; rewrite E in Hin; destruct Hin).
  rewrite (highest_is_serial r Hc Hne). destruct (contig_in _ _ _ Hc Hin) as [_ Hle].
  split; [split; [|exact Hle]|exact Hle].
  destruct (last (map Some (r_deltas r)) None) as [l|] eqn:El.
  - rewrite (lowest_delta_in r l El). eapply contig_lowest; eassumption.
  - apply last_none_nil in El. congruence.
Qed.

Lemma reusable_in old r x : In x (reusable old r) ->
  exists n, old = Some n /\ n_session n = r_session r /\ In x (n_deltas n) /\ lowest_delta r <= dr_serial x /\ r_deltas r <> [].
Proof.
  unfold reusable. destruct (last (map Some (r_deltas r)) None) as [l|] eqn:El; [|intros []].
  intros H. apply filter_In in H. destruct H as [Hin Hle]. apply N.leb_le in Hle.
  destruct old as [n|]; [|destruct Hin].
  destruct (n_session n =? r_session r) eqn:Es; [|destruct Hin]. apply N.eqb_eq in Es.
  destruct (no_gaps (sort_refs (n_deltas n))); [|destruct Hin].
  apply (proj1 (in_sort_refs _ _)) in Hin. exists n. rewrite (lowest_delta_in r l El).
  split; [reflexivity|]. split; [exact Es|]. split; [exact Hin|]. split; [exact Hle|].
  intros E. rewrite E in El. discriminate.
Qed.

Lemma to_write_incl reused r d : In d (to_write reused r) -> In d (r_deltas r).
Proof.
  unfold to_write. destruct (last (map Some reused) None); [|auto]. intros H. apply filter_In in H. tauto.
Qed.

(** The paths the clean-up must leave alone. *)
Definition Keep (r : rrdp) (q : path) : Prop :=
  q = notif_path \/ q = snap_path r
  \/ exists s rnd, q = [NRrdp; NSess (r_session r); NSer s; NRand rnd; NDelta] /\ lowest_delta r <= s <= highest_delta r.

Lemma new_notif_refs_keep old r :
  contig (r_serial r) (r_deltas r) -> (forall m, old = Some m -> NotifWf m) -> NotAhead old r ->
  forall p d, In (p, d) (refs (new_notif old r)) -> Keep r p.
Proof.
  intros Hc Hwf Hna p d Hin. unfold refs, new_notif in Hin. cbn [n_snap n_deltas] in Hin.
  destruct Hin as [Hin|Hin]; [inv Hin; right; left; reflexivity|].
  apply in_map_iff in Hin. destruct Hin as [x [Ex Hx]]. inv Ex. right. right.
  apply in_app_iff in Hx. destruct Hx as [Hx|Hx].
  - apply in_map_iff in Hx. destruct Hx as [dd [<- Hd]]. apply to_write_incl in Hd.
    exists (d_serial dd), (d_rnd dd). split; [reflexivity|]. apply (delta_in_range r dd Hc Hd).
  - apply in_rev in Hx. destruct (reusable_in _ _ _ Hx) as [n [-> [Es [Hn [Hlo Hne]]]]].
    destruct (Hwf n eq_refl) as [_ Hd]. destruct (Hd x Hn) as [[rnd Hp] Hle].
    exists (dr_serial x), rnd. split; [rewrite Hp, Es; reflexivity|].
    split; [exact Hlo|]. rewrite (highest_is_serial r Hc Hne). simpl in Hna. specialize (Hna Es). lia.
Qed.

Lemma new_notif_wf old r :
  contig (r_serial r) (r_deltas r) -> (forall m, old = Some m -> NotifWf m) -> NotAhead old r ->
  NotifWf (new_notif old r).
Proof.
  intros Hc Hwf Hna. split; [exists (r_snaprnd r); reflexivity|].
  intros x Hx. unfold new_notif in Hx. cbn [n_deltas n_session n_serial] in *.
  apply in_app_iff in Hx. destruct Hx as [Hx|Hx].
  - apply in_map_iff in Hx. destruct Hx as [dd [<- Hd]]. apply to_write_incl in Hd.
    split; [exists (d_rnd dd); reflexivity|]. apply (delta_in_range r dd Hc Hd).
  - apply in_rev in Hx. destruct (reusable_in _ _ _ Hx) as [n [-> [Es [Hn [Hlo Hne]]]]].
    destruct (Hwf n eq_refl) as [_ Hd]. destruct (Hd x Hn) as [[rnd Hp] Hle].
    split; [exists rnd; rewrite Hp, Es; reflexivity|]. simpl in Hna. specialize (Hna Es). unfold new_notif. cbn. lia.
Qed.

(** ** The clean-up leaves the kept paths alone *)
Definition OutOfKeep (r : rrdp) (n : name) : Prop :=
  match n with
  | NSer s => s <> r_serial r /\ (s < lowest_delta r \/ highest_delta r < s)
  | _ => True
  end.

Lemma cleanup_op_cases f r archive o : In o (cleanup_ops f r archive) ->
  o = OFail
  \/ (exists n, o = ORemoveTree [NRrdp; n] true /\ n <> NSess (r_session r))
  \/ (exists n, OutOfKeep r n /\
        (o = ORemoveTree (sess_dir (r_session r) ++ [n]) true \/ o = ORemoveFile (sess_dir (r_session r) ++ [n]) true
         \/ exists dst, o = OArchive (sess_dir (r_session r) ++ [n]) dst /\ under [NArchive] dst = true))
  \/ (exists s, o = ORmSnapshotIn (sess_dir (r_session r)) s /\ s <> r_serial r).
Proof.
  unfold cleanup_ops. rewrite in_app_iff. intros [H|H].
  - destruct (fs_is_dir rrdp_dir f); [|destruct H as [<-|[]]; left; reflexivity].
    unfold cleanup_base in H. apply in_flat_map in H. destruct H as [[n b] [_ H]]. cbn [fst snd] in H.
    destruct (match n with NSess s => s =? r_session r | _ => false end) eqn:Ek; [destruct H|].
    destruct b; [|destruct H]. destruct H as [<-|[]]. right. left. exists n. split; [reflexivity|].
    intros ->. rewrite N.eqb_refl in Ek. discriminate.
  - unfold cleanup_session in H. destruct (negb (fs_is_dir (sess_dir (r_session r)) f)); [destruct H as [<-|[]]; left; reflexivity|].
    apply in_flat_map in H. destruct H as [[n b] [_ H]]. cbn [fst snd] in H.
    assert (Dflt : In o (if b then [ORemoveTree (sess_dir (r_session r) ++ [n]) true] else [ORemoveFile (sess_dir (r_session r) ++ [n]) true]) ->
                   OutOfKeep r n -> (exists n, OutOfKeep r n /\
        (o = ORemoveTree (sess_dir (r_session r) ++ [n]) true \/ o = ORemoveFile (sess_dir (r_session r) ++ [n]) true
         \/ exists dst, o = OArchive (sess_dir (r_session r) ++ [n]) dst /\ under [NArchive] dst = true))).
    { intros Hd Ho. exists n. split; [exact Ho|]. destruct b; destruct Hd as [<-|[]]; auto. }
    destruct n; try (right; right; left; apply Dflt; [exact H|exact I]).
    destruct (n =? r_serial r) eqn:E1; [destruct H|]. apply N.eqb_neq in E1.
    destruct ((n <? lowest_delta r) || (highest_delta r <? n)) eqn:E2.
    + assert (Ho : OutOfKeep r (NSer n)).
      { split; [exact E1|]. apply orb_true_iff in E2. destruct E2 as [E2|E2]; apply N.ltb_lt in E2; auto. }
      destruct archive.
      * destruct H as [<-|[]]. right. right. left. exists (NSer n). split; [exact Ho|]. right. right. eexists. split; reflexivity.
      * right. right. left. apply Dflt; assumption.
    + destruct archive; [destruct H|]. destruct H as [<-|[]]. right. right. right. exists n. auto.
Qed.

Lemma remove_tree_inv p f f' : remove_tree p f = Some f' -> p <> [] /\ fs_is_dir p f = true /\ f' = remove_under p f.
Proof. unfold remove_tree. destruct p; [discriminate|]. destruct (fs_is_dir _ f) eqn:E; [|discriminate]. intros H; inv H. repeat split. discriminate. Qed.
Lemma remove_file_inv p f f' : remove_file p f = Some f' -> (exists c, fs_file p f = Some c) /\ f' = remove_under p f.
Proof. unfold remove_file. destruct (fs_file p f) eqn:E; [|discriminate]. intros H; inv H. eauto. Qed.

Lemma file_remove_under p q f : q <> [] -> under p q = false -> fs_file q (remove_under p f) = fs_file q f.
Proof. intros Hq Hu. unfold fs_file. rewrite get_remove_under by assumption. rewrite Hu. reflexivity. Qed.

Lemma keep_nonempty r q : Keep r q -> q <> [].
Proof. intros [->|[->|[s [rnd [-> _]]]]]; discriminate. Qed.

Lemma is_snapshot_in_shape sd s q : is_snapshot_in sd s q = true -> exists x, q = sd ++ [NSer s; NRand x; NSnap].
Proof.
  unfold is_snapshot_in. intros H.
  destruct (skipn (length sd) q) as [|a t] eqn:E; [discriminate|]. destruct a; try discriminate.
  destruct t as [|b t]; [discriminate|]. destruct b; try discriminate.
  destruct t as [|c t]; [discriminate|]. destruct c; try discriminate.
  destruct t; [|discriminate].
  rewrite andb_true_iff, N.eqb_eq in H. destruct H as [Hu ->]. apply under_spec in Hu. destruct Hu as [t ->].
  rewrite skipn_app_exact in E. subst t. eauto.
Qed.

Lemma cleanup_keeps f0 r archive o f f' q :
  In o (cleanup_ops f0 r archive) -> exec o f = Some f' -> Keep r q ->
  (q = notif_path -> fs_file q f <> None) -> fs_file q f' = fs_file q f.
Proof.
  intros Hin He Hk Hnf. pose proof (keep_nonempty _ _ Hk) as Hq.
  destruct (cleanup_op_cases _ _ _ _ Hin) as [->|[[n [-> Hn]]|[[n [Ho Hc]]|[s [-> Hs]]]]].
  - rewrite exec_fail in He. discriminate.
  - rewrite exec_remove_tree in He. apply remove_tree_inv in He. destruct He as [_ [Hd ->]].
    apply file_remove_under; [exact Hq|].
    destruct Hk as [->|[->|[s [rnd [-> _]]]]]; simpl.
    + destruct (name_eqb n NNotif) eqn:E; [|reflexivity]. apply name_eqb_spec in E. subst n.
      exfalso. apply Hnf; [reflexivity|]. unfold fs_file. unfold fs_is_dir in Hd.
      change notif_path with [NRrdp; NNotif]. destruct (fs_get [NRrdp; NNotif] f) as [[|c]|]; [reflexivity|discriminate|reflexivity].
    + destruct (name_eqb n (NSess (r_session r))) eqn:E; [apply name_eqb_spec in E; contradiction|reflexivity].
    + destruct (name_eqb n (NSess (r_session r))) eqn:E; [apply name_eqb_spec in E; contradiction|reflexivity].
  - assert (Hu : under (sess_dir (r_session r) ++ [n]) q = false).
    { destruct Hk as [->|[->|[s [rnd [-> Hr]]]]]; simpl.
      - reflexivity.
      - rewrite ?N.eqb_refl. simpl. destruct (name_eqb n (NSer (r_serial r))) eqn:E; [|reflexivity].
        apply name_eqb_spec in E. subst n. destruct Ho as [Ho _]. congruence.
      - rewrite ?N.eqb_refl. simpl. destruct (name_eqb n (NSer s)) eqn:E; [|reflexivity].
        apply name_eqb_spec in E. subst n. destruct Ho as [_ Ho]. lia. }
    destruct Hc as [->|[->|[dst [-> Hdst]]]].
    + rewrite exec_remove_tree in He. apply remove_tree_inv in He. destruct He as [_ [_ ->]]. apply file_remove_under; assumption.
    + rewrite exec_remove_file in He. apply remove_file_inv in He. destruct He as [_ ->]. apply file_remove_under; assumption.
    + rewrite exec_archive in He. destruct (mkdir_all dst f) as [f1|] eqn:E1; [|discriminate].
      rewrite <- (mkdir_all_file dst f f1 q E1). unfold fs_file.
      assert (Hd : exists t, dst = NArchive :: t).
      { destruct dst as [|a t]; [discriminate|]. simpl in Hdst. destruct a; try discriminate. eauto. }
      destruct Hd as [t ->].
      rewrite (rename_get _ _ _ _ q He); [| reflexivity | reflexivity | exact Hq].
      rewrite Hu.
      assert (Hnd : under (NArchive :: t) q = false).
      { destruct Hk as [->|[->|[s [rnd [-> _]]]]]; reflexivity. }
      rewrite Hnd. reflexivity.
  - rewrite exec_rmsnap in He. destruct (find_snapshot_in (sess_dir (r_session r)) s f) as [q0|] eqn:Ef; [|inv He; reflexivity].
    apply remove_file_inv in He. destruct He as [_ ->].
    unfold find_snapshot_in in Ef. destruct (find _ f) as [e|] eqn:Efi; [|discriminate]. inv Ef.
    apply find_some in Efi. destruct Efi as [_ Hsn]. apply andb_true_iff in Hsn. destruct Hsn as [Hsn _].
    destruct (is_snapshot_in_shape _ _ _ Hsn) as [x Ex]. rewrite Ex.
    apply file_remove_under; [exact Hq|].
    destruct Hk as [->|[->|[s' [rnd [-> _]]]]]; simpl; rewrite ?N.eqb_refl; simpl.
    + reflexivity.
    + destruct (s =? r_serial r) eqn:E; [apply N.eqb_eq in E; contradiction|reflexivity].
    + destruct (s =? s'); simpl; [|reflexivity]. destruct (x =? rnd); reflexivity.
Qed.

(** ** The planned files have pairwise different, non-empty paths *)
Lemma nodup_map_coarser {A B C : Type} (f : A -> B) (g : A -> C) (l : list A) :
  (forall x y, f x = f y -> g x = g y) -> NoDup (map g l) -> NoDup (map f l).
Proof.
  intros H. induction l as [|a l IH]; simpl; intros Hn; [constructor|]. inv Hn. constructor; [|auto].
  intros Hin. apply H2. apply in_map_iff in Hin. destruct Hin as [y [Ey Hy]]. apply in_map_iff. exists y. split; [|exact Hy].
  symmetry. apply H. symmetry. exact Ey.
Qed.

Lemma contig_nodup s ds : contig s ds -> NoDup (map d_serial ds).
Proof.
  revert s. induction ds as [|d ds IH]; intros s H; simpl; [constructor|]. destruct H as [H1 [H2 H3]].
  constructor; [|eapply IH; eassumption]. intros Hin. apply in_map_iff in Hin. destruct Hin as [y [Ey Hy]].
  destruct (contig_in _ _ _ H3 Hy). lia.
Qed.

Lemma nodup_map_filter {A B : Type} (g : A -> B) (p : A -> bool) (l : list A) : NoDup (map g l) -> NoDup (map g (filter p l)).
Proof.
  induction l as [|a l IH]; simpl; intros Hn; [constructor|]. inv Hn. destruct (p a); simpl; [|auto].
  constructor; [|auto]. intros Hin. apply H1. apply in_map_iff in Hin. destruct Hin as [y [Ey Hy]].
  apply filter_In in Hy. apply in_map_iff. exists y. tauto.
Qed.

Lemma planned_paths_ok old r : contig (r_serial r) (r_deltas r) -> PathsOk (planned old r).
Proof.
  intros Hc. unfold planned. split.
  - rewrite map_app, map_map. cbn [map fst]. apply NoDup_app_intro.
    + apply (nodup_map_coarser _ d_serial); [intros x y H; inv H; reflexivity|].
      unfold to_write. destruct (last (map Some (reusable old r)) None).
      * apply nodup_map_filter. eapply contig_nodup; eassumption.
      * eapply contig_nodup; eassumption.
    + constructor; [intros [H|[]]; discriminate|]. constructor; [intros []|constructor].
    + intros p H1 H2. apply in_map_iff in H1. destruct H1 as [d [<- _]].
      destruct H2 as [H2|[H2|[]]]; discriminate.
  - intros p c Hin. apply in_app_iff in Hin. destruct Hin as [Hin|[Hin|[Hin|[]]]].
    + apply in_map_iff in Hin. destruct Hin as [d [E _]]. inv E. discriminate.
    + inv Hin. discriminate.
    + inv Hin. discriminate.
Qed.

Lemma notif_not_planned old r : ~ In notif_path (map fst (planned old r)).
Proof.
  unfold planned. rewrite map_app, map_map. cbn [map fst]. rewrite in_app_iff. intros [H|[H|[H|[]]]]; try discriminate.
  apply in_map_iff in H. destruct H as [d [E _]]. discriminate.
Qed.

(** ** Putting the phases together *)
Definition Kinv (nw : notif) (f : fs) : Prop := fs_file notif_path f = Some (CNotif nw) /\ NotifOkN f nw.

Lemma read_notif_ext f g : fs_file notif_path g = fs_file notif_path f -> read_notif g = read_notif f.
Proof. unfold read_notif. intros ->. reflexivity. Qed.

Section Update.
  Variables (f0 : fs) (r : rrdp) (archive : bool).
  Local Notation old := (read_notif f0).
  Local Notation W := (planned (read_notif f0) r).
  Local Notation nw := (new_notif (read_notif f0) r).
  Hypothesis Hok : NotifOk f0.
  Hypothesis Hwf : forall m, old = Some m -> NotifWf m.
  Hypothesis Hna : NotAhead old r.
  Hypothesis Hfr : PlannedFresh old r.
  Hypothesis Hc : contig (r_serial r) (r_deltas r).

  Local Notation HP := (planned_paths_ok old r Hc).

  (** References of the old notification survive the save phase. *)
  Lemma old_refs_preserved f n : SaveInv W f0 f -> old = Some n -> NotifOkN f n.
  Proof.
    intros I1 En p d Hin.
    assert (H0 : fs_file p f0 = Some (CData d)).
    { unfold NotifOk in Hok. rewrite En in Hok. apply Hok. exact Hin. }
    rewrite I1; [exact H0|].
    intros Hi. apply in_map_iff in Hi. destruct Hi as [[p' c] [Ep Hw]]. simpl in Ep. subst p'.
    pose proof Hfr as Hf. unfold PlannedFresh in Hf. revert Hf Hw. rewrite En. intros Hf Hw. apply (Hf p c d Hw Hin).
  Qed.

  (** Every state of the save phase is good. *)
  Lemma save_phase_good f : SaveInv W f0 f ->
    NotifOk f /\ (forall m, read_notif f = Some m -> NotifWf m) /\ fs_file notif_path f = fs_file notif_path f0.
  Proof.
    intros HI. assert (En : fs_file notif_path f = fs_file notif_path f0).
    { apply HI. apply notif_not_planned. }
    assert (Er : read_notif f = old) by (apply read_notif_ext; exact En).
    split; [|split; [rewrite Er; exact Hwf|exact En]].
    pose proof (old_refs_preserved f) as Hp.
    unfold NotifOk. rewrite Er. destruct (read_notif f0) as [n|] eqn:Eo; [|exact I].
    apply Hp; [exact HI|reflexivity].
  Qed.

  Lemma K_good f : Kinv nw f ->
    NotifOk f /\ (forall m, read_notif f = Some m -> NotifWf m) /\ fs_file notif_path f = Some (CNotif nw).
  Proof.
    intros [K1 K2]. assert (Er : read_notif f = Some nw) by (unfold read_notif; rewrite K1; reflexivity).
    split; [unfold NotifOk; rewrite Er; exact K2|]. split; [|exact K1].
    intros m Hm. rewrite Er in Hm. inv Hm. apply new_notif_wf; assumption.
  Qed.

  (** The switch. *)
  Lemma switch_establishes_K fA fB :
    SaveInv W f0 fA -> (forall p c, In (p, c) W -> fs_file p fA = Some c) ->
    rename newnotif_path notif_path fA = Some fB -> Kinv nw fB.
  Proof.
    intros HI Hdone Hr.
    assert (G : forall q, q <> [] -> fs_get q fB = if under notif_path q then fs_get (newnotif_path ++ skipn 2 q) fA
                                                  else if under newnotif_path q then None else fs_get q fA).
    { intros q Hq. apply (rename_get _ _ _ _ q Hr); [reflexivity|reflexivity|exact Hq]. }
    split.
    - unfold fs_file. rewrite G by discriminate. cbn [under notif_path name_eqb andb skipn app].
      assert (Hn : fs_file newnotif_path fA = Some (CNotif nw)).
      { apply Hdone. unfold planned. apply in_app_iff. right. right. left. reflexivity. }
      apply fs_file_get in Hn. change (newnotif_path ++ []) with newnotif_path. rewrite Hn. reflexivity.
    - intros p d Hin.
      assert (Hk : Keep r p) by (eapply new_notif_refs_keep; eassumption).
      assert (Hu : under notif_path p = false /\ under newnotif_path p = false /\ p <> []).
      { destruct Hk as [->|[->|[s [rnd [-> _]]]]].
        - (* the notification does not list itself *)
          exfalso. unfold refs, new_notif in Hin. cbn [n_snap n_deltas] in Hin.
          destruct Hin as [Hin|Hin]; [discriminate|].
          apply in_map_iff in Hin. destruct Hin as [x [Ex Hx]]. inv Ex.
          assert (Hk' : Keep r (dr_path x)).
          { eapply (new_notif_refs_keep old r Hc Hwf Hna _ (dr_hash x)). unfold refs. right. apply in_map_iff. exists x. split; [reflexivity|exact Hx]. }
          destruct (new_notif_wf old r Hc Hwf Hna) as [_ Hd]. destruct (Hd x Hx) as [[rnd Hp] _]. rewrite Hp in H0. discriminate.
        - repeat split; discriminate.
        - repeat split; discriminate. }
      destruct Hu as [U1 [U2 Hp]]. unfold fs_file. rewrite (G p Hp), U1, U2. fold (fs_file p fA).
      (* written now, or listed by the old notification *)
      unfold refs, new_notif in Hin. cbn [n_snap n_deltas] in Hin.
      destruct Hin as [Hin|Hin].
      + inv Hin. apply Hdone. unfold planned. apply in_app_iff. right. left. reflexivity.
      + apply in_map_iff in Hin. destruct Hin as [x [Ex Hx]]. inv Ex.
        apply in_app_iff in Hx. destruct Hx as [Hx|Hx].
        * apply in_map_iff in Hx. destruct Hx as [dd [<- Hd]]. apply Hdone. unfold planned. apply in_app_iff. left.
          apply in_map_iff. exists dd. split; [reflexivity|exact Hd].
        * apply in_rev in Hx. destruct (reusable_in _ _ _ Hx) as [n [En [_ [Hn _]]]].
          apply (old_refs_preserved fA n HI En). unfold refs. right. apply in_map_iff. exists x. split; [reflexivity|exact Hn].
  Qed.

  Lemma cleanup_preserves_K fB o f f' : In o (cleanup_ops fB r archive) -> Kinv nw f -> exec o f = Some f' -> Kinv nw f'.
  Proof.
    intros Hin [K1 K2] He. split.
    - rewrite (cleanup_keeps fB r archive o f f' notif_path Hin He); [exact K1|left; reflexivity|].
      intros _. rewrite K1. discriminate.
    - intros p d Hr. assert (Hk : Keep r p) by (eapply new_notif_refs_keep; eassumption).
      rewrite (cleanup_keeps fB r archive o f f' p Hin He Hk); [apply K2; exact Hr|].
      intros ->. rewrite K1. discriminate.
  Qed.

  Theorem files_consistent_reach f' :
    reach (update_rrdp_files f0 r archive) f0 f' ->
    NotifOk f' /\ (forall m, read_notif f' = Some m -> NotifWf m)
    /\ (fs_file notif_path f' = fs_file notif_path f0 \/ fs_file notif_path f' = Some (CNotif nw)).
  Proof.
    unfold update_rrdp_files. destruct (up_to_date old r).
    { intros [n ->]. rewrite firstn_nil. simpl. split; [exact Hok|]. split; [exact Hwf|left; reflexivity]. }
    unfold write_ops. fold (saves W).
    assert (I0 : SaveInv W f0 f0) by apply saveinv_init.
    assert (IA : forall f, reach (saves W) f0 f -> SaveInv W f0 f).
    { intros f Hr. eapply (reach_inv (SaveInv W f0)); [|exact I0|exact Hr].
      intros o g g' Ho Hg He. exact (saveinv_step _ f0 o g g' HP Ho Hg He). }
    assert (good_of_save : forall f, SaveInv W f0 f ->
      NotifOk f /\ (forall m, read_notif f = Some m -> NotifWf m)
      /\ (fs_file notif_path f = fs_file notif_path f0 \/ fs_file notif_path f = Some (CNotif nw))).
    { intros f HI. destruct (save_phase_good f HI) as [A [B C]]. auto. }
    assert (good_of_K : forall f, Kinv nw f ->
      NotifOk f /\ (forall m, read_notif f = Some m -> NotifWf m)
      /\ (fs_file notif_path f = fs_file notif_path f0 \/ fs_file notif_path f = Some (CNotif nw))).
    { intros f HK. destruct (K_good f HK) as [A [B C]]. auto. }
    set (fA := fst (run (saves W) f0)).
    assert (IfA : SaveInv W f0 fA) by (apply IA; exists (length (saves W)); rewrite firstn_all; reflexivity).
    intros Hr. apply reach_app in Hr. destruct Hr as [Hr|[Hmain Hr]].
    - (* within the writes and the switch *)
      apply reach_app in Hr. destruct Hr as [Hr|[Hsv Hr]]; [apply good_of_save; apply IA; exact Hr|].
      fold fA in Hr. destruct Hr as [n ->]. destruct n as [|n]; [apply good_of_save; exact IfA|].
      cbn [firstn]. rewrite firstn_nil. rewrite run_cons, run_nil, exec_rename. cbn [best_effort].
      destruct (rename newnotif_path notif_path fA) as [fB|] eqn:Er; cbn [fst]; [|apply good_of_save; exact IfA].
      apply good_of_K. eapply switch_establishes_K; [exact IfA| |exact Er].
      apply saves_done; [exact HP|exact Hsv].
    - (* within the clean-up *)
      rewrite run_app in Hmain. fold fA in Hmain.
      destruct (snd (run (saves W) f0)) eqn:Hsv; [|discriminate].
      rewrite run_cons, run_nil, exec_rename in Hmain. cbn [best_effort] in Hmain.
      destruct (rename newnotif_path notif_path fA) as [fB|] eqn:Er; [|discriminate].
      assert (EB : fst (run (saves W ++ [ORename newnotif_path notif_path true]) f0) = fB).
      { rewrite run_app. fold fA. rewrite Hsv. rewrite run_cons, run_nil, exec_rename, Er. reflexivity. }
      rewrite EB in Hr.
      assert (KB : Kinv nw fB).
      { eapply switch_establishes_K; [exact IfA| |exact Er]. apply saves_done; [exact HP|exact Hsv]. }
      apply good_of_K. eapply (reach_inv (Kinv nw)); [|exact KB|exact Hr].
      intros o g g' Ho Hg He. eapply cleanup_preserves_K; eassumption.
  Qed.
  (** A complete, successful run installs the new notification; its snapshot is the server's
      snapshot at the server's session and serial. *)
  Theorem update_files_success :
    up_to_date old r = false -> snd (run (update_rrdp_files f0 r archive) f0) = true ->
    let f' := fst (run (update_rrdp_files f0 r archive) f0) in
    fs_file notif_path f' = Some (CNotif nw) /\ NotifOkN f' nw
    /\ n_session nw = r_session r /\ n_serial nw = r_serial r
    /\ fs_file (snap_path r) f' = Some (CData (DSnap (r_session r) (r_serial r) (r_snapshot r))).
  Proof.
    intros Hup. unfold update_rrdp_files. rewrite Hup. unfold write_ops. fold (saves W).
    set (main := saves W ++ [ORename newnotif_path notif_path true]).
    intros Hok'. cbv zeta. rewrite run_app in *.
    destruct (snd (run main f0)) eqn:Hmain; [|discriminate].
    set (fA := fst (run (saves W) f0)).
    assert (IfA : SaveInv W f0 fA).
    { apply (run_inv (SaveInv W f0)); [|apply saveinv_init]. intros o g g' Ho Hg He. exact (saveinv_step _ f0 o g g' HP Ho Hg He). }
    unfold main in Hmain. rewrite run_app in Hmain. fold fA in Hmain.
    destruct (snd (run (saves W) f0)) eqn:Hsv; [|discriminate].
    rewrite run_cons, run_nil, exec_rename in Hmain. cbn [best_effort] in Hmain.
    destruct (rename newnotif_path notif_path fA) as [fB|] eqn:Er; [|discriminate].
    assert (EB : fst (run main f0) = fB).
    { unfold main. rewrite run_app. fold fA. rewrite Hsv. rewrite run_cons, run_nil, exec_rename, Er. reflexivity. }
    rewrite EB in *.
    assert (KB : Kinv nw fB).
    { eapply switch_establishes_K; [exact IfA| |exact Er]. apply saves_done; [exact HP|exact Hsv]. }
    assert (K' : Kinv nw (fst (run (cleanup_ops fB r archive) fB))).
    { apply (run_inv (Kinv nw)); [|exact KB]. intros o g g' Ho Hg He. eapply cleanup_preserves_K; eassumption. }
    destruct K' as [K1 K2]. split; [exact K1|]. split; [exact K2|]. split; [reflexivity|]. split; [reflexivity|].
    apply K2. left. reflexivity.
  Qed.
End Update.

(** [files_consistent_at_every_prefix]: for EVERY cut point [n] of the operations of an update. *)
Theorem files_consistent_at_every_prefix f0 r archive n :
  NotifOk f0 -> (forall m, read_notif f0 = Some m -> NotifWf m) -> NotAhead (read_notif f0) r ->
  PlannedFresh (read_notif f0) r -> contig (r_serial r) (r_deltas r) ->
  let f' := fst (run (firstn n (update_rrdp_files f0 r archive)) f0) in
  NotifOk f' /\ (forall m, read_notif f' = Some m -> NotifWf m)
  /\ (fs_file notif_path f' = fs_file notif_path f0
      \/ fs_file notif_path f' = Some (CNotif (new_notif (read_notif f0) r))).
Proof.
  intros Hok Hwf Hna Hfr Hc f'. apply (files_consistent_reach f0 r archive Hok Hwf Hna Hfr Hc). exists n. reflexivity.
Qed.

(** ** Witnesses *)
Definition y_old : notif := mkNotif 3 4 ([NRrdp; NSess 3; NSer 4; NRand 1; NSnap], DSnap 3 4 []) [].
(** What an update that was interrupted between writing new-notification.xml and the rename had
    written there: a notification with two deltas. *)
Definition y_stale : notif :=
  mkNotif 3 5 ([NRrdp; NSess 3; NSer 5; NRand 1; NSnap], DSnap 3 5 [])
    [(5, [NRrdp; NSess 3; NSer 5; NRand 2; NDelta], DDelta 3 5 []); (4, [NRrdp; NSess 3; NSer 4; NRand 3; NDelta], DDelta 3 4 [])].
Definition y_fs0 : fs :=
  [ ([NRrdp], Dir); ([NRrdp; NNotif], File (CNotif y_old)); ([NRrdp; NNewNotif], File (CNotif y_stale));
    ([NRrdp; NSess 3], Dir); ([NRrdp; NSess 3; NSer 4], Dir); ([NRrdp; NSess 3; NSer 4; NRand 1], Dir);
    ([NRrdp; NSess 3; NSer 4; NRand 1; NSnap], File (CData (DSnap 3 4 []))) ].
(** The server after a session reset: session 8, serial 1, no deltas. *)
Definition y_r : rrdp := rinit (mkJail 1 1 []) 8 0.

(** F11g (fixed by 861388f0): with files opened without truncation, the new notification is
    written over the stale, longer one; what is then renamed to notification.xml is not a
    notification ([CMix]: the new bytes followed by a stale tail). With truncation it is the
    new notification. *)
Theorem stale_new_notification_corrupts :
  NotifOk y_fs0
  /\ fs_file notif_path (fst (run_m NonTruncating (update_rrdp_files y_fs0 y_r false) y_fs0)) = Some CMix
  /\ fs_file notif_path (fst (run (update_rrdp_files y_fs0 y_r false) y_fs0)) = Some (CNotif (new_notif (read_notif y_fs0) y_r)).
Proof.
  split; [|split; vm_compute; reflexivity].
  unfold NotifOk. change (read_notif y_fs0) with (Some y_old). intros p d [H|[]]. inv H. reflexivity.
Qed.

Example files_consistent_nonvacuous :
  NotifOk y_fs0 /\ (forall m, read_notif y_fs0 = Some m -> NotifWf m) /\ NotAhead (read_notif y_fs0) y_r
  /\ PlannedFresh (read_notif y_fs0) y_r /\ contig (r_serial y_r) (r_deltas y_r)
  /\ length (update_rrdp_files y_fs0 y_r false) = 8%nat.
Proof.
  split; [apply stale_new_notification_corrupts|]. change (read_notif y_fs0) with (Some y_old).
  split; [intros m H; inv H; split; [exists 1; reflexivity|intros x []]|].
  split; [intros H; discriminate H|].
  split; [|split; [exact I|vm_compute; reflexivity]].
  intros p c d Hin [H|[]]. inv H. vm_compute in Hin. destruct Hin as [H|[H|[]]]; discriminate.
Qed.
