(** * pubd/FsProofs.v - what each file-system operation does to a look-up

    For every primitive of pubd/Fs.v: which paths keep their entry ([fs_get]) and what the
    others hold afterwards; plus the composition lemmas for [run] and for the states a crash
    can leave behind ([reach]). No well-formedness of the tree is assumed anywhere: look-ups
    return the first entry with the path, and every lemma is stated for that. *)
From KV Require Import base.Tac pubd.Objects pubd.ObjectsProofs pubd.Fs.
Open Scope N_scope.

(** ** Names and paths *)
Lemma name_eqb_spec a b : name_eqb a b = true <-> a = b.
Proof.
  destruct a, b; simpl; try (split; [discriminate|intros H; discriminate]); try tauto;
    rewrite N.eqb_eq; split; intros H; try (inv H; reflexivity); subst; reflexivity.
Qed.
Lemma name_eqb_refl a : name_eqb a a = true.
Proof. apply name_eqb_spec. reflexivity. Qed.

Lemma path_eqb_spec a b : path_eqb a b = true <-> a = b.
Proof.
  revert b. induction a as [|x a IH]; destruct b as [|y b]; simpl; try (split; [discriminate|intros H; discriminate]); [tauto|].
  rewrite andb_true_iff, name_eqb_spec, IH. split; [intros [-> ->]; reflexivity|intros H; inv H; auto].
Qed.
Lemma path_eqb_refl a : path_eqb a a = true.
Proof. apply path_eqb_spec. reflexivity. Qed.
Lemma path_eqb_false a b : a <> b -> path_eqb a b = false.
Proof. intros H. destruct (path_eqb a b) eqn:E; [apply path_eqb_spec in E; contradiction|reflexivity]. Qed.
Lemma path_eq_dec (a b : path) : {a = b} + {a <> b}.
Proof. destruct (path_eqb a b) eqn:E; [left; apply path_eqb_spec; exact E|right; intros H; apply path_eqb_spec in H; congruence]. Qed.

Lemma under_spec p q : under p q = true <-> exists r, q = p ++ r.
Proof.
  revert q. induction p as [|x p IH]; intros q; simpl.
  - split; [intros _; exists q; reflexivity|reflexivity].
  - destruct q as [|y q]; [split; [discriminate|intros [r H]; discriminate]|].
    rewrite andb_true_iff, name_eqb_spec, IH. split.
    + intros [-> [r ->]]. exists r. reflexivity.
    + intros [r H]. inv H. split; [reflexivity|exists r; reflexivity].
Qed.
Lemma under_app p r : under p (p ++ r) = true.
Proof. apply under_spec. exists r. reflexivity. Qed.
Lemma under_refl p : under p p = true.
Proof. apply under_spec. exists []. rewrite app_nil_r. reflexivity. Qed.
Lemma under_trans a b c : under a b = true -> under b c = true -> under a c = true.
Proof.
  rewrite !under_spec. intros [r ->] [s ->]. exists (r ++ s). rewrite app_assoc. reflexivity.
Qed.
Lemma skipn_app_exact {A : Type} (p r : list A) : skipn (length p) (p ++ r) = r.
Proof. induction p; simpl; auto. Qed.
Lemma below_under p q : below p q = true -> under p q = true.
Proof. unfold below. rewrite andb_true_iff. tauto. Qed.
Lemma under_nil_r p : under p [] = true -> p = [].
Proof. destruct p; [reflexivity|discriminate]. Qed.
(** Two paths below a common one are comparable only if ... we only need: not under each other
    when they differ at some position. *)
Lemma under_cons_neq x y p q : x <> y -> under (x :: p) (y :: q) = false.
Proof. intros H. simpl. destruct (name_eqb x y) eqn:E; [apply name_eqb_spec in E; contradiction|reflexivity]. Qed.

(** ** Look-ups *)
Definition fget (p : path) (f : fs) : option node := option_map snd (find (fun e => path_eqb (fst e) p) f).
Lemma fs_get_fget p f : p <> [] -> fs_get p f = fget p f.
Proof. destruct p; [congruence|reflexivity]. Qed.

Lemma fget_cons p e f : fget p (e :: f) = if path_eqb (fst e) p then Some (snd e) else fget p f.
Proof. unfold fget. simpl. destruct (path_eqb (fst e) p); reflexivity. Qed.

Lemma fget_filter p f (g : path * node -> bool) :
  (forall e, fst e = p -> g e = true) -> fget p (filter g f) = fget p f.
Proof.
  intros H. induction f as [|e f IH]; [reflexivity|]. simpl. destruct (g e) eqn:E.
  - rewrite !fget_cons, IH. reflexivity.
  - rewrite fget_cons. destruct (path_eqb (fst e) p) eqn:Ep; [|exact IH].
    apply path_eqb_spec in Ep. rewrite (H e Ep) in E. discriminate.
Qed.
Lemma fget_filter_none p f (g : path * node -> bool) :
  (forall e, fst e = p -> g e = false) -> fget p (filter g f) = None.
Proof.
  intros H. induction f as [|e f IH]; [reflexivity|]. simpl. destruct (g e) eqn:E; [|exact IH].
  rewrite fget_cons. destruct (path_eqb (fst e) p) eqn:Ep; [|exact IH].
  apply path_eqb_spec in Ep. rewrite (H e Ep) in E. discriminate.
Qed.

Lemma fs_file_get p f c : fs_file p f = Some c <-> fs_get p f = Some (File c).
Proof.
  unfold fs_file. destruct (fs_get p f) as [[|c']|]; split; intros H; try discriminate; inv H; reflexivity.
Qed.

(** ** [remove_under] *)
Lemma get_remove_under p q f : q <> [] -> fs_get q (remove_under p f) = if under p q then None else fs_get q f.
Proof.
  intros Hq. rewrite !fs_get_fget by assumption. unfold remove_under. destruct (under p q) eqn:E.
  - apply fget_filter_none. intros e ->. rewrite E. reflexivity.
  - apply fget_filter. intros e ->. rewrite E. reflexivity.
Qed.
Lemma has_children_remove_under p f : has_children p (remove_under p f) = false.
Proof.
  unfold has_children, remove_under. apply existsb_false. intros e He. apply filter_In in He. destruct He as [_ He].
  destruct (below p (fst e)) eqn:B; [|reflexivity]. apply below_under in B. rewrite B in He. discriminate.
Qed.

(** ** [mkdir_all] *)
Lemma app_cons_assoc {A : Type} (pre : list A) x rest : pre ++ x :: rest = (pre ++ [x]) ++ rest.
Proof. rewrite <- app_assoc. reflexivity. Qed.

Lemma mkdir_from_get rest : forall pre f f' q, mkdir_from pre rest f = Some f' -> q <> [] ->
  (forall x, fs_get q f = Some x -> fs_get q f' = Some x)
  /\ (fs_get q f = None -> fs_get q f' = None \/ (fs_get q f' = Some Dir /\ under pre q = true /\ under q (pre ++ rest) = true)).
Proof.
  induction rest as [|x rest IH]; intros pre f f' q H Hq; simpl in H.
  - inv H. split; [auto|left; assumption].
  - destruct (fs_get (pre ++ [x]) f) as [[|c]|] eqn:E; [|discriminate|].
    + destruct (IH _ _ _ q H Hq) as [A B]. split; [exact A|]. intros Hn. destruct (B Hn) as [B1|[B1 [B2 B3]]]; [left; exact B1|right].
      split; [exact B1|]. split; [|rewrite <- app_assoc in B3; exact B3].
      apply under_spec in B2. destruct B2 as [r ->]. rewrite <- app_assoc. apply under_app.
    + destruct (IH _ _ _ q H Hq) as [A B].
      assert (Hne : pre ++ [x] <> []) by (destruct pre; discriminate).
      split.
      * intros y Hy. apply A. rewrite fs_get_fget in * by assumption. rewrite fget_cons. simpl.
        destruct (path_eqb (pre ++ [x]) q) eqn:Ep; [|exact Hy].
        apply path_eqb_spec in Ep. subst q. congruence.
      * intros Hn. destruct (path_eq_dec (pre ++ [x]) q) as [Ep|Ep].
        -- right. subst q. split; [|split; [apply under_app|apply under_spec; exists rest; apply app_cons_assoc]].
           apply A. rewrite fs_get_fget by assumption. rewrite fget_cons. simpl. rewrite path_eqb_refl. reflexivity.
        -- assert (Hn' : fs_get q ((pre ++ [x], Dir) :: f) = None).
           { rewrite fs_get_fget in * by assumption. rewrite fget_cons. simpl. rewrite path_eqb_false by assumption. exact Hn. }
           destruct (B Hn') as [B1|[B1 [B2 B3]]]; [left; exact B1|right].
           split; [exact B1|]. split; [|rewrite <- app_assoc in B3; exact B3].
           apply under_spec in B2. destruct B2 as [r ->]. rewrite <- app_assoc. apply under_app.
Qed.

Lemma mkdir_all_file p f f' q : mkdir_all p f = Some f' -> fs_file q f' = fs_file q f.
Proof.
  intros H. destruct q as [|y q]; [reflexivity|].
  destruct (mkdir_from_get p [] f f' (y :: q) H) as [A B]; [discriminate|].
  unfold fs_file. destruct (fs_get (y :: q) f) as [x|] eqn:E.
  - rewrite (A x eq_refl). reflexivity.
  - destruct (B eq_refl) as [B1|[B1 _]]; rewrite B1; reflexivity.
Qed.
Lemma mkdir_all_keeps p f f' q x : mkdir_all p f = Some f' -> fs_get q f = Some x -> fs_get q f' = Some x.
Proof.
  intros H Hx. destruct q as [|y q]; [exact Hx|].
  destruct (mkdir_from_get p [] f f' (y :: q) H) as [A _]; [discriminate|]. auto.
Qed.
Lemma mkdir_all_frame p f f' q : mkdir_all p f = Some f' -> under q p = false -> fs_get q f' = fs_get q f.
Proof.
  intros H Hu. destruct q as [|y q]; [reflexivity|].
  destruct (mkdir_from_get p [] f f' (y :: q) H) as [A B]; [discriminate|].
  destruct (fs_get (y :: q) f) as [x|] eqn:E; [apply A; reflexivity|].
  destruct (B eq_refl) as [B1|[_ [_ B3]]]; [exact B1|]. simpl app in B3. congruence.
Qed.

Lemma mkdir_from_is_dir rest : forall pre f f', mkdir_from pre rest f = Some f' -> fs_is_dir pre f = true ->
  fs_is_dir (pre ++ rest) f' = true.
Proof.
  induction rest as [|x rest IH]; intros pre f f' H Hd; simpl in H.
  - inv H. rewrite app_nil_r. exact Hd.
  - replace (pre ++ x :: rest) with ((pre ++ [x]) ++ rest) by (rewrite <- app_assoc; reflexivity).
    destruct (fs_get (pre ++ [x]) f) as [[|c]|] eqn:E; [|discriminate|].
    + apply (IH _ _ _ H). unfold fs_is_dir. rewrite E. reflexivity.
    + apply (IH _ _ _ H). unfold fs_is_dir.
      assert (Hne : pre ++ [x] <> []) by (destruct pre; discriminate).
      rewrite fs_get_fget by assumption. rewrite fget_cons. simpl. rewrite path_eqb_refl. reflexivity.
Qed.
Lemma mkdir_all_is_dir p f f' : mkdir_all p f = Some f' -> fs_is_dir p f' = true.
Proof. intros H. apply (mkdir_from_is_dir p [] f f' H). reflexivity. Qed.

(** Entries are only added. *)
Lemma mkdir_from_incl rest : forall pre f f' e, mkdir_from pre rest f = Some f' -> In e f -> In e f'.
Proof.
  induction rest as [|x rest IH]; intros pre f f' e H Hin; simpl in H; [inv H; exact Hin|].
  destruct (fs_get (pre ++ [x]) f) as [[|c]|]; [|discriminate|]; eapply IH; try eassumption. right. exact Hin.
Qed.

(** ** [mk_parents], [create_file], [write_file] *)
Lemma mk_parents_file p f f' q : mk_parents p f = Some f' -> fs_file q f' = fs_file q f.
Proof. unfold mk_parents. destruct (fs_exists p f); [intros H; inv H; reflexivity|apply mkdir_all_file]. Qed.
Lemma mk_parents_keeps p f f' q x : mk_parents p f = Some f' -> fs_get q f = Some x -> fs_get q f' = Some x.
Proof. unfold mk_parents. destruct (fs_exists p f); [intros H; inv H; auto|apply mkdir_all_keeps]. Qed.
Lemma mk_parents_frame p f f' q : mk_parents p f = Some f' -> under q p = false -> fs_get q f' = fs_get q f.
Proof.
  unfold mk_parents. destruct (fs_exists p f); [intros H; inv H; reflexivity|]. intros H Hu.
  eapply mkdir_all_frame; [eassumption|].
  destruct (under q (removelast p)) eqn:E; [|reflexivity].
  apply under_spec in E. destruct E as [r E].
  assert (Hp : exists z, p = removelast p ++ z).
  { destruct p as [|a p]; [exists []; reflexivity|]. exists [last (a :: p) a]. apply app_removelast_last. discriminate. }
  destruct Hp as [z Hp]. rewrite Hp, E, <- app_assoc in Hu. rewrite under_app in Hu. discriminate.
Qed.

Lemma fget_set_content p c f q :
  fget q (set_content p c f)
  = if path_eqb p q then match fget q f with Some (File _) => Some (File c) | x => x end else fget q f.
Proof.
  unfold set_content. induction f as [|[pe ne] f IH]; [simpl; destruct (path_eqb p q); reflexivity|].
  cbn [map fst snd]. destruct (path_eqb pe p) eqn:E1.
  - apply path_eqb_spec in E1. subst pe.
    destruct ne as [|old]; rewrite !fget_cons; cbn [fst snd];
      (destruct (path_eqb p q) eqn:E2; [reflexivity|exact IH]).
  - rewrite !fget_cons. cbn [fst snd]. destruct (path_eqb pe q) eqn:E3.
    + apply path_eqb_spec in E3. subst pe. rewrite path_eqb_false; [reflexivity|].
      intros H. subst q. rewrite path_eqb_refl in E1. discriminate.
    + exact IH.
Qed.

(** [create_file] of the code of record truncates: afterwards the file is empty. *)
Lemma create_file_get p f f' q : create_file p f = Some f' -> p <> [] ->
  (q <> p -> fs_get q f' = fs_get q f) /\ fs_get p f' = Some (File CEmpty).
Proof.
  unfold create_file, create_file_m, file_mode. intros H Hp. destruct (fs_get p f) as [[|c]|] eqn:E; [discriminate| |].
  - inv H. split.
    + intros Hq. destruct q as [|y q]; [reflexivity|]. rewrite !fs_get_fget by discriminate.
      rewrite fget_set_content. rewrite path_eqb_false by congruence. reflexivity.
    + rewrite fs_get_fget in * by assumption. rewrite fget_set_content, path_eqb_refl, E. reflexivity.
  - destruct (fs_is_dir (removelast p) f); [|discriminate]. inv H. split.
    + intros Hq. destruct q as [|y q]; [reflexivity|]. rewrite !fs_get_fget by discriminate.
      rewrite fget_cons. simpl. rewrite path_eqb_false by congruence. reflexivity.
    + rewrite fs_get_fget by assumption. rewrite fget_cons. simpl. rewrite path_eqb_refl. reflexivity.
Qed.

Lemma fget_map_content p c f q :
  fget q (map (fun e : path * node => if path_eqb (fst e) p
                     then match snd e with File old => (fst e, File (overlay old c)) | Dir => e end else e) f)
  = if path_eqb p q then match fget q f with Some (File old) => Some (File (overlay old c)) | x => x end else fget q f.
Proof.
  induction f as [|[pe ne] f IH]; [simpl; destruct (path_eqb p q); reflexivity|].
  cbn [map fst snd]. destruct (path_eqb pe p) eqn:E1.
  - apply path_eqb_spec in E1. subst pe.
    destruct ne as [|old]; rewrite !fget_cons; cbn [fst snd];
      (destruct (path_eqb p q) eqn:E2; [reflexivity|exact IH]).
  - rewrite !fget_cons. cbn [fst snd]. destruct (path_eqb pe q) eqn:E3.
    + apply path_eqb_spec in E3. subst pe. rewrite path_eqb_false; [reflexivity|].
      intros H. subst q. rewrite path_eqb_refl in E1. discriminate.
    + exact IH.
Qed.

Lemma write_file_get p c f f' q : write_file p c f = Some f' -> p <> [] ->
  (q <> p -> fs_get q f' = fs_get q f)
  /\ exists old, fs_file p f = Some old /\ fs_get p f' = Some (File (overlay old c)).
Proof.
  unfold write_file. intros H Hp. destruct (fs_file p f) as [old|] eqn:E; [|discriminate]. inv H. split.
  - intros Hq. destruct q as [|y q]; [reflexivity|]. rewrite !fs_get_fget by discriminate.
    rewrite fget_map_content. rewrite path_eqb_false by congruence. reflexivity.
  - exists old. split; [reflexivity|]. rewrite fs_get_fget by assumption. rewrite fget_map_content, path_eqb_refl.
    apply fs_file_get in E. rewrite fs_get_fget in E by assumption. rewrite E. reflexivity.
Qed.

(** ** [rename] between two paths neither of which lies under the other *)
Lemma app_inv_head_path (d x y : path) : d ++ x = d ++ y -> x = y.
Proof. apply app_inv_head. Qed.

Lemma incomparable_app s : forall d t, under s d = false -> under d s = false -> under d (s ++ t) = false.
Proof.
  induction s as [|a s IH]; intros d t Hsd Hds; [discriminate|].
  destruct d as [|b d]; [discriminate|]. simpl in *.
  destruct (name_eqb b a) eqn:E; [|reflexivity]. apply name_eqb_spec in E. subst b.
  rewrite name_eqb_refl in Hsd. simpl in *. apply IH; assumption.
Qed.

Lemma fget_rename s d f q :
  under s d = false -> under d s = false ->
  fget q (map (rekey s d) (remove_under d f))
  = if under d q then fget (s ++ skipn (length d) q) f
    else if under s q then None else fget q f.
Proof.
  intros Hsd Hds. induction f as [|e f IH]; simpl.
  - destruct (under d q); [reflexivity|]. destruct (under s q); reflexivity.
  - destruct (under d (fst e)) eqn:Ede; simpl.
    + (* entry removed *)
      rewrite IH. rewrite !fget_cons.
      destruct (under d q) eqn:Edq.
      * destruct (path_eqb (fst e) (s ++ skipn (length d) q)) eqn:E; [|reflexivity].
        apply path_eqb_spec in E. rewrite E in Ede.
        rewrite (incomparable_app s d _ Hsd Hds) in Ede. discriminate.
      * destruct (under s q) eqn:Esq; [reflexivity|].
        destruct (path_eqb (fst e) q) eqn:E; [|reflexivity].
        apply path_eqb_spec in E. subst q. congruence.
    + rewrite fget_cons. destruct (under s (fst e)) eqn:Ese.
      * (* entry moved *)
        assert (Rk : rekey s d e = (d ++ skipn (length s) (fst e), snd e)) by (unfold rekey; rewrite Ese; reflexivity).
        rewrite Rk. cbn [fst snd].
        apply under_spec in Ese. destruct Ese as [r Er]. rewrite Er, skipn_app_exact.
        destruct (under d q) eqn:Edq.
        -- apply under_spec in Edq. destruct Edq as [r' ->]. rewrite skipn_app_exact.
           rewrite fget_cons, Er.
           destruct (path_eqb (d ++ r) (d ++ r')) eqn:E.
           ++ apply path_eqb_spec in E. apply app_inv_head in E. subst r'. rewrite path_eqb_refl. reflexivity.
           ++ rewrite path_eqb_false; [rewrite IH; try rewrite under_app; rewrite ?skipn_app_exact; reflexivity|].
              intros H. apply app_inv_head in H. subst r'. rewrite path_eqb_refl in E. discriminate.
        -- rewrite path_eqb_false.
           ++ rewrite IH; try rewrite Edq. destruct (under s q) eqn:Esq; [reflexivity|].
              rewrite fget_cons, Er. rewrite path_eqb_false; [reflexivity|]. intros H. subst q. rewrite under_app in Esq. discriminate.
           ++ intros H. subst q. rewrite under_app in Edq. discriminate.
      * (* entry untouched *)
        assert (Rk : rekey s d e = e) by (unfold rekey; rewrite Ese; reflexivity).
        rewrite Rk. rewrite IH. destruct (path_eqb (fst e) q) eqn:E.
        -- apply path_eqb_spec in E. subst q. rewrite Ede, Ese, fget_cons, path_eqb_refl. reflexivity.
        -- destruct (under d q) eqn:Edq.
           ++ rewrite fget_cons. rewrite path_eqb_false; [reflexivity|]. intros H. rewrite H, under_app in Ese. discriminate.
           ++ destruct (under s q); [reflexivity|]. rewrite fget_cons, E. reflexivity.
Qed.

Lemma rename_get s d f f' q :
  rename s d f = Some f' -> under s d = false -> under d s = false -> q <> [] ->
  fs_get q f' = if under d q then fs_get (s ++ skipn (length d) q) f
                else if under s q then None else fs_get q f.
Proof.
  intros H Hsd Hds Hq. unfold rename in H.
  destruct s as [|a s]; [discriminate|]. destruct d as [|b d]; [discriminate|].
  assert (R : f' = map (rekey (a :: s) (b :: d)) (remove_under (b :: d) f)).
  { destruct (fs_get (a :: s) f) as [[|c]|]; [| |discriminate];
      destruct (fs_get (b :: d) f) as [[|c']|]; try discriminate;
      try (rewrite Hsd in H); try (destruct (has_children (b :: d) f); [discriminate|]); inv H; reflexivity. }
  subst f'. rewrite fs_get_fget by assumption. rewrite fget_rename by assumption.
  destruct (under (b :: d) q); [reflexivity|]. destruct (under (a :: s) q); [reflexivity|].
  rewrite fs_get_fget by assumption. reflexivity.
Qed.

(** ** [run]: composition and the states a crash can leave *)
Lemma run_m_app m a : forall b f,
  run_m m (a ++ b) f = if snd (run_m m a f) then run_m m b (fst (run_m m a f)) else (fst (run_m m a f), false).
Proof.
  induction a as [|o a IH]; intros b f; simpl; [destruct (run_m m b f); reflexivity|].
  destruct (exec_m m o f) as [f'|].
  - apply IH.
  - destruct (best_effort o); [apply IH|reflexivity].
Qed.
Lemma run_app a b f :
  run (a ++ b) f = if snd (run a f) then run b (fst (run a f)) else (fst (run a f), false).
Proof. apply run_m_app. Qed.

Lemma run_cons o rest f :
  run (o :: rest) f = match exec o f with
                      | Some f' => run rest f'
                      | None => if best_effort o then run rest f else (f, false)
                      end.
Proof. reflexivity. Qed.
Lemma run_nil f : run [] f = (f, true).
Proof. reflexivity. Qed.

Definition reach (ops : list fsop) (f f' : fs) : Prop := exists n, f' = fst (run (firstn n ops) f).

Lemma reach_app a b f f' :
  reach (a ++ b) f f' -> reach a f f' \/ (snd (run a f) = true /\ reach b (fst (run a f)) f').
Proof.
  intros [n ->]. destruct (Nat.le_gt_cases n (length a)) as [Hl|Hl].
  - left. exists n. rewrite firstn_app. replace (n - length a)%nat with 0%nat by lia. rewrite app_nil_r. reflexivity.
  - rewrite firstn_app, firstn_all2 by lia. rewrite run_app.
    destruct (snd (run a f)) eqn:E.
    + right. split; [reflexivity|]. exists (n - length a)%nat. reflexivity.
    + left. exists (length a). rewrite firstn_all. reflexivity.
Qed.

Lemma run_inv (P : fs -> Prop) ops :
  (forall o f f', In o ops -> P f -> exec o f = Some f' -> P f') ->
  forall f, P f -> P (fst (run ops f)).
Proof.
  induction ops as [|o ops IH]; intros Hs f Hp; [exact Hp|]. rewrite run_cons.
  destruct (exec o f) as [f'|] eqn:E.
  - apply IH; [intros; eapply Hs; eauto; right; assumption|]. eapply Hs; [left; reflexivity|eassumption|eassumption].
  - destruct (best_effort o); [apply IH; [intros; eapply Hs; eauto; right; assumption|assumption]|exact Hp].
Qed.

Lemma in_firstn {A : Type} (x : A) n : forall l, In x (firstn n l) -> In x l.
Proof.
  induction n as [|n IH]; intros l H; [destruct H|]. destruct l as [|a l]; [destruct H|].
  simpl in H. destruct H as [H|H]; [left; exact H|right; apply IH; exact H].
Qed.

Lemma reach_inv (P : fs -> Prop) ops f f' :
  (forall o f f', In o ops -> P f -> exec o f = Some f' -> P f') -> P f -> reach ops f f' -> P f'.
Proof.
  intros Hs Hp [n ->]. apply run_inv; [|exact Hp].
  intros o g g' Hin. apply Hs. eapply in_firstn; eassumption.
Qed.

(** What [exec] is for each operation (the code of record). *)
Lemma exec_mkparents p f : exec (OMkParents p) f = mk_parents p f. Proof. reflexivity. Qed.
Lemma exec_create p f : exec (OCreateFile p) f = create_file p f. Proof. reflexivity. Qed.
Lemma exec_write p c f : exec (OWrite p c) f = write_file p c f. Proof. reflexivity. Qed.
Lemma exec_rename s d b f : exec (ORename s d b) f = rename s d f. Proof. reflexivity. Qed.
Lemma exec_remove_tree p b f : exec (ORemoveTree p b) f = remove_tree p f. Proof. reflexivity. Qed.
Lemma exec_remove_file p b f : exec (ORemoveFile p b) f = remove_file p f. Proof. reflexivity. Qed.
Lemma exec_mkdir p f : exec (OMkdirAll p) f = mkdir_all p f. Proof. reflexivity. Qed.
Lemma exec_fail f : exec OFail f = None. Proof. reflexivity. Qed.
Lemma exec_rmsnap sd s f : exec (ORmSnapshotIn sd s) f = match find_snapshot_in sd s f with Some q => remove_file q f | None => Some f end.
Proof. reflexivity. Qed.
Lemma exec_archive s d f : exec (OArchive s d) f = match mkdir_all d f with Some f' => rename s d f' | None => None end.
Proof. reflexivity. Qed.
