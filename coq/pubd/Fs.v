(** * pubd/Fs.v - the repository directory as a data structure; file-system operations

    Executable model (definitions only) of the part of the file system the publication server
    writes to ([repo_dir]/rrdp, [repo_dir]/rsync, [repo_dir]/archive) and of the operations the
    code performs on it, one constructor of [fsop] per probe point of
    src/commons/storage/verif.rs ([fs-create-dir], [fs-create-file], [fs-write], [fs-rename],
    [fs-remove-dir], [fs-remove-file]):

      - [OMkParents] + [OCreateFile] + [OWrite] = [file::save] (src/commons/file.rs 80-140):
        [create_file] creates missing parent directories (before its probe point, hence an
        operation without label) and opens with [create(true)] and, since commit 861388f0,
        [truncate(true)]: an existing file is emptied when it is opened ([Truncating], the code
        of record). Before that commit the file was opened without truncation ([NonTruncating],
        kept as [_pinned] regression example): the write starts at offset 0, and writing over
        a file that holds other content leaves the new bytes followed by whatever tail the old
        file had: [CMix] (unspecified content) - finding F11g. Writing over an empty file or
        over identical content gives the content;
      - [ORename] = [fs::rename] (atomic; onto a non-empty directory it fails, ENOTEMPTY);
      - [ORemoveTree] = [fs::remove_dir_all], [ORemoveFile] = [fs::remove_file];
      - [OMkdirAll] = [fs::create_dir_all];
      - [ORmSnapshotIn] = "find a snapshot.xml under <session>/<serial>/*/ and remove it"
        (rrdp.rs 806-827 with [find_in_serial_dir] 879-915), best effort;
      - [OArchive] = [create_dir_all(dest)] + [rename(path, dest)] (rrdp.rs 775-791), best effort.
    An operation either succeeds or fails without effect ([exec] returns [None]); [run] executes
    a list in order: a failing operation whose error the code propagates ends the run, a failing
    best-effort operation is skipped. A crash leaves [run (firstn n ops)] for some [n]; the probe
    counts the labelled operations.

    Names are structured so that what the code finds out by parsing a file name (is it the
    session? is it a number?) is a match on a constructor.

    Hashes: a reference to a file in a notification carries the [fdata] it is the hash of
    (assumption: SHA-256 is collision-free; the harness names a hash by the file content it was
    computed from). *)
From KV Require Import base.Tac pubd.Objects.
Open Scope N_scope.

Inductive name : Type :=
| NRrdp | NRsync | NArchive                 (* REPOSITORY_RRDP_DIR, REPOSITORY_RSYNC_DIR, REPOSITORY_RRDP_ARCHIVE_DIR *)
| NNotif | NNewNotif                        (* notification.xml, new-notification.xml *)
| NSess (s : N) | NSer (n : N) | NRand (r : N)
| NSnap | NDelta                            (* snapshot.xml, delta.xml *)
| NCurrent | NOld | NTmp (serial : N)       (* rsync/current, rsync/old, rsync/tmp-<serial> *)
| NSeg (n : N).                             (* a path segment of a published object / any other name *)

Definition name_eqb (a b : name) : bool :=
  match a, b with
  | NRrdp, NRrdp | NRsync, NRsync | NArchive, NArchive | NNotif, NNotif | NNewNotif, NNewNotif
  | NSnap, NSnap | NDelta, NDelta | NCurrent, NCurrent | NOld, NOld => true
  | NSess x, NSess y | NSer x, NSer y | NRand x, NRand y | NTmp x, NTmp y | NSeg x, NSeg y => x =? y
  | _, _ => false
  end.

Definition path : Type := list name.
Fixpoint path_eqb (a b : path) : bool :=
  match a, b with
  | [], [] => true
  | x :: a', y :: b' => name_eqb x y && path_eqb a' b'
  | _, _ => false
  end.
(** [under p q]: [q] is [p] or lies below it. *)
Fixpoint under (p q : path) : bool :=
  match p, q with
  | [], _ => true
  | x :: p', y :: q' => name_eqb x y && under p' q'
  | _ :: _, [] => false
  end.
Definition below (p q : path) : bool := under p q && negb (path_eqb p q).

(** ** File contents *)
Inductive fdata : Type :=
| DSnap (sess ser : N) (o : objects)        (* snapshot.xml: session_id, serial, publish elements *)
| DDelta (sess ser : N) (e : list elem)     (* delta.xml: session_id, serial, elements *)
| DObj (c : N)                              (* a published object (content identity) *)
| DOther (n : N).                           (* anything else *)

Record notif : Type := mkNotif {
  n_session : N; n_serial : N;
  n_snap : path * fdata;                    (* snapshot: where, hash *)
  n_deltas : list (N * path * fdata) }.     (* deltas: serial, where, hash; in file order *)

Inductive fcontent : Type := CEmpty | CData (d : fdata) | CNotif (n : notif) | CMix.
Inductive node : Type := Dir | File (c : fcontent).
Definition fs : Type := list (path * node).

(** Equality of contents: the publish / withdraw elements of a snapshot or delta file are
    compared as sets (files that differ only in element order have the same length, so the
    non-truncating overwrite below cannot tell them apart either). *)
Definition seteq {A : Type} (eqb : A -> A -> bool) (a b : list A) : bool :=
  (N.of_nat (length a) =? N.of_nat (length b))
  && forallb (fun x => existsb (eqb x) b) a && forallb (fun x => existsb (eqb x) a) b.
Definition obj_eqb' (a b : obj) : bool := (fst a =? fst b) && (snd a =? snd b).
Fixpoint list_eqb {A : Type} (eqb : A -> A -> bool) (a b : list A) : bool :=
  match a, b with
  | [], [] => true
  | x :: a', y :: b' => eqb x y && list_eqb eqb a' b'
  | _, _ => false
  end.
Definition elem_eqb' (a b : elem) : bool :=
  match a, b with
  | Pub u o, Pub u' o' => uri_eqb u u' && obj_eqb' o o'
  | Upd u h o, Upd u' h' o' => uri_eqb u u' && (h =? h') && obj_eqb' o o'
  | Wdr u h, Wdr u' h' => uri_eqb u u' && (h =? h')
  | _, _ => false
  end.
Definition entry_eqb' (x y : uri * obj) : bool := uri_eqb (fst x) (fst y) && obj_eqb' (snd x) (snd y).
Definition fdata_eqb (a b : fdata) : bool :=
  match a, b with
  | DSnap s n o, DSnap s' n' o' => (s =? s') && (n =? n') && seteq entry_eqb' o o'
  | DDelta s n e, DDelta s' n' e' => (s =? s') && (n =? n') && seteq elem_eqb' e e'
  | DObj c, DObj c' => c =? c'
  | DOther c, DOther c' => c =? c'
  | _, _ => false
  end.
Definition dref_eqb (x y : N * path * fdata) : bool :=
  (fst (fst x) =? fst (fst y)) && path_eqb (snd (fst x)) (snd (fst y)) && fdata_eqb (snd x) (snd y).
Definition notif_eqb (a b : notif) : bool :=
  (n_session a =? n_session b) && (n_serial a =? n_serial b)
  && path_eqb (fst (n_snap a)) (fst (n_snap b)) && fdata_eqb (snd (n_snap a)) (snd (n_snap b))
  && list_eqb dref_eqb (n_deltas a) (n_deltas b).
Definition fcontent_eqb (a b : fcontent) : bool :=
  match a, b with
  | CEmpty, CEmpty | CMix, CMix => true
  | CData d, CData d' => fdata_eqb d d'
  | CNotif n, CNotif n' => notif_eqb n n'
  | _, _ => false
  end.

(** Non-truncating overwrite (file.rs 100-103, 130). *)
Definition overlay (old new : fcontent) : fcontent :=
  match old with
  | CEmpty => new
  | _ => if fcontent_eqb old new then new else CMix
  end.

(** ** Look-ups. The root [[]] (repo_dir) always is a directory. *)
Definition fs_get (p : path) (f : fs) : option node :=
  match p with
  | [] => Some Dir
  | _ => option_map snd (find (fun e => path_eqb (fst e) p) f)
  end.
Definition fs_file (p : path) (f : fs) : option fcontent :=
  match fs_get p f with Some (File c) => Some c | _ => None end.
Definition fs_exists (p : path) (f : fs) : bool := match fs_get p f with Some _ => true | None => false end.
Definition fs_is_dir (p : path) (f : fs) : bool := match fs_get p f with Some Dir => true | _ => false end.
Definition has_children (p : path) (f : fs) : bool := existsb (fun e => below p (fst e)) f.
(** Entries directly inside directory [p]: (name, is it a directory). *)
Definition parent_is (p : path) (q : path) : bool := (N.of_nat (length q) =? N.of_nat (length p) + 1) && under p q.
Definition listing (p : path) (f : fs) : list (name * bool) :=
  flat_map (fun e => if parent_is p (fst e)
                     then match last (fst e) NRrdp, snd e with n, Dir => [(n, true)] | n, File _ => [(n, false)] end
                     else []) f.

(** ** Primitive mutations ([None] = the system call fails, nothing changes) *)
Definition remove_under (p : path) (f : fs) : fs := filter (fun e => negb (under p (fst e))) f.

Fixpoint mkdir_from (pre rest : path) (f : fs) : option fs :=
  match rest with
  | [] => Some f
  | x :: r =>
      let q := pre ++ [x] in
      match fs_get q f with
      | Some (File _) => None                      (* ENOTDIR / EEXIST *)
      | Some Dir => mkdir_from q r f
      | None => mkdir_from q r ((q, Dir) :: f)
      end
  end.
Definition mkdir_all (p : path) (f : fs) : option fs := mkdir_from [] p f.

(** How [create_file] opens an existing file. *)
Inductive wmode : Type := Truncating | NonTruncating.
(** The tree under /repo (file.rs 102: [options.truncate(true)], since 861388f0). *)
Definition file_mode : wmode := Truncating.

(** [file::create_file] (file.rs 80-115) in two steps: if the path does not exist its parent
    directories are created (81-95, before the probe point); then the file is opened with
    [create(true)] and [truncate(true)] (96-114). *)
Definition mk_parents (p : path) (f : fs) : option fs :=
  if fs_exists p f then Some f else mkdir_all (removelast p) f.
Definition set_content (p : path) (c : fcontent) (f : fs) : fs :=
  map (fun e => if path_eqb (fst e) p then match snd e with File _ => (fst e, File c) | Dir => e end else e) f.
Definition create_file_m (m : wmode) (p : path) (f : fs) : option fs :=
  match fs_get p f with
  | Some (File _) => Some (match m with Truncating => set_content p CEmpty f | NonTruncating => f end)
  | Some Dir => None                               (* EISDIR *)
  | None => if fs_is_dir (removelast p) f then Some ((p, File CEmpty) :: f) else None   (* ENOENT *)
  end.
Definition create_file : path -> fs -> option fs := create_file_m file_mode.

Definition write_file (p : path) (c : fcontent) (f : fs) : option fs :=
  match fs_file p f with
  | Some _ => Some (map (fun e => if path_eqb (fst e) p
                                  then match snd e with File old => (fst e, File (overlay old c)) | Dir => e end
                                  else e) f)
  | None => None
  end.

Definition rekey (src dst : path) (e : path * node) : path * node :=
  if under src (fst e) then (dst ++ skipn (length src) (fst e), snd e) else e.
Definition rename (src dst : path) (f : fs) : option fs :=
  match src, dst with
  | [], _ | _, [] => None
  | _, _ =>
    match fs_get src f, fs_get dst f with
    | None, _ => None                                                   (* ENOENT *)
    | Some (File _), Some Dir => None                                   (* EISDIR *)
    | Some Dir, Some (File _) => None                                   (* ENOTDIR *)
    | Some Dir, Some Dir => if has_children dst f then None             (* ENOTEMPTY *)
                            else Some (map (rekey src dst) (remove_under dst f))
    | Some _, _ => if under src dst then None                           (* EINVAL: into itself *)
                   else Some (map (rekey src dst) (remove_under dst f))
    end
  end.

Definition remove_tree (p : path) (f : fs) : option fs :=
  match p with
  | [] => None
  | _ => if fs_is_dir p f then Some (remove_under p f) else None
  end.
Definition remove_file (p : path) (f : fs) : option fs :=
  match fs_file p f with Some _ => Some (remove_under p f) | None => None end.

(** [session_dir_snapshot] (rrdp.rs 870-915): a file named snapshot.xml two levels below
    <sessdir>/<serial>. *)
Definition is_snapshot_in (sessdir : path) (serial : N) (q : path) : bool :=
  match skipn (length sessdir) q with
  | [NSer s; NRand _; NSnap] => under sessdir q && (s =? serial)
  | _ => false
  end.
Definition find_snapshot_in (sessdir : path) (serial : N) (f : fs) : option path :=
  option_map fst (find (fun e => is_snapshot_in sessdir serial (fst e)
                                 && match snd e with File _ => true | Dir => false end) f).

(** ** Operations *)
Inductive fsop : Type :=
| OMkdirAll (p : path)
| OMkParents (p : path)                           (* no probe point of its own *)
| OCreateFile (p : path)
| OWrite (p : path) (c : fcontent)
| ORename (src dst : path) (label_dst : bool)     (* which of the two paths the probe reports *)
| ORemoveTree (p : path) (best : bool)
| ORemoveFile (p : path) (best : bool)
| ORmSnapshotIn (sessdir : path) (serial : N)
| OArchive (src dst : path)
| OFail.                                          (* the code raises an error itself; no mutation *)

Definition exec_m (m : wmode) (o : fsop) (f : fs) : option fs :=
  match o with
  | OMkdirAll p => mkdir_all p f
  | OMkParents p => mk_parents p f
  | OCreateFile p => create_file_m m p f
  | OWrite p c => write_file p c f
  | ORename s d _ => rename s d f
  | ORemoveTree p _ => remove_tree p f
  | ORemoveFile p _ => remove_file p f
  | ORmSnapshotIn sd s => match find_snapshot_in sd s f with Some q => remove_file q f | None => Some f end
  | OArchive s d => match mkdir_all d f with Some f' => rename s d f' | None => None end
  | OFail => None
  end.
Definition exec : fsop -> fs -> option fs := exec_m file_mode.

Definition best_effort (o : fsop) : bool :=
  match o with
  | ORemoveTree _ b | ORemoveFile _ b => b
  | ORmSnapshotIn _ _ | OArchive _ _ => true
  | _ => false
  end.

(** [file::save] (file.rs 124-139): create (with parents), then write. *)
Definition save_c (p : path) (c : fcontent) : list fsop := [OMkParents p; OCreateFile p; OWrite p c].
Definition save_ops (p : path) (d : fdata) : list fsop := save_c p (CData d).

(** Result of a run: the file system reached and whether the procedure returned [Ok]. *)
Fixpoint run_m (m : wmode) (ops : list fsop) (f : fs) : fs * bool :=
  match ops with
  | [] => (f, true)
  | o :: rest =>
      match exec_m m o f with
      | Some f' => run_m m rest f'
      | None => if best_effort o then run_m m rest f else (f, false)
      end
  end.
Definition run : list fsop -> fs -> fs * bool := run_m file_mode.
(** The state a crash right before mutation [n] leaves behind. *)
Definition cut (n : nat) (ops : list fsop) (f : fs) : fs := fst (run (firstn n ops) f).

(** ** What the probe reports for an operation *)
Inductive kind : Type := KCreateDir | KRemoveDir | KCreateFile | KWrite | KRemoveFile | KRename.
Definition kind_eqb (a b : kind) : bool :=
  match a, b with
  | KCreateDir, KCreateDir | KRemoveDir, KRemoveDir | KCreateFile, KCreateFile
  | KWrite, KWrite | KRemoveFile, KRemoveFile | KRename, KRename => true
  | _, _ => false
  end.
Definition label (o : fsop) : option (kind * path) :=
  match o with
  | OMkdirAll p => Some (KCreateDir, p)
  | OMkParents _ => None
  | OCreateFile p => Some (KCreateFile, p)
  | OWrite p _ => Some (KWrite, p)
  | ORename s d ld => Some (KRename, if ld then d else s)
  | ORemoveTree p _ => Some (KRemoveDir, p)
  | ORemoveFile p _ => Some (KRemoveFile, p)
  | ORmSnapshotIn sd _ => Some (KRemoveFile, sd)
  | OArchive s _ => Some (KRename, s)
  | OFail => None
  end.
