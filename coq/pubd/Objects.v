(** * pubd/Objects.v - rsync URIs, publisher jails, CurrentObjects and publication deltas

    Executable model (definitions only, no proofs) of
      - [rpki::uri::Rsync] as far as the publication server depends on it
        (rpki-0.19.2 src/uri.rs: canonical_module 200-214, relative_to 332-371,
        is_parent_of 376-381, eq_module 384-389, PartialEq 434-445);
      - [CurrentObjectUri] / [CurrentObjects] (src/server/pubd/rrdp.rs 1209-1439, 1469-1491):
        [verify_delta_applies] 1315-1348, [contains] 1351-1356, [apply_delta] 1362-1378,
        [try_to_withdraw_elements] 1294-1307, [get_list_reply] 1404-1414;
      - [DeltaElements] (rrdp.rs 1697-1811): a publication delta is split into publishes,
        updates and withdraws (in that order) before anything else looks at it.

    The file is self-contained (only base/Tac.v); pubd/Staged.v (staged merge) and the RRDP /
    rsync file views of C11 build on it. Lemmas are in pubd/ObjectsProofs.v.

    ** URIs are modelled structurally, not as strings **

    A URI [rsync://authority/module/seg1/seg2/...] is the record [uri] below. Strings are
    interned by the harness:
      - [u_scheme]: spelling of the scheme; 0 is the lower-case spelling "rsync", every
        other spelling ("RSYNC", "Rsync", ...) has its own number;
      - [u_auth]: identity of the authority *after case folding*; [u_authv]: which spelling was
        used; 0 iff the spelling has no upper-case ASCII letter;
      - [u_mod]: identity of the module name *after case folding*; [u_modv]: which spelling;
      - [u_path]: the '/'-separated path segments (case-sensitive identities, all non-empty).
    Three different notions of "same URI" exist in the code and all three are needed:
      - key of [CurrentObjects] (a [CurrentObjectUri], i.e. the string
        [canonical_module() ++ path()]): [canon]. NB [canonical_module] lower-cases scheme and
        authority only if the *authority* contains an upper-case letter; otherwise the module
        prefix is copied verbatim, including a scheme spelled "RSYNC" (uri.rs 200-214);
      - key of [StagedElements] (a [uri::Rsync] under its [PartialEq]: scheme and authority
        compared ignoring case, module name and path exactly): [fold], [ueq];
      - jail containment [is_parent_of] (via [eq_module]: scheme, authority *and module name*
        ignoring case; path by whole segments): [in_jail].
    [canon u = fold u] holds exactly for the URIs we call [coherent] (lower-case scheme or an
    authority with an upper-case letter). For the others the two keys differ: finding F10b. *)
From KV Require Import base.Tac.
Open Scope N_scope.

(** ** Generic keyed lists (the association lists behind every HashMap of the model)

    A keyed list is a [list V] with a key function [kf : V -> K] and a boolean key equality.
    [kfind] returns the first element with the key, [kdel] deletes every element with the
    key, [kput] = [HashMap::insert] (overwrite). Iteration order of the real HashMaps is never
    observed by the modelled functions except as the order of list replies, which the
    correspondence compares as sets. *)
Definition kfind {K V : Type} (keqb : K -> K -> bool) (kf : V -> K) (k : K) (l : list V) : option V :=
  find (fun v => keqb (kf v) k) l.
Definition kdel {K V : Type} (keqb : K -> K -> bool) (kf : V -> K) (k : K) (l : list V) : list V :=
  filter (fun v => negb (keqb (kf v) k)) l.
Definition kput {K V : Type} (keqb : K -> K -> bool) (kf : V -> K) (v : V) (l : list V) : list V :=
  v :: kdel keqb kf (kf v) l.

Fixpoint lN_eqb (a b : list N) : bool :=
  match a, b with
  | [], [] => true
  | x :: a', y :: b' => (x =? y) && lN_eqb a' b'
  | _, _ => false
  end.

(** ** URIs *)
Record uri : Type := mkUri {
  u_scheme : N; u_auth : N; u_authv : N; u_mod : N; u_modv : N; u_path : list N }.

Definition uri_eqb (a b : uri) : bool :=
  (u_scheme a =? u_scheme b) && (u_auth a =? u_auth b) && (u_authv a =? u_authv b)
  && (u_mod a =? u_mod b) && (u_modv a =? u_modv b) && lN_eqb (u_path a) (u_path b).

(** [CurrentObjectUri::from(&uri::Rsync)] (rrdp.rs 1478-1485) = [canonical_module() ++ path()]. *)
Definition canon (u : uri) : uri :=
  if u_authv u =? 0 then u
  else mkUri 0 (u_auth u) 0 (u_mod u) (u_modv u) (u_path u).

(** Representative of the class of [u] under [uri::Rsync]'s [PartialEq]. *)
Definition fold (u : uri) : uri := mkUri 0 (u_auth u) 0 (u_mod u) (u_modv u) (u_path u).
Definition ueq (a b : uri) : bool := uri_eqb (fold a) (fold b).

(** The URIs on which the two keys agree. *)
Definition coherent (u : uri) : bool := (u_scheme u =? 0) || negb (u_authv u =? 0).

(** ** Jails: a directory URI, of which only the case-folded authority and module and the
    path segments matter to [is_parent_of]. *)
Record jail : Type := mkJail { j_auth : N; j_mod : N; j_path : list N }.
Definition jail_eqb (a b : jail) : bool :=
  (j_auth a =? j_auth b) && (j_mod a =? j_mod b) && lN_eqb (j_path a) (j_path b).

(** [strict_prefix p q]: [p] is a proper prefix of [q] by whole segments ("alice2" is not under
    "alice", "a/b" is under "a"; a URI is not under itself). *)
Fixpoint strict_prefix (p q : list N) : bool :=
  match p, q with
  | [], _ :: _ => true
  | x :: p', y :: q' => (x =? y) && strict_prefix p' q'
  | _, _ => false
  end.

(** [jail.is_parent_of(&u)] (uri.rs 376-381 with relative_to 332-371 and eq_module 384-389). *)
Definition in_jail (j : jail) (u : uri) : bool :=
  (j_auth j =? u_auth u) && (j_mod j =? u_mod u) && strict_prefix (j_path j) (u_path u).

(** ** Objects. An object is (hash of the content, content identity); the Rust stores the
    Base64 content and computes the hash on demand. *)
Definition obj : Type := (N * N)%type.
Definition o_hash (o : obj) : N := fst o.
Definition o_content (o : obj) : N := snd o.

(** [CurrentObjects]: keyed by canonical URI. Keys in the list are always of the form [canon u]. *)
Definition objects : Type := list (uri * obj).
Definition o_get (k : uri) (o : objects) : option obj := option_map snd (kfind uri_eqb fst k o).
Definition o_set (k : uri) (v : obj) (o : objects) : objects := kput uri_eqb fst (k, v) o.
Definition o_del (k : uri) (o : objects) : objects := kdel uri_eqb fst k o.
Definition o_keys (o : objects) : list uri := map fst o.

(** ** Delta elements (rrdp.rs PublishElement 2015, UpdateElement 2040, WithdrawElement 2078) *)
Inductive elem : Type :=
| Pub (u : uri) (o : obj)            (* publish: URI, new content *)
| Upd (u : uri) (h : N) (o : obj)    (* update: URI, hash of the object replaced, new content *)
| Wdr (u : uri) (h : N).             (* withdraw: URI, hash of the object withdrawn *)

Definition e_uri (e : elem) : uri :=
  match e with Pub u _ => u | Upd u _ _ => u | Wdr u _ => u end.
Definition is_pub (e : elem) : bool := match e with Pub _ _ => true | _ => false end.
Definition is_upd (e : elem) : bool := match e with Upd _ _ _ => true | _ => false end.
Definition is_wdr (e : elem) : bool := match e with Wdr _ _ => true | _ => false end.

(** A delta as it arrives in a publication message: elements in message order. *)
Definition delta : Type := list elem.

(** [From<PublishDelta> for DeltaElements] (rrdp.rs 1785-1811): publishes, then updates, then
    withdraws, each group in message order. Every consumer iterates in this order. *)
Definition normalize (d : delta) : delta := filter is_pub d ++ filter is_upd d ++ filter is_wdr d.

(** ** Verification (rrdp.rs 1315-1348) *)
Inductive verr : Type := EOutside | EPresent | ENoMatch.

(** [CurrentObjects::contains(hash, uri)] (1351-1356). *)
Definition contains (o : objects) (h : N) (u : uri) : bool :=
  match o_get (canon u) o with Some ob => o_hash ob =? h | None => false end.

Definition verify1 (o : objects) (j : jail) (e : elem) : option verr :=
  match e with
  | Pub u _ =>
      if negb (in_jail j u) then Some EOutside
      else match o_get (canon u) o with Some _ => Some EPresent | None => None end
  | Upd u h _ | Wdr u h =>
      if negb (in_jail j u) then Some EOutside
      else if contains o h u then None else Some ENoMatch
  end.

Fixpoint first_error (o : objects) (j : jail) (l : list elem) : option verr :=
  match l with
  | [] => None
  | e :: r => match verify1 o j e with Some x => Some x | None => first_error o j r end
  end.

(** [None] = the delta applies; [Some e] = the error of the first offending element in the
    order publishes, updates, withdraws. *)
Definition verify_delta_applies (o : objects) (d : delta) (j : jail) : option verr :=
  first_error o j (normalize d).

(** ** Application (rrdp.rs 1362-1378): inserts for publishes and updates (the old hash of an
    update is ignored), removals for withdraws. *)
Definition apply1 (o : objects) (e : elem) : objects :=
  match e with
  | Pub u ob => o_set (canon u) ob o
  | Upd u _ ob => o_set (canon u) ob o
  | Wdr u _ => o_del (canon u) o
  end.
Definition apply_delta (o : objects) (d : delta) : objects := fold_left apply1 (normalize d) o.

(** ** Derived views *)
(** [try_to_withdraw_elements] (1294-1307): one withdraw per object, the URI parsed back from
    the key string (so it has the canonical spelling) and the hash of the content. *)
Definition withdraw_all (o : objects) : delta := map (fun p => Wdr (fst p) (o_hash (snd p))) o.
(** [get_list_reply] (1404-1414) and [try_into_published_files] (1281-1291). *)
Definition list_reply (o : objects) : list (uri * N) := map (fun p => (fst p, o_hash (snd p))) o.
Definition published_files (o : objects) : list (uri * N) := map (fun p => (fst p, o_content (snd p))) o.

(** ** Specification-level predicates used by the theorems *)
(** What [verify_delta_applies] is supposed to establish for one element, without the jail. *)
Definition ok_elem (o : objects) (e : elem) : Prop :=
  match e with
  | Pub u _ => o_get (canon u) o = None
  | Upd u h _ | Wdr u h => exists ob, o_get (canon u) o = Some ob /\ o_hash ob = h
  end.
Definition verified (o : objects) (d : list elem) : Prop := forall e, In e d -> ok_elem o e.

Definition ok_elem_b (o : objects) (e : elem) : bool :=
  match e with
  | Pub u _ => match o_get (canon u) o with None => true | Some _ => false end
  | Upd u h _ | Wdr u h => contains o h u
  end.
Definition verified_b (o : objects) (d : list elem) : bool := forallb (ok_elem_b o) d.

(** The effect an element has on the object stored under its key. *)
Definition eff (e : elem) : option obj :=
  match e with Pub _ ob => Some ob | Upd _ _ ob => Some ob | Wdr _ _ => None end.

(** Key of an element in a [StagedElements] map; [NoDupK] = each URI (up to [uri::Rsync]
    equality) at most once, the side condition of the property's quantifier. *)
Definition ekey (e : elem) : uri := fold (e_uri e).
Definition NoDupK (d : list elem) : Prop := NoDup (map ekey d).
Definition CohL (d : list elem) : Prop := forall e, In e d -> coherent (e_uri e) = true.

Fixpoint nodup_b (l : list uri) : bool :=
  match l with [] => true | x :: r => negb (existsb (uri_eqb x) r) && nodup_b r end.
Definition NoDupK_b (d : list elem) : bool := nodup_b (map ekey d).
Definition CohL_b (d : list elem) : bool := forallb (fun e => coherent (e_uri e)) d.

(** Object keys without duplicates, and all of the folded form (what [canon] produces for
    coherent URIs). *)
Definition NoDupO (o : objects) : Prop := NoDup (o_keys o).
Definition KeysFolded (o : objects) : Prop := forall k, In k (o_keys o) -> fold k = k.
