(** * pubd/Access.v - publisher registry and the jail derived from a publisher handle

    Executable model (definitions only) of [RepositoryAccess] as far as publication depends on
    it (src/server/pubd/access.rs): [publishers : HashMap<PublisherHandle, Publisher>] (273),
    [process_add_publisher] (372-388), [process_remove_publisher] (393-405),
    [publisher_rsync_base] (413-431), [get_publisher] (456-463). ID certificates and message
    signatures are C12's subject and are not modelled here.

    A handle is the list of its '/'-separated segments (the characters allowed in a
    [rpki::ca::idexchange::Handle] include '/'), each segment an interned, case-sensitive,
    non-empty string; the numbering is shared with URI path segments so that
    [jail_of base h] = base path followed by the handle's segments. [ta_seg] is the segment
    "ta": the handle ["ta"] (TA_NAME) gets the whole base as its jail (access.rs 417-421).
    Handles for which [uri::Rsync::from_str] fails in [publisher_rsync_base] (empty or dot
    segments) are outside the model: [create_publisher] refuses them before anything is
    stored. *)
From KV Require Import base.Tac pubd.Objects.
Open Scope N_scope.

Definition handle : Type := list N.
Definition handle_eqb (a b : handle) : bool := lN_eqb a b.

Definition ta_seg : N := 0.
Definition is_ta (h : handle) : bool := handle_eqb h [ta_seg].

(** [publisher_rsync_base] (access.rs 413-431): "{rsync_base}{name}/", or the base itself for "ta". *)
Definition jail_of (base : jail) (h : handle) : jail :=
  if is_ta h then base else mkJail (j_auth base) (j_mod base) (j_path base ++ h).

(** Maps keyed by handle. *)
Definition h_get {V : Type} (h : handle) (m : list (handle * V)) : option V :=
  option_map snd (kfind handle_eqb fst h m).
Definition h_set {V : Type} (h : handle) (v : V) (m : list (handle * V)) : list (handle * V) :=
  kput handle_eqb fst (h, v) m.
Definition h_del {V : Type} (h : handle) (m : list (handle * V)) : list (handle * V) :=
  kdel handle_eqb fst h m.
Definition h_has {V : Type} (h : handle) (m : list (handle * V)) : bool :=
  match h_get h m with Some _ => true | None => false end.

(** The registry: handle -> base URI stored when the publisher was added ([Publisher::base_uri]). *)
Definition registry : Type := list (handle * jail).

(** Two jails overlap iff one path is a (non-strict) prefix of the other; publishers with
    overlapping jails can name the same URI. *)
Fixpoint prefix_b (p q : list N) : bool :=
  match p, q with
  | [], _ => true
  | x :: p', y :: q' => (x =? y) && prefix_b p' q'
  | _ :: _, [] => false
  end.
Definition jails_nest (a b : jail) : bool :=
  (j_auth a =? j_auth b) && (j_mod a =? j_mod b)
  && (prefix_b (j_path a) (j_path b) || prefix_b (j_path b) (j_path a)).
