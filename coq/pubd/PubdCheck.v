(** * pubd/PubdCheck.v - correspondence checker and executable oracles for C10

    The harness (harness/src/bin/c10.rs) drives the real [RepositoryManager] and writes one
    [case] per request: the server state observed before the request (registry from
    [publishers]/[get_publisher_details]; published and staged objects of every publisher
    from the stored [RepositoryContent]), the request, the state observed after it, the reply,
    and for every handle of the scenario what [list] and [get_publisher_details] answered
    afterwards.

    [agrees]: the model's [step] on the observed pre-state yields the observed post-state,
    reply and answers (maps compared as sets).

    The [ok_*] predicates are the conclusions of the C10 theorems evaluated on what the
    *implementation* did (never on the model's prediction); a case on which one of them fails
    is a concrete failing input. They deliberately use the specification's notion of URI
    identity ([fold]: scheme and host case-insensitive) and the jail derived from the handle
    ([jail_of]), not the code's keys:
      - [ok_reply]   publish_iff, list_is_view (reply), duplicate / unknown publisher;
      - [ok_atomic]  a refused request changes nothing;
      - [ok_effect]  publish_effect (accepted delta applied completely), remove_exact,
                     update/reset/create/list leave every view alone;
      - [ok_isolation] views and registrations of all other publishers unchanged;
      - [ok_disjoint] no URI held by two publishers (preservation form; fails on nested jails,
                     finding F10a);
      - [ok_jail]    every object inside the jail derived from its publisher's handle, registry
                     stores exactly that jail (preservation form);
      - [ok_obs]     list and details answers = current (+) staged of the observed state;
      - [ok_staged]  StagedInv of every publisher (each URI once, hashes relative to the
                     published snapshot), preservation form, for deltas naming each URI once. *)
From KV Require Import base.Tac pubd.Objects pubd.Staged pubd.Access pubd.Content.
Open Scope N_scope.

Record obs : Type := mkObs {
  ob_h : handle;
  ob_list : list (uri * N);                      (* list reply: URI, hash *)
  ob_details : option (jail * list (uri * N)) }. (* get_publisher_details: base URI, files (URI, content); None = error *)

Record case : Type := mkCase {
  c_pre : state; c_op : op; c_post : state; c_reply : reply; c_obs : list obs }.

(** ** Comparisons (lists as sets) *)
Definition set_eqb {A : Type} (eqb : A -> A -> bool) (a b : list A) : bool :=
  (N.of_nat (length a) =? N.of_nat (length b))
  && forallb (fun x => existsb (eqb x) b) a && forallb (fun x => existsb (eqb x) a) b.

Definition obj_eqb (a b : obj) : bool := (fst a =? fst b) && (snd a =? snd b).
Definition un_eqb (a b : uri * N) : bool := uri_eqb (fst a) (fst b) && (snd a =? snd b).
Definition entry_eqb (a b : uri * obj) : bool := uri_eqb (fst a) (fst b) && obj_eqb (snd a) (snd b).
Definition objects_eqb (a b : objects) : bool := set_eqb entry_eqb a b.
Definition elem_eqb (a b : elem) : bool :=
  match a, b with
  | Pub u o, Pub u' o' => uri_eqb u u' && obj_eqb o o'
  | Upd u h o, Upd u' h' o' => uri_eqb u u' && (h =? h') && obj_eqb o o'
  | Wdr u h, Wdr u' h' => uri_eqb u u' && (h =? h')
  | _, _ => false
  end.
Definition staged_eqb (a b : staged) : bool := set_eqb elem_eqb a b.
Definition state_eqb (a b : state) : bool :=
  jail_eqb (st_base a) (st_base b)
  && set_eqb (fun x y => handle_eqb (fst x) (fst y) && jail_eqb (snd x) (snd y)) (st_pubs a) (st_pubs b)
  && set_eqb (fun x y => handle_eqb (fst x) (fst y) && objects_eqb (snd x) (snd y)) (st_snap a) (st_snap b)
  && set_eqb (fun x y => handle_eqb (fst x) (fst y) && staged_eqb (snd x) (snd y)) (st_staged a) (st_staged b)
  && (st_serial a =? st_serial b).
Definition verr_eqb (a b : verr) : bool :=
  match a, b with EOutside, EOutside | EPresent, EPresent | ENoMatch, ENoMatch => true | _, _ => false end.
Definition reply_eqb (a b : reply) : bool :=
  match a, b with
  | RDone, RDone | RErrDup, RErrDup | RErrUnknown, RErrUnknown => true
  | RErrDelta e, RErrDelta e' => verr_eqb e e'
  | RList l, RList l' => set_eqb un_eqb l l'
  | _, _ => false
  end.

(** Extensional equality of object maps (by lookup). *)
Definition omap_eqb (a b : objects) : bool :=
  forallb (fun p => match o_get (fst p) b with Some v => obj_eqb v (snd p) | None => false end) a
  && forallb (fun p => match o_get (fst p) a with Some v => obj_eqb v (snd p) | None => false end) b.

(** What the server answers for handle [h] in state [st]. *)
Definition obs_ok (st : state) (ob : obs) : bool :=
  let v := view st (ob_h ob) in
  set_eqb un_eqb (ob_list ob) (list_reply v)
  && match ob_details ob, h_get (ob_h ob) (st_pubs st) with
     | Some (j, files), Some j' => jail_eqb j j' && set_eqb un_eqb files (published_files v)
     | None, None => true
     | _, _ => false
     end.

(** ** Correspondence *)
(** [remove_publisher] stages the withdraws in the iteration order of a HashMap. The order
    matters only when two objects of the publisher have URIs that are equal for
    [StagedElements] but not for [CurrentObjects] (possible only in the incoherent states of
    finding F10b): then the withdraw processed first wins. The harness cannot observe that
    order, so for [ORemove] the model is run with every order of the withdraws inside each
    class of equal staged keys (the order between classes is irrelevant). For coherent states
    every class is a singleton and there is exactly one variant, the model's [step]. *)
Definition remove_with (st : state) (h : handle) (ws : delta) : state * reply :=
  let st1 := match ws with [] => st | _ => stage st h ws end in
  if h_has h (st_pubs st)
  then (mkState (st_base st1) (h_del h (st_pubs st1)) (st_snap st1) (st_staged st1) (st_serial st1), RDone)
  else (st1, RErrUnknown).

Fixpoint insert_everywhere {A : Type} (x : A) (l : list A) : list (list A) :=
  match l with
  | [] => [[x]]
  | y :: r => (x :: l) :: map (cons y) (insert_everywhere x r)
  end.
Fixpoint perms {A : Type} (l : list A) : list (list A) :=
  match l with
  | [] => [[]]
  | x :: r => flat_map (insert_everywhere x) (perms r)
  end.
(** Group by staged key, keeping first-occurrence order of the classes. *)
Fixpoint classes (fuel : nat) (l : list elem) : list (list elem) :=
  match fuel, l with
  | S f, e :: r =>
      (e :: filter (fun x => uri_eqb (ekey x) (ekey e)) r)
      :: classes f (filter (fun x => negb (uri_eqb (ekey x) (ekey e))) r)
  | _, _ => []
  end.
Fixpoint products (cs : list (list (list elem))) : list (list elem) :=
  match cs with
  | [] => [[]]
  | c :: r => flat_map (fun p => map (fun q => p ++ q) (products r)) c
  end.
Definition withdraw_orders (ws : delta) : list delta :=
  products (map perms (classes (length ws) ws)).

Definition check_outcome (c : case) (out : state * reply) : bool :=
  let '(st', r) := out in
  state_eqb st' (c_post c) && reply_eqb r (c_reply c) && forallb (obs_ok st') (c_obs c).

Definition agrees (c : case) : bool :=
  match c_op c with
  | ORemove h =>
      existsb (fun ws => check_outcome c (remove_with (c_pre c) h ws))
              (withdraw_orders (withdraw_all (view (c_pre c) h)))
  | o => check_outcome c (step (c_pre c) o)
  end.

(** ** Oracles *)
Definition is_done (r : reply) : bool := match r with RDone => true | _ => false end.
Definition is_refusal (r : reply) : bool := match r with RDone | RList _ => false | _ => true end.

Fixpoint dedup_h (l : list handle) : list handle :=
  match l with
  | [] => []
  | h :: r => if existsb (handle_eqb h) r then dedup_h r else h :: dedup_h r
  end.
Definition handles (c : case) : list handle :=
  dedup_h (handles_of (c_pre c) ++ handles_of (c_post c) ++ map ob_h (c_obs c)
           ++ match actor (c_op c) with Some h => [h] | None => [] end).

(** The publisher's objects keyed by the specification's URI identity. *)
Definition sview (st : state) (h : handle) : objects := map (fun p => (fold (fst p), snd p)) (view st h).

Definition sem_ok (v : objects) (e : elem) : bool :=
  match e with
  | Pub u _ => match o_get (fold u) v with None => true | Some _ => false end
  | Upd u h _ | Wdr u h => match o_get (fold u) v with Some ob => o_hash ob =? h | None => false end
  end.
Definition sapply1 (v : objects) (e : elem) : objects :=
  match e with
  | Pub u ob | Upd u _ ob => o_set (fold u) ob v
  | Wdr u _ => o_del (fold u) v
  end.

Definition ok_reply (c : case) : bool :=
  let pre := c_pre c in
  match c_op c with
  | OPublish h d =>
      match h_get h (st_pubs pre) with
      | None => reply_eqb (c_reply c) RErrUnknown
      | Some _ =>
          let j := jail_of (st_base pre) h in
          let v := sview pre h in
          if forallb (fun e => in_jail j (e_uri e) && sem_ok v e) d
          then is_done (c_reply c)
          else match c_reply c with RErrDelta _ => true | _ => false end
      end
  | OList h => reply_eqb (c_reply c) (RList (list_reply (view pre h)))
  | OCreate h => reply_eqb (c_reply c) (if h_has h (st_pubs pre) then RErrDup else RDone)
  | ORemove h => reply_eqb (c_reply c) (if h_has h (st_pubs pre) then RDone else RErrUnknown)
  | OUpdate | OReset => is_done (c_reply c)
  end.

Definition ok_atomic (c : case) : bool :=
  if is_refusal (c_reply c) then state_eqb (c_pre c) (c_post c) else true.

Definition views_unchanged (c : case) (except : option handle) : bool :=
  forallb (fun q => match except with
                    | Some h => if handle_eqb q h then true else omap_eqb (view (c_post c) q) (view (c_pre c) q)
                    | None => omap_eqb (view (c_post c) q) (view (c_pre c) q)
                    end) (handles c).

Definition ok_effect (c : case) : bool :=
  let pre := c_pre c in let post := c_post c in
  match c_op c with
  | OPublish h d =>
      if is_done (c_reply c) && NoDupK_b d
      then omap_eqb (sview post h) (fold_left sapply1 (normalize d) (sview pre h))
      else true
  | ORemove h =>
      match view post h with [] => true | _ => false end && negb (h_has h (st_pubs post))
  | OCreate h =>
      views_unchanged c None &&
      (if is_done (c_reply c)
       then match h_get h (st_pubs post) with Some j => jail_eqb j (jail_of (st_base pre) h) | None => false end
       else true)
  | OUpdate =>
      views_unchanged c None &&
      (if staged_nonempty pre
       then (st_serial post =? st_serial pre + 1)
            && forallb (fun q => match staged_of post q with [] => true | _ => false end) (handles c)
       else state_eqb pre post)
  | OReset => views_unchanged c None && (st_serial post =? 1)
  | OList _ => state_eqb pre post
  end.

Definition ok_isolation (c : case) : bool :=
  views_unchanged c (actor (c_op c))
  && forallb (fun q => match actor (c_op c) with
                       | Some h => if handle_eqb q h then true
                                   else match h_get q (st_pubs (c_pre c)), h_get q (st_pubs (c_post c)) with
                                        | Some j, Some j' => jail_eqb j j'
                                        | None, None => true
                                        | _, _ => false
                                        end
                       | None => match h_get q (st_pubs (c_pre c)), h_get q (st_pubs (c_post c)) with
                                 | Some j, Some j' => jail_eqb j j'
                                 | None, None => true
                                 | _, _ => false
                                 end
                       end) (handles c).

(** No URI (up to scheme/host case) is held by two different publishers. *)
Definition disjoint_st (hs : list handle) (st : state) : bool :=
  let vs := map (fun h => (h, sview st h)) hs in
  forallb (fun p => forallb (fun q =>
    if handle_eqb (fst p) (fst q) then true
    else forallb (fun e => match o_get (fst e) (snd q) with None => true | Some _ => false end) (snd p)) vs) vs.
Definition ok_disjoint (c : case) : bool :=
  if disjoint_st (handles c) (c_pre c) then disjoint_st (handles c) (c_post c) else true.

Definition injail_st (hs : list handle) (st : state) : bool :=
  forallb (fun h => forallb (fun k => in_jail (jail_of (st_base st) h) k) (o_keys (view st h))) hs
  && forallb (fun hj => jail_eqb (snd hj) (jail_of (st_base st) (fst hj))) (st_pubs st).
Definition ok_jail (c : case) : bool :=
  if injail_st (handles c) (c_pre c) then injail_st (handles c) (c_post c) else true.

Definition ok_obs (c : case) : bool :=
  forallb (obs_ok (c_post c)) (c_obs c)
  && forallb (fun h => existsb (fun ob => handle_eqb (ob_h ob) h) (c_obs c)) (handles_of (c_post c)).

Definition staged_ok_st (hs : list handle) (st : state) : bool :=
  forallb (fun h => NoDupK_b (staged_of st h) && verified_b (snap_of st h) (staged_of st h)) hs.
(** A delta naming a URI twice is outside the property's quantifier (and the code does not
    reject it: two withdraws of an object that is only staged leave a withdraw of an object
    that was never published, candidate finding F10c); the oracle skips such requests. *)
Definition ok_staged (c : case) : bool :=
  match c_op c with
  | OPublish _ d => if NoDupK_b d then
      if staged_ok_st (handles c) (c_pre c) then staged_ok_st (handles c) (c_post c) else true
      else true
  | _ => if staged_ok_st (handles c) (c_pre c) then staged_ok_st (handles c) (c_post c) else true
  end.

(** All oracles together (the boolean form of the C10 theorems on one observed transition). *)
Definition c10_ok (c : case) : bool :=
  ok_reply c && ok_atomic c && ok_effect c && ok_isolation c && ok_disjoint c && ok_jail c
  && ok_obs c && ok_staged c.

(** Indices of cases on which a predicate fails. *)
Fixpoint failing_from {A} (f : A -> bool) (i : N) (l : list A) : list N :=
  match l with
  | [] => []
  | x :: r => if f x then failing_from f (i + 1) r else i :: failing_from f (i + 1) r
  end.
Definition failing {A} (f : A -> bool) (base : N) (l : list A) : list N := failing_from f base l.

(** Short constructors for the generated case files. *)
Notation U := mkUri (only parsing).
Notation J := mkJail (only parsing).
