(** * pubd/Rrdp.v - the RRDP server state: serial, session, snapshot, retained deltas; model client

    Executable model (definitions only, no proofs) of [RrdpServer] (src/server/pubd/rrdp.rs 53-81)
    as far as C11 depends on it:
      - [apply_rrdp_updated]        rrdp.rs 310-338
      - [deltas_truncate_size]      rrdp.rs 396-412
      - [find_deltas_truncate_age]  rrdp.rs 422-459 (count test [keep + 1 >= max_nr] since 5d8ba60d; the
                                    earlier [keep == max_nr - 1] with its [usize] subtraction as [CountEq])
      - [update_rrdp]               rrdp.rs 373-388 (time, random, truncation point)
      - [reset_session] / [apply_session_reset]  rrdp.rs 262-281
      - [update_rrdp_if_needed]     manager.rs 221-238 with [rrdp_delta_interval_min_seconds = 0]
    and of an RRDP client (RFC 8182 section 3.4) that holds (session, serial, objects), reads what
    the server offers, applies the contiguous chain of deltas with the hash checks or falls back
    to the snapshot.

    The publication state proper (publishers, published objects per publisher, staged elements,
    serial) is the [state] of pubd/Content.v (C10). [rstep] changes that part exactly as
    [Content.step] does ([r_st (rstep r o) = fst (step (r_st r) o)] by definition), so every C10
    invariant ([WF], [JailInv], ...) is available here; C11 adds session, retained deltas and the
    snapshot's random path component.

    Randomness, the clock and the retention configuration in force are oracle inputs of a step
    ([oracle]); theorems quantify over them. Times are [Z] ticks, [tps] ticks per second
    ([Time] has sub-second resolution, the limits are whole seconds, rrdp.rs 1614-1623).

    What an RRDP client sees of the snapshot is the concatenation over publishers ([flat]); the
    delta of an update is the concatenation of the publishers' staged sets (rrdp.rs 316-324: each
    publisher's [DeltaElements] is applied to its own objects and appended). HashMap iteration
    order is not modelled: every consumer of these lists treats them as maps. *)
From KV Require Import base.Tac pubd.Objects pubd.Staged pubd.Access pubd.Content.
Open Scope N_scope.

(** ** Data *)
(** [DeltaData] (rrdp.rs 1564-1585). *)
Record ddata : Type := mkD { d_serial : N; d_time : Z; d_rnd : N; d_elems : list elem }.

(** [RrdpUpdatesConfig] (config.rs 798-817); [rrdp_delta_interval_min_seconds] is 0 throughout. *)
Record cfg : Type := mkCfg {
  c_min_nr : N;        (* rrdp_delta_files_min_nr : usize *)
  c_min_secs : Z;      (* rrdp_delta_files_min_seconds : u32 *)
  c_max_nr : N;        (* rrdp_delta_files_max_nr : usize *)
  c_max_secs : Z;      (* rrdp_delta_files_max_seconds : u32 *)
  c_archive : bool }.  (* rrdp_files_archive *)

(** ConfigDefaults (config.rs 823-860). *)
Definition cfg_default : cfg := mkCfg 5 1200 50 7200 false.

(** What a step takes from outside: clock, fresh random path component, fresh session id, and the
    configuration the manager was built with. *)
Record oracle : Type := mkOracle { or_now : Z; or_rnd : N; or_sess : N; or_cfg : cfg }.

Record rrdp : Type := mkR {
  r_st : state;              (* publishers, snapshot objects, staged elements, serial (Content.v) *)
  r_session : N;             (* RrdpServer.session *)
  r_snaprnd : N;             (* SnapshotData.random: changes only on a session reset (rrdp.rs 1056-1061) *)
  r_deltas : list ddata }.   (* RrdpServer.deltas, newest first *)

Definition r_serial (r : rrdp) : N := st_serial (r_st r).

(** RRDP_FIRST_SERIAL = 1 is [Content.init]'s serial. *)
Definition rinit (base : jail) (sess rnd : N) : rrdp := mkR (init base) sess rnd [].

(** The object set a client sees: all publishers' objects. *)
Definition flat (m : list (handle * objects)) : objects := flat_map snd m.
Definition r_snapshot (r : rrdp) : objects := flat (st_snap (r_st r)).
(** The elements of the next delta: all publishers' staged sets (rrdp.rs 316-324). *)
Definition staged_all (st : state) : list elem := flat_map (fun hs => staged_delta (snd hs)) (st_staged st).

(** ** Retention by age and number (rrdp.rs 422-455) *)
Definition tps : Z := 1000000.

(** [DeltaData::younger_than_seconds] / [older_than_seconds] (rrdp.rs 1614-1623). *)
Definition younger_than (now secs : Z) (d : ddata) : bool := (now - secs * tps <? d_time d)%Z.
Definition older_than (now secs : Z) (d : ddata) : bool := (d_time d <? now - secs * tps)%Z.

(** A retained delta at index [i] (0 = newest) is protected from truncation by number and age. *)
Definition protected (c : cfg) (now : Z) (i : N) (d : ddata) : bool :=
  (i <? c_min_nr c) || younger_than now (c_min_secs c) d.

(** [usize] arithmetic: the release profile wraps (overflow checks off, Cargo.toml 112-113 only
    sets panic = "abort"), a build with overflow checks panics. *)
Inductive arith : Type := Wrapping | Checked.
Definition usize_max : N := 18446744073709551615.
Definition usize_pred (a : arith) (n : N) : option N :=
  if n =? 0 then match a with Wrapping => Some usize_max | Checked => None end else Some (n - 1).

(** The count test of the loop. [CountGe] is the code of record (rrdp.rs 440, since commit
    5d8ba60d: [keep + 1 >= max_nr], no subtraction); [CountEq] is the test before that commit
    ([keep == max_nr - 1], with the [usize] subtraction), kept as a regression example: once a
    protected delta had carried [keep] past [max_nr - 1] it never fired again (finding F11a),
    and [max_nr = 0] overflowed (finding F11b). *)
Inductive rrule : Type := CountEq | CountGe.
Definition retention_rule : rrule := CountGe.

(** The loop of [find_deltas_truncate_age], [keep] being the loop variable. [None] = the
    subtraction [max_nr - 1] panicked (only possible with [CountEq]). *)
Fixpoint age_loop_v (v : rrule) (a : arith) (c : cfg) (now : Z) (ds : list ddata) (keep : N) : option N :=
  match ds with
  | [] => Some keep
  | d :: rest =>
      if (keep <? c_min_nr c) || younger_than now (c_min_secs c) d
      then age_loop_v v a c now rest (keep + 1)                               (* 435-439 *)
      else match v with
           | CountEq =>
               match usize_pred a (c_max_nr c) with
               | None => None
               | Some m =>
                   if (keep =? m) || older_than now (c_max_secs c) d
                   then Some keep
                   else age_loop_v v a c now rest (keep + 1)
               end
           | CountGe =>
               if (c_max_nr c <=? keep + 1) || older_than now (c_max_secs c) d
               then Some keep                                                  (* 440-451 break *)
               else age_loop_v v a c now rest (keep + 1)                       (* 452-455 *)
           end
  end.
Definition find_deltas_truncate_age_v (v : rrule) (a : arith) (c : cfg) (now : Z) (ds : list ddata) : option N :=
  age_loop_v v a c now ds 0.
(** The code of record. (The [arith] argument no longer matters: [find_total] in RrdpProofs.v.) *)
Definition find_deltas_truncate_age : arith -> cfg -> Z -> list ddata -> option N :=
  find_deltas_truncate_age_v retention_rule.

(** ** Retention by size (rrdp.rs 396-412). [sz] maps a content to [Base64::size_approx]. *)
Definition elems_size (sz : N -> N) (l : list elem) : N :=
  fold_left (fun acc e => match e with Pub _ ob | Upd _ _ ob => acc + sz (o_content ob) | Wdr _ _ => acc end) l 0.
Definition objects_size (sz : N -> N) (o : objects) : N :=
  fold_left (fun acc p => acc + sz (o_content (snd p))) o 0.
Fixpoint size_loop (sz : N -> N) (snap_size : N) (ds : list ddata) (tot keep : N) : N :=
  match ds with
  | [] => keep
  | d :: rest =>
      let tot' := tot + elems_size sz (d_elems d) in
      if snap_size <? tot' then keep else size_loop sz snap_size rest tot' (keep + 1)
  end.
Definition deltas_truncate_size (sz : N -> N) (snap : objects) (ds : list ddata) : list ddata :=
  firstn (N.to_nat (size_loop sz (objects_size sz snap) ds 0 0)) ds.

(** ** [RrdpUpdated] (rrdp.rs 944-948) and its application (310-338) *)
Record updated : Type := mkUpd { u_time : Z; u_rnd : N; u_truncate : N }.

Definition apply_rrdp_updated (sz : N -> N) (u : updated) (r : rrdp) : rrdp :=
  let st := r_st r in
  let st' := mkState (st_base st) (st_pubs st) (fold_left snap_apply (st_staged st) (st_snap st)) []
                     (st_serial st + 1) in                  (* 311-324: serial + 1, staged -> snapshot *)
  let d := mkD (st_serial st') (u_time u) (u_rnd u) (staged_all (r_st r)) in
  mkR st' (r_session r) (r_snaprnd r)
      (deltas_truncate_size sz (flat (st_snap st'))
         (d :: firstn (N.to_nat (u_truncate u)) (r_deltas r))).   (* truncate, push_front, truncate by size *)

(** ** One request. [None] = the process panicked (only in [find_deltas_truncate_age], and only
    with the count test of before 5d8ba60d: [rstep_total] in RrdpProofs.v). *)
Definition rstep (a : arith) (sz : N -> N) (r : rrdp) (o : op) (orc : oracle) : option rrdp :=
  match o with
  | OUpdate =>
      if staged_nonempty (r_st r)
      then match find_deltas_truncate_age a (or_cfg orc) (or_now orc) (r_deltas r) with
           | Some k => Some (apply_rrdp_updated sz (mkUpd (or_now orc) (or_rnd orc) k) r)
           | None => None
           end
      else Some r
  | OReset => Some (mkR (fst (step (r_st r) OReset)) (or_sess orc) (or_rnd orc) [])   (* 262-281 *)
  | _ => Some (mkR (fst (step (r_st r) o)) (r_session r) (r_snaprnd r) (r_deltas r))
  end.

Definition rop : Type := (op * oracle)%type.
Fixpoint rrun (a : arith) (sz : N -> N) (r : rrdp) (ops : list rop) : option rrdp :=
  match ops with
  | [] => Some r
  | (o, orc) :: rest => match rstep a sz r o orc with Some r' => rrun a sz r' rest | None => None end
  end.

Definition is_reset (o : op) : bool := match o with OReset => true | _ => false end.
Definition is_update (o : op) : bool := match o with OUpdate => true | _ => false end.

(** ** Invariant notions (proved in RrdpProofs.v) *)
(** Retained deltas are [s, s-1, ...] and never reach back to the first serial. *)
Fixpoint contig (s : N) (ds : list ddata) : Prop :=
  match ds with
  | [] => True
  | d :: rest => d_serial d = s /\ 1 < s /\ contig (s - 1) rest
  end.
Fixpoint contig_b (s : N) (ds : list ddata) : bool :=
  match ds with
  | [] => true
  | d :: rest => (d_serial d =? s) && (1 <? s) && contig_b (s - 1) rest
  end.

(** Extensional equality of object maps. *)
Definition oeq (a b : objects) : Prop := forall k, o_get k a = o_get k b.

(** A publisher "owns" key [k] if it has it published or staged. Two publishers never own the
    same key: C10's isolation (it fails only for nested jails, finding F10a). *)
Definition owns (st : state) (h : handle) (k : uri) : Prop :=
  o_get k (snap_of st h) <> None \/ kfind uri_eqb ekey k (staged_of st h) <> None.
Definition PubDisjoint (st : state) : Prop :=
  forall p q k, p <> q -> owns st p k -> ~ owns st q k.
(** Handles of the snapshot map are unique (it is a HashMap). *)
Definition SNoDup (st : state) : Prop := NoDup (map fst (st_snap st)).

Definition RInv (r : rrdp) : Prop :=
  WF (r_st r) /\ SNoDup (r_st r) /\ contig (r_serial r) (r_deltas r) /\ 1 <= r_serial r.

(** ** What the server offers and what a client does with it (RFC 8182 3.4) *)
Record offer : Type := mkOffer {
  of_session : N; of_serial : N; of_snap : objects; of_deltas : list (N * list elem) }.
Definition offer_of (r : rrdp) : offer :=
  mkOffer (r_session r) (r_serial r) (r_snapshot r) (map (fun d => (d_serial d, d_elems d)) (r_deltas r)).

Record client : Type := mkClient { cl_session : N; cl_serial : N; cl_objs : objects }.
Inductive how : Type := UpToDate | ViaDeltas | ViaSnapshot.

Definition find_delta (s : N) (ds : list (N * list elem)) : option (list elem) :=
  option_map snd (find (fun x => fst x =? s) ds).
(** The deltas [from+1, ..., from+n] in that order, if all are offered. *)
Fixpoint chain (n : nat) (from : N) (ds : list (N * list elem)) : option (list (list elem)) :=
  match n with
  | O => Some []
  | S m => match find_delta (from + 1) ds with
           | Some e => option_map (cons e) (chain m (from + 1) ds)
           | None => None
           end
  end.
(** Apply deltas in order; each must pass the hash checks against what the client holds
    (publish: URI absent; update / withdraw: URI present with the stated hash). *)
Fixpoint apply_chain (o : objects) (l : list (list elem)) : option objects :=
  match l with
  | [] => Some o
  | e :: rest => if verified_b o e then apply_chain (apply_delta o e) rest else None
  end.

Definition take_snapshot (f : offer) : client * how :=
  (mkClient (of_session f) (of_serial f) (of_snap f), ViaSnapshot).
Definition client_update (f : offer) (c : client) : client * how :=
  if negb (cl_session c =? of_session f) then take_snapshot f
  else if cl_serial c =? of_serial f then (c, UpToDate)
  else if of_serial f <? cl_serial c then take_snapshot f
  else match chain (N.to_nat (of_serial f - cl_serial c)) (cl_serial c) (of_deltas f) with
       | Some l => match apply_chain (cl_objs c) l with
                   | Some o => (mkClient (of_session f) (of_serial f) o, ViaDeltas)
                   | None => take_snapshot f
                   end
       | None => take_snapshot f
       end.

(** The chain is offered from the client's serial on: the lowest retained delta is at most one
    above it. *)
Definition covers (r : rrdp) (s : N) : Prop := r_serial r - s <= N.of_nat (length (r_deltas r)).

(** ** The property's retention clause *)
(** At full strength: "the retained deltas never exceed the configured maximum number". Refuted
    also for the repaired rule (RrdpProofs.v): the configured minimums have priority. *)
Definition retention_unconditional : Prop :=
  forall a sz r o orc r', RInv r -> rstep a sz r o orc = Some r' -> is_update o = true ->
    N.of_nat (length (r_deltas r')) <= c_max_nr (or_cfg orc) \/ r' = r.

(** What is true of the code of record: every old delta kept at an index where the count would
    exceed the maximum is protected by min_nr or min_seconds. As a property of a truncation
    function, so that it can be stated of both count tests. *)
Definition retention_explained (find : cfg -> Z -> list ddata -> option N) : Prop :=
  forall c now ds k i x,
    find c now ds = Some k -> nth_error ds i = Some x -> N.of_nat i < k -> c_max_nr c <= N.of_nat i + 1 ->
    protected c now (N.of_nat i) x = true.
