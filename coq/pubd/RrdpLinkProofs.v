(** * pubd/RrdpLinkProofs.v - the files on disk are those of the server state

    [FilesMatch r f]: the notification in tree [f] is exactly the one of state [r] (session,
    serial, the snapshot at its path with its content, one reference per retained delta) and
    everything it names is present. Main results:
      - [new_notif_descends]: when the old notification was written from an earlier state of
        the session, [write_delta_files] reuses exactly the retained part of its list and writes
        exactly the newer deltas, so the new notification is the one of the state;
      - [files_match_init] / [files_match_update] / [files_match_reset]: [FilesMatch] is
        established by the first write and preserved by every update and every session reset that
        is followed by a complete write; the hypotheses of [files_consistent_at_every_prefix]
        (layout, not ahead, fresh paths) hold along the way;
      - [files_offer_state]: what a client reads from such files is what the state offers, so
        [delta_chain_sound] speaks about the files. *)
From KV Require Import base.Tac pubd.Objects pubd.ObjectsProofs pubd.Staged pubd.Access pubd.Content
  pubd.Rrdp pubd.RrdpProofs pubd.Fs pubd.FsProofs pubd.RrdpFiles pubd.RrdpFilesProofs.
Open Scope N_scope.

(** ** The files written are those of the state: [new_notif] is [notif_of] *)
Lemma insert_largest x l : (forall y, In y l -> dr_serial y < dr_serial x) -> insert_sorted x l = l ++ [x].
Proof.
  induction l as [|y l IH]; intros H; [reflexivity|]. simpl.
  assert (Hy : dr_serial y < dr_serial x) by (apply H; left; reflexivity).
  destruct (dr_serial x <? dr_serial y) eqn:E; [apply N.ltb_lt in E; lia|].
  rewrite IH; [reflexivity|]. intros z Hz. apply H. right. exact Hz.
Qed.

Lemma dref_serial sess d : dr_serial (dref_of sess d) = d_serial d.
Proof. reflexivity. Qed.

Lemma sort_contig sess s ds : contig s ds -> sort_refs (map (dref_of sess) ds) = rev (map (dref_of sess) ds).
Proof.
  revert s. induction ds as [|d ds IH]; intros s Hc; [reflexivity|].
  destruct Hc as [H1 [H2 H3]]. cbn [map]. unfold sort_refs in *. cbn [fold_right rev].
  rewrite (IH _ H3). apply insert_largest.
  intros y Hy. apply in_rev in Hy. apply in_map_iff in Hy. destruct Hy as [d' [<- Hd']].
  rewrite !dref_serial. destruct (contig_in _ _ _ H3 Hd'). lia.
Qed.

Lemma no_gaps_snoc l x : no_gaps l = true ->
  (forall y, last (map Some l) None = Some y -> dr_serial y + 1 = dr_serial x) -> no_gaps (l ++ [x]) = true.
Proof.
  induction l as [|a l IHl]; intros Hn Hl; [reflexivity|].
  destruct l as [|b l].
  - simpl. rewrite (proj2 (N.eqb_eq _ _) (Hl a eq_refl)). reflexivity.
  - cbn [app no_gaps] in *. apply andb_true_iff in Hn. destruct Hn as [Hn1 Hn2]. rewrite Hn1. simpl.
    apply IHl; [exact Hn2|]. intros y Hy. apply Hl. exact Hy.
Qed.

Lemma no_gaps_rev_contig sess s ds : contig s ds -> no_gaps (rev (map (dref_of sess) ds)) = true.
Proof.
  revert s. induction ds as [|d ds IH]; intros s Hc; [reflexivity|].
  destruct Hc as [H1 [H2 H3]]. cbn [map rev]. specialize (IH _ H3).
  apply no_gaps_snoc; [exact IH|].
  intros y Hy. rewrite dref_serial, H1.
  destruct ds as [|d2 ds']; [discriminate Hy|].
  destruct H3 as [E2 _]. cbn [map rev] in Hy. rewrite map_app in Hy. cbn [map] in Hy. rewrite last_last in Hy. inv Hy. rewrite dref_serial, E2. lia.
Qed.

Lemma filter_rev {A : Type} (p : A -> bool) (l : list A) : filter p (rev l) = rev (filter p l).
Proof.
  induction l as [|a l IH]; [reflexivity|]. simpl. rewrite filter_app, IH. simpl. destruct (p a); [reflexivity|apply app_nil_r].
Qed.
Lemma filter_map {A B : Type} (f : A -> B) (p : B -> bool) (l : list A) : filter p (map f l) = map f (filter (fun x => p (f x)) l).
Proof. induction l as [|a l IH]; [reflexivity|]. simpl. destruct (p (f a)); simpl; rewrite IH; reflexivity. Qed.
Lemma filter_none {A : Type} (p : A -> bool) (l : list A) : (forall x, In x l -> p x = false) -> filter p l = [].
Proof. induction l as [|a l IH]; intros H; [reflexivity|]. simpl. rewrite (H a (or_introl eq_refl)). apply IH. intros x Hx. apply H. right. exact Hx. Qed.
Lemma filter_all {A : Type} (p : A -> bool) (l : list A) : (forall x, In x l -> p x = true) -> filter p l = l.
Proof. induction l as [|a l IH]; intros H; [reflexivity|]. simpl. rewrite (H a (or_introl eq_refl)). f_equal. apply IH. intros x Hx. apply H. right. exact Hx. Qed.

(** In a contiguous list the elements with serial at least that of the element at index [j] are
    the first [j + 1]. *)
Lemma filter_ge_contig s ds : contig s ds -> forall j l, nth_error ds j = Some l ->
  filter (fun d => d_serial l <=? d_serial d) ds = firstn (S j) ds.
Proof.
  revert s. induction ds as [|d ds IH]; intros s Hc j l Hj; [destruct j; discriminate|].
  destruct Hc as [H1 [H2 H3]]. destruct j as [|j]; simpl in Hj.
  - inv Hj. cbn [filter firstn]. rewrite N.leb_refl. f_equal. apply filter_none.
    intros x Hx. apply N.leb_gt. destruct (contig_in _ _ _ H3 Hx). lia.
  - cbn [filter]. assert (Hl : d_serial l <= d_serial d) by (destruct (contig_nth _ _ H3 _ _ Hj); lia).
    rewrite (proj2 (N.leb_le _ _) Hl). cbn [firstn]. f_equal. eapply IH; eassumption.
Qed.

Lemma last_app_nonempty {A : Type} (a b : list A) x : b <> [] -> last (map Some (a ++ b)) x = last (map Some b) x.
Proof.
  intros Hb. induction a as [|y a IH]; [reflexivity|]. simpl app. simpl map.
  destruct (a ++ b) as [|z t] eqn:E; [destruct a; simpl in E; [contradiction|discriminate]|]. exact IH.
Qed.

Lemma last_firstn_nth {A : Type} (l : list A) k x : last (map Some (firstn k l)) None = Some x ->
  exists j, nth_error l j = Some x /\ firstn (S j) l = firstn k l.
Proof.
  revert k. induction l as [|a l IH]; intros k H; [rewrite firstn_nil in H; discriminate|].
  destruct k as [|k]; [discriminate|]. cbn [firstn] in H.
  destruct (firstn k l) as [|b t] eqn:E.
  - simpl in H. inv H. exists 0%nat. split; [reflexivity|]. cbn [firstn]. rewrite E. reflexivity.
  - change (last (map Some (a :: b :: t)) None) with (last (map Some (b :: t)) None) in H. rewrite <- E in H.
    destruct (IH _ H) as [j [Hj Hf]]. exists (S j). split; [exact Hj|]. cbn [firstn]. cbn [firstn] in Hf. rewrite Hf. reflexivity.
Qed.

(** The core: when the old notification was written from an earlier state of this session
    ([Descends]), the retained part of its list is reused and exactly the newer deltas are
    written. *)
Lemma descends_parts n r ds0 newer k :
  n_session n = r_session r ->
  n_deltas n = map (dref_of (r_session r)) ds0 -> contig (n_serial n) ds0 ->
  r_deltas r = newer ++ firstn k ds0 -> (forall d, In d newer -> n_serial n < d_serial d) ->
  reusable (Some n) r = rev (map (dref_of (r_session r)) (firstn k ds0))
  /\ to_write (reusable (Some n) r) r = newer.
Proof.
  intros Es Ed Hc0 Er Hnew.
  set (sess := r_session r) in *.
  assert (Fold : forall lo, filter (fun x => lo <=? dr_serial x) (rev (map (dref_of sess) ds0))
                          = rev (map (dref_of sess) (filter (fun d => lo <=? d_serial d) ds0))).
  { intros lo. rewrite filter_rev, filter_map. reflexivity. }
  unfold reusable. rewrite Es. fold sess. rewrite N.eqb_refl, Ed, (sort_contig sess _ _ Hc0), (no_gaps_rev_contig sess _ _ Hc0).
  destruct (firstn k ds0) as [|a kept'] eqn:Ek.
  - rewrite app_nil_r in Er. rewrite Er.
    destruct (last (map Some newer) None) as [l|] eqn:El.
    + apply last_some_in in El. specialize (Hnew l El). rewrite Fold.
      rewrite (filter_none _ ds0); [|intros x Hx; apply N.leb_gt; destruct (contig_in _ _ _ Hc0 Hx); lia].
      cbn [map rev]. split; [reflexivity|]. unfold to_write. cbn [map last]. exact Er.
    + apply last_none_nil in El. rewrite El in *. split; [reflexivity|]. unfold to_write. cbn [map last]. exact Er.
  - assert (Hk : a :: kept' <> []) by discriminate.
    rewrite Er, (last_app_nonempty newer (a :: kept') None Hk), <- Ek.
    destruct (last (map Some (firstn k ds0)) None) as [l|] eqn:El; [|rewrite Ek in El; apply last_none_nil in El; discriminate].
    destruct (last_firstn_nth _ _ _ El) as [j [Hj Hf]].
    rewrite Fold, (filter_ge_contig _ _ Hc0 j l Hj), Hf, Ek. split; [reflexivity|].
    assert (Ha : d_serial a = n_serial n).
    { destruct ds0 as [|d0 ds0']; [destruct k; discriminate|]. destruct k as [|k']; [discriminate|]. cbn [firstn] in Ek. inv Ek.
      destruct Hc0 as [E _]. exact E. }
    unfold to_write. cbn [map rev]. rewrite map_app. cbn [map]. rewrite last_last. rewrite dref_serial, Ha.
    rewrite Er, filter_app.
    rewrite (filter_all _ newer); [|intros x Hx; specialize (Hnew x Hx); apply negb_true_iff, N.leb_gt; lia].
    rewrite (filter_none _ (a :: kept')).
    2:{ intros x Hx. apply negb_false_iff, N.leb_le. rewrite <- Ek in Hx. apply in_firstn in Hx. destruct (contig_in _ _ _ Hc0 Hx). lia. }
    apply app_nil_r.
Qed.

Lemma new_notif_descends n r :
  n_session n = r_session r -> Descends n r -> new_notif (Some n) r = notif_of r.
Proof.
  intros Es [ds0 [newer [k [Ed [Hc0 [Er Hnew]]]]]].
  destruct (descends_parts n r ds0 newer k Es Ed Hc0 Er Hnew) as [R T].
  unfold new_notif, notif_of. f_equal. rewrite T, R, rev_involutive, Er, map_app. reflexivity.
Qed.

(** An update leaves the server in a state that descends from the notification of the state
    before it. *)
Lemma descends_after_update sz u r :
  contig (r_serial r) (r_deltas r) -> Descends (notif_of r) (apply_rrdp_updated sz u r).
Proof.
  intros Hc. unfold Descends, apply_rrdp_updated, notif_of, deltas_truncate_size. cbn [n_deltas n_serial r_session r_deltas].
  set (m := N.to_nat (size_loop _ _ _ _ _)). set (dn := mkD _ _ _ _).
  exists (r_deltas r). destruct m as [|m].
  - exists [], 0%nat. split; [reflexivity|]. split; [exact Hc|]. split; [reflexivity|intros d []].
  - exists [dn], (Nat.min m (N.to_nat (u_truncate u))). split; [reflexivity|]. split; [exact Hc|]. split.
    + cbn [firstn app]. rewrite firstn_firstn. reflexivity.
    + intros d [<-|[]]. unfold dn, r_serial. cbn [d_serial st_serial]. lia.
Qed.

Lemma notif_of_wf r : contig (r_serial r) (r_deltas r) -> NotifWf (notif_of r).
Proof.
  intros Hc. split; [exists (r_snaprnd r); reflexivity|].
  intros x Hx. unfold notif_of in Hx. cbn [n_deltas n_session n_serial] in *. apply in_map_iff in Hx. destruct Hx as [d [<- Hd]].
  split; [exists (d_rnd d); reflexivity|]. destruct (contig_in _ _ _ Hc Hd). rewrite dref_serial. unfold notif_of. cbn. lia.
Qed.

(** ** Files and state together *)
(** What a client reads from such files is what the state offers. *)
Theorem files_offer_state r f : FilesMatch r f -> offer_of_files f = Some (offer_of r).
Proof.
  intros [Hn Hok]. unfold offer_of_files. rewrite Hn. unfold NotifOk in Hok. rewrite Hn in Hok.
  assert (Fs : fetch f (snap_path r) (snap_data r) = Some (snap_data r)).
  { unfold fetch. rewrite (Hok (snap_path r) (snap_data r)) by (left; reflexivity). rewrite fdata_eqb_refl. reflexivity. }
  cbn [notif_of n_snap fst snd n_session n_serial n_deltas]. rewrite Fs. unfold snap_data at 1. rewrite !N.eqb_refl. cbn [andb].
  unfold offer_of. f_equal. f_equal.
  assert (G : forall ds, (forall d, In d ds -> In d (r_deltas r)) ->
     flat_map (fun x => match fetch f (dr_path x) (dr_hash x) with
                        | Some (DDelta s' ser' e) => if (s' =? r_session r) && (ser' =? dr_serial x) then [(ser', e)] else []
                        | _ => [] end) (map (dref_of (r_session r)) ds)
     = map (fun d => (d_serial d, d_elems d)) ds).
  { induction ds as [|d ds IH]; intros Hin; [reflexivity|]. cbn [map flat_map]. rewrite IH by (intros x Hx; apply Hin; right; exact Hx).
    unfold fetch. cbn [dref_of dr_path dr_hash dr_serial fst snd].
    rewrite (Hok (delta_path (r_session r) d) (delta_data (r_session r) d)).
    - rewrite fdata_eqb_refl. unfold delta_data. rewrite !N.eqb_refl. reflexivity.
    - right. apply in_map_iff. exists (dref_of (r_session r) d). split; [reflexivity|].
      apply in_map. apply Hin. left. reflexivity. }
  apply G. auto.
Qed.

(** A complete successful write whose new notification is the state's installs [FilesMatch]. *)
Lemma files_match_write f r archive :
  NotifOk f -> (forall m, read_notif f = Some m -> NotifWf m) -> NotAhead (read_notif f) r ->
  PlannedFresh (read_notif f) r -> contig (r_serial r) (r_deltas r) ->
  up_to_date (read_notif f) r = false -> new_notif (read_notif f) r = notif_of r ->
  snd (run (update_rrdp_files f r archive) f) = true ->
  FilesMatch r (fst (run (update_rrdp_files f r archive) f)).
Proof.
  intros Hok Hwf Hna Hfr Hc Hup Hnew Hrun.
  destruct (update_files_success f r archive Hok Hwf Hna Hfr Hc Hup Hrun) as [K1 [K2 _]].
  rewrite Hnew in K1, K2. unfold FilesMatch.
  assert (Er : read_notif (fst (run (update_rrdp_files f r archive) f)) = Some (notif_of r)) by (unfold read_notif; rewrite K1; reflexivity).
  split; [exact Er|]. unfold NotifOk. rewrite Er. exact K2.
Qed.

(** From a tree without notification (a new server). *)
Theorem files_match_init f r archive :
  read_notif f = None -> r_deltas r = [] ->
  snd (run (update_rrdp_files f r archive) f) = true ->
  FilesMatch r (fst (run (update_rrdp_files f r archive) f)).
Proof.
  intros Hn Hd Hrun. apply files_match_write; try assumption.
  - unfold NotifOk. rewrite Hn. exact I.
  - rewrite Hn. intros m H. discriminate.
  - rewrite Hn. exact I.
  - rewrite Hn. exact I.
  - rewrite Hd. exact I.
  - rewrite Hn. reflexivity.
  - rewrite Hn. unfold new_notif, notif_of, reusable, to_write. rewrite Hd. reflexivity.
Qed.

(** Across a session reset (the new session identifier is fresh). *)
Theorem files_match_reset f r r' archive :
  FilesMatch r f -> contig (r_serial r) (r_deltas r) ->
  r_session r' <> r_session r -> r_deltas r' = [] ->
  snd (run (update_rrdp_files f r' archive) f) = true ->
  FilesMatch r' (fst (run (update_rrdp_files f r' archive) f)).
Proof.
  intros [Hn Hok] Hc Hs Hd Hrun. apply files_match_write; try assumption.
  - rewrite Hn. intros m H. inv H. apply notif_of_wf. exact Hc.
  - rewrite Hn. intros E. simpl in E. congruence.
  - rewrite Hn. intros p c d Hin Href. unfold planned in Hin. unfold reusable, to_write in Hin. rewrite Hd in Hin. cbn in Hin.
    unfold refs, notif_of in Href. cbn [n_snap n_deltas] in Href.
    assert (Hp : exists t, p = NRrdp :: NSess (r_session r') :: t \/ p = newnotif_path).
    { destruct Hin as [H|[H|[]]]; inv H; [exists [NSer (r_serial r'); NRand (r_snaprnd r'); NSnap]; left; reflexivity|exists []; right; reflexivity]. }
    destruct Hp as [t Hp]. destruct Href as [H|H].
    + inv H. destruct Hp as [Hp|Hp]; [inv Hp; congruence|discriminate].
    + apply in_map_iff in H. destruct H as [x [Ex Hx]]. apply in_map_iff in Hx. destruct Hx as [d0 [<- _]]. inv Ex.
      destruct Hp as [Hp|Hp]; [inv Hp; congruence|discriminate].
  - rewrite Hd. exact I.
  - rewrite Hn. simpl. destruct (r_session r =? r_session r') eqn:E; [apply N.eqb_eq in E; congruence|]. apply andb_false_r.
  - rewrite Hn. unfold new_notif, notif_of, reusable, to_write. rewrite Hd. reflexivity.
Qed.

(** Across an update: the state after the update descends from the notification on disk. *)
Theorem files_match_update f r r' archive :
  FilesMatch r f -> contig (r_serial r) (r_deltas r) -> contig (r_serial r') (r_deltas r') ->
  r_session r' = r_session r -> r_serial r < r_serial r' -> Descends (notif_of r) r' ->
  snd (run (update_rrdp_files f r' archive) f) = true ->
  FilesMatch r' (fst (run (update_rrdp_files f r' archive) f)).
Proof.
  intros [Hn Hok] Hc Hc' Hs Hlt Hdesc Hrun.
  assert (Es : n_session (notif_of r) = r_session r') by (simpl; congruence).
  apply files_match_write; try assumption.
  - rewrite Hn. intros m H. inv H. apply notif_of_wf. exact Hc.
  - rewrite Hn. intros _. simpl. lia.
  - rewrite Hn. intros p c d Hin Href.
    destruct Hdesc as [ds0 [newer [k [Ed [Hc0 [Er Hnew]]]]]].
    destruct (descends_parts _ _ _ _ _ Es Ed Hc0 Er Hnew) as [_ T].
    unfold planned in Hin. rewrite T in Hin.
    unfold refs, notif_of in Href. cbn [n_snap n_deltas] in Href.
    apply in_app_iff in Hin. destruct Hin as [Hin|[Hin|[Hin|[]]]].
    + apply in_map_iff in Hin. destruct Hin as [dn [E Hdn]]. inv E. specialize (Hnew dn Hdn). cbn [n_serial notif_of] in Hnew.
      destruct Href as [H|H]; [inv H|].
      apply in_map_iff in H. destruct H as [x [Ex Hx]]. apply in_map_iff in Hx. destruct Hx as [d0 [<- Hd0]]. inv Ex.
      destruct (contig_in _ _ _ Hc Hd0). lia.
    + inv Hin. destruct Href as [H|H]; [inv H; lia|].
      apply in_map_iff in H. destruct H as [x [Ex Hx]]. apply in_map_iff in Hx. destruct Hx as [d0 [<- _]]. inv Ex.
    + inv Hin. destruct Href as [H|H]; [inv H|].
      apply in_map_iff in H. destruct H as [x [Ex Hx]]. apply in_map_iff in Hx. destruct Hx as [d0 [<- _]]. inv Ex.
  - rewrite Hn. simpl. destruct (r_serial r =? r_serial r') eqn:E; [apply N.eqb_eq in E; lia|reflexivity].
  - rewrite Hn. apply new_notif_descends; assumption.
Qed.
