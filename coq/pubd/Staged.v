(** * pubd/Staged.v - StagedElements: merging a verified delta into earlier staged changes

    Executable model (definitions only) of [StagedElements] (src/server/pubd/rrdp.rs 1823) and
    [StagedElements::merge_new_elements] (rrdp.rs 1860-1982), arm by arm as the Rust is, and of
    [From<StagedElements> for DeltaElements] (1985-2000). Self-contained on top of
    pubd/Objects.v; lemmas are in pubd/StagedProofs.v (main result: [staged_refines]).

    [StagedElements] is a [HashMap<uri::Rsync, DeltaElement>]. Its key equality is
    [uri::Rsync]'s [PartialEq] ([ueq] of Objects.v: scheme and authority ignoring case), which is
    coarser than the key of [CurrentObjects] ([canon]). The map is modelled as the list of its
    *values*: every arm of the merge stores an element under a key equal (in the sense of
    [ueq]) to the element's own URI, and nothing ever reads the stored key again
    ([into_values], 1991), so the value's URI is all that matters. Note which spelling of the
    URI survives in each arm: arms that assign through [get_mut] keep the spelling of the
    element staged earlier, arms that [insert] take the spelling of the new element. That
    spelling decides the [CurrentObjects] key when the staged set is finally applied. *)
From KV Require Import base.Tac pubd.Objects.
Open Scope N_scope.

Definition staged : Type := list elem.

(** [self.0.get(&uri)], [self.0.insert(uri, el)] (overwrites), [self.0.remove(&uri)]. *)
Definition s_find (u : uri) (st : staged) : option elem := kfind uri_eqb ekey (fold u) st.
Definition s_put (e : elem) (st : staged) : staged := kput uri_eqb ekey e st.
Definition s_del (u : uri) (st : staged) : staged := kdel uri_eqb ekey (fold u) st.

(** One element of the new delta against the staged map: the twelve arms of rrdp.rs 1865-1981.
    Arms marked CONFLICT log "Non-critical publish merge conflict resolved" in the Rust; they
    are unreachable for deltas that were verified against current+staged
    ([conflict_arms_unreachable] in StagedProofs.v). *)
Definition merge1 (st : staged) (e : elem) : staged :=
  match e with
  | Pub u ob =>
      match s_find u st with
      | Some (Pub _ _)      => s_put (Pub u ob) st           (* 1868-1877 CONFLICT: use the new publish *)
      | Some (Upd u' h' _)  => s_put (Upd u' h' ob) st       (* 1879-1888 CONFLICT: staged_update.base64 = pbl.base64 *)
      | Some (Wdr _ h')     => s_put (Upd u h' ob) st        (* 1889-1898: publish after withdraw = update of the original *)
      | None                => s_put (Pub u ob) st           (* 1899-1903 *)
      end
  | Upd u h ob =>
      match s_find u st with
      | Some (Pub u' _)     => s_put (Pub u' ob) st          (* 1910-1918: staged_publish.base64 = upd.base64 *)
      | Some (Upd u' h' _)  => s_put (Upd u' h' ob) st       (* 1919-1929: keeps the hash of the published object *)
      | Some (Wdr _ h')     => s_put (Upd u h' ob) st        (* 1930-1941 CONFLICT: update with the withdraw's hash *)
      | None                => s_put (Upd u h ob) st         (* 1942-1945 *)
      end
  | Wdr u h =>
      match s_find u st with
      | Some (Pub _ _)      => s_del u st                    (* 1952-1958: never visible, forget it *)
      | Some (Upd _ h' _)   => s_put (Wdr u h') st           (* 1959-1967: withdraw the published object *)
      | Some (Wdr _ _)      => st                            (* 1968-1973 CONFLICT: keep the staged withdraw *)
      | None                => s_put (Wdr u h) st            (* 1974-1979 *)
      end
  end.

(** [merge_new_elements]: publishes, then updates, then withdraws (1865, 1907, 1949). *)
Definition merge_new_elements (st : staged) (d : delta) : staged := fold_left merge1 (normalize d) st.

(** [From<StagedElements> for DeltaElements]: the values, grouped by kind (the grouping is what
    [normalize] does again in every consumer, so the model uses the list itself). *)
Definition staged_delta (st : staged) : delta := st.

(** The same table as a function on the entry found under the element's key; used to state what
    the merge does per URI. [None] = no entry. *)
Definition merge_elem (s : option elem) (e : elem) : option elem :=
  match e, s with
  | Pub u ob, Some (Pub _ _) => Some (Pub u ob)
  | Pub u ob, Some (Upd u' h' _) => Some (Upd u' h' ob)
  | Pub u ob, Some (Wdr _ h') => Some (Upd u h' ob)
  | Pub u ob, None => Some (Pub u ob)
  | Upd u h ob, Some (Pub u' _) => Some (Pub u' ob)
  | Upd u h ob, Some (Upd u' h' _) => Some (Upd u' h' ob)
  | Upd u h ob, Some (Wdr _ h') => Some (Upd u h' ob)
  | Upd u h ob, None => Some (Upd u h ob)
  | Wdr u h, Some (Pub _ _) => None
  | Wdr u h, Some (Upd _ h' _) => Some (Wdr u h')
  | Wdr u h, Some (Wdr u' h') => Some (Wdr u' h')
  | Wdr u h, None => Some (Wdr u h)
  end.

(** The four arms that log a merge conflict. *)
Definition conflict_arm (s : option elem) (e : elem) : bool :=
  match e, s with
  | Pub _ _, Some (Pub _ _) | Pub _ _, Some (Upd _ _ _)
  | Upd _ _ _, Some (Wdr _ _) | Wdr _ _, Some (Wdr _ _) => true
  | _, _ => false
  end.

(** Invariant of a publisher's staged set relative to its *published* objects: it is a delta
    that an RRDP client holding the published snapshot can apply (publishes are new, updates and
    withdraws name the published hash), each URI at most once, all URIs coherent. *)
Definition StagedInv (snap : objects) (st : staged) : Prop :=
  NoDupK st /\ CohL st /\ verified snap st.
Definition StagedInv_b (snap : objects) (st : staged) : bool :=
  NoDupK_b st && CohL_b st && verified_b snap st.
