(** * pubd/RrdpCheck.v - correspondence checker and executable oracles for C11

    The harness (harness/src/bin/c11.rs) drives the real [RepositoryManager] with a repository
    directory on disk and writes three kinds of [case]:

      - [KTrans]: one update / session reset as a transition of the stored [RepositoryContent]
        (session, serial, snapshot, retained deltas with their times, staged elements), with the
        retention configuration in force and the sizes of the contents involved;
      - [KFiles]: one [update_rrdp_files]: directory tree before, server state, the sequence of
        file-system mutations the probe recorded, the tree afterwards; with a cut index the tree is
        the one a crash right before that mutation left behind. Also: the snapshots of every
        earlier serial of the session (as read from the files back then) for the model client,
        and what [get_publisher_details] answers for all publishers;
      - [KRsync]: the same for [RsyncdStore::write]; the objects are listed in the order in which
        the trace shows their files being written.

    [agrees]: the model ([rstep]; [update_rrdp_files] / [rsync_write_ops] run on the observed
    tree) predicts what was observed: the state reached; the operations in the observed order
    (the clean-up operations, whose order follows [read_dir], and the per-object file writes,
    whose order follows a HashMap, are matched as sets); the tree reached at the cut or at the
    end; success or failure.

    The [ok_*] predicates are the conclusions of the C11 theorems evaluated on what the
    *implementation* did; a case on which one fails is a concrete failing input. *)
From KV Require Import base.Tac pubd.Objects pubd.Staged pubd.Access pubd.Content pubd.PubdCheck
  pubd.Rrdp pubd.Fs pubd.RrdpFiles pubd.Rsync.
Open Scope N_scope.

Inductive case : Type :=
| KTrans (sizes : list (N * N)) (pre : rrdp) (o : op) (orc : oracle) (post : option rrdp) (strict : bool)
| KFiles (pre : fs) (r : rrdp) (archive : bool) (trace : list (kind * path)) (cutn : option N) (post : fs)
         (ok : bool) (olds : list (N * objects)) (expected : option objects)
| KRsync (pre : fs) (base : jail) (serial : N) (objs : objects) (trace : list (kind * path)) (cutn : option N)
         (post : fs) (ok : bool).

(** ** Comparisons *)
Definition size_fun (sizes : list (N * N)) (c : N) : N :=
  match find (fun x => fst x =? c) sizes with Some x => snd x | None => 0 end.

Definition ddata_eqb (a b : ddata) : bool :=
  (d_serial a =? d_serial b) && (d_time a =? d_time b)%Z && (d_rnd a =? d_rnd b) && staged_eqb (d_elems a) (d_elems b).
Definition rrdp_eqb (a b : rrdp) : bool :=
  state_eqb (r_st a) (r_st b) && (r_session a =? r_session b) && (r_snaprnd a =? r_snaprnd b)
  && list_eqb ddata_eqb (r_deltas a) (r_deltas b).

(** Model entry against observed entry. Where the model leaves the content unspecified ([CMix]:
    a file overwritten in place with different content of unknown length) any file matches. *)
Definition node_sim (a b : node) : bool :=
  match a, b with
  | Dir, Dir => true
  | File CMix, File _ => true
  | File x, File y => fcontent_eqb x y
  | _, _ => false
  end.
Definition in_roots (roots : list name) (p : path) : bool :=
  match p with x :: _ => existsb (name_eqb x) roots | [] => false end.
Definition fs_sim (roots : list name) (a b : fs) : bool :=
  let ma := filter (fun e => in_roots roots (fst e)) a in     (* model *)
  let ob := filter (fun e => in_roots roots (fst e)) b in     (* observed *)
  let sim := fun (x y : path * node) => path_eqb (fst x) (fst y) && node_sim (snd x) (snd y) in
  (N.of_nat (length ma) =? N.of_nat (length ob))
  && forallb (fun x => existsb (sim x) ob) ma && forallb (fun y => existsb (fun x => sim x y) ma) ob.

(** Snapshot files of other serials than the current one: the clean-up removes at most one per
    probe event and which one follows [read_dir]; trees cut inside the clean-up are compared
    without them. *)
Definition stale_snapshot (serial : N) (e : path * node) : bool :=
  match fst e, snd e with
  | [NRrdp; NSess _; NSer s; NRand _; NSnap], File _ => negb (s =? serial)
  | _, _ => false
  end.
Definition strip_snaps (serial : N) (f : fs) : fs := filter (fun e => negb (stale_snapshot serial e)) f.

Definition label_eqb (a b : kind * path) : bool := kind_eqb (fst a) (fst b) && path_eqb (snd a) (snd b).
Definition has_label (l : kind * path) (o : fsop) : bool :=
  match label o with Some l' => label_eqb l l' | None => false end.

(** Remove the first element satisfying [p]. *)
Fixpoint take_first {A : Type} (p : A -> bool) (l : list A) : option (A * list A) :=
  match l with
  | [] => None
  | x :: r => if p x then Some (x, r)
              else match take_first p r with Some (y, r') => Some (y, x :: r') | None => None end
  end.

(** The model's operations in the order of the observed labels: the next model operation must
    carry the observed label, unless it belongs to a group whose order is unspecified ([perm]);
    then any operation of such a group with that label is taken. Returns the operations
    matched (in observed order) and the ones not reached. *)
Definition silent (o : fsop) : bool := match label o with None => match o with OFail => false | _ => true end | Some _ => false end.
Fixpoint leading_silent (ops : list fsop) : list fsop * list fsop :=
  match ops with
  | o :: rest => if silent o then let (a, b) := leading_silent rest in (o :: a, b) else ([], ops)
  | [] => ([], [])
  end.
Fixpoint reorder (perm : fsop -> bool) (fuel : nat) (obs : list (kind * path)) (ops : list fsop) : option (list fsop * list fsop) :=
  match fuel with O => None | S fuel =>
  match obs with
  | [] => Some ([], ops)
  | l :: obs' =>
      match ops with
      | [] => None
      | o :: rest =>
          if silent o
          then match reorder perm fuel obs rest with Some (t, u) => Some (o :: t, u) | None => None end
          else if has_label l o
          then match reorder perm fuel obs' rest with Some (t, u) => Some (o :: t, u) | None => None end
          else if perm o
               then match take_first (fun x => perm x && has_label l x) ops with
                    | Some (x, ops') => match reorder perm fuel obs' ops' with Some (t, u) => Some (x :: t, u) | None => None end
                    | None => None
                    end
               else None
      end
  end end.

(** How many operations a run attempts (the failing one included). *)
Fixpoint attempted (ops : list fsop) (f : fs) : N :=
  match ops with
  | [] => 0
  | o :: rest => let one := match label o with Some _ => 1 | None => 0 end in
                 match exec o f with
                 | Some f' => one + attempted rest f'
                 | None => if best_effort o then one + attempted rest f else one
                 end
  end.

Definition is_cleanup (o : fsop) : bool :=
  match o with ORemoveTree _ _ | ORemoveFile _ _ | ORmSnapshotIn _ _ | OArchive _ _ => true | _ => false end.
Definition is_filewrite (o : fsop) : bool :=
  match o with OCreateFile _ | OWrite _ _ => true | _ => false end.

Definition check_run (perm : fsop -> bool) (roots : list name) (norm : fs -> fs)
    (ops : list fsop) (pre : fs) (trace : list (kind * path)) (cutn : option N) (post : fs) (ok : bool) : bool :=
  match reorder perm (length trace + length ops + 1) trace ops with
  | None => false
  | Some (taken, rest) =>
      match cutn with
      | Some n =>
          (* the code between the last probe point reached and the next one (creation of parent
             directories) has run; when the next operation belongs to a group of unspecified
             order, it is that of any member of the group *)
          let next_perm := match snd (leading_silent rest) with o :: _ => perm o | [] => false end in
          let cands := fst (leading_silent rest)
                       :: (if next_perm then map (fun o => [o]) (filter silent rest) else []) in
          (N.of_nat (length trace) =? n)
          && existsb (fun extra => fs_sim roots (norm (fst (run (taken ++ extra) pre))) (norm post)) cands
      | None => let all := taken ++ rest in
                let res := run all pre in
                Bool.eqb (snd res) ok && (attempted all pre =? N.of_nat (length trace))
                && fs_sim roots (fst res) post
      end
  end.

Definition agrees (c : case) : bool :=
  match c with
  | KTrans sizes pre o orc post _ =>
      existsb (fun slack =>
        let orc' := mkOracle (or_now orc + slack)%Z (or_rnd orc) (or_sess orc) (or_cfg orc) in
        match rstep Checked (size_fun sizes) pre o orc', post with
        | Some r, Some p => rrdp_eqb r p
        | None, None => true
        | _, _ => false
        end) [0%Z; 200000%Z]
  | KFiles pre r archive trace cutn post ok _ _ =>
      check_run is_cleanup [NRrdp; NArchive]
        (match cutn with Some _ => strip_snaps (r_serial r) | None => fun f => f end)
        (update_rrdp_files pre r archive) pre trace cutn post ok
  | KRsync pre base serial objs trace cutn post ok =>
      check_run is_filewrite [NRsync] (fun f => f) (rsync_write_ops pre base serial objs) pre trace cutn post ok
  end.

(** ** Oracles *)
(** serial_step, session_only_on_reset, reset_restarts *)
Definition ok_serial (c : case) : bool :=
  match c with
  | KTrans _ pre o _ (Some post) _ =>
      match o with
      | OUpdate => (r_session post =? r_session pre)
                   && (if staged_nonempty (r_st pre) then r_serial post =? r_serial pre + 1
                       else (r_serial post =? r_serial pre) && list_eqb ddata_eqb (r_deltas post) (r_deltas pre))
      | OReset => (r_serial post =? 1) && match r_deltas post with [] => true | _ => false end
                  && negb (r_session post =? r_session pre)
      | _ => (r_session post =? r_session pre) && (r_serial post =? r_serial pre)
      end
  | KTrans _ _ _ _ None _ => false
  | _ => true
  end.

(** deltas_contiguous *)
Definition ok_contig (c : case) : bool :=
  match c with
  | KTrans _ _ _ _ (Some post) _ => contig_b (r_serial post) (r_deltas post)
  | _ => true
  end.

(** retention: [strict] = the property's text (never more than max_nr deltas; the new delta itself
    is always retained, so never more than max max_nr 1); otherwise the proved form
    (retention_explained_system): every old delta retained at a position beyond max_nr is
    protected (index < min_nr or younger than min_seconds); every retained old delta is protected or
    not older than max_seconds. *)
Fixpoint forall_idx {A : Type} (p : N -> A -> bool) (i : N) (l : list A) : bool :=
  match l with [] => true | x :: r => p i x && forall_idx p (i + 1) r end.
(** Length of the leading run of protected deltas. *)
Fixpoint protected_run (c : cfg) (now : Z) (i : N) (l : list ddata) : N :=
  match l with
  | d :: r => if protected c now i d then 1 + protected_run c now (i + 1) r else 0
  | [] => 0
  end.
(** protected_prefix_kept: the new delta and the leading protected old ones are retained, as far
    as the size rule lets them. *)
Definition keeps_protected (sizes : list (N * N)) (pre post : rrdp) (cf : cfg) (now : Z) : bool :=
  let p := protected_run cf now 0 (r_deltas pre) in
  (* the new delta as the observed pre-state determines it *)
  let dn := mkD (r_serial pre + 1) now 0 (staged_all (r_st pre)) in
  let cand := dn :: firstn (N.to_nat p) (r_deltas pre) in
  N.min (p + 1) (size_loop (size_fun sizes) (objects_size (size_fun sizes) (r_snapshot post)) cand 0 0)
  <=? N.of_nat (length (r_deltas post)).
Definition ok_retention (c : case) : bool :=
  match c with
  | KTrans sizes pre OUpdate orc (Some post) strict =>
      if staged_nonempty (r_st pre) then
        let cf := or_cfg orc in let now := or_now orc in
        let n := N.of_nat (length (r_deltas post)) in
        keeps_protected sizes pre post cf now &&
        if strict then n <=? N.max (c_max_nr cf) 1
        else forall_idx (fun i d => if (i + 1 <? n) && (c_max_nr cf <=? i + 1) then protected cf now i d else true)
                        0 (r_deltas pre)
             && forall_idx (fun i d => if i <? n - 1 then protected cf now i d || negb (older_than now (c_max_secs cf) d) else true)
                           0 (r_deltas pre)
             && (n <=? N.of_nat (length (r_deltas pre)) + 1)
      else true
  | _ => true
  end.

(** snapshot_is_state: the update turns every publisher's view (published + staged) into its
    published objects and empties the staging area; a reset keeps the objects. *)
Definition rhandles (a b : rrdp) : list handle := dedup_h (handles_of (r_st a) ++ handles_of (r_st b)).
Definition ok_snapshot (c : case) : bool :=
  match c with
  | KTrans _ pre OUpdate _ (Some post) _ =>
      if staged_nonempty (r_st pre)
      then forallb (fun h => omap_eqb (snap_of (r_st post) h) (view (r_st pre) h)
                             && match staged_of (r_st post) h with [] => true | _ => false end) (rhandles pre post)
      else true
  | KTrans _ pre OReset _ (Some post) _ =>
      forallb (fun h => omap_eqb (snap_of (r_st post) h) (snap_of (r_st pre) h)) (rhandles pre post)
  | _ => true
  end.

(** files_consistent_at_every_prefix: the notification present at this instant names only files
    present with the stated hashes, and it is a complete notification if there was one before. *)
Definition notif_intact (pre post : fs) : bool :=
  match fs_get notif_path pre with
  | Some (File (CNotif _)) => match fs_get notif_path post with Some (File (CNotif _)) => true | _ => false end
  | _ => match fs_get notif_path post with Some (File (CNotif _)) | None => true | _ => false end
  end.
Definition ok_files (c : case) : bool :=
  match c with
  | KFiles pre r _ _ cutn post ok _ _ =>
      notif_ok_b post && notif_intact pre post
      && match cutn, ok with
         | None, true => match read_notif post with
                         | Some n => (n_session n =? r_session r) && (n_serial n =? r_serial r)
                         | None => false
                         end
         | _, _ => true
         end
  | _ => true
  end.

(** a write that is not interrupted succeeds; rsync_equals_snapshot_after_success *)
Definition tree_entry_eqb (x y : path * fcontent) : bool := path_eqb (fst x) (fst y) && fcontent_eqb (snd x) (snd y).
Definition expected_tree (base : jail) (o : objects) : list (path * fcontent) :=
  flat_map (fun p => match rel_of base (fst p) with Some rel => [(rel, CData (DObj (o_content (snd p))))] | None => [] end) o.
Definition ok_write (c : case) : bool :=
  match c with
  | KFiles _ _ _ _ None _ ok _ _ => ok
  | KRsync _ base _ objs _ None post ok => ok && seteq tree_entry_eqb (tree_of current_dir post) (expected_tree base objs)
  | _ => true
  end.

(** delta_chain_sound on the files: a client at any earlier serial of the session that holds
    what the snapshot of that serial contained reaches exactly the offered snapshot, through the
    deltas whenever the chain is offered from its serial; the snapshot is what the publishers
    are told they have published. *)
Definition is_via_deltas (h : how) : bool := match h with ViaDeltas | UpToDate => true | ViaSnapshot => false end.
Definition ok_client (c : case) : bool :=
  match c with
  | KFiles _ _ _ _ _ post ok olds expected =>
      match offer_of_files post with
      | None => match read_notif post with None => true | Some _ => false end
      | Some f =>
          forallb (fun so =>
            let cl := mkClient (of_session f) (fst so) (snd so) in
            let res := client_update f cl in
            omap_eqb (cl_objs (fst res)) (of_snap f)
            && (if of_serial f <? fst so then true
                else match chain (N.to_nat (of_serial f - fst so)) (fst so) (of_deltas f) with
                     | Some _ => is_via_deltas (snd res)
                     | None => true
                     end)) olds
          && match expected with Some e => if ok then omap_eqb (of_snap f) e else true | None => true end
      end
  | _ => true
  end.

(** All oracles together. *)
Definition c11_ok (c : case) : bool :=
  ok_serial c && ok_contig c && ok_retention c && ok_snapshot c && ok_files c && ok_write c && ok_client c.
