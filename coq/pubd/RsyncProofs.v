(** * pubd/RsyncProofs.v - the rsync tree after a write, and writes after an interrupted write

    Main results:
      - [rsync_equals_snapshot_after_success]: after a successful [RsyncdStore::write] the files
        under rsync/current are exactly the objects of the snapshot (provided nothing was left
        in rsync/tmp-<serial> by an earlier attempt: without that the statement is refuted,
        [rsync_equals_snapshot_unconditional_refuted], candidate F11f);
      - [rsync_recovers_after_cut]: with the repaired procedure (code of record), whatever
        prefix of a write was executed, every later write whose files can be written completes;
      - [rsync_interrupted_then_stuck]: the procedure before commit e1f99c61 ([Pinned]) does not
        have that property: a cut between the second rename and the removal of rsync/old makes
        the next write, and the one after it, fail (finding F11c, fixed; regression example). *)
From KV Require Import base.Tac pubd.Objects pubd.ObjectsProofs pubd.Fs pubd.FsProofs pubd.Rsync.
Open Scope N_scope.

Lemma ops_split v tm f base serial o :
  rsync_write_ops_v v tm f base serial o
  = clean_phase tm f serial ++ files_phase base serial o ++ switch_phase v (fs_exists current_dir f) (fs_exists old_dir f) serial.
Proof. unfold rsync_write_ops_v, files_phase, switch_phase. rewrite <- !app_assoc. reflexivity. Qed.

Lemma remove_tree_inv' p f f' : remove_tree p f = Some f' -> f' = remove_under p f.
Proof. unfold remove_tree. destruct p; [discriminate|]. destruct (fs_is_dir _ f); [|discriminate]. intros H; inv H. reflexivity. Qed.

(** The removal of a stale temporary directory: nothing is left below it, everything else stays. *)
Lemma clean_phase_run tm f serial f0 ok :
  run (clean_phase tm f serial) f = (f0, ok) ->
  (forall q, q <> [] -> under (tmp_dir serial) q = false -> fs_get q f0 = fs_get q f)
  /\ (ok = true -> tm = FreshTmp -> fs_exists (tmp_dir serial) f = true -> forall rel, fs_get (tmp_dir serial ++ rel) f0 = None)
  /\ (fs_exists (tmp_dir serial) f = false \/ tm = KeepTmp -> f0 = f /\ ok = true).
Proof.
  unfold clean_phase. intros H. destruct tm.
  - rewrite run_nil in H. inv H. split; [auto|]. split; [discriminate|auto].
  - destruct (fs_exists (tmp_dir serial) f) eqn:E.
    + rewrite run_cons, exec_remove_tree in H. cbn [best_effort] in H.
      destruct (remove_tree (tmp_dir serial) f) as [g|] eqn:Er.
      * rewrite run_nil in H. inv H. apply remove_tree_inv' in Er. subst f0.
        split; [intros q Hq Hu; rewrite get_remove_under by exact Hq; rewrite Hu; reflexivity|].
        split; [intros _ _ _ rel; rewrite get_remove_under by discriminate; rewrite under_app; reflexivity|].
        intros [Hx|Hx]; discriminate.
      * inv H. split; [auto|]. split; [discriminate|]. intros [Hx|Hx]; discriminate.
    + rewrite run_nil in H. inv H. split; [auto|]. split; [discriminate|auto].
Qed.

Lemma run_ok_cons o rest f f' : run (o :: rest) f = (f', true) -> best_effort o = false ->
  exists f1, exec o f = Some f1 /\ run rest f1 = (f', true).
Proof.
  rewrite run_cons. intros H Hb. destruct (exec o f) as [f1|]; [eauto|]. rewrite Hb in H. discriminate.
Qed.

Lemma under_prefix_cases q t rel : under q (t ++ rel) = true -> under q t = true \/ under t q = true.
Proof.
  revert t. induction q as [|x q IH]; intros t H; [left; reflexivity|].
  destruct t as [|y t]; [right; reflexivity|]. simpl in *.
  apply andb_true_iff in H. destruct H as [H1 H2]. rewrite H1. apply name_eqb_spec in H1. subst y.
  rewrite name_eqb_refl. simpl. apply IH. exact H2.
Qed.

(** ** The files phase *)
(** Paths that are neither above nor below the temporary directory keep their entry. *)
Lemma save_frame_get p c o f f' q :
  (o = OMkParents p \/ o = OCreateFile p \/ o = OWrite p c) -> p <> [] -> exec o f = Some f' ->
  under q p = false -> fs_get q f' = fs_get q f.
Proof.
  intros [ -> | [ -> | -> ] ] Hp H Hu.
  - rewrite exec_mkparents in H. eapply mk_parents_frame; eassumption.
  - rewrite exec_create in H. apply (proj1 (create_file_get p f f' q H Hp)). intros ->. rewrite under_refl in Hu. discriminate.
  - rewrite exec_write in H. apply (proj1 (write_file_get p c f f' q H Hp)). intros ->. rewrite under_refl in Hu. discriminate.
Qed.

Lemma save_frame_file p c o f f' q :
  (o = OMkParents p \/ o = OCreateFile p \/ o = OWrite p c) -> p <> [] -> exec o f = Some f' ->
  q <> p -> fs_file q f' = fs_file q f.
Proof.
  intros [ -> | [ -> | -> ] ] Hp H Hq.
  - rewrite exec_mkparents in H. eapply mk_parents_file; eassumption.
  - rewrite exec_create in H. unfold fs_file. rewrite (proj1 (create_file_get p f f' q H Hp) Hq). reflexivity.
  - rewrite exec_write in H. unfold fs_file. rewrite (proj1 (write_file_get p c f f' q H Hp) Hq). reflexivity.
Qed.

Lemma file_ops_run base t : t <> [] -> forall o f f2, run (file_ops base t o) f = (f2, true) ->
  (forall q, under q t = false -> under t q = false -> fs_get q f2 = fs_get q f)
  /\ (forall x, fs_get t f = Some x -> fs_get t f2 = Some x)
  /\ (forall rel, fs_file (t ++ rel) f2 = match written base o rel with
                                          | Some c => Some (CData (DObj c))
                                          | None => fs_file (t ++ rel) f
                                          end).
Proof.
  intros Ht. induction o as [|[k ob] o IH]; intros f f2 H.
  - simpl in H. rewrite run_nil in H. inv H. split; [auto|]. split; [auto|]. reflexivity.
  - cbn [file_ops] in H. destruct (rel_of base k) as [r0|] eqn:Er.
    2:{ rewrite run_cons, exec_fail in H. discriminate. }
    unfold save_ops, save_c in H. cbn [app] in H.
    assert (Hp : t ++ r0 <> []) by (destruct t; [congruence|discriminate]).
    destruct (run_ok_cons _ _ _ _ H eq_refl) as [fa [Ea H1]].
    destruct (run_ok_cons _ _ _ _ H1 eq_refl) as [fb [Eb H2]].
    destruct (run_ok_cons _ _ _ _ H2 eq_refl) as [fc [Ec H3]].
    destruct (IH _ _ H3) as [I1 [I2 I3]].
    assert (Fr : forall q, under q (t ++ r0) = false -> fs_get q fc = fs_get q f).
    { intros q Hu.
      rewrite (save_frame_get (t ++ r0) (CData (DObj (o_content ob))) _ fb fc q (or_intror (or_intror eq_refl)) Hp Ec Hu).
      rewrite (save_frame_get (t ++ r0) (CData (DObj (o_content ob))) _ fa fb q (or_intror (or_introl eq_refl)) Hp Eb Hu).
      apply (save_frame_get (t ++ r0) (CData (DObj (o_content ob))) _ f fa q (or_introl eq_refl) Hp Ea Hu). }
    split; [|split].
    + intros q Hq1 Hq2. rewrite I1 by assumption. apply Fr.
      destruct (under q (t ++ r0)) eqn:E; [|reflexivity]. apply under_prefix_cases in E. destruct E; congruence.
    + intros x Hx. apply I2.
      rewrite exec_write in Ec. rewrite exec_create in Eb. rewrite exec_mkparents in Ea.
      assert (Hne : t <> t ++ r0).
      { intros E. assert (L : length t = length (t ++ r0)) by (rewrite <- E; reflexivity). rewrite app_length in L.
        unfold rel_of in Er. destruct (_ && _); [|discriminate]. destruct (strip _ _) as [[|? ?]|]; try discriminate. inv Er. simpl in L. lia. }
      rewrite (proj1 (write_file_get _ _ _ _ t Ec Hp) Hne), (proj1 (create_file_get _ _ _ t Eb Hp) Hne).
      eapply mk_parents_keeps; eassumption.
    + intros rel. rewrite I3. cbn [written]. destruct (written base o rel) as [c|]; [reflexivity|]. rewrite Er.
      destruct (path_eqb r0 rel) eqn:E.
      * apply path_eqb_spec in E. subst rel.
        rewrite exec_write in Ec. rewrite exec_create in Eb.
        destruct (write_file_get _ _ _ _ (t ++ r0) Ec Hp) as [_ [old [G1 G2]]].
        destruct (create_file_get _ _ _ (t ++ r0) Eb Hp) as [_ G3]. apply fs_file_get in G3. rewrite G3 in G1. inv G1.
        unfold fs_file. rewrite G2. reflexivity.
      * assert (Hne : t ++ rel <> t ++ r0).
        { intros Eq. apply app_inv_head in Eq. subst rel. rewrite path_eqb_refl in E. discriminate. }
        rewrite (save_frame_file (t ++ r0) (CData (DObj (o_content ob))) _ fb fc _ (or_intror (or_intror eq_refl)) Hp Ec Hne).
        rewrite (save_frame_file (t ++ r0) (CData (DObj (o_content ob))) _ fa fb _ (or_intror (or_introl eq_refl)) Hp Eb Hne).
        apply (save_frame_file (t ++ r0) (CData (DObj (o_content ob))) _ f fa _ (or_introl eq_refl) Hp Ea Hne).
Qed.

Lemma rel_of_nonempty base k r : rel_of base k = Some r -> r <> [].
Proof.
  unfold rel_of. destruct (_ && _); [|discriminate]. destruct (strip _ _) as [[|x l]|]; try discriminate.
  intros H. inv H. discriminate.
Qed.

(** The whole files phase, from any tree. *)
Lemma files_phase_run base serial o f f2 :
  run (files_phase base serial o) f = (f2, true) ->
  fs_get (tmp_dir serial) f2 = Some Dir
  /\ (forall q, under q (tmp_dir serial) = false -> under (tmp_dir serial) q = false -> fs_get q f2 = fs_get q f)
  /\ (forall rel, fs_file (tmp_dir serial ++ rel) f2 = match written base o rel with
                                                        | Some c => Some (CData (DObj c))
                                                        | None => fs_file (tmp_dir serial ++ rel) f
                                                        end).
Proof.
  unfold files_phase. cbn [app]. intros H.
  destruct (run_ok_cons _ _ _ _ H eq_refl) as [f1 [E1 H1]]. rewrite exec_mkdir in E1.
  destruct (file_ops_run base (tmp_dir serial) ltac:(discriminate) o f1 f2 H1) as [I1 [I2 I3]].
  split; [|split].
  - apply I2. pose proof (mkdir_all_is_dir _ _ _ E1) as Hd. unfold fs_is_dir in Hd.
    destruct (fs_get (tmp_dir serial) f1) as [[|c]|]; [reflexivity|discriminate|discriminate].
  - intros q Hq1 Hq2. rewrite I1 by assumption. eapply mkdir_all_frame; eassumption.
  - intros rel. rewrite I3. destruct (written base o rel); [reflexivity|]. eapply mkdir_all_file; eassumption.
Qed.

Lemma tmp_clean_none serial f rel : tmp_clean serial f = true -> fs_get (tmp_dir serial ++ rel) f = None.
Proof.
  unfold tmp_clean. intros H. rewrite fs_get_fget by discriminate. unfold fget.
  destruct (find (fun e => path_eqb (fst e) (tmp_dir serial ++ rel)) f) as [e|] eqn:E; [|reflexivity].
  apply find_some in E. destruct E as [Hin Hp]. apply path_eqb_spec in Hp.
  rewrite forallb_forall in H. specialize (H e Hin). rewrite Hp, under_app in H. discriminate.
Qed.

(** What [written] means when different objects go to different files. *)
Lemma written_some base o rel c : written base o rel = Some c ->
  exists k ob, In (k, ob) o /\ rel_of base k = Some rel /\ c = o_content ob.
Proof.
  induction o as [|[k ob] o IH]; simpl; [discriminate|].
  destruct (written base o rel) as [c'|] eqn:E.
  - intros H; inv H. destruct (IH eq_refl) as [k' [ob' [H1 H2]]]. exists k', ob'. tauto.
  - destruct (rel_of base k) as [r|] eqn:Er; [|discriminate]. destruct (path_eqb r rel) eqn:Ep; [|discriminate].
    apply path_eqb_spec in Ep. subst r. intros H; inv H. exists k, ob. auto.
Qed.
Lemma written_complete base o rel k ob :
  RelInjective base o -> NoDupO o -> In (k, ob) o -> rel_of base k = Some rel -> written base o rel = Some (o_content ob).
Proof.
  intros Hi Hn Hin Hr. destruct (written base o rel) as [c|] eqn:E.
  - destruct (written_some _ _ _ _ E) as [k' [ob' [H1 [H2 ->]]]].
    assert (k' = k).
    { apply (Hi k' k rel); try assumption; unfold o_keys; [apply (in_map fst) in H1|apply (in_map fst) in Hin]; assumption. }
    subst k'. f_equal.
    pose proof (o_get_in_nodup _ _ _ Hn H1) as G1. pose proof (o_get_in_nodup _ _ _ Hn Hin) as G2. congruence.
  - exfalso. induction o as [|[k0 ob0] o IH]; [destruct Hin|]. simpl in E.
    destruct (written base o rel) eqn:Ew; [discriminate|].
    destruct Hin as [Hin|Hin].
    + inv Hin. rewrite Hr, path_eqb_refl in E. discriminate.
    + apply IH; try assumption.
      * intros a b r Ha Hb. apply Hi; simpl; auto.
      * unfold NoDupO, o_keys in *. simpl in Hn. inv Hn. assumption.
      * reflexivity.
Qed.

(** ** The switch phase *)
Lemma in_switch v cur old serial o : In o (switch_phase v cur old serial) ->
  o = ORemoveTree old_dir false \/ o = ORename current_dir old_dir false \/ o = ORename (tmp_dir serial) current_dir false.
Proof.
  unfold switch_phase. rewrite !in_app_iff. intros [H|[H|H]].
  - destruct cur; [|destruct H]. apply in_app_iff in H. destruct H as [H|[<-|[]]]; [|auto].
    destruct v; [destruct H|]. destruct old; [destruct H as [<-|[]]; auto|destruct H].
  - destruct H as [<-|[]]. auto.
  - destruct (cur || old); [destruct H as [<-|[]]; auto|destruct H].
Qed.

Lemma rename_dir_onto_nothing s d f : s <> [] -> d <> [] -> fs_get s f = Some Dir -> fs_get d f = None -> under s d = false ->
  rename s d f = Some (map (rekey s d) (remove_under d f)).
Proof.
  intros Hs Hd E1 E2 Hu. unfold rename. destruct s as [|a s]; [congruence|]. destruct d as [|b d]; [congruence|].
  rewrite E1, E2, Hu. reflexivity.
Qed.

(** What each operation of the switch needs and does, seen through the entries of rsync/current,
    rsync/old and rsync/tmp-<serial>. *)
Lemma op_remove_old g : fs_get old_dir g = Some Dir ->
  exists g', exec (ORemoveTree old_dir false) g = Some g'
    /\ (forall q, q <> [] -> fs_get q g' = if under old_dir q then None else fs_get q g).
Proof.
  intros Hg. exists (remove_under old_dir g). split.
  - rewrite exec_remove_tree. unfold remove_tree, fs_is_dir, old_dir in *. rewrite Hg. reflexivity.
  - intros q Hq. apply get_remove_under. exact Hq.
Qed.

Lemma op_rename_dir s d g : s <> [] -> d <> [] -> under s d = false -> under d s = false ->
  fs_get s g = Some Dir -> fs_get d g = None ->
  exists g', exec (ORename s d false) g = Some g'
    /\ (forall q, q <> [] -> fs_get q g' = if under d q then fs_get (s ++ skipn (length d) q) g
                                           else if under s q then None else fs_get q g).
Proof.
  intros Hs Hd Hsd Hds E1 E2. exists (map (rekey s d) (remove_under d g)).
  assert (R : rename s d g = Some (map (rekey s d) (remove_under d g))) by (apply rename_dir_onto_nothing; assumption).
  split; [rewrite exec_rename; exact R|]. intros q Hq. apply (rename_get _ _ _ _ q R); assumption.
Qed.

Lemma exec_inv_remove_old g g' : exec (ORemoveTree old_dir false) g = Some g' ->
  forall q, q <> [] -> fs_get q g' = if under old_dir q then None else fs_get q g.
Proof.
  rewrite exec_remove_tree. intros H. apply remove_tree_inv' in H. subst g'. intros q Hq. apply get_remove_under. exact Hq.
Qed.

Definition SwitchInv (serial : N) (f : fs) : Prop :=
  Shape f /\ (fs_get (tmp_dir serial) f = Some Dir \/ fs_get (tmp_dir serial) f = None).

Lemma switch_step serial o f f' :
  (o = ORemoveTree old_dir false \/ o = ORename current_dir old_dir false \/ o = ORename (tmp_dir serial) current_dir false) ->
  SwitchInv serial f -> exec o f = Some f' -> SwitchInv serial f'.
Proof.
  intros Ho [[Hcur Hold] Ht] He. destruct Ho as [ -> | [ -> | -> ] ].
  - pose proof (exec_inv_remove_old _ _ He) as G.
    unfold SwitchInv, Shape. rewrite !G by discriminate. cbn -[fs_get]. auto.
  - rewrite exec_rename in He.
    assert (G : forall q, q <> [] -> fs_get q f' = if under old_dir q then fs_get (current_dir ++ skipn 2 q) f
                                                  else if under current_dir q then None else fs_get q f).
    { intros q Hq. apply (rename_get _ _ _ _ q He); [reflexivity|reflexivity|exact Hq]. }
    assert (Hc : fs_get current_dir f = Some Dir).
    { destruct Hcur as [Hc|Hc]; [|exact Hc]. unfold rename, current_dir, old_dir in *. rewrite Hc in He. discriminate. }
    unfold SwitchInv, Shape. rewrite !G by discriminate. cbn -[fs_get]. change ([NRsync; NCurrent]) with current_dir. rewrite Hc. auto.
  - rewrite exec_rename in He.
    assert (G : forall q, q <> [] -> fs_get q f' = if under current_dir q then fs_get (tmp_dir serial ++ skipn 2 q) f
                                                  else if under (tmp_dir serial) q then None else fs_get q f).
    { intros q Hq. apply (rename_get _ _ _ _ q He); [reflexivity|reflexivity|exact Hq]. }
    assert (Hd : fs_get (tmp_dir serial) f = Some Dir).
    { destruct Ht as [Hd|Hd]; [exact Hd|]. unfold rename, current_dir, tmp_dir in *. rewrite Hd in He. discriminate. }
    unfold SwitchInv, Shape. rewrite !G by discriminate. cbn -[fs_get]. rewrite N.eqb_refl. cbn -[fs_get].
    change ([NRsync; NTmp serial]) with (tmp_dir serial). rewrite Hd. auto.
Qed.

(** Operations of the files phase act at or below rsync/tmp-<serial> (or are the failure marker). *)
Lemma in_file_ops base t o op : In op (file_ops base t o) ->
  op = OFail \/ exists p c, (op = OMkParents p \/ op = OCreateFile p \/ op = OWrite p c) /\ under t p = true /\ (t <> [] -> p <> []).
Proof.
  induction o as [|[k ob] o IH]; [intros []|]. cbn [file_ops].
  destruct (rel_of base k) as [r|]; [|intros [<-|[]]; left; reflexivity].
  intros Hin. apply in_app_iff in Hin. destruct Hin as [Hin|Hin]; [|apply IH; exact Hin].
  right. exists (t ++ r), (CData (DObj (o_content ob))).
  split; [|split; [apply under_app|intros Ht; destruct t; [congruence|discriminate]]].
  simpl in Hin. destruct Hin as [<-|[<-|[<-|[]]]]; auto.
Qed.

(** A crash anywhere in a write leaves rsync/current and rsync/old directories (or absent). *)
Lemma cut_shape v tm f base serial o f1 :
  Shape f -> reach (rsync_write_ops_v v tm f base serial o) f f1 -> Shape f1.
Proof.
  intros Hs Hr. rewrite ops_split in Hr.
  assert (Files : forall g g1, Shape g ->
            reach (files_phase base serial o ++ switch_phase v (fs_exists current_dir f) (fs_exists old_dir f) serial) g g1 -> Shape g1).
  { clear Hr Hs f1. intros f0 f1 Hs Hr. apply reach_app in Hr. destruct Hr as [Hr|[Hok Hr]].
    - revert Hr. apply reach_inv; [|exact Hs].
      intros op g g' Hin [Hc Ho] He.
      assert (Fr : forall q, under q (tmp_dir serial) = false -> under (tmp_dir serial) q = false -> fs_get q g' = fs_get q g).
      { intros q Hq1 Hq2. unfold files_phase in Hin. destruct Hin as [<-|Hin].
        - rewrite exec_mkdir in He. eapply mkdir_all_frame; eassumption.
        - destruct (in_file_ops _ _ _ _ Hin) as [->|[p [c [Hk [Hu Hp]]]]]; [rewrite exec_fail in He; discriminate|].
          eapply save_frame_get; try eassumption; [apply Hp; discriminate|].
          destruct (under q p) eqn:E; [|reflexivity]. apply under_spec in Hu. destruct Hu as [z ->].
          apply under_prefix_cases in E. destruct E; congruence. }
      split; rewrite Fr by reflexivity; assumption.
    - destruct (run (files_phase base serial o) f0) as [f2 ok] eqn:Ef. simpl in Hok, Hr. subst ok.
      destruct (files_phase_run _ _ _ _ _ Ef) as [Ht [Fr _]].
      assert (S2 : SwitchInv serial f2).
      { split; [|left; exact Ht]. destruct Hs as [Hc Ho]. split; rewrite Fr by reflexivity; assumption. }
      assert (S1 : SwitchInv serial f1).
      { revert Hr. apply reach_inv; [|exact S2]. intros op g g' Hin Hg He. eapply switch_step; try eassumption. eapply in_switch; eassumption. }
      apply S1. }
  apply reach_app in Hr. destruct Hr as [Hr|[Hok Hr]].
  - (* within the removal of the stale temporary directory *)
    destruct Hr as [n ->]. destruct (run (firstn n (clean_phase tm f serial)) f) as [g okg] eqn:Eg. cbn [fst].
    assert (G : forall q, q <> [] -> under (tmp_dir serial) q = false -> fs_get q g = fs_get q f).
    { destruct n as [|n]; [rewrite firstn_O, run_nil in Eg; inv Eg; auto|].
      assert (En : firstn (S n) (clean_phase tm f serial) = clean_phase tm f serial).
      { unfold clean_phase. destruct tm; [reflexivity|]. destruct (fs_exists (tmp_dir serial) f); [|reflexivity]. cbn [firstn]. rewrite firstn_nil. reflexivity. }
      rewrite En in Eg. apply (clean_phase_run _ _ _ _ _ Eg). }
    destruct Hs as [Hc Ho]. split; rewrite G by (try discriminate; reflexivity); assumption.
  - destruct (run (clean_phase tm f serial) f) as [g okg] eqn:Eg. cbn [fst snd] in Hok, Hr.
    apply (Files g f1); [|exact Hr].
    destruct (clean_phase_run _ _ _ _ _ Eg) as [G _].
    destruct Hs as [Hc Ho]. split; rewrite G by (try discriminate; reflexivity); assumption.
Qed.

(** The repaired switch completes whenever current and old are directories or absent and the
    temporary directory is in place. *)
Lemma repaired_switch_ok serial f2 :
  Shape f2 -> fs_get (tmp_dir serial) f2 = Some Dir ->
  snd (run (switch_phase Repaired (fs_exists current_dir f2) (fs_exists old_dir f2) serial) f2) = true.
Proof.
  intros [Hcur Hold] Ht. unfold switch_phase, fs_exists.
  assert (MV2 : forall g, fs_get (tmp_dir serial) g = Some Dir -> fs_get current_dir g = None ->
            exists g', exec (ORename (tmp_dir serial) current_dir false) g = Some g' /\ fs_get old_dir g' = fs_get old_dir g).
  { intros g H1 H2. destruct (op_rename_dir (tmp_dir serial) current_dir g) as [g' [E G]]; try discriminate; try reflexivity; try assumption.
    exists g'. split; [exact E|]. rewrite G by discriminate. reflexivity. }
  destruct Hcur as [Hc|Hc]; rewrite Hc; destruct Hold as [Ho|Ho]; rewrite Ho; cbn [app orb].
  - destruct (MV2 f2 Ht Hc) as [g [E _]]. rewrite run_cons, E. reflexivity.
  - destruct (MV2 f2 Ht Hc) as [g [E Go]]. rewrite run_cons, E.
    destruct (op_remove_old g) as [g' [E' _]]; [rewrite Go; exact Ho|]. rewrite run_cons, E'. reflexivity.
  - destruct (op_rename_dir current_dir old_dir f2) as [g1 [E1 G1]]; try discriminate; try reflexivity; try assumption.
    rewrite run_cons, E1.
    destruct (MV2 g1) as [g2 [E2 Go]].
    { rewrite G1 by discriminate. cbn -[fs_get]. exact Ht. }
    { rewrite G1 by discriminate. reflexivity. }
    rewrite run_cons, E2.
    destruct (op_remove_old g2) as [g3 [E3 _]].
    { rewrite Go, G1 by discriminate. cbn -[fs_get]. exact Hc. }
    rewrite run_cons, E3. reflexivity.
  - destruct (op_remove_old f2 Ho) as [g0 [E0 G0]]. rewrite run_cons, E0.
    destruct (op_rename_dir current_dir old_dir g0) as [g1 [E1 G1]]; try discriminate; try reflexivity.
    { rewrite G0 by discriminate. cbn -[fs_get]. exact Hc. }
    { rewrite G0 by discriminate. reflexivity. }
    rewrite run_cons, E1.
    destruct (MV2 g1) as [g2 [E2 Go]].
    { rewrite G1 by discriminate. cbn -[fs_get]. rewrite G0 by discriminate. cbn -[fs_get]. exact Ht. }
    { rewrite G1 by discriminate. reflexivity. }
    rewrite run_cons, E2.
    destruct (op_remove_old g2) as [g3 [E3 _]].
    { rewrite Go, G1 by discriminate. cbn -[fs_get]. rewrite G0 by discriminate. cbn -[fs_get]. exact Hc. }
    rewrite run_cons, E3. reflexivity.
Qed.

(** [rsync_recovers_after_cut]: with the repaired switch an interrupted write never prevents
    later writes (whether or not a stale temporary directory is removed first). *)
Theorem rsync_recovers_after_cut tm : rsync_never_stuck Repaired tm.
Proof.
  intros f base serial o n serial' o' Hs f1 Hfiles.
  assert (S1 : Shape f1) by (eapply cut_shape; [exact Hs|exists n; reflexivity]).
  rewrite ops_split. rewrite app_assoc, run_app. rewrite Hfiles.
  rewrite run_app in Hfiles |- *.
  destruct (run (clean_phase tm f1 serial') f1) as [f0 ok0] eqn:Ec0. cbn [fst snd] in Hfiles |- *.
  destruct ok0; [|discriminate].
  destruct (clean_phase_run _ _ _ _ _ Ec0) as [G0 _].
  destruct (run (files_phase base serial' o') f0) as [f2 ok] eqn:Ef. simpl in Hfiles. subst ok. cbn [fst].
  destruct (files_phase_run _ _ _ _ _ Ef) as [Ht [Fr _]].
  assert (Ec : fs_get current_dir f2 = fs_get current_dir f1) by (rewrite Fr by reflexivity; apply G0; [discriminate|reflexivity]).
  assert (Eo : fs_get old_dir f2 = fs_get old_dir f1) by (rewrite Fr by reflexivity; apply G0; [discriminate|reflexivity]).
  replace (fs_exists current_dir f1) with (fs_exists current_dir f2) by (unfold fs_exists; rewrite Ec; reflexivity).
  replace (fs_exists old_dir f1) with (fs_exists old_dir f2) by (unfold fs_exists; rewrite Eo; reflexivity).
  apply repaired_switch_ok; [|exact Ht].
  destruct S1 as [A B]. split; [rewrite Ec; exact A|rewrite Eo; exact B].
Qed.

(** ** The tree after a successful write *)
Lemma switch_moves_tmp v cur old serial f2 f' :
  run (switch_phase v cur old serial) f2 = (f', true) ->
  forall rel, fs_get (current_dir ++ rel) f' = fs_get (tmp_dir serial ++ rel) f2.
Proof.
  unfold switch_phase. intros H rel.
  (* every operation before the second rename leaves the temporary directory alone, the second
     rename moves it, the final removal leaves rsync/current alone *)
  assert (Pre : forall ops g g', (forall op, In op ops -> op = ORemoveTree old_dir false \/ op = ORename current_dir old_dir false) ->
            run ops g = (g', true) -> fs_get (tmp_dir serial ++ rel) g' = fs_get (tmp_dir serial ++ rel) g).
  { induction ops as [|op ops IH]; intros g g' Hops Hr; [rewrite run_nil in Hr; inv Hr; reflexivity|].
    assert (Hb : best_effort op = false) by (destruct (Hops op (or_introl eq_refl)) as [->| ->]; reflexivity).
    destruct (run_ok_cons _ _ _ _ Hr Hb) as [g1 [E1 H1]].
    rewrite (IH g1 g' (fun x Hx => Hops x (or_intror Hx)) H1).
    destruct (Hops op (or_introl eq_refl)) as [->| ->].
    - rewrite (exec_inv_remove_old _ _ E1) by discriminate. reflexivity.
    - rewrite exec_rename in E1. rewrite (rename_get _ _ _ _ _ E1) by (try reflexivity; discriminate). reflexivity. }
  set (A := if cur then _ else []) in H.
  assert (HA : forall op, In op A -> op = ORemoveTree old_dir false \/ op = ORename current_dir old_dir false).
  { unfold A. destruct cur; [|intros op []]. intros op Hin. apply in_app_iff in Hin. destruct Hin as [Hin|[<-|[]]]; [|auto].
    destruct v; [destruct Hin|]. destruct old; [destruct Hin as [<-|[]]; auto|destruct Hin]. }
  rewrite run_app in H. destruct (run A f2) as [g1 ok1] eqn:EA. cbn [fst snd] in H. destruct ok1; [|discriminate].
  rewrite <- (Pre A f2 g1 HA EA).
  cbn [app] in H. destruct (run_ok_cons _ _ _ _ H eq_refl) as [g2 [E2 H2]].
  rewrite exec_rename in E2.
  assert (G2 : fs_get (current_dir ++ rel) g2 = fs_get (tmp_dir serial ++ rel) g1).
  { rewrite (rename_get _ _ _ _ _ E2) by (try reflexivity; discriminate). cbn -[fs_get]. reflexivity. }
  rewrite <- G2.
  destruct (cur || old).
  - destruct (run_ok_cons _ _ _ _ H2 eq_refl) as [g3 [E3 H3]]. rewrite run_nil in H3. inv H3.
    rewrite (exec_inv_remove_old _ _ E3) by discriminate. reflexivity.
  - rewrite run_nil in H2. inv H2. reflexivity.
Qed.

(** From a tree with nothing below rsync/tmp-<serial>: filling it and switching gives exactly the
    snapshot. *)
Lemma fill_and_switch_result v cur old base serial o f0 f' :
  (forall rel, fs_get (tmp_dir serial ++ rel) f0 = None) -> RelInjective base o -> NoDupO o ->
  run (files_phase base serial o ++ switch_phase v cur old serial) f0 = (f', true) ->
  forall rel c, fs_file (current_dir ++ rel) f' = Some c <->
                exists k ob, In (k, ob) o /\ rel_of base k = Some rel /\ c = CData (DObj (o_content ob)).
Proof.
  intros Hclean Hi Hn H rel c. rewrite run_app in H.
  destruct (run (files_phase base serial o) f0) as [f2 ok] eqn:Ef. cbn [fst snd] in H. destruct ok; [|discriminate].
  destruct (files_phase_run _ _ _ _ _ Ef) as [_ [_ Fc]].
  unfold fs_file at 1. rewrite (switch_moves_tmp _ _ _ _ _ _ H rel). fold (fs_file (tmp_dir serial ++ rel) f2).
  rewrite Fc. unfold fs_file at 1. rewrite Hclean.
  split.
  - destruct (written base o rel) as [c0|] eqn:Ew; [|discriminate]. intros Hc; inv Hc.
    destruct (written_some _ _ _ _ Ew) as [k [ob [H1 [H2 ->]]]]. exists k, ob. auto.
  - intros [k [ob [H1 [H2 ->]]]]. rewrite (written_complete _ _ _ _ _ Hi Hn H1 H2). reflexivity.
Qed.

(** [rsync_equals_snapshot_after_success]: after a successful write the files under
    rsync/current are exactly the objects of the snapshot, each at the path of its URI relative to
    the base URI - whatever an earlier attempt for the same serial left in rsync/tmp-<serial>
    (code of record, both switch procedures), provided different objects go to different files.
    [tmp_wf]: the tree is a tree (a directory that does not exist has nothing below it). *)
Theorem rsync_equals_snapshot_after_success v : rsync_equals_snapshot_unconditional v FreshTmp.
Proof.
  intros f base serial o f' Hwf _ Hi Hn H. rewrite ops_split, run_app in H.
  destruct (run (clean_phase FreshTmp f serial) f) as [f0 ok0] eqn:Ec0. cbn [fst snd] in H. destruct ok0; [|discriminate].
  destruct (clean_phase_run _ _ _ _ _ Ec0) as [_ [G1 G2]].
  apply (fill_and_switch_result v (fs_exists current_dir f) (fs_exists old_dir f) base serial o f0 f'); try assumption.
  destruct (fs_exists (tmp_dir serial) f) eqn:E.
  - apply G1; reflexivity.
  - destruct (G2 (or_introl eq_refl)) as [-> _]. intros rel. apply tmp_clean_none.
    unfold tmp_wf in Hwf. rewrite E in Hwf. exact Hwf.
Qed.

(** Before e2447e97 the same needed an untouched temporary directory. *)
Theorem rsync_equals_snapshot_keep_tmp v f base serial o f' :
  tmp_clean serial f = true -> RelInjective base o -> NoDupO o ->
  run (rsync_write_ops_v v KeepTmp f base serial o) f = (f', true) ->
  forall rel c, fs_file (current_dir ++ rel) f' = Some c <->
                exists k ob, In (k, ob) o /\ rel_of base k = Some rel /\ c = CData (DObj (o_content ob)).
Proof.
  intros Hclean Hi Hn H. rewrite ops_split in H. cbn [clean_phase app] in H.
  apply (fill_and_switch_result v (fs_exists current_dir f) (fs_exists old_dir f) base serial o f f'); try assumption.
  intros rel. apply tmp_clean_none. exact Hclean.
Qed.

(** ** Witnesses *)
Definition x_base : jail := mkJail 1 1 [].
Definition x_uri (n : N) : uri := mkUri 0 1 0 1 0 [7; n].
(** A served tree with one object. *)
Definition x_fs0 : fs :=
  [([NRsync], Dir); ([NRsync; NCurrent], Dir); ([NRsync; NCurrent; NSeg 7], Dir);
   ([NRsync; NCurrent; NSeg 7; NSeg 1], File (CData (DObj 11)))].
Definition x_objs1 : objects := [(x_uri 1, (12, 12))].
Definition x_objs2 : objects := [(x_uri 1, (13, 13))].

(** F11c: the pinned procedure, cut after the second rename (6 operations done, the removal of
    rsync/old pending): the next write fails, and so does the one after it. *)
Theorem rsync_interrupted_then_stuck : ~ rsync_never_stuck Pinned KeepTmp.
Proof.
  intros H. specialize (H x_fs0 x_base 5 x_objs1 6%nat 6 x_objs2).
  assert (S : Shape x_fs0) by (split; [right|left]; reflexivity).
  specialize (H S). cbv zeta in H. vm_compute in H. specialize (H eq_refl). discriminate.
Qed.
Example rsync_stays_stuck :
  let f1 := fst (run (firstn 6 (rsync_write_ops_v Pinned KeepTmp x_fs0 x_base 5 x_objs1)) x_fs0) in
  let f2 := fst (run (rsync_write_ops_v Pinned KeepTmp f1 x_base 6 x_objs2) f1) in
  snd (run (rsync_write_ops_v Pinned KeepTmp f1 x_base 6 x_objs2) f1) = false
  /\ snd (run (rsync_write_ops_v Pinned KeepTmp f2 x_base 7 x_objs2) f2) = false
  /\ snd (run (rsync_write_ops_v Repaired FreshTmp f2 x_base 7 x_objs2) f2) = true.
Proof. vm_compute. repeat split. Qed.
Example rsync_recovers_after_cut_nonvacuous :
  Shape x_fs0 /\ snd (run (clean_phase FreshTmp (fst (run (firstn 6 (rsync_write_ops_v Repaired FreshTmp x_fs0 x_base 5 x_objs1)) x_fs0)) 6 ++ files_phase x_base 6 x_objs2)
                        (fst (run (firstn 6 (rsync_write_ops_v Repaired FreshTmp x_fs0 x_base 5 x_objs1)) x_fs0))) = true.
Proof. split; [split; [right|left]; reflexivity|vm_compute; reflexivity]. Qed.

(** F11f (fixed by e2447e97), about the procedure before the fix: what an earlier attempt for the
    same serial left in rsync/tmp-<serial> ends up in rsync/current. *)
Definition x_fs_stale : fs := ([NRsync; NTmp 5], Dir) :: ([NRsync; NTmp 5; NSeg 9], File (CData (DObj 99))) :: x_fs0.
Theorem rsync_equals_snapshot_unconditional_refuted v : ~ rsync_equals_snapshot_unconditional v KeepTmp.
Proof.
  intros H.
  destruct (run (rsync_write_ops_v v KeepTmp x_fs_stale x_base 5 x_objs1) x_fs_stale) as [f' ok] eqn:E.
  assert (Hok : ok = true) by (destruct v; vm_compute in E; inv E; reflexivity). subst ok.
  assert (A : AllInside x_base x_objs1) by (intros k [<-|[]]; discriminate).
  assert (I : RelInjective x_base x_objs1) by (intros k k' rel [<-|[]] [<-|[]] _ _; reflexivity).
  assert (Nd : NoDupO x_objs1) by (repeat constructor; intros []).
  specialize (H x_fs_stale x_base 5 x_objs1 f' eq_refl A I Nd E [NSeg 9] (CData (DObj 99))).
  assert (L : fs_file (current_dir ++ [NSeg 9]) f' = Some (CData (DObj 99))) by (destruct v; vm_compute in E; inv E; reflexivity).
  apply H in L. destruct L as [k [ob [[Hin|[]] [Hr _]]]]. inv Hin. vm_compute in Hr. discriminate.
Qed.
Example rsync_equals_snapshot_nonvacuous :
  tmp_wf 5 x_fs_stale = true /\ RelInjective x_base x_objs1 /\ NoDupO x_objs1
  /\ snd (run (rsync_write_ops_v Repaired FreshTmp x_fs_stale x_base 5 x_objs1) x_fs_stale) = true.
Proof.
  split; [reflexivity|]. split; [intros k k' rel [<-|[]] [<-|[]] _ _; reflexivity|].
  split; [repeat constructor; intros []|vm_compute; reflexivity].
Qed.
